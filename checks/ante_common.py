"""Shared by checks/C14.py, C15.py, C16.py: source facts about the ante handler (regenerated from
/repo's working tree on every run) that the Lean model of PocketModel/Ledger/Ante.lean relies on."""
import os
import re


def _read(repo, rel):
    try:
        return open(os.path.join(repo, rel)).read()
    except OSError:
        return ""


def _go_files(repo):
    for root, dirs, files in os.walk(repo):
        dirs[:] = [d for d in dirs if d not in (".git", "vendor", "node_modules", "doc", "docs")]
        for f in files:
            if f.endswith(".go") and not f.endswith("_test.go"):
                yield os.path.relpath(os.path.join(root, f), repo)


def constants(ctx, repo):
    """Constants and code shapes the model copies."""
    idx = _read(repo, "types/indexer.go")
    cdc = _read(repo, "codec/codec.go")
    ba = _read(repo, "baseapp/baseapp.go")
    ante = _read(repo, "x/auth/ante.go")
    err = _read(repo, "x/auth/types/error.go")
    checks = [
        ("AnteHandlerMaxError = 10", re.search(r"AnteHandlerMaxError\s*=\s*10\b", idx)),
        ("AuthCodespace = \"auth\"", re.search(r'AuthCodespace\s*=\s*"auth"', idx)),
        ("AddBatch skips Codespace==auth && Code<AnteHandlerMaxError",
         len(re.findall(r"Result\.Codespace == AuthCodespace && result\.Result\.Code < AnteHandlerMaxError", idx)) >= 2),
        ("CodecChainHaltHeight = 30334", re.search(r"CodecChainHaltHeight\s*=\s*int64\(30334\)", cdc)),
        ("codeDuplicateTransaction = 6 / authCodespace = auth",
         re.search(r"codeDuplicateTransaction\s*=\s*6\b", ba) and re.search(r'authCodespace\s*=\s*"auth"', ba)),
        ("transactionCache keyed by raw bytes, cleared in EndBlock",
         "TxCacheKey(req.Tx, runTxModeDeliver)" in ba and "app.transactionCache = make(map[string]struct{})" in ba
         and "hex.EncodeToString(txBytes)" in ba),
        ("runTx writes the ante cache only in deliver mode after the abort check",
         re.search(r"if abort \{\s*return result, signer\s*\}\s*if mode == runTxModeDeliver \{\s*msCache\.Write\(\)", ba)),
        ("halt-height exemption in ValidateTransaction",
         "!bytes.Equal(pk.Address(), signer) && ctx.BlockHeight() != codec.CodecChainHaltHeight" in ante),
        ("duplicate check by tmTypes.Tx(txBz).Hash() against the indexer",
         "txHash := tmTypes.Tx(txBz).Hash()" in ante and "(txIndexer).Get(txHash)" in ante),
        ("auth error codes 1..8", all(re.search(r"%s\s+sdk\.CodeType = %d\b" % (n, c), err) for n, c in
                                     [("CodeInvalidMemo", 1), ("CodeEmptyPublicKey", 2), ("CodeAccNotFound", 3), ("CodeInsufficientFee", 4),
                                      ("CodeSignatureLimit", 5), ("CodeDupTx", 6), ("CodeInsufficientBalance", 7), ("CodeTxIndexerNil", 8)])),
    ]
    bad = [n for n, ok in checks if not ok]
    ctx.facts("ante.constants", not bad, f"{len(checks)} constants/code shapes as modelled" if not bad else "changed in /repo: " + "; ".join(bad))
    ctx.checker_cmds.append("checks/ante_common.py constants (regex facts over types/indexer.go, codec/codec.go, baseapp/baseapp.go, x/auth/ante.go, x/auth/types/error.go)")


def no_ante_codes_elsewhere(ctx, repo):
    """NoAnteCode hypothesis of the replay theorems: only x/auth/ante.go (and baseapp's in-block duplicate
    result) produce results with codespace "auth"."""
    ctors = r"\b(?:types|authTypes|auth)\.(ErrInvalidMemo|ErrEmptyPublicKey|ErrAccountNotFound|ErrNilTxIndexer|ErrInsufficientFee|ErrTooManySignatures|ErrDuplicateTx|ErrInsufficientBalance)\("
    users, codespaces = [], []
    for rel in _go_files(repo):
        src = _read(repo, rel)
        if rel not in ("x/auth/ante.go", "x/auth/types/error.go"):
            if "pocket-core/x/auth" in src and re.search(ctors, src):
                users.append(rel)
            if re.search(r'Codespace(?:Type)?\s*(?::?=|\()\s*"auth"', src) or re.search(r'sdk\.CodespaceType\("auth"\)', src):
                if rel not in ("baseapp/baseapp.go", "types/indexer.go"):
                    codespaces.append(rel)
    mods = {}
    for mod in ("nodes", "apps", "gov", "pocketcore", "auth"):
        mods[mod] = None
        d = os.path.join(repo, "x", mod, "types")
        for f in sorted(os.listdir(d)) if os.path.isdir(d) else []:
            if f.endswith(".go") and not f.endswith("_test.go"):
                m = re.search(r'^\s*ModuleName\s*=\s*"([a-z]+)"', _read(repo, os.path.join("x", mod, "types", f)), re.M)
                if m:
                    mods[mod] = m.group(1)
    clash = [k for k, v in mods.items() if k != "auth" and v in (None, "auth")]
    ok = not users and not codespaces and not clash and mods.get("auth") == "auth"
    ctx.facts("ante.auth-codespace-only-in-ante", ok,
              f"auth error constructors used only by x/auth/ante.go; module codespaces {mods}" if ok else
              f"auth-codespace results outside the ante handler: users={users} codespace-literals={codespaces} module-names={mods}")
    ctx.checker_cmds.append("checks/ante_common.py no_ante_codes_elsewhere (regex facts over every non-test .go file)")


COMMON_TRUST = [
    "signature schemes (ed25519, multisig composition) enter the model as parameters: the harness computes, with the real keys, whether each candidate key verifies the signature over its own reconstruction of the sign document; the driver's scheme is that table",
    "message features (Type, GetSigners, GetFee, ValidateBasic, IsValidTransfer) are computed by the message's own methods and passed to the model",
    "message handlers are arbitrary functions in the theorems; the driver checks their results only through the specification clauses",
]
