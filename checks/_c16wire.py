"""Byte-level half of C16 (helper module, integrated by checks/C16.py; not a property of its own).

    import importlib.util, os
    spec = importlib.util.spec_from_file_location("c16wire", os.path.join(os.path.dirname(__file__), "_c16wire.py"))
    c16wire = importlib.util.module_from_spec(spec); spec.loader.exec_module(c16wire)
    c16wire.run(ctx)            # in run(ctx) of checks/C16.py
    c16wire.search(ctx)         # optional, in search(ctx)

What it adds to ctx:
  * obligations of Props.C16wire (namespace C16wire): reencode_replays, reencode_replays_exists,
    bigint_text_aliases, same_content_same_signbytes, decode_depends_on_field_streams,
    unknown_field_skipped, distinct_fields_commute, decode_canonical_unique, canonical_example;
  * stream "c16wire": harness/cmd/c38 -mode c16 (a wire-level rewriter applied to really signed StdTx
    values, judged by the real DefaultTxDecoder) against Driver/C38.lean.
    PROPFAIL signatures: `reencode-replays-<class>` (a re-encoding accepted by the real decoder with
    equal decoded content, equal sign bytes, valid signature and another tx hash) — the genuine
    defect, one signature per class, see design-notes/C16wire.md for the list to put into
    known-findings.d/C16.json — and `decoder-panics-<class>`.
    DIFF: model and real decoder disagree on acceptance or on content equality.
"""
import os
import sys

sys.path.insert(0, os.path.join(os.path.dirname(os.path.dirname(os.path.abspath(__file__))), "lib"))
import verif

CLASSES_REPLAYABLE = [
    "length-prefix-padded", "tag-padded", "length-padded", "varint-padded", "varint-10th-byte-junk", "tag-high-bits",
    "unknown-varint-field", "unknown-bytes-field", "unknown-fixed64-field", "unknown-fixed32-field", "unknown-group-field",
    "duplicated-scalar-last-wins", "fields-reordered", "explicit-default-scalar", "explicit-empty-bytes",
    "embedded-message-split", "bigint-text-alias",
]

RULE = ("c16wire: really signed StdTx values (ed25519 key from the PRNG; MsgSend, MsgDAOTransfer, apps.MsgStake, MsgClaim, "
        "MsgChangeParam; fee, memo, entropy incl. 0) are encoded by DefaultTxEncoder and rewritten at the byte level, at the top "
        "level and inside the Any, the packed message, the fee coin and the signature: padded tag/length/value varints (2..10 "
        "bytes, junk above 2^64), field-number bits >= 2^32, unknown fields of every wire type at every position, duplicated "
        "scalars (earlier/later), reordered fields, split embedded messages, explicit defaults, base-0 BigInt texts, padded and "
        "overflowing length prefix, plus rejected classes (wire type 6, end-group, field 0, 11-byte varint, truncation); each "
        "rewritten frame goes through the real decoder: accepted? same dumped content? same sign bytes? signature verifies? "
        "tx hash differs?  non-trivial = accepted by the real decoder")


def run(ctx, n=None):
    ctx.lean_proofs("Props.C16wire", namespace="C16wire")
    ctx.rule(RULE)
    ctx.trust("crypto.NewPublicKeyBz validity of key bytes and the map-entry decoding quirks of generated code are outside the wire model (the rewriter does not touch them)")
    n = n or (20000 if ctx.thorough else 800)
    return ctx.stream("c16wire", "c38", "Driver/C38.lean", n=n, args=["-repo", verif.REPO, "-mode", "c16"],
                      drv_timeout=3000, timeout=3000)


def search(ctx):
    for s in range(2):
        ctx.stream(f"c16wire-search{s}", "c38", "Driver/C38.lean", n=4000, seed=ctx.seed * 7919 + 16 + s,
                   args=["-repo", verif.REPO, "-mode", "c16"], count=False, drv_timeout=3000, timeout=3000)


def known_findings():
    """Entries for known-findings.d/C16.json (the lead decides)."""
    return [dict(property="C16", sig=f"reencode-replays-{c}", status="known",
                 what=f"byte-level re-encoding class {c}: accepted by DefaultTxDecoder with the same signed content and another tx hash (see /verif/corpus/c16/{c}.txt)")
            for c in CLASSES_REPLAYABLE]
