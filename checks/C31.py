"""C31 The proof leaf is unpredictable when the claim is committed (DESIGN.md §5 C31)."""

META = dict(
    engine="E-PURE + keeper on MemDB",
    technique="Lean 4 proof (linear integer arithmetic over the height predicates as coded; counterexample by evaluation) + differential correspondence vs the real x/pocketcore keeper (ValidateClaim, ClaimIsMature, ValidateProof/getPseudorandomIndex, Context.GetPrevBlockHash) on a MemDB multistore",
    level_text="Kernel-checked, for all blocks-per-session, window, session and claim heights: a claim passes the height checks exactly for S+B <= H <= S+W*B; the leaf selection is seeded by the hash of block S+W*B-1; it is a function of (block hash, header hash, total) and lies in [0,total); the seeding block is unknown to the claim's author for every accepted H < S+W*B and KNOWN at H = S+W*B (counterexample theorem: the property as stated is false; with W=1 every accepted height is affected). The real keeper is tied to the model every run over every height in and around the window.",
    level_note="Trusted: Lean kernel; axioms propext, Classical.choice, Quot.sound; harness/driver parser. SHA3 and JSON encoding are not modelled beyond the seed layout (compared byte for byte). 'Known' means: the block is below the height of the block carrying the claim; a proposer's ability to grind its own block hash is outside the model. Parameters are taken equal at the session and current contexts (a parameter change inside the window is not covered by the theorems). PrevCtx/GetPrevBlockHash are exercised through the context cache path (no blockstore).",
)

DRIVER = "Driver/C31.lean"


def run(ctx):
    ctx.lean_proofs("Props.C31")
    ctx.rule("c31: (B, W, S, total) drawn with B in 1-6 (often 4, sometimes 10-49), W in 1-4 (often 3), S = k*B+1 small or up to 25000, total 1-40; "
             "for each, EVERY claim height H from S+B-3 to S+W*B+3 is run: real ValidateClaim (node/app/session in state, result class), "
             "ClaimIsMature, then ValidateProof at height S+W*B+1 with every target index to find the accepted leaf while a recording context "
             "notes which height GetPrevBlockHash is asked for and which block's hash it returned (each block has its own hash); "
             "non-trivial = claim accepted; distinct = distinct trace line")
    ctx.rule("c31 (round b): (a) every win line also runs the same ValidateProof scan AT the claim height H in an honest world (context cache = past heights only, "
             "real empty tendermint block store): unavailable before S+W*B, same leaf from S+W*B on; (b) gpbh lines: the real Context.GetPrevBlockHash over a real "
             "block store with block metas of some of the 6 past heights and a context cache with some of them, for every height from ctxH-7 to ctxH+4; each source "
             "(own header / cached context / block store; LastBlockId hash or ConsensusHash fallback) answers with its own hash family; spec: no answer for a height above the context height")
    ctx.trust("pc.Hash (SHA3-256) and encoding/json are not modelled: the seed bytes and the first 8 hash bytes are compared/consumed")
    ctx.rule("c31 (round c): three parameter sets per case - (B,W) in the state at session start (a real context over a cache-wrapped branch of the store, "
             "served for height S), live (B,W) when the claim is processed, live (B,W) when the proof is processed; equal in 55%, changed between claim and proof in 25%, "
             "between session start and claim in 15%, both in 5% (each change moves W or B by +-1); the proof scan runs at a height above every candidate selecting height")
    n = 30000 if ctx.thorough else 2500
    ctx.stream("window", "c31", DRIVER, n=n)
    if ctx.thorough:
        ctx.stream("window-s1", "c31", DRIVER, n=20000, seed=ctx.seed * 1000 + 31)


def search(ctx):
    for s in range(2):
        ctx.stream(f"search{s}", "c31", DRIVER, n=8000, seed=ctx.seed * 7919 + s, count=False)
