"""Application half of C23 (edit-stake immutability for applications); used by checks/C23.py.

run_apps(ctx): builds lean/Proofs/Ledger/AppsEdit.lean (namespace C23apps: edit_never_lowers_stake_app,
edit_preserves_identity_app, stake_msg_never_lowers_any_stake, edit_lower_rejected) with the axiom audit, and runs the
appsdrive correspondence stream whose Lean driver (Driver/Apps.lean) checks, on the real application's own
before/after records of every accepted application MsgStake, PROPFAIL app-edit-lowered-stake / app-edit-changed-identity /
app-allowance-changed-without-stake / app-transfer-by-stranger, and the model transition (DIFF)."""


def run_apps(ctx, n=None):
    ctx.lean_proofs("Proofs.Ledger.AppsEdit", namespace="C23apps")
    ctx.rule("appsdrive (applications): edits of staked applications with amount below/equal/above the stake and beyond the funds, changed chains "
             "(0..max+1, invalid ids), signed by the owner, by other applications (transfer-shaped and not) and by strangers; see checks/C20.py")
    n = n or (30000 if ctx.thorough else 2000)
    ctx.stream("apps-edit", "appsdrive", "Driver/Apps.lean", n=n, args=["-donate", "0"], seed=ctx.seed + 200)
