"""C42 Transaction search returns exactly the matching indexed transactions (DESIGN.md §5 C42)."""

META = dict(
    engine="E-PURE",
    technique="Lean 4 proof (ELEN order/prefix-freeness by strong induction on the digit count; key ranges by common-prefix lemmas; sorted-store refinement) + differential correspondence vs types.TransactionIndexer on tm-db MemDB/GoLevelDB",
    level_text="Kernel-checked theorems for all sets of block results: ELEN strictly monotone and prefix free; index keys order like (height, position); a range scan returns exactly one height's / one address's entries; lookup by hash; pagination partitions the ordered result and total = number of matches; direction theorems for the sort mapping as coded (inverted: counterexample) and for the repaired mapping. The Go indexer is tied to the model every run (database contents, every answer), and the executable spec (filter+sort of the generated set) judges the implementation's own answers.",
    level_note="Trusted: Lean kernel; axioms propext, Classical.choice, Quot.sound; the Go harness/driver parser; tm-db iterator semantics (MemDB and GoLevelDB exercised); amino round trip of TxResult (C38). Hypotheses of the theorems: distinct tx hashes, distinct (height, position), hashes not beginning with 'tx.', numbers < MaxInt64. The combined address+height search over-matches later heights (outside the statement; compared with the model only).",
)

DRIVER = "Driver/C42.lean"


def run(ctx):
    ctx.lean_proofs("Props.C42")
    ctx.rule("c42: sessions of 25-65 ops on a fresh indexer: AddBatch blocks of 1-14 results at heights around decimal-length "
             "boundaries (9/10/11, 99/100, 10^18, MaxInt64-1), signer/recipient from 2-9 addresses that are hex prefixes of each other "
             "or differ in the last byte (also nil and empty), 55% non-zero result codes over codespaces {"", auth, sdk, pos, application, pocketcore, gov, AUTH, authx, sd, random} x codes {0-13, 100, 105, MaxUint32} (only auth with code < 10 is an ante rejection and not indexed; low sdk/module codes come from message handlers and must be indexed), rare duplicate "
             "tx bytes; queries by height/signer/recipient (+address AND height) in both directions and unsupported sort strings, "
             "skip/size incl. 0, negative, >maxPerPage, full page walks of sizes 1-6; Get/tx.hash for known, unknown, empty hashes; "
             "database dumps; 61 ELEN encodings vs lexnum; non-trivial = query with total > 1, every batch/index/dump; distinct = distinct trace line")
    ctx.trust("tm-db iterator semantics (MemDB; GoLevelDB in the thorough tier)", "amino round trip of TxResult is C38's subject")
    ctx.assume("tx hashes are distinct, non-empty and do not begin with the ASCII bytes 'tx.'; (height, position) pairs are distinct; heights and positions < MaxInt64")
    n = 60000 if ctx.thorough else 3000
    ctx.stream("indexer", "c42", DRIVER, n=n)
    if ctx.thorough:
        ctx.stream("indexer-leveldb", "c42", DRIVER, n=8000, args=["-db", "level"], seed=ctx.seed + 101)
        for s in range(2):
            ctx.stream(f"indexer-s{s}", "c42", DRIVER, n=30000, seed=ctx.seed * 1000 + 29 + s)


def search(ctx):
    for s in range(3):
        ctx.stream(f"search{s}", "c42", DRIVER, n=15000, seed=ctx.seed * 7919 + s, count=False)
