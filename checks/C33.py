"""C33 Sessions are deterministic and contain only eligible, distinct nodes (DESIGN.md §5 C33)."""

META = dict(
    engine="E-PURE",
    technique="Lean 4 proof (loop invariants over a fuel-indexed model of the selection loop, pigeonhole on duplicate-free lists; the hash stream is a parameter) + differential correspondence vs x/pocketcore/types.NewSessionNodes with a stub PosKeeper",
    level_text="Kernel-checked theorems for every address list, node-record function, chain, count, chain limit and every index stream: the result is a function of those inputs only; a successful session has exactly count nodes, pairwise distinct, all from the start-of-session list and eligible at the reference context; 'insufficient nodes' only if fewer eligible nodes than count exist; the loop stops once the stream has covered every index (and provably need not otherwise). The Go function is tied to the model every run on generated populations with the session-key hashes it actually used.",
    level_note="Trusted: Lean kernel; axioms propext, Classical.choice, Quot.sound; harness/driver parser. SHA3-256 is a parameter (the re-hashed keys come from the real Hash); that its stream eventually covers every index is an assumption (a stuck stream loops forever - proved). The address list is assumed duplicate-free (store keys) and Validator(ctx, a).Address = a. That the inputs themselves are fixed by (app, chain, height) and committed state is C13's subject (caches).",
)

DRIVER = "Driver/C33.lean"


def run(ctx):
    ctx.lean_proofs("Props.C33")
    ctx.rule("c33: per case a population of 0-26 nodes (size = session node count -2..+4, sometimes +20; count 1-6, 24, rarely 0), "
             "each node eligible / jailed / over the chain limit (exactly at or above) / not staked for the chain / without record at the "
             "reference context (ineligible share 0-75%), MAXCH feature height 0 or 50 with reference heights 48-52, chain limit 1-4; the stub "
             "keeper answers differently at session-start and reference height (list order, limit, records) so the wrong context shows; session key from "
             "real NewSessionKey(random app key, chain, block hash); the re-hashed keys the loop consumes are emitted (real Hash) and the driver "
             "derives the indices with the modelled PseudorandomSelection; every case is run twice (determinism); non-trivial = success with ineligible nodes present")
    ctx.trust("SHA3-256 (pc.Hash) is not modelled: the driver receives the first 8 bytes of each re-hashed session key")
    ctx.assume("GetValidatorsByChain returns a duplicate-free list and total = len(list)", "Validator(ctx, a) returns the record stored under a")
    ctx.rule("c33 keeper stream: the by-chain index is reached through the real x/nodes keeper only - 1-9 nodes enter by the real MsgStake handler, "
             "then 4-24 steps of jail (JailValidator), MsgUnjail, MsgBeginUnstake, edit-stake on/off the chain, re-stake, new nodes, real EndBlocker blocks "
             "(release of waiting validators at session end, forced unstake after MaxJailedBlocks 3-8, unstaking time of ~3 blocks) and scripted sequences "
             "(jail -> unstake while jailed -> blocks -> unjail; jail beyond MaxJailedBlocks -> unjail; unstake -> mature -> stake again); then three session draws "
             "by the real NewSessionNodes against that keeper; the driver judges every selected node on its real record: in the index list, eligible, status staked")
    ctx.rule("c33 (round c): every real generation runs under a 5 s watchdog (TIMEOUT => session-generation-did-not-terminate, the stream stops after that line); "
             "the candidate slice handed out by the keeper is compared before/after (candidates-mutated); the second generation re-uses the same slice; the keeper stream runs with "
             "the production validators-by-chain cache (sdk.NewCache(1200)) and regenerates each session after two other apps' sessions on the same (height, chain) (session-not-deterministic)")
    n = 40000 if ctx.thorough else 2500
    ctx.stream("sessions", "c33", DRIVER, n=n)
    ctx.stream("keeper", "c33", DRIVER, n=6000 if ctx.thorough else 900, args=["-mode", "keeper"])
    if ctx.thorough:
        for s in range(2):
            ctx.stream(f"sessions-s{s}", "c33", DRIVER, n=20000, seed=ctx.seed * 1000 + 33 + s)


def search(ctx):
    for s in range(3):
        ctx.stream(f"search{s}", "c33", DRIVER, n=10000, seed=ctx.seed * 7919 + s, count=False)
    for s in range(2):
        ctx.stream(f"search-keeper{s}", "c33", DRIVER, n=4000, seed=ctx.seed * 7919 + 11 + s, args=["-mode", "keeper"], count=False)
