"""Regenerated source fact shared by the ledger checks: the store write sites of a module keeper
(harness/cmd/factswriters, go/parser over /repo's working tree) must equal the committed list
checks/facts/writers.expected.txt. The ledger models mirror exactly these primitives (every other
function changes the records only by calling them); a new, removed or re-keyed write site is a writer
the model does not know about: the tie is broken (reported without a failing input unless the
dynamic streams find one)."""
import os
import subprocess

import verif


def run(ctx, dirs):
    binp = ctx.go_build("factswriters")
    if binp is None:
        return
    p = subprocess.run([binp, "-repo", verif.REPO], stdout=subprocess.PIPE, stderr=subprocess.PIPE, text=True)
    want = [l for l in open(os.path.join(verif.VERIF, "checks", "facts", "writers.expected.txt")).read().splitlines() if l.split(" ")[0] in dirs]
    got = [l for l in p.stdout.splitlines() if l.split(" ")[0] in dirs]
    if p.returncode != 0:
        ctx.facts("store-writers", False, "factswriters failed: " + p.stderr[-300:])
        return
    new = sorted(set(got) - set(want))
    gone = sorted(set(want) - set(got))
    ok = not new and not gone
    ctx.facts("store-writers:" + ",".join(dirs), ok,
              f"{len(got)} store write sites in {dirs} match the committed list" if ok else
              f"store write sites changed: new={new[:6]} gone={gone[:6]}")
    ctx.checker_cmds.append("out/bin/factswriters -repo /repo (go/parser; compared with checks/facts/writers.expected.txt)")
    ctx.trust("store write sites are found syntactically (X.Set/X.Delete on an identifier containing 'store'); writes through other aliases would be missed")
