"""C05 Existence and absence proofs are sound and complete (DESIGN.md §5 C05)."""

META = dict(
    engine="E-KV",
    technique="Lean 4 proof (Merkle-path induction with explicit collision disjunct; counterexample theorems for the forgeries of the code as it is) + differential correspondence of the model prover/verifier against the real iavl/rootmulti Query and ProofRuntime on honest proofs, all single-field mutations and structured forgeries",
    level_text="Kernel-checked theorems about the model of getRangeProof/GetWithProof, RangeProof verification, ValueOp/AbsenceOp and MultiStoreProofOp, parametric in the hash function. The real code is tied to the model on every run: for generated committed trees every present and absent key is queried with prove=true, the returned proof is compared with the model prover's, verified by the real ProofRuntime and by the model verifier; every single-field mutation and five structured forgeries of each valid proof go through both; every accepted proof is judged against the committed tree.",
    level_note="Trusted: Lean kernel (axioms propext, Classical.choice, Quot.sound), harness/driver parser. Hash function is a parameter (collisions are an explicit disjunct); the amino byte layout of hashed nodes is abstracted to an injective 5-field encoding shared by leaves and inner nodes (the sharing is what the leaf-as-inner forgery exploits). In the driver SHA-256 is computed in Lean for every preimage of the committed trees/commit infos and replaced by an injective stand-in elsewhere. ProofOp amino decoding of malformed bytes is not modelled (mutations are applied to decoded proofs and re-encoded).",
)

MUT = 24   # max single-field mutants per valid proof in the quick tier (0 = all)

# Which of the repairs fixes/C05-*.patch /repo is expected to contain.  "" = take whatever the probe of
# the real code finds (the defects of the unrepaired parts then surface as KNOWN-FINDING lines).
# After a fix: commit is applied, add its flag here (e.g. "strict=1 dup=1 succ=1"): a code base that
# no longer shows the repaired behaviour is then reported as VIOLATION (signature proof-repair-regressed)
# in addition to the re-appearing findings.  Flags: strict (rangeproof-strict-nodes), dup
# (multistore-dupnames), succ (absence-proof-successor-key); write all three, 0 or 1 each.
EXPECT = "strict=1 dup=1 succ=1"


def run(ctx):
    ctx.lean_proofs("Props.C05")
    ctx.rule("c05: histories of 1-4 blocks on a real rootmulti.Store with two IAVL stores; keys from a 12-key alphabet with prefix-related keys, 00/ff bytes "
             "and all-ff keys; values incl. empty and values crafted to be leaf-hash preimages; for the latest and one older version every universe key plus "
             "keys below/between/above all leaves is queried (prove=true) and verified; every valid proof is mutated field by field (bytes flipped/nil-ed/"
             "extended/truncated/filled, integers +-1, list elements dropped/duplicated/swapped/appended, op type/key, root/key/value of the statement) "
             "and forged (both-hash node with an extra leaf for existence and absence, non-leftmost inner path, leaf presented as inner node, duplicate "
             "store name); non-trivial = accepted by the real verifier / present key")
    ctx.trust("SHA-256 has no collision among the preimages of one run (driver stand-in hash)")
    ctx.assume("proofs reach the verifier as decoded structures (amino decoding of ProofOp.Data is not part of the model)")
    if ctx.thorough:
        ctx.stream("proofs", "c05", "Driver/C05.lean", n=60000, args=["-mut", 0, "-expect", EXPECT], timeout=3000, drv_timeout=3000)
        for s in range(2):
            ctx.stream(f"proofs-s{s}", "c05", "Driver/C05.lean", n=30000, seed=ctx.seed * 1000 + 51 + s, args=["-mut", 0, "-expect", EXPECT], timeout=3000, drv_timeout=3000)
    else:
        ctx.stream("proofs", "c05", "Driver/C05.lean", n=6500, args=["-mut", MUT, "-expect", EXPECT])


def search(ctx):
    for s in range(2):
        ctx.stream(f"search{s}", "c05", "Driver/C05.lean", n=8000, seed=ctx.seed * 7919 + s, args=["-mut", 0, "-expect", EXPECT], count=False, timeout=3000, drv_timeout=3000)
