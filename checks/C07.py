"""C07 A crash at any point of a commit is recoverable without divergence (DESIGN.md §5 C07)."""

META = dict(
    engine="E-KV",
    technique="Lean 4 proof on a model of Commit as a list of atomic DB writes (crash = prefix; recovery = LoadLatestVersion with IAVL's LoadVersion quirks; re-execution with SaveVersion's idempotent branch) + exhaustive crash-point enumeration on the real rootmulti.Store behind a write-recording DB wrapper",
    level_text="Kernel-checked, for every legal history (including the very first commit) and every crash index: LoadLatestVersion on the crashed disk reports the last commit id and every substore at the committed version with exactly the committed tree (or the new id and trees once the final batch is written); re-executing the block in any iteration order reports the uninterrupted run's commit id and leaves a good multistore, so later blocks agree too; SaveVersion of an existing version with equal hash is a no-op. A kernel-checked counterexample documents the behaviour before repo commit 2a0e88a (first commit not recoverable) next to the theorem that the fixed recovery handles the same scenario. Tie: every Set/Delete/Batch.Write reaching the DB during each Commit is recorded; for every commit and EVERY crash index the DB state at that point is copied, a fresh store is opened on it, LastCommitID/contents/root hashes are compared with the last fully committed block, the block is re-executed (and one more block after it) and the commit ids compared with the uninterrupted run; the observed write sequence must have the shape the model assumes and the model must reproduce every disk state byte for byte.",
    level_note="PARTIAL: atomicity/durability of a single Batch.Write (tm-db/goleveldb), torn writes and the filesystem are assumed, not modelled. The statements are proved per IAVL substore and for the whole multistore (crash_recover_state / crash_reexecute_hash: every prefix of the |stores|+1 atomic writes, any iteration order before and after the restart, every legal history, every height). The first-commit defect found by this check (iavl LoadVersion(0) = latest on disk) was fixed by repo commit 2a0e88a; the model is of the fixed code and reverting the fix makes the check print VIOLATION lines with failing inputs. SHA-256 is a parameter.",
)


def build_driver_lib(ctx):
    import verif
    rc, out = verif.sh(["lake", "build", "PocketModel.Store.DiskDriver"], cwd=verif.LEAN, timeout=3000)
    if rc != 0:
        ctx.fail("build", "driver-lib", "lake build PocketModel.Store.DiskDriver failed:\n%s" % out[-1200:])


def run(ctx):
    ctx.lean_proofs("Props.C07")
    build_driver_lib(ctx)
    ctx.rule("c07: per history 1-3 IAVL substores, 2-5 blocks of 0-7 writes over 4-13 keys (first block forced non-empty in half of the histories), "
             "writes routed directly / through CacheMultiStore / nested wraps; for every commit and every crash index 0..m (m = number of atomic "
             "writes, = substores+1): reopen on a copy of the DB at that point, dump, re-execute the interrupted block and the next one; "
             "non-trivial = crash/reopen/rstate/commit/state line (distinct)")
    ctx.trust("tm-db MemDB batch atomicity", "Sha256.lean (executable only)")
    ctx.assume("a single Batch.Write is atomic and durable; pruning = nothing; all substores mounted before the first commit")
    n = 120 if ctx.thorough else 6
    ctx.stream("crash", "c07", "Driver/C07.lean", n=n)
    if ctx.thorough:
        ctx.stream("crash-s2", "c07", "Driver/C07.lean", n=120, seed=ctx.seed * 1000 + 7)


def search(ctx):
    for s in range(3):
        ctx.stream(f"search{s}", "c07", "Driver/C07.lean", n=15, seed=ctx.seed * 7919 + s, count=False)
