"""C24 Unstaking returns the stake exactly once, and only when due (DESIGN.md §5 C24) — node part."""
import importlib.util, os
_spec = importlib.util.spec_from_file_location("_nodes", os.path.join(os.path.dirname(os.path.abspath(__file__)), "_nodes.py"))
_nodes = importlib.util.module_from_spec(_spec)
_spec.loader.exec_module(_nodes)

META = dict(
    engine="E-CHAIN",
    technique="Lean 4 proof (stability of record status under every operation but EndBlocker; analysis of ReleaseWaitingValidators and of the mature-queue loop over a snapshot of queue slices, using the queue-exactness invariant) + per-phase transition checking and payout accounting against the real PocketCoreApp",
    level_text="Kernel-checked for every state satisfying the (proved) store invariant, hence for every step of every history: outside EndBlocker no operation changes a record's status or deletes a record; in an end-block a staked node keeps its status unless height % BlocksPerSession = 0 and it is in the waiting set at release time; begin-unstake is accepted only from operator/output for a staked node; finishing pays the full stake once from the pool to the output address and deletes the record; a record disappears only when due at the block time; after every end-block at time t no unstaking record with completion time ≤ t is left (first block at or after completion); a second queue entry for a paid node does nothing. Tie: histories with begin-unstake at arbitrary heights, UnstakingTime 0..30h and changes of it, block-time jumps up to 31h, jail/slash while unstaking; balances of all accounts and the pool are compared per end-block with the stakes of the records that disappeared.",
    level_note=_nodes.NOTE + " Applications' unstaking is covered by the applications package (C20/C28 harness).",
)


def run(ctx):
    import importlib.util, os as _os
    _sp = importlib.util.spec_from_file_location("_writers", _os.path.join(_os.path.dirname(__file__), "_writers.py"))
    _w = importlib.util.module_from_spec(_sp); _sp.loader.exec_module(_w)
    _w.run(ctx, ['x/nodes/keeper', 'x/nodes', 'x/apps/keeper', 'x/apps'])
    ctx.lean_proofs("Props.C24")
    _nodes.run_nodes(ctx, "C24", "c24")


def search(ctx):
    _nodes.search_nodes(ctx, "C24", "c24")
