"""C24 Unstaking returns the stake exactly once, and only when due (DESIGN.md §5 C24) — nodes and applications."""
import importlib.util, os
_spec = importlib.util.spec_from_file_location("_nodes", os.path.join(os.path.dirname(os.path.abspath(__file__)), "_nodes.py"))
_nodes = importlib.util.module_from_spec(_spec)
_spec.loader.exec_module(_nodes)

META = dict(
    engine="E-CHAIN",
    technique="Lean 4 proof (stability of record status under every operation but EndBlocker; analysis of ReleaseWaitingValidators and of the mature-queue loop over a snapshot of queue slices, using the queue-exactness invariant) + per-phase transition checking and payout accounting against the real PocketCoreApp",
    level_text="Kernel-checked for every state satisfying the (proved) store invariant, hence for every step of every history: outside EndBlocker no operation changes a record's status or deletes a record; in an end-block a staked node keeps its status unless height % BlocksPerSession = 0 and it is in the waiting set at release time; begin-unstake is accepted only from operator/output for a staked node; finishing pays the full stake once from the pool to the output address and deletes the record; a record disappears only when due at the block time; after every end-block at time t no unstaking record with completion time ≤ t is left (first block at or after completion); a second queue entry for a paid node does nothing. Counterexample theorem (reproduced on the real application, known finding unstaked-by-stale-waiting-entry): as a statement about causes, 'a staked node begins to unstake only on its own request or by the slashing/jailing rules' fails — a waiting entry left behind by an earlier, paid-out record of the same address (forced unstake while already unstaking) releases a fresh stake at the next session end; it holds for stakes of addresses that are not in the waiting set. Applications: begin-unstake only by the application itself (staked, unjailed); after the end blocker no queued unstaking application with completion ≤ block time is left (equality included); payout of the whole stake to the application's own address, once. Tie: histories with begin-unstake at arbitrary heights, UnstakingTime 0..30h and changes of it, block-time jumps up to 31h, jail/slash while unstaking; balances of all accounts and the pool are compared per end-block with the stakes of the records that disappeared.",
    level_note=_nodes.NOTE + " Application half: model lean/PocketModel/Ledger/Apps.lean (applications package); the 'nothing overdue' theorem for applications is stated under the hypothesis that every unstaking application is queued under its completion time (monitored on the implementation: app-unstaking-not-queued), payouts under 'the pool covers the stake' (C20).",
)


def run(ctx):
    import importlib.util, os as _os
    _sp = importlib.util.spec_from_file_location("_writers", _os.path.join(_os.path.dirname(__file__), "_writers.py"))
    _w = importlib.util.module_from_spec(_sp); _sp.loader.exec_module(_w)
    _w.run(ctx, ['x/nodes/keeper', 'x/nodes', 'x/apps/keeper', 'x/apps'])
    ctx.lean_proofs("Props.C24")
    _nodes.run_nodes(ctx, "C24", "c24", quick=200)
    # application half: the applications package's harness and driver (Driver/Apps.lean: app-unstaked-early, app-unstake-late,
    # app-unstake-payout-ne, app-unstake-by-stranger, … on the real app's own states), biased towards block times that land
    # exactly on completion times (-exact: whole-minute steps, AppUnstakingTime 0 / 1m / 30m / 1h / 90m); no sends to the pool
    ctx.rule("appsdrive -exact (applications): begin-unstake by owner/stranger, AppUnstakingTime in {0, 1m, 30m, 1h, 90m} (genesis and governance), "
             "block-time steps of whole minutes (1m, 29m, 30m, 1h) so that header times equal completion times to the nanosecond, "
             "jail/force-unstake at keeper level, duplicate queue entries; see checks/C20.py")
    n = 30000 if ctx.thorough else 1800
    ctx.stream("apps-unstake", "appsdrive", "Driver/Apps.lean", n=n, args=["-donate", "0", "-exact", "-breadth=false"], seed=ctx.seed + 300)


def search(ctx):
    _nodes.search_nodes(ctx, "C24", "c24")
