"""C34 Stored relay evidence stays exact under concurrent relays (DESIGN.md §5 C34)."""

META = dict(
    engine="E-CONC",
    technique="Lean 4 interleaving LTS of the relay evidence (validate / get / add / set / respond per relay, iterator-read / seal of the claim sender, at the code's lock granularity; bloom filters as shared heap objects) with kernel-checked counterexample schedules and an all-schedules invariant proof for the repaired (single critical section) design + exhaustive schedule enumeration against the real Validate / GetEvidence / AddProof / SetEvidence / EvidenceIterator / SealEvidence, and free-running real HandleRelay goroutines (thorough: under the race detector)",
    level_text="Kernel-checked: concrete schedules of the code as it is that store an identical proof twice (dup_under_interleaving), lose a stored and answered relay by a concurrent write-back (lost_update), lose relays answered before the seal because the claim sender writes back the copy it read earlier (responded_before_seal_not_recorded), serve a relay whose proof is dropped after the seal (store_after_seal); the allowance bound n <= max does hold for every schedule (within_limit_all_schedules); one relay / claim sender at a time is exact (sequential_ok); the repaired design is exact for ALL schedules, by induction over arbitrary step lists (repaired_exact_all_schedules); the evidence store's LRU+DB layer is observable as coded (eviction_is_observable: a DB read into a full cache drops an unflushed evidence) and provably unobservable for every capacity and operation sequence once reads go through the flush-aware helper (cache_unobservable_when_repaired). Every schedule of two relays (+ claim sender) and, in the thorough tier, of three relays is executed on the real functions and the final evidence, per-relay outcome and response/seal order are compared with the model.",
    level_note="PARTIAL: the LTS has the code's lock granularity for storing but treats Relay.Validate's evidence part as one atomic step (coarser = fewer behaviours, so every counterexample is real); word-level data races (two appends into one backing array when cap > len, concurrent bloom bit sets) and the Go scheduler are not modelled - the race detector run reports them (thorough tier). Bloom tests are exact membership in the model (the harness picks proofs without false positives). No hook is used: HandleRelay has no add-only seam for a yield point, so schedules drive the exported sub-steps HandleRelay/SendClaimTx call, in the model's order. Trusted: Lean kernel; axioms propext, Classical.choice, Quot.sound; Go harness and driver parser.",
)


def run(ctx):
    ctx.lean_proofs("Props.C34")
    ctx.rule("c34: every interleaving of the per-thread step sequences of the model (relay: validate,get,add,set[,respond]; claim sender: iterator-read, seal), executed sequentially on the real functions with fresh stores: "
             "two relays (identical / distinct; allowance 5, 2, 1), one or two relays racing the claim sender (3150 schedules each), three relays sampled every 40th schedule (thorough: all 34650 per family and two relays + claim sender with a separate respond step); "
             "plus the keeper-level family: real keeper.HandleRelay with a hosted-chain HTTP stub that performs the interleaved action (nested identical / distinct HandleRelay, iterator+seal) during Execute, compared with the schedule the code order validate->store->execute->respond implies; plus serial multi-session scenarios (relays strictly one at a time for 3-4 sessions of one servicer whose evidence LRU holds 1-3 entries, allowance 2-4, 10-23 operations mixing fresh relays, replays of answered relays, the claim loop's iterator (flush + snapshot) and seals with that snapshot; compared with the cache-layer model and judged against the answers the node gave); plus free-running rounds: 16-64 goroutines call the real keeper.HandleRelay with 4-16 distinct requests (identical ones race), optionally with a sealing goroutine, in a child process (thorough: built with -race). "
             "non-trivial = every schedule; distinct = distinct trace line")
    ctx.trust("signature checks, session generation and hashing inside Relay.Validate run for real; only the schedule is imposed",
              "goleveldb memdb + LRU cache of CacheStorage are exercised as they are")
    ctx.assume("Relay.Validate's evidence reads are treated as one atomic step in the model (under-approximation)")
    if ctx.thorough:
        ctx.stream("schedules", "c34", "Driver/C34.lean", n=2, args=["-serial", 3000], timeout=3000, drv_timeout=3000)
        ctx.stream("free-race", "c34", "Driver/C34.lean", n=0, args=["-free", 24], race=True, timeout=3000)
    else:
        ctx.stream("schedules", "c34", "Driver/C34.lean", n=1, args=["-free", 3, "-serial", 240])


def search(ctx):
    ctx.stream("search0", "c34", "Driver/C34.lean", n=2, seed=ctx.seed * 2000003 + 104729, count=False, timeout=3000, drv_timeout=3000)
