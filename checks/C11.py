"""C11 CheckTx, simulation and queries never alter consensus state (DESIGN.md §5 C11)."""

META = dict(
    engine="E-CHAIN",
    technique="Lean 4 proof about the store plumbing of baseapp.runTx/Query (for all ante handlers, message handlers, queriers, states and histories) + twin-node differential on the real PocketCoreApp (separate processes; one twin additionally serves CheckTx / queries / simulations between ABCI calls)",
    level_text="Kernel-checked for the plumbing as it is: CheckTx, store queries, custom queries at any height and app/version leave everything block execution builds on unchanged, whatever the application code does; for every history with such calls interleaved anywhere the DeliverTx results and committed states equal those of the history without them (next_blocks_same). app/simulate is proved NOT pure in the code as it is (simulate_mutates, simulate_asis_root, next_blocks_same_fails_asis) and pure under the repaired plumbing (simulate_pure). The real application is tied to the model on every run: a probe decides which plumbing the code has (the check fails if neither), twin nodes replay generated block histories and every block's app hash, DeliverTx codes, validator updates, abstract state and raw store contents are compared; the working state is snapshotted around every off-chain call.",
    level_note="Trusted: Lean kernel (axioms propext, Classical.choice, Quot.sound), harness/driver parser. The application modules are parameters of the model: that block execution does not read node-local caches (SideIndep) is a hypothesis here and the subject of C13. Tendermint's mempool/RPC layers are not run; calls are made on the ABCI object directly. Only the modern rule set (all features active) is exercised.",
)


def run(ctx):
    ctx.lean_proofs("Props.C11")
    ctx.rule("c11: per history a 3-validator/2-servicer/2-app/4-account chain executes 6-14 generated blocks (chain.World.GenBlock: ~80% plausible txs of 14 kinds, "
             "~20% malformed, duplicates, missed votes, double-sign evidence, time jumps) on twin nodes in separate processes; twin B additionally serves ONE kind of "
             "off-chain traffic per history at 60% of the points pre-begin/post-begin/pre-tx/post-txs/post-end/post-commit (1-2 calls each): checktx (valid, malformed, "
             "unsigned, garbage bytes, a tx of the current block), query (store key/subspace with and without proof at heights 0, 1, latest, future, random old; app/version; "
             "odd paths), customquery (20 custom routes of all modules at latest and historical heights), simulate (valid sends and generated txs through app/simulate), none; "
             "non-trivial = every block / call line; distinct = distinct trace line")
    ctx.trust("twin equality is observed through app hash, DeliverTx codes, validator updates, the abstract state dump and a digest of every key of every persistent substore")
    ctx.assume("off-chain traffic starts once the check state is at a modern height (>= 2)")
    n = 160 if ctx.thorough else 12
    ctx.stream("twin", "c11", "Driver/C11.lean", n=n, timeout=3000)
    if ctx.thorough:
        for s in range(2):
            ctx.stream(f"twin-s{s}", "c11", "Driver/C11.lean", n=80, seed=ctx.seed * 1000 + 41 + s, timeout=3000)


def search(ctx):
    for s in range(2):
        ctx.stream(f"search{s}", "c11", "Driver/C11.lean", n=24, seed=ctx.seed * 7919 + s, count=False, timeout=3000)
