"""C36 Only the designated owner can change parameters or move DAO funds (DESIGN.md §5 C36)."""

META = dict(
    engine="E-CHAIN",
    technique="Lean 4 proof (decision logic of the gov handlers stated outright: any state change implies signer = ACL owner of the key / DAO owner; exact DAO transfer and burn; over-balance and other-signer no-ops; supply invariant carried through) + signed gov transactions through the real DeliverTx, judged by the executable spec on the implementation's own before/after dumps and compared with the model",
    level_text="Kernel-checked for all states, keys, values, signers and amounts: a MsgChangeParam or MsgUpgrade that changes anything (a parameter, the ACL, the DAO owner, a balance) was signed by the address the ACL names for that key — a key without entry is unchangeable; a DAO transfer/burn that changes anything was signed by the DAO owner; a successful transfer moves exactly the amount from the DAO account to the recipient and nothing else, a successful burn lowers DAO balance and supply by exactly the amount; amounts beyond the DAO balance and every other signer leave the whole state unchanged; the pos/MaxValidators height guard; as found: an owner's undecodable value is accepted and ignored. Tied to /repo every run: the key × signer × value matrix and DAO amounts around the balance run as signed transactions through the real app (genesis ACL spread over three owners; ACL and DAO-owner hand-overs included), with params (raw store values), ACL, DAO owner, all balances and the supply dumped after every DeliverTx.",
    level_note="Trusted: Lean kernel; axioms propext, Classical.choice, Quot.sound; Go harness and driver parser. 'Signer' is the authenticated FromAddress (C14). Parameter values are opaque in the model: whether a value decodes into the registered type is an input supplied by the generator (syntax errors / type mismatches vs well-typed values), the stored bytes are compared by digest. The merged value of an accepted MsgUpgrade is C37's subject (taken from the implementation). The MaxValidators height guard (block >= 40000 before the validator split) is exercised at keeper level (real handler, ctx.WithBlockHeight) under temporarily installed legacy upgrade globals, not through blocks. A key whose subspace does not exist makes ModifyParam call os.Exit — reachable only by the key's ACL owner after an ACL change adding such a key; not exercised.",
)

DRIVER = "Driver/C36.lean"


def run(ctx):
    ctx.lean_proofs("Props.C36")
    ctx.rule("c36 heights: the real gov handler called with ctx.WithBlockHeight(h), h in {2, 39999, 40000, 40001, 45352, 45353, 45354, 100000}, on the real "
             "app's store: every ACL key (1/3 from the special-cased ones: pos/MaxValidators, gov/acl, gov/upgrade, gov/daoOwner, RTTM and its per-chain map) x signer "
             "{owner 2/5, other owners, funded accounts, validator, stranger} x value {changed, same, ACL hand-over, DAO owner, undecodable}; half of the calls at h >= 30024 "
             "run under the upgrade globals of a chain without stored version upgrade (validator split only from 45353: the MaxValidators freeze is live) | c36: blocks of 1-3 signed gov txs on the real app; genesis ACL spreads the 35 keys over 3 owners, DAO owner = owner 2; "
             "signers {the key's owner, the two other owners, 2 funded accounts, a validator, a key without account}; MsgChangeParam over "
             "every ACL key (+ unknown, malformed, empty, near-miss and wrong-case keys) with values {well-typed changed value (numeric ±1, "
             "bool flip), same value, new ACL (owner hand-over, gov/acl|daoOwner|upgrade hand-over, entries for unregistered/malformed keys), "
             "new DAO owner, syntax errors, type mismatches, out-of-range int}; MsgDAOTransfer transfer/burn with amounts {1, 2, bal/3, bal−1, "
             "bal, bal+1, 2·bal, MaxInt64, −1, −bal, random, 0} to accounts, new addresses, the DAO and fee-collector accounts; feature-only "
             "MsgUpgrade by owner / others; non-trivial = code 0")
    ctx.assume("the authenticated signer of a gov message is its FromAddress/Address field (C14)")
    ctx.stream("heights", "c36", DRIVER, n=6000 if ctx.thorough else 500, args=["-mode", "heights"])
    ctx.stream("gov", "c36", DRIVER, n=15000 if ctx.thorough else 1200)
    if ctx.thorough:
        for s in range(3):
            ctx.stream(f"gov-s{s}", "c36", DRIVER, n=6000, seed=ctx.seed * 1000 + 361 + s)


def search(ctx):
    for s in range(3):
        ctx.stream(f"search{s}", "c36", DRIVER, n=4000, seed=ctx.seed * 7919 + s, count=False)
