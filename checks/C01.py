"""C01 Cache-wrapped KV store is an exact overlay of its parent (DESIGN.md §5 C01)."""

META = dict(
    engine="E-KV",
    technique="Lean 4 proof (merge iterator / dirty-item machinery modelled as coded and proved equal to the map overlay; refinement lifted over arbitrary histories and nesting depth) + differential correspondence vs store/cachekv over MemDB",
    level_text="Kernel-checked theorems, for every parent content, every cache content, every key, every start/end and both directions: Get/Has return the overlay lookup; the merge iterator (skipUntilExistsOrInvalid, skipCacheDeletes, Next) over any sorted parent and cache lists yields exactly the overlay; Iterator/ReverseIterator over any range equal the range of the overlay; Write leaves the parent equal to the overlay and the cache empty; discarding leaves the parent untouched; the wrapped store again satisfies the KV interface theorem, hence nesting to any depth; for all operation lists the model's observations equal those of the map-overlay specification. The Go code is tied to the model by generated histories on the real stores every run; the Lean driver also evaluates the overlay specification on the implementation's own answers.",
    level_note="Trusted: Lean kernel; axioms propext, Classical.choice, Quot.sound; the Go harness/driver parser; tm-db MemDB as the root store (assumed KV specification; exercised). Iterators are modelled by their drained contents at creation; that an open iterator is unaffected by later Set/Delete/Write is observed on the real code (iterators opened, writes issued, then drained), not proved of the Go heap. Go mutex, tracekv/gaskv wrappers not modelled.",
)

RULE = ("c01: histories on a stack dbadapter(MemDB) + 0-3 wraps (mostly cachekv.Store, some prefix.Store); keys over the alphabet "
        "{00,01,02,fe,ff} (length 0-4) drawn mostly from a per-epoch pool of 8-17 keys so that get/set/del/ranges collide "
        "(delete then re-set, ranges touching deleted keys, shared prefixes, prefix successors); values 0-2 bytes incl. empty; "
        "ops get/has/set/del, iter/riter with bounds nil/empty/key (also inverted), iterators opened, then set/del/write issued, "
        "then advanced/drained, write, pop (= discard), root dumps after writes, nil key/value arguments; a fresh MemDB every 48 sets; "
        "non-trivial = non-nil read, non-empty iteration, accepted write through a wrap; distinct = distinct trace line")


def run(ctx):
    ctx.lean_proofs("Props.C01")
    ctx.rule(RULE)
    ctx.trust("tm-db MemDB (root of every stack) is assumed to implement the KV specification; it is compared with the specification store on every line but not proved",
              "iterators are compared by their drained contents; snapshot behaviour of open iterators is observed, not proved of the Go heap")
    n = 1000000 if ctx.thorough else 6000
    ctx.stream("cachekv", "c01", "Driver/C01.lean", n=n)
    if ctx.thorough:
        for s in range(3):
            ctx.stream(f"cachekv-s{s}", "c01", "Driver/C01.lean", n=400000, seed=ctx.seed * 1000 + 53 + s)
        ctx.stream("cachekv-prefix-mix", "c01", "Driver/C01.lean", n=300000, seed=ctx.seed * 1000 + 99, args=["-pwrap", "5", "-depth", "4"])
    else:
        ctx.stream("cachekv-prefix-mix", "c01", "Driver/C01.lean", n=2500, seed=ctx.seed * 1000 + 99, args=["-pwrap", "5", "-depth", "4"])


def search(ctx):
    for s in range(4):
        ctx.stream(f"search{s}", "c01", "Driver/C01.lean", n=40000, seed=ctx.seed * 7919 + s, count=False)
