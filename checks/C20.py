"""C20 Application staking pool holds exactly the tokens staked by apps (DESIGN.md §5 C19/C20)."""

META = dict(
    engine="E-CHAIN",
    technique="Lean 4 proof (invariant over arbitrary operation lists of the applications-ledger model, induction over the history) "
              "+ transition checking of the real PocketCoreApp: abstract state dumped after every BeginBlock/DeliverTx/EndBlock, "
              "model step from the dumped pre-state compared with the dumped post-state, proved invariants evaluated on the implementation's own dumps",
    level_text="Kernel-checked for every history of stake / edit / transfer messages from any signer, begin-unstake, block ends with their "
               "payouts, keeper-level force-unstake and jail, and arbitrary balance/parameter changes by other modules: "
               "pool - sum(staked+unstaking tokens) changes only by plain sends to the pool's module-account address (exact law), hence the "
               "property holds on every history without such a send; the pool always covers the stakes. The property as stated is FALSE of "
               "the code (counterexample theorem + replay on the real app: MsgSend to the pool address). The Go code is tied to the model "
               "on every run by driving the real application through generated application-lifecycle histories.",
    level_note="Trusted: Lean kernel; axioms propext, Classical.choice, Quot.sound; the Go harness and the driver's parser. Modelled, not "
               "verified: BigInt/BigDec overflow panics (amounts bounded by supply), signature validity, fee sufficiency. Modern rule set only "
               "(all features active from block 2).",
)

RULE = ("appsdrive: histories of 40 blocks on a 3-validator / 3-application / 6-account genesis with MaxApplications in {3,4,5,6,1000}; per block 0-4 "
        "operations drawn from: new stake (amount at/below/above the minimum and the balance, 0..max+1 chains, bad chain ids), edit (down/same/up, "
        "beyond funds), transfer-shaped messages (owner/unstaking/stranger signer x new/existing/own key, near misses), begin-unstake (owner/stranger), "
        "sends (incl. draining, and in 1 history of 4 sends to the pool's module address), application parameter changes through governance, keeper-level "
        "jail / force-unstake, plus blocks of the shared mostly-valid generator; block-time steps 1s..2h around AppUnstakingTime. "
        "non-trivial = operation accepted (code 0); distinct = distinct trace line")


def run(ctx):
    import importlib.util, os as _os
    _sp = importlib.util.spec_from_file_location("_writers", _os.path.join(_os.path.dirname(__file__), "_writers.py"))
    _w = importlib.util.module_from_spec(_sp); _sp.loader.exec_module(_w)
    _w.run(ctx, ['x/apps/keeper', 'x/apps'])
    ctx.lean_proofs("Props.C20")
    ctx.rule(RULE)
    ctx.trust("BigInt/BigDec overflow panics are not modelled (amounts < 2^63 in the harness)",
              "the ante handler is modelled only as far as signer admission and fee deduction for application messages")
    n = 40000 if ctx.thorough else 2500
    ctx.stream("apps", "appsdrive", "Driver/Apps.lean", n=n)
    if ctx.thorough:
        for s in range(3):
            ctx.stream(f"apps-s{s}", "appsdrive", "Driver/Apps.lean", n=20000, seed=ctx.seed * 1000 + 31 + s)


def search(ctx):
    for s in range(3):
        ctx.stream(f"search{s}", "appsdrive", "Driver/Apps.lean", n=6000, seed=ctx.seed * 7919 + s, count=False)
