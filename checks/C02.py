"""C02 Prefix views are isolated and iterate their own keyspace (DESIGN.md §5 C02)."""

META = dict(
    engine="E-KV",
    technique="Lean 4 proof (lexicographic-order lemmas for PrefixEndBytes; the prefix store proved to satisfy the KV interface theorem over any parent that does) + differential correspondence vs store/prefix over MemDB and cachekv wraps",
    level_text="Kernel-checked theorems for every prefix (empty, ending in 0xFF, all-0xFF), every parent content, every start/end (nil, empty, inverted) and both directions: PrefixEndBytes is the exact exclusive bound of the keys carrying the prefix; Get/Has read prefix++key; Set/Delete change exactly prefix++key and no key outside the prefix; the drained prefix iterator equals the range of the stripped sub-map; the prefix store again satisfies the abstract KV interface, so it composes with cachekv (C01) at any depth; lifted to all operation histories. The Go code is tied to the model by generated histories on the real stores every run; the Lean driver also evaluates the map specification on the implementation's own answers.",
    level_note="Trusted: Lean kernel; axioms propext, Classical.choice, Quot.sound; the Go harness/driver parser; tm-db MemDB as the root store (its iterator/range semantics are the assumed KV specification, exercised but not proved). Iterators are modelled by their drained contents at creation.",
)

RULE = ("c02: histories on a stack dbadapter(MemDB) + 0-3 wraps (75% prefix.Store, 25% cachekv.Store), prefixes from "
        "{empty, 00, 01, ff, 01ff, ffff, 00ff, fe, feff, 01ffff, ...}; keys over the alphabet {00,01,02,fe,ff} (length 0-4), "
        "half of them at prefix boundaries (p, p+x, PrefixEndBytes(p), just below/above, proper prefixes); ops get/has/set/del, "
        "iter/riter with bounds nil/empty/key, iterators held open across writes, write/pop, root dumps, nil arguments, and direct "
        "PrefixEndBytes calls probed with boundary keys; a fresh MemDB every 48 sets; non-trivial = non-nil read, non-empty "
        "iteration, accepted write through a wrap; distinct = distinct trace line")


def run(ctx):
    ctx.lean_proofs("Props.C02")
    ctx.rule(RULE)
    ctx.trust("tm-db MemDB (root of every stack) is assumed to implement the KV specification; it is compared with the specification store on every line but not proved",
              "iterators are compared by their drained contents")
    n = 300000 if ctx.thorough else 4000
    ctx.stream("prefix", "c02", "Driver/C02.lean", n=n)
    if ctx.thorough:
        for s in range(3):
            ctx.stream(f"prefix-s{s}", "c02", "Driver/C02.lean", n=200000, seed=ctx.seed * 1000 + 31 + s)
    else:
        ctx.stream("prefix-deep", "c02", "Driver/C02.lean", n=1500, seed=ctx.seed * 1000 + 7, args=["-depth", "4"])


def search(ctx):
    # wider streams; the specification (map overlay / prefix view) is the oracle: PROPFAIL lines carry the failing call
    for s in range(4):
        ctx.stream(f"search{s}", "c02", "Driver/C02.lean", n=30000, seed=ctx.seed * 7919 + s, count=False)
