"""C28 Application admission limits and transfers are enforced (DESIGN.md §5 C28)."""

META = dict(
    engine="E-CHAIN",
    technique="Lean 4 proof (case analysis of the application MsgStake pipeline: ValidateBasic, ante signer admission + fee, "
              "ValidateApplicationTransfer/TransferApplication, ValidateApplicationStaking/StakeApplication/EditStakeApplication as coded; "
              "staked-index exactness as an invariant over all operation lists) + transition checking of the real PocketCoreApp after every DeliverTx",
    level_text="Kernel-checked for every state, signer, message and fee: an address becomes staked only by a transfer of the signer's own "
               "staked record or with amount >= minimum, chains <= maximum, funds (after fee) >= amount and staked count < MaxApplications; "
               "the allowance is CalculateAppRelays(stake) at every (re)computation point; a transfer signed by the current staked application "
               "to a key without record moves the record unchanged (stake, allowance, chains) with the new public key, removes the old record "
               "and its index entry and leaves the pool alone; a stranger's message is rejected by the ante handler without any state change; "
               "a transfer to an existing key is rejected; the staked index is exactly the set of staked, unjailed records on every history. "
               "The Go code is tied to the model on every run by generated application-lifecycle histories on the real application.",
    level_note="Trusted: Lean kernel; axioms propext, Classical.choice, Quot.sound; Go harness and driver parser. Two statements carry the "
               "parameter well-formedness hypotheses 0 < ApplicationStakeMinimum and staked => tokens > 0 (the degenerate corner is exhibited as "
               "theorem foreign_app_signer_corner). Signature validity, fee sufficiency and BigDec overflow are not modelled. Modern rule set only.",
)

import importlib.util, os
_spec = importlib.util.spec_from_file_location("check_C20", os.path.join(os.path.dirname(os.path.abspath(__file__)), "C20.py"))
_c20 = importlib.util.module_from_spec(_spec); _spec.loader.exec_module(_c20)
RULE = _c20.RULE


def run(ctx):
    import importlib.util, os as _os
    _sp = importlib.util.spec_from_file_location("_writers", _os.path.join(_os.path.dirname(__file__), "_writers.py"))
    _w = importlib.util.module_from_spec(_sp); _sp.loader.exec_module(_w)
    _w.run(ctx, ['x/apps/keeper', 'x/apps'])
    ctx.lean_proofs("Props.C28")
    ctx.rule(RULE.replace("and in 1 history of 4 sends to the pool's module address", "no sends to the pool's module address (that is C20's finding)"))
    ctx.trust("BigInt/BigDec overflow panics are not modelled (amounts < 2^63 in the harness)",
              "the ante handler is modelled only as far as signer admission and fee deduction for application messages")
    n = 40000 if ctx.thorough else 2500
    ctx.stream("apps", "appsdrive", "Driver/Apps.lean", n=n, args=["-donate", "0"], seed=ctx.seed + 100)
    if ctx.thorough:
        for s in range(3):
            ctx.stream(f"apps-s{s}", "appsdrive", "Driver/Apps.lean", n=20000, args=["-donate", "0"], seed=ctx.seed * 1000 + 57 + s)


def search(ctx):
    for s in range(3):
        ctx.stream(f"search{s}", "appsdrive", "Driver/Apps.lean", n=6000, args=["-donate", "0"], seed=ctx.seed * 7919 + 11 + s, count=False)
