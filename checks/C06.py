"""C06 Commit IDs are well-formed and transient state never leaks into them (DESIGN.md §5 C06)."""

META = dict(
    engine="E-KV",
    technique="Lean 4 proof over all block histories and all map-iteration oracles (permutation induction on the sorted-map construction; simulation between a multistore and the same multistore with its transient substores unmounted) + differential twin runs on the real rootmulti.Store",
    level_text="Kernel-checked: every commit reports version+1; the commit hash is independent of Go's map iteration order; the list of commit ids of any block history equals that of the multistore without transient substores fed only the persistent writes (so it is a function of the persistent history); transient substores are empty after every commit. Tie: real rootmulti.Store (IAVL + transient substores, MemDB); the Lean driver recomputes CommitInfo.Hash with its own SHA-256 from the persisted StoreInfos, replays the observed iteration order as oracle, and compares five twin runs per history.",
    level_note="Trusted: Lean kernel; axioms propext/Quot.sound/Classical.choice at most; harness+driver parser. The IAVL root hash is a parameter TH (function of the substore's write history; that it is a function is monitored at run time, what the function is belongs to C03/C04). SHA-256 is a parameter H in the theorems. The app-level stream (c06app) drives a real PocketCoreApp through ABCI and evaluates the specification (transient substores empty before every BeginBlock, version+1, app hash independent of off-chain simulate/CheckTx traffic) on its observations.",
)


def build_driver_lib(ctx):
    """The line-protocol driver imports executable-only modules that no Props module imports; make sure their
    .olean files are current (lean --run does not rebuild imports)."""
    import verif
    mods = "PocketModel.Store.Sha256 PocketModel.Basic.Proto".split()
    rc, out = verif.sh(["lake", "build"] + mods, cwd=verif.LEAN, timeout=3000)
    if rc != 0:
        ctx.fail("build", "driver-lib", "lake build %s failed:\n%s" % (" ".join(mods), out[-1200:]))


def run(ctx):
    ctx.lean_proofs("Props.C06")
    build_driver_lib(ctx)
    ctx.rule("c06: per history 1-4 IAVL substores and 0-2 transient substores (names sharing prefixes), 1-6 blocks of 0-8 writes "
             "(1/3 transient, 1/4 deletes) over a colliding key alphabet; per block the persistent writes go directly, through CacheMultiStore()+Write() or through a nested cache wrap (same route in all twins), the transient writes by a route drawn per run and block, and a never-written-back cache wrap is filled with junk in 1/3 of the blocks; after every commit every transient key written in the block is read back (directly and through a fresh cache wrap) and the store is iterated; after half of the commits historical views (LoadLazyVersion, CacheMultiStoreWithVersion at a random retained height) are opened and Get/Set/Delete/iteration on transient keys are tried through them under recover(); the live transient stores are read back before the next block; 5 twin runs: full / transient writes removed / no transient "
             "store mounted / reversed mount order + extra transient writes / one extra persistent write in a random block; "
             "non-trivial = write or commit line (distinct line)")
    ctx.trust("tendermint merkle.SimpleHashFromMap and tmhash are re-implemented in the model/driver (Sha256.lean, executable only) and compared with the real hash on every commit")
    ctx.assume("all persistent substores are mounted before the first commit (as pocket-core's app does)")
    n = 400 if ctx.thorough else 25
    ctx.stream("twins", "c06", "Driver/C06.lean", n=n)
    # application level: real PocketCoreApp through ABCI; simulate queries / CheckTx of transient-writing transactions
    # between Commit and the next BeginBlock; transient substores read back before every BeginBlock; app hashes vs a twin
    ctx.rule("c06app: real PocketCoreApp (ABCI, MemDB), generated blocks (<= 4 txs); after each Commit 0-3 off-chain actions: "
             "Query app/simulate (2/3) or CheckTx (1/3) of gov parameter changes (3/5; their handler marks the transient params store), "
             "sends, DAO transfers; every transient substore is read back before each BeginBlock; twin run without off-chain traffic")
    for i in range(4 if ctx.thorough else 2):
        ctx.stream(f"app-s{i}", "c06app", "Driver/C06app.lean", n=(60 if ctx.thorough else 16), seed=ctx.seed * 100 + i)
    if ctx.thorough:
        for s in range(2):
            ctx.stream(f"twins-s{s}", "c06", "Driver/C06.lean", n=300, seed=ctx.seed * 1000 + 31 + s)


def search(ctx):
    for s in range(3):
        ctx.stream(f"search{s}", "c06", "Driver/C06.lean", n=120, seed=ctx.seed * 7919 + s, count=False)
