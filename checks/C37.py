"""C37 Feature upgrades activate at their heights and are never lost (DESIGN.md §5 C37)."""

META = dict(
    engine="E-PURE + gov keeper on MemDB + real NewPocketCoreApp restart",
    technique="Lean 4 proof (association-list refinement of the Go feature map, insertion-sort canonicity, decimal print/parse round trip, invariant 'live map = map of the stored list' over arbitrary upgrade sequences; counterexamples by evaluation) + differential correspondence vs codec feature functions, gov keeper HandleUpgrade and app.NewPocketCoreApp on the same MemDB",
    level_text="Kernel-checked for all feature lists / upgrade sequences: CleanUpgradeFeatureSlice is independent of map iteration order, strictly sorted, one entry per key, last scheduling wins, keeps every key; a feature is active iff scheduled non-zero and reached; after handleUpgradeAfterUpdate every named feature is live at its height and earlier ones stay; the live map equals what a restart derives from the stored parameter for every sequence of post-codec upgrades IF the stored upgrade height is non-zero - and the excluded point is a proved counterexample (features lost on restart), as is the pre-codec branch. The real functions, the real gov keeper and a real NewPocketCoreApp restart are tied to the model every run.",
    level_note="Trusted: Lean kernel; axioms propext, Classical.choice, Quot.sound; harness/driver parser. Go map iteration is an oracle (list order) that the proofs quantify over. The restart is an in-process NewPocketCoreApp on the committed MemDB after resetting the three codec globals to their start-up values (recorded at process start); ACL/signature checks of the upgrade tx are C36's subject (here: owner vs non-owner only). TestMode = 0.",
)

DRIVER = "Driver/C37.lean"

import importlib.util, os
_spec = importlib.util.spec_from_file_location("c37chain", os.path.join(os.path.dirname(__file__), "_c37chain.py"))
_chain = importlib.util.module_from_spec(_spec); _spec.loader.exec_module(_chain)


def run(ctx):
    ctx.lean_proofs("Props.C37")
    ctx.rule("c37: half pure calls (Clean/SliceToMap/SliceToExistingMap/MapToSlice+Clean) on 0-5 feature strings over 11 keys that collide often "
             "(MAXCH, A, A1, AB, empty, with space), heights 0, 1-60, negative, MaxInt64, out of range, non-numeric, '+7', '007', ~12% malformed (no colon, two colons, empty string), "
             "exact duplicates and re-scheduling; half keeper sessions: stored parameter default (height 0) or preset version upgrade, block heights below / around / above 30024, "
             "3-10 ops of HandleUpgrade (feature-only by FEATURE or by height 1, version upgrades with features, non-owner signer, malformed features on a cache-wrapped "
             "context like DeliverTx), activation predicates at heights around the scheduled ones, restarts (commit + real NewPocketCoreApp on the same MemDB); every session ends with a restart; "
             "non-trivial = successful upgrade / restart / predicate on a scheduled key")
    ctx.trust("in-process restart: codec globals reset to their recorded start-up values before NewPocketCoreApp")
    n = 30000 if ctx.thorough else 1600
    ctx.stream("upgrades", "c37", DRIVER, n=n)
    if ctx.thorough:
        ctx.stream("upgrades-s1", "c37", DRIVER, n=20000, seed=ctx.seed * 1000 + 37)
    # chain level: real MsgUpgrade transactions through DeliverTx, restart in a fresh process
    _chain.run_chain(ctx)


def search(ctx):
    for s in range(2):
        ctx.stream(f"search{s}", "c37", DRIVER, n=8000, seed=ctx.seed * 7919 + s, count=False)
    _chain.search_chain(ctx)
