"""C22 Consensus validator updates match the top staked nodes (DESIGN.md §5 C22)."""
import importlib.util, os
_spec = importlib.util.spec_from_file_location("_nodes", os.path.join(os.path.dirname(os.path.abspath(__file__)), "_nodes.py"))
_nodes = importlib.util.module_from_spec(_spec)
_spec.loader.exec_module(_nodes)

META = dict(
    engine="E-CHAIN",
    technique="Lean 4 proof (loop specifications of UpdateTendermintValidators by induction over the sorted staked set with the count/remaining-map accumulator and over the sorted leavers; uniqueness of sorted duplicate-free lists to identify the accepted entries with the top-N of the records; bookkeeping invariant 'previous-power store = consensus set' lifted over arbitrary histories) + accumulated ValidatorUpdates of the real app checked after every EndBlock",
    level_text="Kernel-checked for every modern history (end-block heights ≥ validator-split activation) from any state satisfying the invariants, including changes of MaxValidators: after every end-block the consensus set obtained by applying all reported updates in order equals the first MaxValidators staked, unjailed, non-zero-power nodes (power descending, address ascending) with their current powers; the previous-power store (0x31) is that same set; every reported update is either the current non-zero power of a member or a zero for a previous member that left; every member is staked and unjailed. Legacy behaviour before the split (leaver reported with current power) shown by example. Tie: ResponseEndBlock.ValidatorUpdates of the real app are accumulated by the driver and compared after every EndBlock with the top-N recomputed from the dumped records and with prefix 0x31; the model's update list is compared element by element.",
    level_note=_nodes.NOTE + " The consensus engine itself (Tendermint) is not run; its validator set is represented by the accumulated updates. The InitChain validator set and the pre-modern block 1 are taken as the initial consensus set (checked against the top-N of the dumped state).",
)


def run(ctx):
    ctx.lean_proofs("Props.C22")
    _nodes.run_nodes(ctx, "C22", "c22")


def search(ctx):
    _nodes.search_nodes(ctx, "C22", "c22")
