"""C03 Versioned Merkle tree is a correct ordered map at every version (DESIGN.md §5 C03)."""

META = dict(
    engine="E-KV",
    technique="Lean 4 proof (abstraction function toList; order invariant and AVL shape invariant proved preserved by recursiveSet/recursiveRemove/rotations/balance with the code's tie-breaks; reads proved equal to map reads; refinement lifted by induction over all operation histories) + differential correspondence vs the real iavl.MutableTree over MemDB incl. exact tree shape through the verif hook",
    level_text="Kernel-checked theorems for all trees, keys, bounds and all histories of Set/Remove/SaveVersion/DeleteVersion/Rollback: set = map insert, remove = map erase (and the tree is untouched when the key is absent), Get returns lookup and rank (also for absent keys), Has = membership, GetByIndex = positional access, range traversal = filtered (reversed) list for any optional bounds and inclusive flag, stopped traversals see a prefix; the working tree and every retained version read back exactly the per-version map model; saved versions never change; the tree stays AVL-balanced with correct stored sizes/heights; height <= 91 below 2^64 keys. The decidable monitor checkInv is proved equivalent to the invariant. The Go code is tied to the model on every run by generated histories on the real tree: every answer is compared with the model and with the map specification, and dumped shapes (key/height/size/version, pre-order) must equal the model's shape and pass checkInv.",
    level_note="Trusted: Lean kernel; axioms propext, Classical.choice, Quot.sound; the Go harness/driver parser. Hashes, node DB, orphans and the LRU node cache are not modelled here (C04/C05/C08) — the correspondence runs exercise them with cache sizes 0, 3 and large; a wrong node deletion would show up as a read mismatch or panic on a retained version. int8/int64 fields are modelled as unbounded naturals (height bound proved).",
)

RULE = ("c03: one real MutableTree over MemDB per stream; key spaces: the fixed colliding 8-key set {'',00,0000,01,7f,ff,ff00,ffff} and a "
        "4096-key space of 2-4 byte keys (bulk-loaded to ~60%, then churned); phases grow/churn/shrink, overwrites of present keys, "
        "sweeps removing every key ascending/descending/shuffled then re-insertion, saves (incl. of the empty tree), deletes of random retained "
        "versions and illegal deletes (0, latest, missing), rollbacks, LazyLoadVersion views held open across later writes; after every "
        "operation reads on the working tree and on a retained version (Get/Has/GetByIndex incl. -1 and size, IterateRange[Inclusive] both "
        "directions with nil/empty/non-member bounds, stopped iterations, Size/Height/Version), periodic full read-out of every retained "
        "version and shape dumps; non-trivial = read on an existing target / effective write; distinct = distinct trace line")


def run(ctx):
    ctx.lean_proofs("Props.C03")
    ctx.rule(RULE)
    ctx.trust("node DB / orphan bookkeeping / node cache of store/iavl are exercised (cache sizes 0, 3, 100000) but not modelled in C03",
              "hashes are not part of C03 (the exact shape incl. node versions is compared instead; C04 ties shape to hash)")
    if ctx.thorough:
        ctx.stream("small-c0", "c03", "Driver/C03.lean", n=60000, args=["-keys", "8", "-cache", "0"], timeout=3000, drv_timeout=3000)
        ctx.stream("small-c3", "c03", "Driver/C03.lean", n=60000, seed=ctx.seed * 1000 + 3, args=["-keys", "8", "-cache", "3", "-keep", "9"], timeout=3000, drv_timeout=3000)
        for s in range(3):
            ctx.stream(f"large-s{s}", "c03", "Driver/C03.lean", n=12000, seed=ctx.seed * 1000 + 11 + s,
                       args=["-keys", "4096", "-cache", ["0", "100000", "64"][s]], timeout=3000, drv_timeout=3000)
    else:
        ctx.stream("small-c0", "c03", "Driver/C03.lean", n=2000, args=["-keys", "8", "-cache", "0"])
        ctx.stream("small-c3", "c03", "Driver/C03.lean", n=1000, seed=ctx.seed * 1000 + 3, args=["-keys", "8", "-cache", "3", "-keep", "9"])
        ctx.stream("large", "c03", "Driver/C03.lean", n=700, seed=ctx.seed * 1000 + 11, args=["-keys", "4096", "-cache", "100000"])


def search(ctx):
    # wider streams with the per-version map specification as oracle (PROPFAIL lines carry the failing call;
    # the replay is (stream seed, n, line number) — the harness is deterministic)
    for s in range(3):
        ctx.stream(f"search-small{s}", "c03", "Driver/C03.lean", n=8000, seed=ctx.seed * 7919 + s,
                   args=["-keys", "8", "-cache", str([0, 1, 100][s])], count=False)
    ctx.stream("search-large", "c03", "Driver/C03.lean", n=2500, seed=ctx.seed * 7919 + 5, args=["-keys", "4096", "-cache", "0"], count=False)
