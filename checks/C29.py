"""C29 Merkle-sum-index proofs for committed relays always verify (DESIGN.md §5 C29)."""

META = dict(
    engine="E-PURE",
    technique="Lean 4 proof (induction over tree levels with the invariant 'every level is a contiguous partition of [0, top)'; bit-level proof of nextPowerOfTwo) + differential correspondence vs types.GenerateRoot/GenerateProofs/MerkleProof.Validate with the hash function as an uninterpreted table",
    level_text="Kernel-checked theorems for leaf lists of every size 2..2^32 (hence every size >= 5), both parent-hash layouts, any hash function: if the leaf sums are positive, pairwise distinct and leave room for the padding below 2^64, the proof generated for every index verifies against the generated root with levels(n) levels, (true, replay=false); levels(n) equals the number of sibling entries produced by padding to nextPowerOfTwo. The Go code is tied to the model on every run: real relay-proof sets of sizes 5..1100 in all padding classes, pre- and post-upgrade heights, every index of small sets; the real keeper ValidateProof on claims whose session and proof block lie on either side of the hashing upgrade; levels vs the float expression exhaustively to 2^20 and at 2^k+-1.",
    level_note="Trusted: Lean kernel; the Go harness/driver parser; blake2b (a parameter of the theorems, a table in the driver); math.Log2 on float64 (compared, not modelled: it falls one short at 2^k+1 for k >= 49, far beyond any buildable tree). The hypothesis 'sums positive and pairwise distinct' is a property of the hash function; the harness reports that it held for every generated set. Sets larger than 2^32 are outside the theorems: nextPowerOfTwo only shifts up to 16 (counterexample theorem).",
)

RULE = ("c29 verify: sets of real RelayProof values of one session (fresh entropy/request hash), sizes 5..20, 2^k-1, 2^k, 2^k+1 and one mid-range size per k up to 1100 "
        "(thorough: every size 5..1100), each at one pre-upgrade and one post-upgrade height (sets above 70: one of the two, alternating) with the codec globals pinned; every index for n<=40, else 8 indices incl. 0,1,n-1, "
        "padding boundary; real GenerateRoot/GenerateProofs/Validate, level count from the keeper's float expression; non-trivial = the call did not panic; "
        "keeper: real Keeper.ValidateProof on MemDB stores (one staked node/app, default params B=4, W=3): n in 5..17 (later rounds 5..32) relays of a session at S, "
        "root by the real Evidence.GenerateMerkleRoot(S), required leaf by the real getPseudorandomIndex, proof by the real Evidence.GenerateMerkleProof(S), validated in block Hc=S+13..15 "
        "with the hashing-upgrade height U (codec.UpgradeHeight) placed: above both, at Hc+1, at S, at 2, at S+1, at Hc, anywhere in (S,Hc], and with the mainnet constant 30024 for sessions "
        "starting at 29993, 30009..30021 (in flight across it), 30025; non-trivial = ValidateProof accepted; "
        "levels: the float expression for every n<=2^20 (run-length encoded), 2^k-1,2^k,2^k+1 for k<=52, random n<=2^48")


def run(ctx):
    ctx.lean_proofs("Props.C29")
    ctx.rule(RULE)
    ctx.trust("blake2b-256 is a parameter H of every theorem; the driver instantiates H with the table of (input, output) pairs computed by the harness with x/crypto/blake2b",
              "math.Log2/math.Ceil on float64 are compared with the exact integer levels(n), not modelled")
    ctx.assume("leaf sums (first 8 bytes of the leaf hash) positive and pairwise distinct; measured for every generated set (stats: sets_violating_sum_hypothesis)")
    if ctx.thorough:
        ctx.stream("verify-all", "c29", "Driver/C29.lean", n=1, args=["-mode", "verify", "-allsizes", "-max", "1100"], timeout=3000, drv_timeout=6000)
        ctx.stream("verify", "c29", "Driver/C29.lean", n=6000, args=["-mode", "verify", "-max", "1100"], seed=ctx.seed + 101, timeout=3000, drv_timeout=3000)
        ctx.stream("levels", "c29", "Driver/C29.lean", n=20000, args=["-mode", "levels", "-lvupto", str(1 << 22)])
        ctx.stream("keeper", "c29", "Driver/C29.lean", n=3000, args=["-mode", "keeper"], timeout=3000, drv_timeout=3000)
    else:
        # one stream: the types-level sets followed by the keeper-level validations (one harness run, one driver start)
        ctx.stream("verify", "c29", "Driver/C29.lean", n=600, args=["-mode", "verify", "-max", "1100", "-keeper", "120"])
        ctx.stream("levels", "c29", "Driver/C29.lean", n=300, args=["-mode", "levels"])


def search(ctx):
    for s in range(3):
        ctx.stream(f"search{s}", "c29", "Driver/C29.lean", n=3000, args=["-mode", "verify", "-max", "300"], seed=ctx.seed * 7919 + s, count=False)
    ctx.stream("search-keeper", "c29", "Driver/C29.lean", n=600, args=["-mode", "keeper"], seed=ctx.seed * 7919 + 5, count=False)
