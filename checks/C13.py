"""C13 Consensus is independent of off-chain activity and node-local caches (DESIGN.md §5 C13)."""

import importlib.util
import os
import sys

sys.path.insert(0, os.path.join(os.path.dirname(os.path.abspath(__file__)), "..", "lib"))
import verif  # noqa: E402

_spec = importlib.util.spec_from_file_location("factslib", os.path.join(os.path.dirname(os.path.abspath(__file__)), "facts", "factslib.py"))
factslib = importlib.util.module_from_spec(_spec)
_spec.loader.exec_module(factslib)
EXPECTED = os.path.join(os.path.dirname(os.path.abspath(__file__)), "facts", "C13.expected.json")

META = dict(
    engine="E-CHAIN",
    technique="Lean 4 proof about the node-local caches as explicit state (LRU model, cache-coherence invariant lifted over arbitrary histories) + twin-node differential on the real PocketCoreApp (separate processes, RPC-like traffic, restarts, tiny LRU capacities) with a verified runtime monitor of the real ApplicationCache",
    level_text="Kernel-checked for the code as it is now: the whole node — application cache (not keyed by height), validators-by-chain cache, session cache, with restarts and every LRU capacity — keeps the invariant `NodeInv` (application cache coherent with the working store; every validators-by-chain entry is the node list of the version its key names) under block execution, commits, restarts and EVERY kind of off-chain traffic (custom application queries at any height, RPC queries, CheckTx reads, dispatch requests through the RPC and through Query custom/pocketcore/dispatch at any height), and block execution therefore observes exactly what a node without any cache observes: node_inv, consensus_indep_offchain_all (and caches_coherent / consensus_indep_offchain for the application substore alone). ValidatorCache is never read, GlobalCtxCache is coherent by construction, claim validation never reads the session cache. The counterexamples for the code before the fixes are kept as historical_* theorems. The real application is tied to the model on every run: a probe decides which query context the code builds; twin nodes replay generated cache-sensitive block histories; per block app hash, DeliverTx codes, validator updates, abstract state and raw store digests are compared; every custom application query's effect on the REAL ApplicationCache (LRU order, eviction) is compared with the model, the coherence invariant is evaluated on the real cache after every call and every block, and the NewContext/SetPrevCtx call sites are pinned by regenerated facts.",
    level_note="Trusted: Lean kernel (axioms propext, Classical.choice, Quot.sound), harness/driver parser. Sessions, validators-by-chain lists and multistore versions are abstract values in the model; HandleRelay/HandleChallenge are not driven (they use the same session cache as HandleDispatch). Tendermint is not run: RPC-like traffic is issued on the app object between ABCI calls. Only the modern rule set.",
)


def run(ctx):
    ctx.lean_proofs("Props.C13")
    # E-FACTS F2: which context flavour each entry point builds (NewContext / SetPrevCtx call sites)
    factslib.run_facts(ctx, verif, EXPECTED, {"new-context", "set-prev"}, "F2-context-flavours")
    ctx.rule("c13: per history a 3-validator/3-servicer/2-app chain (4-block sessions, 4 nodes per session, 2-minute unstaking) executes 10-22 generated blocks "
             "(chain.World.GenBlock plus application edit-stakes around the current stake, application/node unstakes, claims of nodes for the last finished sessions; "
             "chain data generated once per history and executed by both twins) on twin nodes in separate processes with the same LRU capacity (1, 1, 2 or 100) and restart "
             "period (never, 3, 5, 7 blocks); twin B additionally serves ONE kind of traffic at 60% of the six points between ABCI calls: appquery (custom/application/* at "
             "latest/historical heights), nodequery (custom pos/auth/gov/pocketcore read routes), dispatch (PocketCoreApp.HandleDispatch), qdispatch (custom/pocketcore/dispatch at "
             "latest/historical heights), none; non-trivial = every block / call line; distinct = distinct trace line")
    ctx.trust("twin equality is observed through app hash, DeliverTx codes, validator updates, the abstract state dump and a digest of every key of every persistent substore",
              "the real ApplicationCache is read through Keeper.ApplicationCache.Keys/Peek (exported field)")
    ctx.assume("off-chain traffic starts once the check state is at a modern height (>= 2)", "relays and challenges are not driven")
    n = 240 if ctx.thorough else 16
    ctx.stream("twin", "c13", "Driver/C13.lean", n=n, timeout=3000)
    if ctx.thorough:
        for s in range(2):
            ctx.stream(f"twin-s{s}", "c13", "Driver/C13.lean", n=120, seed=ctx.seed * 1000 + 43 + s, timeout=3000)


def search(ctx):
    for s in range(2):
        ctx.stream(f"search{s}", "c13", "Driver/C13.lean", n=40, seed=ctx.seed * 7919 + s, count=False, timeout=3000)
