"""C32 Each claim is rewarded at most once and only with a valid proof (DESIGN.md §5 C32)."""

META = dict(
    engine="E-CHAIN",
    technique="Lean 4 proof (life-cycle model of handleClaimMsg/handleProofMsg/DeleteExpiredClaims with the session, merkle, index, leaf and reward facts as oracle inputs; case analysis of every handler branch; counting invariant payments + live <= acceptances + live lifted by induction over all histories; store = fold of the event trace) + transition checking on the real PocketCoreApp with real evidence",
    level_text="Kernel-checked for all states, messages, oracle values and histories: a claim is stored iff every check of ValidateClaim passes, in the code's order (session ended, not mature, node and application staked at the session height, chain supported, node in session, relays within allowance and above the minimum); a reward is minted only by a proof whose key has a stored claim and whose level count, required index, merkle proof and leaf are valid; an accepted claim replaces the stored one; the expiry sweep removes exactly the expired claims, unpaid, and an expired or never stored claim cannot be paid; rejected transactions change nothing except the replay-attack branch (burn + delete with an error result). 'At most once per claim' is proved for histories whose proofs carry the leaf type their evidence type names, and for a repaired ExecuteProof; for the code as it is the statement is false (counterexample theorems: a claim filed as evidence type 2 over relay proofs is paid and survives). Tie: every BeginBlock/DeliverTx/Commit of generated histories on the real application is reproduced by the model from the dumped pre-state, and the executable spec is evaluated on the implementation's own dumps.",
    level_note="Trusted: Lean kernel; axioms propext, Classical.choice, Quot.sound at most; harness + driver parser. Oracle inputs (evaluated with the real keeper functions right before each DeliverTx, not modelled here): session membership (C33), MaxPossibleRelays (C28), required pseudorandom index (C31), MerkleProof.Validate verdict (C29/C30), leaf and AAT signatures (C35/C39), reward split and burn amounts (C26/C27), ante handler / duplicate check (C14-C16). Only relay-proof leaves are generated (the challenge-leaf branch of ExecuteProof is modelled and proved about, not exercised). Hash collisions of the session header in the claim key are outside the model. Modern rule set only (all features active from block 2).",
)

DRIVER = "Driver/C32.lean"


def run(ctx):
    import importlib.util, os as _os
    _sp = importlib.util.spec_from_file_location("_writers", _os.path.join(_os.path.dirname(__file__), "_writers.py"))
    _w = importlib.util.module_from_spec(_sp); _sp.loader.exec_module(_w)
    _w.run(ctx, ['x/pocketcore/keeper', 'x/pocketcore'])
    ctx.lean_proofs("Props.C32")
    ctx.rule("c32: histories of 44 blocks on a fresh chain (7 staked nodes, 5 per session, 2 applications one with a 6-relay allowance, "
             "(BlocksPerSession, ClaimSubmissionWindow, ClaimExpiration) drawn from (4,2,3) (3,2,2) (5,3,4)); per block 0-4 transactions drawn by a "
             "life-cycle agent over a pool of evidence sets (5-33 real relay proofs: AAT signed by the application key, relays signed by the client key, "
             "tree from GenerateRoot): claim in/before/after the window, for running, old, future and off-boundary session heights, from non-nodes, for "
             "non-applications, unsupported and unstaked chains, over the allowance, inflated totals, duplicated leaves, both evidence types and twins; header spellings: the application key in upper / mixed case hex in header and AATs (re-signed by the application key), "
             "paired with the canonical spelling for the same (servicer, application, chain, session, type); a staked chain with a hex letter and its upper-case spelling; "
             "claim + proof + claim + proof of one session inside the last block of the window; "
             "second claim under the same key; proof with the required index (from the real getPseudorandomIndex) or wrong index / wrong leaf / mutated sibling hash / "
             "mutated range / lied index / wrong level count / tampered leaf / other evidence type / wrong signer / identical bytes again / re-signed copy "
             "in the same and later blocks / too early / after overwrite / after expiry / never claimed; "
             "non-trivial = accepted transaction or BeginBlock line; distinct = distinct trace line")
    ctx.trust("oracle inputs of the transition are computed by the harness with the real exported keeper functions on the state right before DeliverTx",
              "reward recipients/amounts recomputed from CalculateRelayReward/GetRewardCost/SplitNodeRewards (C26/C27 own the arithmetic)")
    ctx.assume("proof leaves are relay proofs (the challenge-leaf branch is proved about, not exercised)",
               "parameters do not change during a history",
               "header spelling is judged by the harness (text == lower-case hex of itself), not by pocket-core; the driver identifies sessions by canonical key (application name without spelling tag, lower-case chain)")
    n = 120 if ctx.thorough else 10
    ctx.stream("lifecycle", "c32", DRIVER, n=n, timeout=1500, drv_timeout=1500)
    if ctx.thorough:
        for s in range(2):
            ctx.stream(f"lifecycle-s{s}", "c32", DRIVER, n=80, seed=ctx.seed * 1000 + 41 + s, timeout=1500, drv_timeout=1500)


def search(ctx):
    for s in range(3):
        ctx.stream(f"search{s}", "c32", DRIVER, n=25, seed=ctx.seed * 7919 + s, count=False, timeout=1500, drv_timeout=1500)
