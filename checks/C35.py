"""C35 Relays are served only with valid client and application authorization (DESIGN.md §5 C35)."""

META = dict(
    engine="E-CONC/E-PURE",
    technique="Lean 4 proof about ONE decision function mirroring Relay.Validate + RelayProof.ValidateLocal/ValidateBasic + AAT.Validate + Session.Validate + HandleRelay's tolerance check (order of checks kept, abstract signature scheme, ledger snapshot as parameter) + differential correspondence vs the real Relay.Validate (stub keepers) and the real keeper.HandleRelay (local HTTP server as hosted chain) on a well-formed relay with every single field altered",
    level_text="Kernel-checked for all relays and all ledger snapshots: if validation lets a relay through then the token is signed by the key it names and that key has an application record at the session height, the proof is signed by the client key named in the token over the proof hash, the request hash matches the payload, the servicer key is this node and this node is in the session, the chain is one of the application's and is hosted, session height = the requested one and >= 1, block height within the sync allowance, evidence not sealed / no duplicate / under the allowance (served_requires); HandleRelay additionally requires the tolerance window (served_requires_handle); every single wrong ingredient rejects (alter_field_rejected, 13 disjuncts). Since the fixes 94ea242 / e007075 / b757cb3 the former defects are theorems of the positive kind: validation never ends in log.Fatalf (validate_never_fatal, zero_allowance_refused), only first blocks of a session pass the tolerance check (tolerance_on_session_grid; served_requires_handle now includes it), the rollover error path reports an internal error (rollover_error_reported); a served relay has a positive allowance. The real code runs on 75 alterations of a valid relay every run; the error class is compared with the model and 'served' is judged by the executable spec.",
    level_note="The application status the code requires is 'record present at session height', not 'staked': status and jailed flag are never read (the model's App has no such field; replayed as served-for-non-staked-application). Partial in the sense of C39: signature verification is an oracle parameter (unforgeability not provable); sha3/JSON hashing, address derivation and the session-node selection (C33) enter as oracle data. Keepers of other modules are stubs of the expectedKeepers interfaces. Trusted: Lean kernel; axioms propext, Classical.choice, Quot.sound; Go harness and driver parser.",
)


def run(ctx):
    ctx.lean_proofs("Props.C35")
    ctx.rule("c35: a fresh world per case (height 40-79, 4 blocks per session, this node + 2 validators on chain 0001, application with chains 0001/0021 and 600-614 relays, client key, token signed by the app, proof signed by the client) and exactly one of 75 alterations: "
             "token signature/version/app key/client key (with and without re-signing), client signature, payload/request hash/meta, servicer key, chain (unhosted, not of the app, malformed), session height (+-1, previous session, 0, negative, argument mismatch), block height at and beyond the allowance, entropy, "
             "application absent / absent only at session height / absent only now / unstaking / jailed / unstaked with zero relays / tiny allowance / too many chains / no chains, evidence sealed / duplicate / at the allowance / partially filled, node outside the session, too few nodes, node jailed now, missing blocks; "
             "multi-step sequences on ONE servicer's session cache (rejected relay then identical retry, session pre-cached as HandleDispatch/HandleChallenge leave it, member served then non-member addressed behind the same cache) through Relay.Validate and through real keeper.HandleDispatch/HandleRelay; application-key spellings (upper / mixed-case hex of the same key bytes, token and proof re-signed by the legitimate keys; spellings ground until a servicer OUTSIDE the application's session is inside the session derived from the spelled key, members kept in / put out, canonical relay first on the same cache) through Relay.Validate and keeper.HandleRelay - 'served' with a non-canonical key text is judged by the spec (served-noncanonical-app-key); a quarter as many cases again through keeper.HandleRelay with ClientSessionSyncAllowance 0..2 (tolerance, storage, execution, signed response). Cases that end in log.Fatalf are run in a child process. non-trivial = served; distinct = distinct trace line")
    ctx.trust("ed25519 verification, sha3-256 over JSON, address derivation and NewSession's node selection are oracle data computed by the harness with the real functions",
              "PosKeeper/AppsKeeper/PocketKeeper are stubs (their answers depend only on the context height); sdk.Ctx.PrevCtx is stubbed by a table of available heights")
    ctx.assume("unforgeability of ed25519 (not provable)", "the apps/nodes keepers return what is in the stores at the context's height (C09)")
    n = 8000 if ctx.thorough else 1000
    ctx.stream("relayauth", "c35", "Driver/C35.lean", n=n)
    if ctx.thorough:
        ctx.stream("relayauth-s1", "c35", "Driver/C35.lean", n=4000, seed=ctx.seed * 1000003 + 7919)


def search(ctx):
    ctx.stream("search0", "c35", "Driver/C35.lean", n=3000, seed=ctx.seed * 2000003 + 104729, count=False)
