"""C15 Authenticated transactions pay exactly their declared fee, once (DESIGN.md §5 C15)."""
import os, sys
sys.path.insert(0, os.path.dirname(os.path.abspath(__file__)))
import ante_common
import verif

META = dict(
    engine="E-CHAIN",
    technique="Lean 4 proof over an executable model of the ante handler (ValidateTransaction, DeductFees, bank SendCoins) and of runTx/DeliverTx with arbitrary message handlers + transition checking against the real PocketCoreApp, one DeliverTx at a time",
    level_text="Kernel-checked theorems for all transactions, states, keys and handlers: when the ante handler passes, exactly the declared fee moves per denomination from the verifying key's account to the fee collector and nothing else changes (fee_exact); the fee is at least the required one for simple keys (fee_ge_required_partial) — false for multisig keys (fee_ge_required_fails, reproduced on the real app); the handler starts from the fee-deducted state and there is no rollback (fee_charged_even_if_msg_fails); any rejection leaves the state untouched (ante_reject_moves_nothing, deliver_reject_moves_nothing); over all histories a byte string is charged at most once (fee_once). Every run drives the real app over the fee × balance × signer × outcome matrix, compares the real ante handler's result and balances with the model's step from the dumped pre-state, and evaluates the specification on the implementation's own balances and codes.",
    level_note="Trusted: Lean kernel; axioms propext, Classical.choice, Quot.sound; the Go harness and the driver's parser. Parameters, not verified: signature verification, message handlers, tx decoding. fee_once assumes handlers never return codespace auth with code < 10 (regenerated source fact) and that the tx indexer is fed after every block as Tendermint's indexer service does.",
)

DRIVER = "Driver/C15.lean"


def run(ctx):
    ante_common.constants(ctx, verif.REPO)
    ante_common.no_ante_codes_elsewhere(ctx, verif.REPO)
    ctx.lean_proofs("Props.C15")
    ctx.rule("c15: real app (2 validators, custodial + non-custodial servicer, 2 apps, funded accounts, accounts holding 0 / fee-1 / fee / fee+1, "
             "an account with two denominations, a 2-key multisig account), blocks of 1-4 txs. Core: every fee shape {equal, below, above, zero, "
             "two denominations, unsorted, duplicate, zero coin, other denomination only, above balance, 1, two denominations below, double} × "
             "{simple key, two-denomination account, multisig account, a message whose handler fails}; partially signed multisig transfers; authenticated txs whose signer is not in Msg.GetSigners() (output-address edit signed by the current output address for a funded and an underfunded operator, application transfer to a funded key signed by the current application; operator / old output / new output / old app / new key are distinct accounts with distinct balances); parameter changes in the MIDDLE of a block by the ACL owner — auth/FeeMultipliers raised (send ×7, default ×2) and restored, auth/MaxMemoCharacters 256→10→256, auth/TxSigLimit 7→3→7 — each followed in the same block and in the next block by txs at the old fee / new fee / 20- and 10-byte memos / 3- and 2-key multisig (the model reads the parameters from the dumped pre-state of every tx); then random: 15 message kinds × signer "
             "relation × ~12% signature defects × 60% non-standard fees × 5% resubmissions; three chains: default multiplier 1, default multiplier 3, and per-type multipliers (send ×5, stake_validator ×2, default ×2). Per tx: dumped "
             "pre-state, real ante handler on a dropped cache, real DeliverTx, balances and a digest of every store. non-trivial = the real ante "
             "handler passed; distinct = distinct trace line")
    ctx.trust(*ante_common.COMMON_TRUST)
    ctx.assume("the tx indexer is fed with every block's results before the next block (the harness does what Tendermint's indexer service does)")
    n = 4000 if ctx.thorough else 520
    ctx.stream("fees", "c15", DRIVER, n=n, timeout=3000, drv_timeout=3000)
    if ctx.thorough:
        for s in range(2):
            ctx.stream(f"fees-s{s}", "c15", DRIVER, n=2000, seed=ctx.seed * 1000 + 151 + s, timeout=3000, drv_timeout=3000)


def search(ctx):
    for s in range(3):
        ctx.stream(f"search{s}", "c15", DRIVER, n=400, seed=ctx.seed * 7919 + s, count=False, timeout=3000, drv_timeout=3000)
