"""C26 Rewards and fees are split without creating or losing coins (DESIGN.md §5 C26)."""

META = dict(
    engine="E-PURE",
    technique="Lean 4 proof (closed forms of the percentage products through BigDec rounding/overflow checks; induction over the delegator list; permutation invariance) + differential correspondence vs the real x/nodes keeper on a MemDB multistore: CalculateRelayReward (splitRewards), keeper.BeginBlocker (blockReward/splitFeesCollected), SplitNodeRewards, RewardForRelaysPerChain (mints observed as balance and supply deltas)",
    level_text="Kernel-checked for all amounts 0 <= x < 2^255, all allocations accepted by Params.Validate and all delegator maps in any order: node share + fee share = reward with fee share = floor(reward*(dao+proposer)/100); DAO cut + proposer cut = fees with 0 <= DAO cut <= fees whenever an allocation is positive; each delegator gets floor(rewards*share/100), the output address the non-negative remainder, the payments add up to rewards, independent of map order; everything RewardForRelaysPerChain mints (operator reward-cost compensation, delegators, output address, fee collector) adds up to the computed reward; the invalid-map branch loses exactly the node share. Excluded point (theorem + replay, known finding): DAOAllocation = ProposerAllocation = 0 makes splitFeesCollected panic.",
    level_note="Trusted: Lean kernel; axioms propext, Classical.choice, Quot.sound; Go harness / driver parser; math/big; the auth keeper's Mint/Send (observed, not modelled: balances are assumed sufficient). The relay reward amount itself (stake weighting) is C27; here coins = RTTM*relays (RSCAL off). A proposer without a validator record keeps its cut in the fee collector (not modelled; no coin is created or lost).",
)


def run(ctx):
    ctx.lean_proofs("Props.C26")
    ctx.rule("c26: allocations (dao, proposer) from {10/1, 10/5, d/(100-d), 0/x, x/0, small/small, random with sum<=100, 4% 0/0 for block}; amounts from "
             "{0,1..3,<200,99..101,random<=96bit,2^100..2^250-k,multiples of 100,<1e8}; delegator maps with 0..64 delegators, total share 0..100 "
             "(composition of the total into positive parts, shuffled), ~30% of the maps made invalid (zero share, non-hex key, total>100, "
             "share 2^32-1); relay: RTTM in {1,1000,10000,random}, fee multiplier {0,1,2,random} (reward cost), before/after the RewardDelegators "
             "upgrade. non-trivial = no panic/error and a positive amount (and a non-empty map for deleg); distinct = distinct trace line")
    ctx.trust("auth keeper MintCoins/SendCoins are exercised, not modelled; results observed as balance/supply deltas on a cache-wrapped context")
    n = 60000 if ctx.thorough else 2000
    ctx.stream("split", "c26", "Driver/C26.lean", n=n, timeout=3000, drv_timeout=3000)
    ctx.stream("witness", "c26", "Driver/C26.lean", n=0, args=["-mode", "witness"], count=False)
    if ctx.thorough:
        for s in range(2):
            ctx.stream(f"split-s{s}", "c26", "Driver/C26.lean", n=30000, seed=ctx.seed * 1000 + 7 + s, timeout=3000, drv_timeout=3000)


def search(ctx):
    for s in range(3):
        ctx.stream(f"search{s}", "c26", "Driver/C26.lean", n=15000, seed=ctx.seed * 7919 + s, count=False, timeout=3000, drv_timeout=3000)
