"""C40 Stored keys are recoverable only with the right passphrase (DESIGN.md §5 C40)."""

META = dict(
    engine="E-CRYPTO",
    technique="Lean 4 proof of the keybase as a refinement of a map address->encrypted key (all operation sequences) and of mintkey's armor decision logic over an abstract AEAD/KDF (round-trip law as a field, authenticity as an explicit assumption field) + differential correspondence vs the real crypto/keys Keybase (in-memory DB) and mintkey with the scrypt+AES-GCM verdicts supplied as oracle data",
    level_text="Kernel-checked: a fresh armor decrypts to the identical key with its passphrase (any key, passphrase, non-empty salt); under the authenticity assumption a passphrase deriving another key is always rejected and no keybase operation (export, sign, delete, update) returns/does anything, keybase unchanged; every keybase operation is the specified operation on the abstract map for every operation sequence (lookup = map, listing = domain of the map, sorted, no duplicates; created/imported keys present, deleted keys gone); export->import round trip delivers the identical key. GetCoinbase only ever returns a present key (coinbase_is_present). Counterexample theorem for what is false of the code: passphrases equivalent under HMAC key normalisation open each other's armor. The real keybase and mintkey are run on generated keys/passphrases/armor mutations/op sequences every run and compared with the model and the executable spec.",
    level_note="PARTIAL by nature: scrypt and AES-256-GCM (the code uses these, not bcrypt/secretbox) are parameters; authenticity of the AEAD and collision-freeness of the KDF cannot be proved and are assumptions (structure AuthAEAD), exercised only by wrong-passphrase and armor-mutation testing. JSON/hex/base64 are an abstract codec with round-trip laws (Go stdlib decodings enter the driver as data). scrypt costs ~0.1 s per evaluation: the quick tier runs 14 cases incl. three fixed scenarios (~450 operations), thorough ~200 cases. Trusted: Lean kernel; axioms propext, Classical.choice, Quot.sound; Go harness and driver parser.",
)


def run(ctx):
    ctx.lean_proofs("Props.C40")
    ctx.rule("c40: one third mintkey cases (ed25519/secp256k1 key, passphrase from {empty, ascii, NUL-padded twin, unicode, 87-byte, SHA-256 twin of it, ...}: decrypt with the same passphrase, with every/two other pool passphrases and a derived one, "
             "then 5 (a quarter: all 19) armor mutations: kdf, salt flip/empty/non-hex/odd/lower-case/truncated, ciphertext flip/truncate/bad base64/empty/newline, secparam, hint, JSON truncation/extra field/duplicate kdf/upper-case key, one raw byte flip); "
             "two thirds keybase sequences of 14 ops on a fresh in-memory keybase over 4 keys and 3 passphrases (import object/armor, create, export armor/object, delete, unsafe delete, update, sign, get, list, get/set coinbase; 80% of addresses are present ones). "
             "non-trivial = operation succeeded; distinct = distinct trace line. scrypt bounds the op count (measured ~0.1 s per evaluation, cases run on all cores)")
    ctx.trust("scrypt, AES-GCM, encoding/json, hex, base64 are not modelled: their results enter the model as data (oracle recomputed with the Go libraries directly, not through mintkey)",
              "tm-db MemDB is the storage (its correctness is C01-C04's subject)")
    ctx.assume("AEAD authenticity: a different derived key never opens a ciphertext (AuthAEAD.auth)",
               "distinct HMAC-normal-form passphrases derive distinct scrypt keys",
               "every encryption uses a non-empty salt (16 random bytes in the code)")
    n = 120 if ctx.thorough else 14
    ctx.stream("keybase", "c40", "Driver/C40.lean", n=n, timeout=3000)
    if ctx.thorough:
        ctx.stream("keybase-s1", "c40", "Driver/C40.lean", n=80, seed=ctx.seed * 1000003 + 7919, timeout=3000)


def search(ctx):
    ctx.stream("search0", "c40", "Driver/C40.lean", n=60, seed=ctx.seed * 2000003 + 104729, count=False, timeout=3000)
