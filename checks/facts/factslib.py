"""Shared by checks/C12.py and checks/C13.py: run harness/cmd/facts12 on the repository under test and
compare the regenerated site list with a committed, classified expectation file."""
import json
import os
import re
import subprocess


def run_facts(ctx, verif, expected_path, kinds, name, lemma_files=()):
    binp = ctx.go_build("facts12")
    if binp is None:
        ctx.facts(name, False, "facts12 did not build")
        return None
    p = subprocess.run([binp, "-syntactic", "-repo", verif.REPO], capture_output=True, text=True, timeout=600)
    if p.returncode != 0:
        ctx.facts(name, False, "facts12 failed: " + p.stderr[-400:])
        return None
    got = {}
    for line in p.stdout.splitlines()[1:]:
        f = json.loads(line)
        if f["kind"] in kinds:
            got[(f["file"], f["func"], f["kind"], f["expr"], f["n"], bool(f.get("sorted", False)))] = f
    exp = json.load(open(expected_path))["sites"]
    want = {(e["file"], e["func"], e["kind"], e["expr"], e["n"], bool(e.get("sorted", False))): e for e in exp}
    new = sorted(set(got) - set(want))
    gone = sorted(set(want) - set(got))
    unclassified = [k for k, e in want.items() if e.get("classification") in (None, "", "UNCLASSIFIED")]
    detail = []
    if new:
        detail.append("new or moved site(s) not classified: " + "; ".join(f"{k[2]} {k[0]}:{k[1]} [{k[3]}] sorted={k[5]}" for k in new[:8]))
    if gone:
        detail.append("classified site(s) no longer present: " + "; ".join(f"{k[2]} {k[0]}:{k[1]} [{k[3]}] sorted={k[5]}" for k in gone[:8]))
    if unclassified:
        detail.append("unclassified: " + "; ".join(map(str, unclassified[:5])))
    # every lemma named by a classification must be a theorem of the named module
    missing = []
    srcs = {}
    for e in exp:
        lem = e.get("lemma")
        if not lem:
            continue
        mod, thm = lem.split(".", 1)
        path = os.path.join(verif.LEAN, "Props", mod + ".lean")
        if path not in srcs:
            srcs[path] = open(path).read() if os.path.exists(path) else ""
        if not re.search(r"^theorem\s+" + re.escape(thm) + r"\b", srcs[path], re.M):
            missing.append(lem)
    if missing:
        detail.append("classification names lemma(s) that do not exist: " + ", ".join(sorted(set(missing))))
    ok = not (new or gone or unclassified or missing)
    classes = {}
    for e in exp:
        classes[e["classification"]] = classes.get(e["classification"], 0) + 1
    ctx.facts(name, ok, " | ".join(detail) if detail else f"{len(want)} sites match the classified list {classes}")
    return dict(new=new, gone=gone, classes=classes)
