"""C19 Node staking pool holds exactly the tokens staked by nodes (DESIGN.md §5 C19/C20)."""

META = dict(
    engine="E-CHAIN",
    technique="Lean 4 proof (structural invariant of the x/nodes store preserved by every keeper operation as coded, lifted by induction over arbitrary operation lists) + transition checking against the real PocketCoreApp (state dumped after every phase of every block)",
    level_text="Kernel-checked: for every history of stakes, edit-stakes, begin-unstakes, unjails, challenge burns, BeginBlocks (missed votes, double-sign evidence), EndBlocks (jailed-too-long, release at session end, validator-set update, mature unstaking), parameter changes, rewards and arbitrary account activity, from every state satisfying the invariant, the pool balance equals the sum of the tokens of staked and unstaking nodes; minted rewards never strand in the pool. Counterexample theorem + partial theorem for the one excluded operation (a plain MsgSend to the pool's module-account address). Tie: the real app is driven through generated node life-cycle histories; after every BeginBlock / DeliverTx / keeper call / EndBlock the model transition from the dumped pre-state is compared with the dumped post-state and the pool equation is evaluated on the implementation's own state.",
    level_note="Trusted: Lean kernel (axioms propext, Classical.choice, Quot.sound), harness + driver parser, the x/auth bank primitives (modelled as integer transfers; their own conservation is C17/C18). Modern rule set only (all features active from block 2); governance is not modelled (new parameter values are read from the dump). BurnForChallenge's amount formula is C27's (the driver recovers the requested amount from the outcome).",
)

DRIVER = "Driver/C19.lean"
RULE = ("nodesdrive: histories of 36 blocks on the real app (8 node keys, 4 output/stranger keys, 3-6 genesis validators at/above the minimum, "
        "random MaxValidators 1-5, BlocksPerSession 2-5 (1-5 through governance), UnstakingTime 0..30h, window 10-12 (3-10 through governance), "
        "MaxJailedBlocks 2..1000, slash fractions 1%..100%); per block: time step 1s..31h, votes of the accumulated consensus set with per-node "
        "miss rates, occasional double-sign evidence (age around MaxEvidenceAge, heights around the limit), 0-6 actions drawn from the current state: "
        "new stakes at/below/above minimum, edit-stakes up/same/down/next-bin with chains/URL/output/delegator changes signed by operator, output, new output "
        "or stranger, begin-unstake, unjail, governance parameter changes, direct slashes (amounts around the stake and the minimum), BurnForChallenge, "
        "RewardForRelays, plain sends (also to the pool address); non-trivial = accepted transaction / positive slash / block with votes or updates")


def run(ctx):
    import importlib.util, os as _os
    _sp = importlib.util.spec_from_file_location("_writers", _os.path.join(_os.path.dirname(__file__), "_writers.py"))
    _w = importlib.util.module_from_spec(_sp); _sp.loader.exec_module(_w)
    _w.run(ctx, ['x/nodes/keeper', 'x/nodes'])
    ctx.lean_proofs("Props.C19")
    ctx.rule(RULE)
    ctx.trust("x/auth bank keeper (SendCoins/MintCoins/BurnCoins) is modelled as exact integer transfers",
              "governance handler is not modelled: new parameter values are taken from the implementation's dump")
    ctx.assume("modern rule set (all features active from block 2); the staking pool's address is not an ordinary account of the model")
    n = 4000 if ctx.thorough else 250
    ctx.stream("nodes", "nodesdrive", DRIVER, n=n, args=["-mode", "c19"])
    if ctx.thorough:
        for s in range(2):
            ctx.stream(f"nodes-s{s}", "nodesdrive", DRIVER, n=3000, seed=ctx.seed * 1000 + 19 + s, args=["-mode", "all"])


def search(ctx):
    for s in range(2):
        ctx.stream(f"search{s}", "nodesdrive", DRIVER, n=600, seed=ctx.seed * 7919 + s, args=["-mode", "c19"], count=False)
