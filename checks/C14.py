"""C14 Only authorized signers can make a transaction change state (DESIGN.md §5 C14)."""
import os, sys
sys.path.insert(0, os.path.dirname(os.path.abspath(__file__)))
import ante_common
import verif

META = dict(
    engine="E-CHAIN",
    technique="Lean 4 proof over an executable model of ValidateTransaction (signer list incl. output-address and application-transfer signers, per-signer loop, halt-height exemption, multisig depth) and of runTx/DeliverTx with arbitrary message handlers + transition checking against the real PocketCoreApp, one DeliverTx at a time",
    level_text="Kernel-checked theorems for all transactions, states, signature schemes and handlers: a DeliverTx that changes state at a height other than 30334 carries a signature that verifies over this chain's sign document under a key whose address is in the documented allowed set (state_change_requires_auth); at height 30334 this is false (halt_height_any_signer: counterexample theorem, reproduced on the real code by running the real ante handler at that height every run and a real 30334-block chain in the thorough tier); a signature made for another chain id changes nothing unless one signature verifies for two documents (wrong_chain_rejected); empty signature, omitted key, key outside the allowed set change nothing (missing_or_other_key_noop); for the messages that name their own signer (node unstake/unjail) and for node stake the handler-level checks pin the key to operator or output address (unstake_unjail_signer_rule, stake_signer_rule). Every run drives the real app over the message × signer-relation × signature-defect matrix and evaluates 'state changed ⇒ an allowed key verifies' on the implementation's own dumps.",
    level_note="Trusted: Lean kernel; axioms propext, Classical.choice, Quot.sound; the Go harness and the driver's parser. Not provable: unforgeability (the theorem says a verifying allowed key exists, not that its owner signed). StdSignBytes is a parameter assumed injective in the chain id; the harness rebuilds the sign document independently and compares it with StdSignBytes on every tx. ValidateEditStake's non-signer rules and the gov ACL are other properties' subject.",
)

DRIVER = "Driver/C14.lean"


def run(ctx):
    ante_common.constants(ctx, verif.REPO)
    ctx.lean_proofs("Props.C14")
    ctx.rule("c14: real app as in c15; parts: modern rule set (60%), application-transfer feature inactive so that the public key may come from the "
             "account (20%), and the real ante handler run with a context at height 30334 (20%). Core: node MsgStake for records that are on file but not ordinary staked nodes — a leftover record with status Unstaked (output address kept), an Unstaking record, a jailed staked record — signed by a stranger naming itself as output, a stranger naming the recorded output, the recorded output address, the operator (judged by Ledger.stakeSignerChecks on the dumped record: handler-accepted-unauthorized-signer); application MsgStake that is NOT transfer-shaped (amount > 0, chains) naming somebody else's key — victims: an existing staked app, a funded non-app account — signed by a staked app's key, an unstaking app's key, a key without app; non-custodial edit-stake signed by output "
             "address / operator / stranger, application transfer signed by the application / a stranger / the new key, multisig in and out of "
             "order, a transfer out of somebody else's account signed by a stranger; output-address edits and an application transfer whose signer is not in Msg.GetSigners(); the multisig matrix: accounts of 2, 3 and 4 keys × {all members in order, reversed, every strict prefix, every single omission, a non-member's signature at each position, an extra signature, member 0 duplicated everywhere, an empty slot, no signatures} — the verdict for a multisig key is composed by the driver (Ledger.multisigOk) from per-position member verdicts, never taken from the real multisig VerifyBytes. Random: 15 message kinds × {declared signer, alternative "
             "signer, stranger, key without account, multisig stranger, multisig misordered / too deep} × 45% defects {flipped byte, other chain "
             "id, empty signature, key omitted, long memo}. non-trivial = the real ante handler passed; distinct = distinct trace line. "
             "Thorough tier: a real chain of 30335 blocks with deliveries at heights 30333-30335")
    ctx.trust(*ante_common.COMMON_TRUST)
    ctx.assume("public-key addresses are non-empty (20 bytes for every real key type)")
    n = 4000 if ctx.thorough else 330
    ctx.stream("signers", "c14", DRIVER, n=n, timeout=3000, drv_timeout=3000)
    if ctx.thorough:
        ctx.stream("haltchain", "c14", DRIVER, n=60, args=["-only", "haltchain"], timeout=3000)
        for s in range(2):
            ctx.stream(f"signers-s{s}", "c14", DRIVER, n=2000, seed=ctx.seed * 1000 + 141 + s, timeout=3000, drv_timeout=3000)


def search(ctx):
    for s in range(3):
        ctx.stream(f"search{s}", "c14", DRIVER, n=400, seed=ctx.seed * 7919 + s, count=False, timeout=3000, drv_timeout=3000)
