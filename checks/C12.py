"""C12 Block execution is a deterministic function of chain data (DESIGN.md §5 C12)."""
import importlib.util
import os
import sys

sys.path.insert(0, os.path.join(os.path.dirname(os.path.abspath(__file__)), "..", "lib"))
import verif  # noqa: E402

_spec = importlib.util.spec_from_file_location("factslib", os.path.join(os.path.dirname(os.path.abspath(__file__)), "facts", "factslib.py"))
factslib = importlib.util.module_from_spec(_spec)
_spec.loader.exec_module(factslib)

EXPECTED = os.path.join(os.path.dirname(os.path.abspath(__file__)), "facts", "C12.expected.json")

META = dict(
    engine="E-CHAIN + E-FACTS",
    technique="Lean 4 proof with the runtime's freedoms (map iteration order per range site, wall clock) as explicit oracle arguments + regenerated source facts (every map range / time.Now / go / select / rand site of the consensus-path packages, classified) + repeated execution of generated chain data in fresh processes of the real PocketCoreApp",
    level_text="Kernel-checked: code whose map-range sites are order-invariant and whose clock reads are dead computes the same state for all oracles, for whole histories (block_indep_of_oracles, history_indep_of_oracles), with the per-site lemmas for the shapes that occur (commuting folds, sorted-before-use, any/all, unique lookup). For the code as it is now the reward split (NormalizeRewardDelegators sorts by address: split_order_indep — recipients, amounts and ORDER of the payments are oracle independent, hence account-creation order, tree shape and app hash), InitGenesis over the genesis maps (genesisSite_oracleFree) and the unjail check (no clock read: unjailSite_oracleFree, unjail_indep_of_now) are oracle-free at store level, and a block composed of them and arbitrary deterministic code is (consensus_sites_indep). The counterexamples for the code before the fixes are kept as historical_* theorems. Tie: the site list is regenerated from the working tree on every run and must equal the classified list (a new or moved site, a removed sort, or any time.Now outside the dead-clock/off-consensus classes breaks the tie); the real SplitNodeRewards/NormalizeRewardDelegators are compared with the model on generated inputs including the ORDER of the callbacks; each generated history (exact transaction bytes generated once) is executed 5 times in fresh processes and compared block by block.",
    level_note="PARTIAL: the Go runtime itself (scheduler, map hashing, time) is represented by oracle parameters; independence from the oracle is proved for the classified shapes, the runtime is only exercised (5 processes per history; the iterator goroutine of store/iavl is exercised, not modelled). The classification of each site (which lemma shape it has, whether it is on the consensus path) is a reviewed judgement recorded in checks/facts/C12.expected.json, not a proof about Go source. The site extractor is syntactic with a repository-wide symbol table; it was compared once with a go/types run (identical 105 sites; the go/types run takes ~28 min offline and is not part of the check). Trusted: Lean kernel (propext, Classical.choice, Quot.sound), harness/driver parser.",
)


def run(ctx):
    ctx.lean_proofs("Props.C12")
    factslib.run_facts(ctx, verif, EXPECTED, {"range-map", "wall-clock", "go-stmt", "select", "rand"}, "F1-nondeterminism-sites")
    ctx.rule("c12: (a) pure stream: 400 (quick) generated delegator maps (0-4 entries over 6 addresses, shares from {0,1,5,10,25,33,50,60,99,100}, ~7% non-hex and ~7% wrong-length keys) "
             "and rewards from {0,-5,1,7,99,100,101,12345,1e9+7,1e12-1} through the real NormalizeRewardDelegators/SplitNodeRewards; (b) histories executed 5 times in fresh processes: "
             "generic (chain.World.GenBlock, 4-11 blocks; block 1 runs every module's ConvertState in map order), delegators (proposer edit-stakes with 4 reward delegators without "
             "accounts, then fee-paying blocks: the proposer reward is split by Keeper.blockReward), genesismaps (6 signing infos / missed-block arrays for addresses without a validator "
             "in the genesis maps), unstakequeue (five consensus validators, four begin unstaking in one session and leave the validator set in one block — single-run spec: each leaver exactly once with power 0, no duplicate updates —, one is slashed for a double sign while unstaking), and — thorough tier and search stage only — unjail (JailedUntil 15 s after the check starts, block time >= JailedUntil, half of the runs start after it has passed); "
             "non-trivial = non-empty delegator map / every block line; distinct = distinct trace line")
    ctx.trust("repeat runs differ only in process (Go map seeds, goroutine scheduling) and, for the unjail history, start time")
    ctx.assume("5 executions per history sample the runtime's choices; they do not enumerate them")
    n = 60 if ctx.thorough else 8
    # the wall-clock history waits ~20 s for real time to pass: thorough tier (and search stage) only,
    # now that no consensus code reads the clock (pinned by the facts check above)
    args = ["-pure", "20000"] if ctx.thorough else ["-pure", "400", "-no-unjail"]
    ctx.stream("repeat", "c12", "Driver/C12.lean", n=n, args=args, timeout=3000)
    if ctx.thorough:
        ctx.stream("repeat-s1", "c12", "Driver/C12.lean", n=40, seed=ctx.seed * 1000 + 47, args=["-pure", "20000", "-repeats", "8"], timeout=3000)


def search(ctx):
    # look for a nondeterminism witness: more histories, more repeats
    for s in range(2):
        ctx.stream(f"search{s}", "c12", "Driver/C12.lean", n=16, seed=ctx.seed * 7919 + s, args=["-pure", "2000", "-repeats", "8"], count=False, timeout=3000)
