"""C21 Node lookup indexes always agree with node records (DESIGN.md §5 C21)."""
import importlib.util, os
_spec = importlib.util.spec_from_file_location("_nodes", os.path.join(os.path.dirname(os.path.abspath(__file__)), "_nodes.py"))
_nodes = importlib.util.module_from_spec(_spec)
_spec.loader.exec_module(_nodes)

META = dict(
    engine="E-CHAIN",
    technique="Lean 4 proof (index exactness as part of the structural invariant of the x/nodes store: every keeper operation is shown to replace one record and adjust each index accordingly; induction over arbitrary operation lists) + raw store prefixes of the real app decoded and checked after every phase of every block",
    level_text="Kernel-checked for all histories: the staked-by-power index (0x23) lists exactly the staked unjailed nodes under their current power, without duplicates; the per-chain index (0x22) exactly the staked nodes under each declared chain; the unstaking queue (0x41) exactly (as a set) the unstaking nodes under their completion time; no entry of these names a missing or differently-stated node. Counterexample theorems for the read path of 0x22 (GetValidatorsByChain is a prefix scan of 0x22||identifier without separator and identifiers of 1 and 2 bytes are accepted: a shorter query returns 21-byte, a longer query 19-byte pseudo-addresses; exact when all indexed identifiers have the query's length) and for the waiting set (0x43): a dangling key is reachable and delays other nodes' release by one session. Tie: prefixes 0x21/0x22/0x23/0x31/0x41/0x43/0x11/0x12 of the real store are dumped raw after every BeginBlock / DeliverTx / keeper call / EndBlock, decoded, compared with the model transition and judged by the same decidable predicates; the real GetValidatorsByChain is called after every block for every declared identifier and the colliding ones and judged against 'exactly the staked nodes declaring it'.",
    level_note=_nodes.NOTE,
)


def run(ctx):
    import importlib.util, os as _os
    _sp = importlib.util.spec_from_file_location("_writers", _os.path.join(_os.path.dirname(__file__), "_writers.py"))
    _w = importlib.util.module_from_spec(_sp); _sp.loader.exec_module(_w)
    _w.run(ctx, ['x/nodes/keeper', 'x/nodes'])
    ctx.lean_proofs("Props.C21")
    _nodes.run_nodes(ctx, "C21", "c21")


def search(ctx):
    _nodes.search_nodes(ctx, "C21", "c21")
