"""Chain-level half of C37 (feature upgrades survive a restart), called from checks/C37.py:

    import importlib.util, os
    spec = importlib.util.spec_from_file_location("c37chain", os.path.join(os.path.dirname(__file__), "_c37chain.py"))
    m = importlib.util.module_from_spec(spec); spec.loader.exec_module(m)
    m.run_chain(ctx)          # in run(ctx);   m.search_chain(ctx) in search(ctx)

Signed MsgUpgrade transactions (new version, feature-only by FEATURE / by height 1, duplicates,
re-scheduling, malformed "k:v", non-owner signer, ValidateBasic rejects) go through the real DeliverTx
of the real app on GoLevelDB in a scratch directory under /verif/out; the restart is a re-exec of the
harness command on the same directory (fresh process: codec globals at their start-up values), and the
Lean driver compares codec.UpgradeFeatureMap / UpgradeHeight / OldUpgradeHeight and the activation
predicates before and after, and both with PocketModel/Upgrade.lean.
"""

DRIVER = "Driver/C37chain.lean"

RULE = ("c37chain: scenarios of 1-7 signed MsgUpgrade txs on the real app over GoLevelDB, 2/3 'modern' (chain-lib default: stored upgrade "
        "height 2, all features at 2), 1/3 'fresh' (mainnet-style genesis upgrade {Height 0, Version \"0\"}, process-start globals, heights below "
        "the built-in codec height 30024: first upgrade goes through the pre-codec branch of HandleUpgrade), thorough tier also 'fresh30k' "
        "(the fresh chain taken past block 30024 by empty blocks, then a feature-only upgrade); upgrades: new version (never above the "
        "binary's 0.12.0), FEATURE with height 1 or arbitrary, height-1 with another version, height 0 (rejected); features over 7 keys "
        "(2 real, 5 synthetic sharing prefixes) at heights {h, h+1, h+2, h+5, 3, 10^6, 0}, ~1/3 odd forms (no colon, second colon, empty, "
        "'+n', non-numeric), exact duplicates; 1/6 non-owner signer; every scenario ends with a restart in a fresh process; predicates "
        "probed for 9 keys at heights around every scheduled one; non-trivial = accepted upgrade, restart")


def run_chain(ctx):
    ctx.rule(RULE)
    ctx.trust("restart = re-exec of harness/cmd/c37chain with -role restart on the same GoLevelDB directory (nothing touches the codec globals before NewPocketCoreApp; the command checks that itself)")
    ctx.stream("chain-restart", "c37chain", DRIVER, n=40 if ctx.thorough else 6, timeout=3000)
    if ctx.thorough:
        ctx.stream("chain-restart-deep", "c37chain", DRIVER, n=3, args=["-deep"], seed=ctx.seed + 37, timeout=6000)


def search_chain(ctx):
    for s in range(2):
        ctx.stream(f"search-chain{s}", "c37chain", DRIVER, n=15, seed=ctx.seed * 7919 + 370 + s, count=False, timeout=3000)
