"""C23 Edit-stake respects the documented immutability rules (DESIGN.md §5 C23)."""
import importlib.util, os
_here = os.path.dirname(os.path.abspath(__file__))
def _load(name):
    spec = importlib.util.spec_from_file_location(name, os.path.join(_here, name + ".py"))
    mod = importlib.util.module_from_spec(spec)
    spec.loader.exec_module(mod)
    return mod
_nodes = _load("_nodes")

META = dict(
    engine="E-CHAIN",
    technique="Lean 4 proof (decision logic of ValidateValidatorStaking ∘ ValidateEditStake ∘ EditStakeValidator as coded, stated as implications from 'DeliverTx succeeded on an already staked record'; applications: the twin theorems of lean/Proofs/Ledger/AppsEdit.lean) + the signer × changed-field matrix delivered to the real PocketCoreApp",
    level_text="Kernel-checked for every state, message and signer: an accepted edit of a staked node never lowers the stake, keeps address, public key, jailed flag, status and unstaking time, was signed by the operator or the current output address, changes the output address only if the current output address signed (or none was set), never sets a nil output, changes the reward delegators only if the operator signed, must reach a higher stake bin below the weight ceiling, and is impossible while the node waits to unstake; a rejected message changes nothing. Applications: never lowers the stake, keeps public key/jailed/status/unstaking time (re-exported from C23apps). Tie: edit-stakes with amount below/equal/above/next-bin, changed chains, URL, output, delegators, signed by operator, current output, new output or stranger; record before/after every DeliverTx compared with the model and judged by the same rules; applications via the appsdrive stream.",
    level_note=_nodes.NOTE + " doc/specs/msgstake_flow.md was compared by hand with the model (signer sets of the ante handler, pos:125/127 paths): no disagreement.",
)


def run(ctx):
    ctx.lean_proofs("Props.C23")
    _nodes.run_nodes(ctx, "C23", "c23", quick=180)
    try:
        _load("_c23apps").run_apps(ctx)
    except FileNotFoundError:
        ctx.notes.append("application half (checks/_c23apps.py) not present")


def search(ctx):
    _nodes.search_nodes(ctx, "C23", "c23")
