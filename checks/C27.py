"""C27 Stake-weighted reward computation terminates and is monotone (DESIGN.md §5 C27)."""

META = dict(
    engine="E-PURE",
    technique="Lean 4 proof: general monotonicity lemmas through banker's rounding (Mul/Quo/Power/Truncate), Newton-iterate non-negativity and fuel-irrelevance by induction; finite table of ApproxRoot(100) for bins 0..498 by `decide +kernel` over a Nat evaluator proved sound against the model (16 modules); overflow theorem for every bin >= 499; differential correspondence vs the real BigDec.ApproxRoot/FracPow and the real x/nodes keeper (CalculateRelayReward, BurnForChallenge) with a wall-clock limit per call",
    level_text="Kernel-checked for all stakes, relay counts, multipliers, weight multipliers and ALL exponents (on or off the 1/100 grid): the reward/burn computation terminates (180 Newton iterations always suffice, for every bin), is never negative, is monotone in the relay/challenge count, constant above the ceiling (reward), and monotone in the stake whenever ceiling/floor <= 498. Counterexample theorems (both replayed on the real code, known findings): from bin 499 on ApproxRoot(100) overflows and FracPow returns 1 (reward_mono_stake_fails_large_bins); BurnForChallenge's own flooring makes the burn non-monotone and non-constant above the ceiling at any parameters (burn_not_monotone), with burn_mono_partial excluding exactly those stakes.",
    level_note="Trusted: Lean kernel; axioms propext, Classical.choice, Quot.sound; the Go harness and the driver's parser; math/big. The model is hand-written and tied by exact comparison on bins 0..2000, all 101 grid exponents, random parameter sets, and stakes around bin boundaries / the ceiling. 'Valid parameter set' is defined here (floor > 0, floor <= ceiling, weight multiplier > 0) because pocket-core validates none of the PIP-22 parameters. ApproxRoot on decimals below 0.1 (never passed by the reward code) does not terminate on the real code and in the model (noted, outside the property).",
)


def run(ctx):
    ctx.lean_proofs("Props.C27")
    ctx.rule("c27: (gen) random PIP-22 parameter sets (floor in {1,2,3,7,15,1000,15e9,rand}, ceiling = floor*maxBin(+remainder) with maxBin "
             "weighted to 1,4,<=60,<=496,495..501,497..2000; weight multiplier in {1,.5,2,1.5,.01,7/3,1e-18,1000}; exponent on the 1/100 grid weighted to "
             "1.00/.50/0/.01/.99), stake pairs s1<=s2 at bin boundaries, around/above the ceiling; relay pairs; burns on a fresh validator; "
             "ApproxRoot/FracPow on integers and non-integers >= 0.1, exponents on and off the grid | (bins) every bin 0..2000: root, FracPow at "
             "1.00 and a random exponent, reward pair (bin, bin+1) | (rows) all 101 grid exponents for a sweep of bins 0..2000. "
             "non-trivial = numeric result (no panic/timeout) and, for reward/burn, a non-zero amount; distinct = distinct trace line")
    ctx.trust("math/big (Go) is not modelled: results are compared as decimal strings",
              "the burned amount is observed as the validator's token delta (capped by the stake); capped lines are compared but not judged")
    ctx.assume("valid parameter set := floor > 0, floor <= ceiling < 2^255, weight multiplier > 0 (pocket-core itself validates none of these)")
    if ctx.thorough:
        ctx.stream("gen", "c27", "Driver/C27.lean", n=40000, args=["-mode", "gen"], timeout=3000, drv_timeout=3000)
        ctx.stream("bins", "c27", "Driver/C27.lean", n=0, args=["-mode", "bins", "-lo", "0", "-hi", "2000"], timeout=3000, drv_timeout=3000)
        ctx.stream("rows", "c27", "Driver/C27.lean", n=0, args=["-mode", "rows", "-lo", "0", "-hi", "2000", "-step", "1"], timeout=3000, drv_timeout=3000)
        for s in range(2):
            ctx.stream(f"gen-s{s}", "c27", "Driver/C27.lean", n=20000, seed=ctx.seed * 1000 + 31 + s, args=["-mode", "gen"], timeout=3000, drv_timeout=3000)
    else:
        ctx.stream("gen", "c27", "Driver/C27.lean", n=1200, args=["-mode", "gen"])
        ctx.stream("bins", "c27", "Driver/C27.lean", n=0, args=["-mode", "bins", "-lo", "0", "-hi", "2000"])
        ctx.stream("rows", "c27", "Driver/C27.lean", n=0, args=["-mode", "rows", "-lo", str(ctx.seed % 50), "-hi", "2000", "-step", "50"])
    ctx.stream("witness", "c27", "Driver/C27.lean", n=0, args=["-mode", "witness"], count=False)


def search(ctx):
    for s in range(3):
        ctx.stream(f"search{s}", "c27", "Driver/C27.lean", n=8000, seed=ctx.seed * 7919 + s, args=["-mode", "gen"], count=False, timeout=3000, drv_timeout=3000)
