"""C18 Transfers move exactly the requested amount or nothing (DESIGN.md §5 C18)."""

META = dict(
    engine="E-CHAIN",
    technique="Lean 4 proof (exact debit/credit, self-send, insufficient-funds no-op, failure ⇒ nothing written, account creation, module recipient, non-negative balances as an invariant of every history) + signed MsgSend transactions through the real DeliverTx with the bank state dumped before and after, judged by the executable spec and compared with the model",
    level_text="Kernel-checked for all states, addresses and amounts: a covered send debits and credits exactly the amount and touches no other entry nor the supply; a self-send changes nothing; an uncovered, zero, negative or otherwise failing send writes nothing; a recipient without an account gets a fresh base account with exactly the amount; a module-account recipient stays a module account; no balance is negative after any history of bank operations. Tied to /repo every run: generated signed sends (amounts 0, 1, balance−fee, balance−fee±1, balance, balance+1, MaxInt64, negative, random; self, new, keyless and module-account recipients; senders without an account) run through the real app's DeliverTx; the Lean driver removes the fee and checks exactness on the implementation's own before/after dumps and equality with the model's post-state.",
    level_note="Trusted: Lean kernel; axioms propext, Classical.choice, Quot.sound; Go harness and driver parser. Single denomination (upokt) at ledger level — canonical form of a stored coin set reduces to balance ≥ 0; the multi-denomination coin algebra (sorted, positive, no duplicates under Add/Sub) is C41's theorems. Fee semantics are C15's: the driver only distinguishes 'fee charged' from 'ante aborted' by the fee collector's balance. Amounts are unbounded integers in the model (MsgSend carries an int64 in the harness).",
)

DRIVER = "Driver/C18.lean"


def run(ctx):
    ctx.lean_proofs("Props.C18")
    ctx.rule("c18: blocks of 1-4 signed MsgSend txs on the real app from height 2; senders: 5 funded accounts, a validator, an app, "
             "the gov owner, 3 keys without an account (which get funded by others over time); recipients: those, the 6 module "
             "addresses, 3 keyless addresses, 1/8 self-sends; amounts {0, 1, bal−fee, bal−fee−1, bal−fee+1, bal, bal+1, MaxInt64, "
             "negative, bal/2, random}; fee 100000 or the exact minimum 10000; accounts get drained and refilled; "
             "non-trivial = code 0; distinct = distinct trace line")
    ctx.assume("genesis balances are non-negative and supply = Σ balances (checked by the init line)")
    ctx.stream("sends", "c18", DRIVER, n=20000 if ctx.thorough else 1500)
    if ctx.thorough:
        for s in range(3):
            ctx.stream(f"sends-s{s}", "c18", DRIVER, n=8000, seed=ctx.seed * 1000 + 181 + s)


def search(ctx):
    for s in range(3):
        ctx.stream(f"search{s}", "c18", DRIVER, n=4000, seed=ctx.seed * 7919 + s, count=False)
