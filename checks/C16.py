"""C16 A signed transaction can take effect at most once (DESIGN.md §5 C16)."""
import os, sys
sys.path.insert(0, os.path.dirname(os.path.abspath(__file__)))
import importlib.util
import ante_common
import verif

_spec = importlib.util.spec_from_file_location("c16wire", os.path.join(os.path.dirname(os.path.abspath(__file__)), "_c16wire.py"))
c16wire = importlib.util.module_from_spec(_spec)
_spec.loader.exec_module(c16wire)

META = dict(
    engine="E-CHAIN",
    technique="Lean 4 proof (invariant over arbitrary histories of DeliverTx / block end / other state changes: replay guard = in-block cache keyed by raw bytes + tx-indexer lookup by hash of raw bytes, fed with every non-ante-level result) + transition checking against the real PocketCoreApp with resubmitted and re-encoded byte strings",
    level_text="Kernel-checked theorems for all histories, decoders, hash functions and handlers: the same byte string changes state in at most one DeliverTx (same_bytes_once); the same statement for 'same decoded content' is false (same_content_once_fails: counterexample theorem; byte-level witnesses reencode_replays in Props/C16wire; reproduced on the real app for 17 re-encoding classes, same block and later block) and holds when the delivered encodings are canonical (same_content_once_partial). Every run resubmits earlier byte strings unchanged and re-encoded to the real app and evaluates 'executed at most once' on the implementation's own state changes; the model's indexer feed rule is compared with the real indexer's answers.",
    level_note="Trusted: Lean kernel; axioms propext, Classical.choice, Quot.sound; the Go harness and the driver's parser. Assumptions of same_bytes_once: message handlers never return codespace auth with code < 10 (regenerated source fact), the indexer is fed after each block (Tendermint's job, done by the harness). Which byte strings decode to the same signed content is established by Props/C16wire + stream c16wire (codec package, run by this check); in Props/C16 the decoder is a parameter.",
)

DRIVER = "Driver/C16.lean"


def run(ctx):
    ante_common.constants(ctx, verif.REPO)
    ante_common.no_ante_codes_elsewhere(ctx, verif.REPO)
    ctx.lean_proofs("Props.C16")
    c16wire.run(ctx, n=None if ctx.thorough else 400)   # byte-level half (codec package): Props.C16wire + the real decoder on rewritten frames
    ctx.rule("c16: real app as in c15. Re-encodings come from the byte-level rewriter harness/internal/wirerw (the one judged against the real "
             "decoder in stream c16wire): 25 classes, 17 content-preserving, 8 that must be rejected or change the content. Core: one tx of every "
             "outcome class {code 0; ante reject auth/<10; ante reject in the root codespace (sdk/4); handler failure after the fee with a ROOT code < 10 "
             "(DAO transfer / burn by a non-owner); handler failure with a module code (pos, gov); root code >= 10 (sdk/10)} and the identical bytes "
             "again in the next block and the block after; blocks that end with / contain an ante-level rejection next to executed txs — "
             "[T,U] [U,T] [T,U,T'] [T,U,U] for U = signer that cannot pay (auth/6), over-long memo (auth/1), in-block duplicate (auth/6) — and "
             "every executed T again byte for byte in the next two blocks; then for each class "
             "original + variant + original again in one block, and original in one block then variant + original in the next. Random: 30% "
             "unchanged resubmissions and 30% re-encodings of any of the last 400 byte strings (also of failed ones and of variants), rest fresh "
             "txs (15 message kinds, 8% signature and fee defects), blocks of 1-4 txs. non-trivial = the real ante handler passed; distinct = "
             "distinct trace line")
    ctx.trust(*ante_common.COMMON_TRUST)
    ctx.assume("the tx indexer is fed with every block's results before the next block (the harness does what Tendermint's indexer service does)")
    n = 4000 if ctx.thorough else 330
    ctx.stream("replay", "c16", DRIVER, n=n, timeout=3000, drv_timeout=3000)
    if ctx.thorough:
        for s in range(2):
            ctx.stream(f"replay-s{s}", "c16", DRIVER, n=2000, seed=ctx.seed * 1000 + 161 + s, timeout=3000, drv_timeout=3000)


def search(ctx):
    c16wire.search(ctx)
    for s in range(3):
        ctx.stream(f"search{s}", "c16", DRIVER, n=400, seed=ctx.seed * 7919 + s, count=False, timeout=3000, drv_timeout=3000)
