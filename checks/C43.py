"""C43 Exported genesis reproduces the exported state (DESIGN.md §5 C43)."""

META = dict(
    engine="E-CHAIN",
    technique="Lean 4 proof over an executable model of ExportAppState and of every module's ValidateGenesis / InitGenesis as coded "
              "(general negative theorem, exact partial round-trip theorem, kernel-checked counterexamples, rebuilt-index exactness) + "
              "export -> init on the real application in separate processes: InitChain on the export, then the per-module steps, every "
              "component of the reached state compared with the exporting node (property) and with the model's prediction",
    level_text="Kernel-checked: (1) for every ledger in which an account without public key holds coins (every module account: pools, DAO) "
               "InitChain on the export crashes in auth ValidateGenesis - the round trip never succeeds on a chain with any stake; (2) for "
               "every ledger satisfying the stated well-formedness the InitGenesis steps complete and reproduce nodes, applications, claims "
               "and accounts exactly, with supply' = supply + staked node tokens + staked application tokens + DAO balance and the DAO "
               "account doubled; (3) concrete counterexamples for allowance, supply, DAO, post-genesis parameters, unstaking node / "
               "application exits, ACL exit and the three rejecting validations; (4) the staked index and pool rebuilt by apps.InitGenesis "
               "are exact. The property as stated is FALSE of the code; each cause is replayed on the real application on every run and "
               "listed as a known finding, any other difference is a violation.",
    level_note="Trusted: Lean kernel; axioms propext, Classical.choice, Quot.sound; Go harness, driver parser. Modelled for the only workable "
               "schedule of this version (new chain at height 0, codec upgrade at 1, features from 2): legacy node encoding and skipped "
               "post-genesis parameters at InitGenesis follow from it. Account numbers, missed-block bit arrays, validator updates returned to "
               "Tendermint and JSON encoding are not modelled. Exporting-node records are read from the raw store prefixes, not through the exporting getters.",
)

RULE = ("c43: histories of 3..27 blocks on the default modern chain (3 validators, 2 servicers, 3 applications, 5 accounts), flavours: quiet; "
        "shared mostly-valid generator (sends, node/app stake-edit-unstake, unjail, gov, DAO, missed votes, double-sign evidence); application "
        "lifecycle (stake/edit/transfer/unstake/param changes) alone or mixed with it, with and without unstake messages; real MsgClaim "
        "transactions of the nodes for ended 4-block sessions plus three keeper-written claims of three different nodes in the last block; ExportAppState at the last height; a new process initialises a fresh node from the JSON. "
        "non-trivial = component non-empty at export; distinct = distinct trace line")


def run(ctx):
    ctx.lean_proofs("Props.C43")
    ctx.rule(RULE)
    ctx.trust("ExportAppState / InitChain run in separate OS processes (pocket-core keeps consensus state in package globals and ends the process on genesis errors)",
              "components outside the property's list (signing infos, previous-state powers, indexes) are compared with the model only")
    ctx.stream("roundtrip", "c43", "Driver/C43.lean", n=(48 if ctx.thorough else 6), timeout=3000)
    if ctx.thorough:
        ctx.stream("roundtrip-s2", "c43", "Driver/C43.lean", n=32, seed=ctx.seed * 1000 + 43, timeout=3000)


def search(ctx):
    ctx.stream("search", "c43", "Driver/C43.lean", n=16, seed=ctx.seed * 7919 + 3, timeout=3000, count=False)
