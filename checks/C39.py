"""C39 Signatures verify exactly for the signing key and message (DESIGN.md §5 C39)."""

META = dict(
    engine="E-CRYPTO",
    technique="Lean 4 proof of pocket-core's composition logic over abstract signature primitives (multisig = exact count + positional verification; length dispatch and go-amino key encodings round-trip incl. nested multisig; address stability) + differential correspondence vs the real crypto package with the primitive verdicts supplied as an oracle table + mutation testing of the primitives",
    level_text="Kernel-checked for all key lists, messages and signature lists: PublicKeyMultiSignature.VerifyBytes accepts iff same count and every position verifies under the member key at that position (order matters, subsets/duplicates rejected, genuine signatures accepted); NewPublicKeyBz(RawBytes k)=k and PubKeyFromBytes(Bytes k)=k for every well-formed key of every kind (nested multisig included; a multisig encoding is never 32/33 bytes); addresses stable for any hash; MultiSignature round-trips; AddSignatureByIndex puts a signature at its index for every list and index, and a multisig assembled by the members in ANY signing order verifies iff every member's signature verifies (assemble_any_order, assembled_multisig_verifies_iff). The real code is run on generated keys/messages/mutations every run and compared with the model; the multisig composition is evaluated by the Lean driver from the real member verdicts.",
    level_note="PARTIAL by nature: ed25519/secp256k1 are parameters (structure SigScheme with the correctness law as a field). The 'only if produced by the matching private key' direction is a computational unforgeability statement and is NOT proved; it is covered only by mutation testing (single-byte message/signature/key mutations, foreign signatures, truncations must be rejected by the real primitives). go-amino is modelled by hand for the three key types and MultiSignature (tied differentially, including malformed encodings). Trusted: Lean kernel; axioms propext, Classical.choice, Quot.sound; Go harness and driver parser.",
)


def run(ctx):
    ctx.lean_proofs("Props.C39")
    ctx.rule("c39: deterministic ed25519/secp256k1 keys from the PRNG; per case one of: key encodings + dispatch/amino/JSON round trips + address (hashes handed over as oracle table); "
             "single-key verification of a genuine signature and of mutations (each of message/signature/key bytes, truncation, extension, empty, foreign key/signature); "
             "multisig keys of 2-8 members (1/6 nested) with the genuine signature list and every adjacent swap, end swap, rotation, every omission, every adjacent duplicate, extra, empty, stranger, "
             "message/signature mutation, mutated/truncated/garbage encodings; multisig keys that repeat a member key (adjacent, non-adjacent, all equal, across kinds, nested) with one bad signature per slot; decoder-only keys (empty, single member, nil member); malformed key encodings (byte mutations, truncation, unknown trailing fields, "
             "non-minimal varints, disfix form, random bytes of the dispatch sizes); Equals across kinds; AddSignatureByIndex on random (length,index); AddSignature assembly in random member order. "
             "non-trivial = accepted verification / successfully decoded key / no panic; distinct = distinct trace line")
    ctx.trust("ed25519, secp256k1, sha256, ripemd160 implementations are not modelled: their verdicts/digests enter the model as data",
              "go-amino reflection codec is modelled by hand for PublicKey implementers and MultiSignature; tied by differential testing only")
    ctx.assume("unforgeability of ed25519/secp256k1 (not provable; mutation-tested)",
               "member signatures of real schemes are never empty (an empty signature is treated as absent by GetSignatureByIndex)")
    n = 6000 if ctx.thorough else 400
    ctx.stream("crypto", "c39", "Driver/C39.lean", n=n)
    if ctx.thorough:
        for s in range(3):
            ctx.stream(f"crypto-s{s}", "c39", "Driver/C39.lean", n=4000, seed=ctx.seed * 1000003 + 7919 * (s + 1))


def search(ctx):
    for s in range(3):
        ctx.stream(f"search{s}", "c39", "Driver/C39.lean", n=3000, seed=ctx.seed * 2000003 + 104729 * (s + 1), count=False)
