"""C10 Enabling the state cache never changes what any read returns (DESIGN.md §5 C10)."""

# Which model of store/rootmulti/heightcache the driver must use:
#   "asis"  - the code as it is in /repo today (defects modelled; they surface as KNOWN-FINDING lines)
#   "fixed" - the code after fixes/C10-heightcache.patch (full theorem C10.cache_transparent applies)
#   "auto"  - decided by the harness' probe of the real code; a code base that answers the probe like
#             neither model makes the check fail.
MODE = "fixed"

META = dict(
    engine="E-KV",
    technique="Lean 4 proof (invariant `slot h = committed h` over arbitrary histories; index-arithmetic iterator vs range filter) + twin-store differential (cache on/off) against the real rootmulti/iavl/heightcache code",
    level_text="Kernel-checked: (fixed model) for every history, capacity, saved height and read (Get, Has, Has/Get through cachekv, Iterator/ReverseIterator with any nil/empty/non-empty bounds) the store with the height cache returns exactly what the store without it returns; (as-is model) the same for the precisely stated transparent reads, plus counterexample theorems for each defect of the current code. The real code is tied to the model on every run: twin real stores (cache on/off) replay generated block histories, every read is compared twin-to-twin (the property itself) and with the model.",
    level_note="Trusted: Lean kernel (axioms propext, Classical.choice, Quot.sound), harness/driver parser. The IAVL tree is represented by the committed key/value map (its correctness is C03); cachekv wrappers are modelled as pass-through for reads (checked differentially). Concurrency (RPC readers vs Commit) and Iterator.Domain()/Error() are not modelled. rollback on a live cache is out of scope.",
)


def run(ctx):
    ctx.lean_proofs("Props.C10")
    ctx.rule("c10: block histories (0-5 set/delete per block, keys from a 5- or 10-key alphabet sharing prefixes incl. 00/ff bytes and the empty key, "
             "values incl. empty) on twin real stores: 1/3 rootmulti.Store (capacity 12, two IAVL substores, reads via LoadLazyVersion and "
             "CacheMultiStoreWithVersion), 2/3 iavl.Store+MemoryCache capacity 1-4 (reads via LazyLoadStore, cachekv wrapper); occasional restart; "
             "reads sampled at heights inside/just outside the cache window and on the working store with uncommitted writes; per history an exhaustive "
             "sweep (every key x get/has/getw/hasw, every (start,end) over nil/empty/keys/extra bounds x both directions x direct/cachekv) at up to 3 heights; "
             "non-trivial = present key / non-empty range on the cache-off twin")
    ctx.trust("the IAVL tree is the committed map (C03); Go map iteration order is unobservable (keys are sorted before use)")
    ctx.assume("single goroutine; no RollbackVersion on a live cache; capacity >= 1")
    n = 120000 if ctx.thorough else 9000
    ctx.stream("twin", "c10", "Driver/C10.lean", n=n, args=["-mode", MODE])
    if ctx.thorough:
        for s in range(3):
            ctx.stream(f"twin-s{s}", "c10", "Driver/C10.lean", n=60000, seed=ctx.seed * 1000 + 31 + s, args=["-mode", MODE])


def search(ctx):
    for s in range(3):
        ctx.stream(f"search{s}", "c10", "Driver/C10.lean", n=30000, seed=ctx.seed * 7919 + s, args=["-mode", MODE], count=False)
