"""C17 Total supply always equals the sum of all balances (DESIGN.md §5 C17)."""
import json
import os
import subprocess

import verif

META = dict(
    engine="E-CHAIN + E-FACTS",
    technique="Lean 4 proof (invariant supply = Σ balances ∧ balances ≥ 0 preserved by every bank operation, lifted by induction over arbitrary operation lists; supply delta = Σ successful mints − Σ successful burns) + regenerated go/ast fact (who writes accounts/supply) + differential correspondence vs the real auth keeper and a verified runtime monitor on generated block histories of the real app",
    level_text="Kernel-checked: every bank operation other modules can call (SendCoins, SendCoinsFromModuleToAccount/AccountToModule/ModuleToModule, MintCoins, BurnCoins, GetModuleAccount) — successful, failed, or failed after a partial write — preserves supply = Σ balances and non-negative balances, for all states and all operation lists; the supply moves by exactly Σ minted − Σ burned. Tied to /repo every run: (1) the set of functions that write an account or the supply is regenerated from source and must equal the committed classified list; (2) the real keeper primitives are driven with generated sequences on the real app's store and compared with the model state-by-state; (3) generated block histories with the full tx mix run on the real app with the bank state dumped after BeginBlock, every DeliverTx, EndBlock and Commit, where the Lean driver evaluates the proved invariant and the mint/burn attribution on the implementation's own dumps.",
    level_note="Trusted: Lean kernel; axioms propext, Classical.choice, Quot.sound; Go harness and driver parser; the selector-name matching of the fact extractor (over-approximates). Single denomination (upokt) at ledger level, amounts unbounded integers (the 255-bit overflow panic of Coins.Add is C41's). Genesis hypothesis: supply = Σ balances after InitChain (checked on the generated genesis; exported-genesis re-import is C43's subject). Relay-reward mints are exercised through the real nodes keeper (RewardForRelays) in the operation stream, not through proof transactions.",
)

DRIVER = "Driver/C17.lean"


def facts(ctx):
    binp = ctx.go_build("facts17")
    if binp is None:
        return
    p = subprocess.run([binp, "-repo", verif.REPO], stdout=subprocess.PIPE, stderr=subprocess.PIPE, text=True)
    if p.returncode != 0:
        ctx.facts("C17.writers", False, "facts17 failed: " + p.stderr[-400:])
        return
    got = set(json.loads(p.stdout)["writers"])
    want = set(json.load(open(os.path.join(verif.VERIF, "checks", "facts", "C17.expected.json")))["writers"])
    new, gone = sorted(got - want), sorted(want - got)
    ok = not new and not gone
    ctx.facts("C17.writers", ok, f"{len(got)} call sites of account/supply writers, all classified" if ok else
              f"unclassified writers of balances/supply: {new}; vanished: {gone} — only the bank primitives may write balances or the supply")
    ctx.checker_cmds.append("out/bin/facts17 -repo /repo  (go/ast; compared with checks/facts/C17.expected.json)")


def run(ctx):
    facts(ctx)
    ctx.lean_proofs("Props.C17")
    ctx.rule("c17 genesis: the real auth.InitGenesis on a fresh app per case: 2-6 accounts over 5 addresses (duplicate addresses with equal "
             "and different coins are frequent), zero-coin accounts, 0-2 module accounts (possibly the same twice), supply omitted (derived) "
             "or given (= Σ effective accounts); the initial state is judged, then 4 real send/mint/burn calls; the chain and ops streams start "
             "from an InitChain genesis with duplicate account entries (seed % 3: + zero-coin accounts / supply given); non-trivial = duplicates | "
             "c17 ops: sequences of the real keeper calls send / module→account / account→module / module→module / mint / burn / "
             "GetModuleAccount over 18 addresses (funded, staked, unfunded, and the 6 module addresses — so that module accounts are "
             "created, or pre-empted by a plain account) and 7 module names (one unregistered, one without permissions); amounts from "
             "{0, 1, balance−1, balance, balance+1, 10^15, negative (invalid coin), random}; RewardForRelays/BurnForChallenge of the real "
             "nodes keeper as mint/burn sites; an empty block every 50 ops; non-trivial = operation succeeded | "
             "c17 chain: chain.World.GenBlock histories (sends, node/app stake/edit/unstake/unjail, DAO transfer/burn, param changes, "
             "~20% malformed, duplicates, missed votes, double-sign evidence, block-time jumps up to 26 h); dump after every ABCI call; "
             "non-trivial = tx with code 0 or a block with missed votes/evidence")
    ctx.trust("go/ast fact extractor matches by selector name (no type information)")
    ctx.assume("a genesis supply, when given, equals Σ of the effective (last entry per address) genesis accounts; balances ≥ 0 (both checked on every generated genesis by the init line)")
    ctx.stream("genesis", "c17", DRIVER, n=3000 if ctx.thorough else 200, args=["-mode", "genesis"])
    ctx.stream("ops", "c17", DRIVER, n=40000 if ctx.thorough else 3000)
    ctx.stream("chain", "c17", DRIVER, n=1200 if ctx.thorough else 100, args=["-mode", "chain"])
    if ctx.thorough:
        for s in range(3):
            ctx.stream(f"ops-s{s}", "c17", DRIVER, n=15000, seed=ctx.seed * 1000 + 171 + s)
            ctx.stream(f"chain-s{s}", "c17", DRIVER, n=600, args=["-mode", "chain"], seed=ctx.seed * 1000 + 175 + s)


def search(ctx):
    for s in range(3):
        ctx.stream(f"search-ops{s}", "c17", DRIVER, n=8000, seed=ctx.seed * 7919 + s, count=False)
        ctx.stream(f"search-chain{s}", "c17", DRIVER, n=200, args=["-mode", "chain"], seed=ctx.seed * 7919 + 50 + s, count=False)
