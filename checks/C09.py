"""C09 Reads at a past height always see that height's committed state (DESIGN.md §5 C09, stage A)."""

META = dict(
    engine="E-KV",
    technique="Lean 4 proof on the pure multistore model (simulation between the list-of-IAVL-trees model and a per-height map specification, lifted over all block histories and all interleavings of historical reads) + differential correspondence on the real rootmulti.Store/iavl.Store with historical views held open across later writes and commits",
    level_text="Kernel-checked theorems (stage A, pure model): every read through a view of a committed height returns what the map committed at that height returns; the answer is unchanged by any later writes/commits on any substore and by any other historical or working reads interleaved (statement over arbitrary event lists); every committed height can be opened and LoadLazyVersion/CacheMultiStoreWithVersion open exactly the tree saved at that height. The Go code is tied to the model on every run: views are opened through LoadLazyVersion, CacheMultiStoreWithVersion, GetImmutable and height queries, kept open while the working multistore is written and committed, and every Get/Has/iteration (incl. iterators left open across later commits and advanced step by step) is compared with the per-height map.",
    level_note="NOT proved (stage B): heap aliasing in the Go implementation — shared node cache and node DB, shared `versions` map, SaveBranch clearing child pointers, in-place hash memoisation. It is exercised by the harness (iavl node cache sizes default and 2), not modelled. Context.PrevCtx is exercised over a synthetic block store (store part only; the rebuilt header is not checked). The schedule between iterator creation and its first Valid() is outside the claim. Trusted: Lean kernel; axioms propext, Classical.choice, Quot.sound; harness/driver parser. With the optional height cache switched on (node flag, default off) historical reads are wrong in the ways recorded under C10; this check replays them as known findings with their own `hcache-` signatures.",
)

RULE = ("c09: real rootmulti.Store over MemDB, two IAVL substores + one transient store, 24 short colliding keys; steps: set 30% / delete 15% / commit 8% / "
        "open a view 9% (LoadLazyVersion | CacheMultiStoreWithVersion | GetImmutable | Context.PrevCtx over a real block store; 10% at a height not yet committed) / advance or close an open iterator 14% / "
        "height query 4% / reads through a random open view 17% (Get, Has, drained Iterator/ReverseIterator with nil/member/non-member bounds, or open an iterator and leave it open); "
        "up to 8 views and 6 iterators stay open while later steps write and commit; every 97 steps every open view is read out completely in both directions; "
        "non-trivial = every line except failed opens; distinct = distinct trace line")


def run(ctx):
    ctx.lean_proofs("Props.C09")
    ctx.rule(RULE)
    ctx.trust("heap aliasing between the working tree and historical views (stage B) is exercised, not proved",
              "iavlIterator goroutine schedule before the first Valid() is not covered",
              "Context.PrevCtx is exercised with a synthetic Tendermint block store on MemDB; its header reconstruction is not compared")
    ctx.assume("pruning = nothing (the only mode the app uses; iavl.Store.Commit's release code is commented out): no committed height is ever deleted")
    n = 60000 if ctx.thorough else 2000
    ctx.stream("views", "c09", "Driver/C09.lean", n=n, drv_timeout=3000, timeout=3000)
    ctx.stream("views-smallcache", "c09", "Driver/C09.lean", n=n if ctx.thorough else 1200, seed=ctx.seed * 1000 + 9,
               args=["-cache", "2", "-keys", "40"], drv_timeout=3000, timeout=3000)
    # tiny key space: substores shrink to 0-3 keys all the time (single-leaf roots, root replacement)
    ctx.stream("views-tiny", "c09", "Driver/C09.lean", n=n if ctx.thorough else 1000, seed=ctx.seed * 1000 + 11,
               args=["-keys", "3"], drv_timeout=3000, timeout=3000)
    # the optional height cache (C10's subject): its defects are visible through historical views
    ctx.stream("views-hcache", "c09", "Driver/C09.lean", n=20000 if ctx.thorough else 800, seed=ctx.seed * 1000 + 10, args=["-hcache"],
               drv_timeout=3000, timeout=3000)
    if ctx.thorough:
        ctx.stream("views-race", "c09", "Driver/C09.lean", n=20000, seed=ctx.seed * 1000 + 12, race=True, drv_timeout=3000, timeout=3000)
    run_stage_b(ctx)


# ---------------------------------------------------------------------------------------------
# stage B (heap level): ownership monitor on the real Go heap + abstraction of every dumped root
RULE_B = ("c09b (stage B): one real iavl.MutableTree over MemDB, 16 short colliding keys, node cache 10000 (store default) / 2 / 0; steps: set ~24% / remove ~28% "
          "(alternating growing and shrinking phases, 3 of 4 removals hit a present key) / SaveVersion 12% / open a view 8% (GetImmutable | LazyLoadVersion; also missing, "
          "non-positive and too-new versions) / drop a view 3% / WorkingHash 3% / Rollback 2% / LoadVersion of an older version on the same tree object 3% "
          "(when it is the version before the latest, the writes of the next block are replayed and re-committed: SaveVersion's idempotent branch) / "
          "reads 17% (Get, Has, GetByIndex, IterateRange[Inclusive]) through the working tree or a held view; after EVERY step the Go heap below the working root, "
          "lastSaved, every held view and up to 6 saved versions (all of them every 64 steps) is dumped through a side-effect-free hook "
          "(object identity, persisted flag, memoised hash, child pointers, cache/disk resolution of lazily loaded children); "
          "non-trivial = every line; distinct = distinct trace line")


def run_stage_b(ctx):
    ctx.rule(RULE_B)
    nb = 12000 if ctx.thorough else 700
    ctx.stream("heap-default", "c09b", "Driver/C09b.lean", n=nb, seed=ctx.seed * 1000 + 21, drv_timeout=3000, timeout=3000)
    ctx.stream("heap-cache2", "c09b", "Driver/C09b.lean", n=nb if ctx.thorough else 450, seed=ctx.seed * 1000 + 22, args=["-cache", "2"],
               drv_timeout=3000, timeout=3000)
    ctx.stream("heap-cache0", "c09b", "Driver/C09b.lean", n=nb if ctx.thorough else 450, seed=ctx.seed * 1000 + 23, args=["-cache", "0", "-keys", "24"],
               drv_timeout=3000, timeout=3000)


def search(ctx):
    for s in range(3):
        ctx.stream(f"search{s}", "c09", "Driver/C09.lean", n=12000, seed=ctx.seed * 7919 + s,
                   args=["-cache", str([0, 2, 64][s])], count=False)
