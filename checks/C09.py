"""C09 Reads at a past height always see that height's committed state (DESIGN.md §5 C09, stage A)."""

META = dict(
    engine="E-KV",
    technique="Lean 4 proof, two levels. Stage A: pure multistore model (simulation between the list-of-IAVL-trees model and a per-height map specification, lifted over all block histories and all interleavings of historical reads). Stage B: an explicit-heap model of the Go IAVL (node objects, child pointers, hash memoisation, node DB, LRU node cache, clone / rotate / balance / recursiveSet / recursiveRemove / SaveBranch / GetNode step by step) with a representation predicate, frame rules and an ownership invariant; every heap operation is proved to refine the pure model and to preserve every representation judgement; kernel-evaluated counterexamples on two mutated clone disciplines. Tie: differential correspondence on the real rootmulti.Store/iavl.Store with historical views held open across later writes and commits, plus a verified run-time monitor of the ownership discipline on the real Go heap dumped after every operation through a side-effect-free hook, plus the heap model replayed next to the real heap.",
    level_text="Kernel-checked theorems. Stage A (pure model): every read through a view of a committed height returns what the map committed at that height returns; the answer is unchanged by any later writes/commits on any substore and by any other historical or working reads interleaved (statement over arbitrary event lists); every committed height can be opened and LoadLazyVersion/CacheMultiStoreWithVersion open exactly the tree saved at that height. Stage B (heap model, any node-cache size, hash function a parameter with injectivity as hypothesis): heap_refines_pure — Set/Remove/SaveVersion/Rollback/WorkingHash/GetImmutable/LazyLoadVersion and reads through held handles with lazy child loading answer what the pure model answers and preserve the ownership invariant, for single operations and whole histories; saved_roots_frozen_heap — any object that represents a tree at any point of any history still represents it after any further operations (and the abstraction function abs returns it); historical_read_stable_heap — a root handle held across arbitrary later operations reads the committed tree; heap_write_once — every object evolves only by the decidable write-once relation cellLe, persisted objects never change, the DB only grows; clone_discipline_needed_rotation / _inplace — without the clone in rotations, resp. with in-place updates of never-persisted inner nodes, concrete histories change a saved version. The Go code is tied to both models on every run: answers through held views vs the per-height map; the real heap (object identity, persisted flag, memoised hash, child pointers, cache/disk resolution) is dumped after every operation and checked with cellLe and the ownership conditions (PROPFAIL heap-*), the abstraction of every dumped root must equal the pure model's tree, and for the first 160 operations of every stream the heap model's own working/lastSaved object shapes and (small caches) LRU queue must equal the dumped ones (DIFF).",
    level_note="NOT covered by the proofs: concurrency — operations and reads are atomic steps of one sequential history; the iavlIterator goroutine (schedule between iterator creation and its first Valid()) and readers running concurrently with a writer on the shared nodeDB are outside the models (thorough tier: stage-A streams under -race). LoadVersion of an older version on the same tree object and SaveVersion's idempotent re-commit are modelled, kernel-evaluated in a counterexample and exercised by the harness, but are not operations of the refinement theorems. DeleteVersion/pruning/orphan records, batch atomicity, int8 heights are not modelled (pruning = nothing). Hash: injectivity of the node hash on its writeHashBytes input is a hypothesis. Context.PrevCtx is exercised over a synthetic block store (store part only). Trusted: Lean kernel; axioms propext, Classical.choice, Quot.sound; harness, hook and driver parser. With the optional height cache switched on (node flag, default off) historical reads are wrong in the ways recorded under C10; those defects were repaired (/repo 300d229); the cache-on streams keep their own `hcache-` signatures, which are violations like any other.",
)

RULE = ("c09: real rootmulti.Store over MemDB, two IAVL substores + one transient store, 24 short colliding keys; steps: set 30% / delete 15% / commit 8% / "
        "open a view 9% (LoadLazyVersion | CacheMultiStoreWithVersion | GetImmutable | Context.PrevCtx over a real block store; 10% at a height not yet committed) / advance or close an open iterator 14% / "
        "height query 4% / reads through a random open view 17% (Get, Has, drained Iterator/ReverseIterator with nil/member/non-member bounds, or open an iterator and leave it open); "
        "up to 8 views and 6 iterators stay open while later steps write and commit; every 97 steps every open view is read out completely in both directions; "
        "non-trivial = every line except failed opens; distinct = distinct trace line")


def run(ctx):
    ctx.lean_proofs("Props.C09")
    ctx.rule(RULE)
    ctx.trust("stage B is sequential: readers concurrent with a writer and the iavlIterator goroutine schedule before the first Valid() are not covered",
              "LoadVersion of an older version + idempotent re-commit: modelled and exercised, outside the refinement theorems",
              "Context.PrevCtx is exercised with a synthetic Tendermint block store on MemDB; its header reconstruction is not compared")
    ctx.assume("pruning = nothing (the only mode the app uses; iavl.Store.Commit's release code is commented out): no committed height is ever deleted")
    n = 60000 if ctx.thorough else 2000
    ctx.stream("views", "c09", "Driver/C09.lean", n=n, drv_timeout=3000, timeout=3000)
    ctx.stream("views-smallcache", "c09", "Driver/C09.lean", n=n if ctx.thorough else 1200, seed=ctx.seed * 1000 + 9,
               args=["-cache", "2", "-keys", "40"], drv_timeout=3000, timeout=3000)
    # tiny key space: substores shrink to 0-3 keys all the time (single-leaf roots, root replacement); 35% of the writes are
    # followed at once by a view of the LATEST committed height (LoadLazyVersion | CacheMultiStoreWithVersion | PrevCtx | query)
    # that is read out completely while the working stores are dirty (mid-block historical read of the last height)
    ctx.stream("views-tiny", "c09", "Driver/C09.lean", n=n if ctx.thorough else 1000, seed=ctx.seed * 1000 + 11,
               args=["-keys", "3", "-mid", "35"], drv_timeout=3000, timeout=3000)
    # the optional height cache (C10's subject): its defects are visible through historical views
    ctx.stream("views-hcache", "c09", "Driver/C09.lean", n=20000 if ctx.thorough else 800, seed=ctx.seed * 1000 + 10, args=["-hcache"],
               drv_timeout=3000, timeout=3000)
    # cache on, planned blocks: per block every substore is untouched | delete-only | set-only | mixed (so there are delete-only
    # blocks and blocks touching only the other substore); after EVERY commit every height a 12-deep height cache can still serve
    # (and the one below the window) is read completely through a fresh LoadLazyVersion | CacheMultiStoreWithVersion | PrevCtx view
    # (full iteration of every substore, Get of the recently deleted keys) and a height query. hcache-* signatures are VIOLATIONs.
    ctx.stream("views-hcache-plan", "c09", "Driver/C09.lean", n=6000 if ctx.thorough else 400, seed=ctx.seed * 1000 + 13,
               args=["-hcache", "-plan"], drv_timeout=3000, timeout=3000)
    if ctx.thorough:
        ctx.stream("views-race", "c09", "Driver/C09.lean", n=20000, seed=ctx.seed * 1000 + 12, race=True, drv_timeout=3000, timeout=3000)
    run_stage_b(ctx)


# ---------------------------------------------------------------------------------------------
# stage B (heap level): ownership monitor on the real Go heap + abstraction of every dumped root
RULE_B = ("c09b (stage B): one real iavl.MutableTree over MemDB, 16 short colliding keys, node cache 10000 (store default) / 2 / 0; steps: set ~24% / remove ~28% "
          "(alternating growing and shrinking phases, 3 of 4 removals hit a present key) / SaveVersion 12% / open a view 8% (GetImmutable | LazyLoadVersion; also missing, "
          "non-positive and too-new versions) / drop a view 3% / WorkingHash 3% / Rollback 2% / LoadVersion of an older version on the same tree object 3% "
          "(when it is the version before the latest, the writes of the next block are replayed and re-committed: SaveVersion's idempotent branch) / "
          "reads 17% (Get, Has, GetByIndex, IterateRange[Inclusive]) through the working tree or a held view; after EVERY step the Go heap below the working root, "
          "lastSaved, every held view and up to 6 saved versions (all of them every 64 steps) is dumped through a side-effect-free hook "
          "(object identity, persisted flag, memoised hash, child pointers, cache/disk resolution of lazily loaded children); "
          "for the first 160 operations the Lean heap model is replayed next to the real heap and its working/lastSaved object shapes (and, for caches <= 64, "
          "the LRU queue) must equal the dumped ones; "
          "stream heap-tiny: 3 keys, and 50% of the writes are followed at once by a view of the latest committed version "
          "(LazyLoadVersion(latest) | LazyLoadVersion(0) | GetImmutable) that is iterated completely while the working tree is dirty; "
          "non-trivial = every line; distinct = distinct trace line")


def run_stage_b(ctx):
    ctx.rule(RULE_B)
    nb = 12000 if ctx.thorough else 700
    ctx.stream("heap-default", "c09b", "Driver/C09b.lean", n=nb, seed=ctx.seed * 1000 + 21, drv_timeout=3000, timeout=3000)
    ctx.stream("heap-cache2", "c09b", "Driver/C09b.lean", n=nb if ctx.thorough else 450, seed=ctx.seed * 1000 + 22, args=["-cache", "2"],
               drv_timeout=3000, timeout=3000)
    ctx.stream("heap-cache0", "c09b", "Driver/C09b.lean", n=nb if ctx.thorough else 450, seed=ctx.seed * 1000 + 23, args=["-cache", "0", "-keys", "24"],
               drv_timeout=3000, timeout=3000)
    # tiny tree (0-3 keys: single-leaf roots, a leaf directly under the root, root replacement by the persisted sibling on
    # Remove); half of the writes are followed at once by a view of the LATEST committed version that is read out
    ctx.stream("heap-tiny", "c09b", "Driver/C09b.lean", n=nb if ctx.thorough else 450, seed=ctx.seed * 1000 + 24, args=["-keys", "3", "-mid", "50"],
               drv_timeout=3000, timeout=3000)


def search(ctx):
    for s in range(3):
        ctx.stream(f"search{s}", "c09", "Driver/C09.lean", n=12000, seed=ctx.seed * 7919 + s,
                   args=["-cache", str([0, 2, 64][s])], count=False)
