"""C08 Rolling back to a height restores exactly that height's state (DESIGN.md §5 C08)."""

META = dict(
    engine="E-KV",
    technique="Lean 4 proof (invariant 'good disk for a history prefix' preserved by deleteNodesFrom/DeleteVersionsFrom/LoadVersionForOverwriting; version-bound + collision-freeness argument that no node of an earlier version is deleted) + differential replay of every atomic DB write of real rollbacks against the model's disk",
    level_text="Kernel-checked for every legal history and every target 1 <= h < latest: the rollback succeeds; the store is positioned on version h with exactly the tree (contents, root hash) committed at h, also after reopening; no version above h loads (eagerly or lazily); every version <= h reads back unchanged; re-applying the blocks h+1.. saves the same versions with the same root hashes and, at multistore level, reports the original commit ids for any iteration orders. Tie: for every history and EVERY target (plus the two illegal ones) the real rootmulti.RollbackVersion runs on a copy of the DB with all writes recorded; the model's rollback must produce the same disk (deleted nodes, orphan records, roots, commit infos, latest); then reopen, load every version, lazy-load, replay the blocks and compare commit ids with the original run.",
    level_note="Trusted: Lean kernel; harness and driver parsers. SHA-256 is a parameter (collision-freeness of the history's nodes is an explicit hypothesis Inj). The legality of consecutive working trees (GoodSteps: kept nodes come from the previous tree, new nodes carry the next version) is what C03's algorithm model provides; it is a hypothesis here. The statements are proved per IAVL substore and for the whole multistore (rollback_multistore: commit infos, latest record, arbitrary iteration orders). Rollback to height 0 and a crash in the middle of a rollback are not covered. Pruning = nothing.",
)


def build_driver_lib(ctx):
    """The line-protocol driver imports executable-only modules that no Props module imports; make sure their
    .olean files are current (lean --run does not rebuild imports)."""
    import verif
    mods = "PocketModel.Store.DiskDriver".split()
    rc, out = verif.sh(["lake", "build"] + mods, cwd=verif.LEAN, timeout=3000)
    if rc != 0:
        ctx.fail("build", "driver-lib", "lake build %s failed:\n%s" % (" ".join(mods), out[-1200:]))


def run(ctx):
    ctx.lean_proofs("Props.C08")
    build_driver_lib(ctx)
    ctx.rule("c08: per history 1-3 IAVL substores, 2-6 blocks of 0-7 writes over 4-13 keys (1/4 of the histories: up to 20 writes over 30-69 keys), "
             "1/3 deletes; then for every target 1..latest+1: copy of the DB, RollbackVersion on a fresh object, reopen, LoadVersion of every "
             "version, lazy loads, replay of the remaining blocks; non-trivial = rollback/reopen/lazy/commit/state line (distinct)")
    ctx.trust("tm-db MemDB", "Sha256.lean (executable only)")
    ctx.assume("pruning = nothing; all substores mounted before the first commit (a substore mounted later has IAVL versions that differ from the multistore height, and RollbackVersion passes the multistore height to every substore)")
    n = 80 if ctx.thorough else 6
    ctx.stream("rollback", "c08", "Driver/C08.lean", n=n)
    if ctx.thorough:
        ctx.stream("rollback-s2", "c08", "Driver/C08.lean", n=80, seed=ctx.seed * 1000 + 8)


def search(ctx):
    for s in range(3):
        ctx.stream(f"search{s}", "c08", "Driver/C08.lean", n=20, seed=ctx.seed * 7919 + s, count=False)
