"""C25 Slashing and jailing follow the documented rules (DESIGN.md §5 C25)."""
import importlib.util, os
_spec = importlib.util.spec_from_file_location("_nodes", os.path.join(os.path.dirname(os.path.abspath(__file__)), "_nodes.py"))
_nodes = importlib.util.module_from_spec(_spec)
_spec.loader.exec_module(_nodes)

META = dict(
    engine="E-CHAIN",
    technique="Lean 4 proof (slash/simpleSlash reduced to one normal form under the pool invariant; decision logic of unjail; bit-array/counter lemma for downtime accounting; all on top of the structural invariant proved for arbitrary histories) + transition checking and rule monitors against the real PocketCoreApp",
    level_text="Kernel-checked: every slash removes exactly min(requested, stake) ⊔ 0 tokens from the record and burns exactly that from pool and supply, touching no other record; a stake that falls below the minimum leaves the node jailed and in the waiting set; a jailed node has no staked-index entry and is never in the reported consensus set (C22); an unjail is accepted exactly when it comes from operator/output for a jailed node with stake ≥ minimum whose jail period has passed in block time (unjail_requires + unjail_iff: the result depends on the store and the block time only — code after /repo 286039a; the monitor unjail-depends-on-wall-clock guards against the return of the time.Now() comparison); missed-block counter and bit array move together, the window reset clears both, exceeding window − minSigned jails in the same BeginBlock with the jail period set; counterexample theorem: a re-staked node inherits stale bits and its counter goes negative. Tie: histories with missed-vote patterns, double-sign evidence of various ages/heights, direct slashes around stake and minimum, BurnForChallenge, unjail attempts around JailedUntil; per phase the model transition is compared and the rules are evaluated on the implementation's own states.",
    level_note=_nodes.NOTE + " The wall-clock read of ValidateUnjailMessage (C12) was removed by /repo 286039a; the model follows the fixed code and the monitor unjail-depends-on-wall-clock guards against its return.",
)


def run(ctx):
    ctx.lean_proofs("Props.C25")
    _nodes.run_nodes(ctx, "C25", "c25", quick=330)


def search(ctx):
    _nodes.search_nodes(ctx, "C25", "c25")
