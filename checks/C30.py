"""C30 Merkle-sum-index proofs cannot be forged or replayed (DESIGN.md §5 C30)."""

META = dict(
    engine="E-PURE",
    technique="Lean 4 proof (top-down induction over the verification chain; every accepted proof either equals the committed one field by field or exhibits an explicit hash collision) + differential correspondence vs the real MerkleProof.Validate on all single-field mutations and on trees with replayed relays",
    level_text="Kernel-checked theorems, any hash function with 32-byte output, trees of any size: an accepted proof with 32-byte sibling hashes has the committed index, leaf hash, sibling hashes and ranges, or two distinct inputs with equal hash are exhibited; every single-field change (leaf, index, target, sibling hash/lower/upper, root) is rejected or collides; an empty or inverted range met by the loop gives (false, replay), the range check is on the numbers (a wrapped uint64 width test would let inverted ranges through: counterexample theorem), ValidateBasic turns improper targets away; a duplicated leaf produces an empty range on its path. Two re-encodings the real code accepts are proved as counterexample theorems and listed as known findings. Tie: all single-field mutations of valid proofs, trees from multisets with duplicates, and claimant-built trees (arbitrary leaf order, inverted / empty / wrapping ranges) through the real Validate and ValidateBasic, every run.",
    level_note="Trusted: Lean kernel; the Go harness/driver parser; blake2b (parameter; collision is an explicit disjunct, never an axiom). Pre-upgrade layout binds the index only through its parity bits (stated separately). The keeper's level check is modelled (validateProof); handleProofMsg's burn/claim deletion on replay is covered by the chain engine (C32), not here.",
)

RULE = ("c30 forge: real RelayProof sets (sizes 5..8, 15..17, 31..33, 63..65, random to max), pre/post-upgrade heights; for 3 indices of each valid tree the committed proof and "
        "every single-field mutation: other/fresh leaf, index (+-1, +-2, +-2^(L-1), xor 1, negated, sign bit, random, +m*2^L aliases), target lower/upper/hash, per level sibling hash "
        "(bit flip, truncated, nil, zero-extended, other node, buffer-overflow extension), sibling lower/upper +-1, zero-width sibling, swapped siblings, fewer/more siblings and levels, "
        "odd-leaf and even-leaf midpoint pairs, root hash/upper/lower, another index's proof; one third of the trees contain 1..n/2 replayed (duplicated) relays and are validated at up to 40 indices; "
        "claimant-built trees (every strategy once at the start of the stream, then a quarter of the iterations, 3 trees each): 5..17 real relays in an order of the claimant's choosing with lower bounds chained "
        "from the previous upper bound — second copy of a relay right after a leaf with a larger sum as left/right child (inverted range), adjacent copy (zero width), random permutation with and without "
        "a duplicate, a node with Upper = 0, a node with sum 2^64-1, a wrapping width-1 node [2^64-1, 0]; every committed position validated by the real Validate, every proof and seven hand-made targets "
        "(empty, inverted, wrapped, Upper = 0, full width, proper) by the real MsgProof.ValidateBasic; "
        "non-trivial = Validate returned (no panic)")


def run(ctx):
    ctx.lean_proofs("Props.C30")
    ctx.rule(RULE)
    ctx.trust("blake2b-256 is a parameter H of every theorem; the driver instantiates H with the table of (input, output) pairs computed by the harness with x/crypto/blake2b")
    if ctx.thorough:
        ctx.stream("forge", "c29", "Driver/C30.lean", n=60000, args=["-mode", "forge", "-max", "1100"], timeout=3000, drv_timeout=3000)
        for s in range(2):
            ctx.stream(f"forge-s{s}", "c29", "Driver/C30.lean", n=30000, args=["-mode", "forge", "-max", "300"], seed=ctx.seed * 1000 + 31 + s, timeout=3000, drv_timeout=3000)
    else:
        ctx.stream("forge", "c29", "Driver/C30.lean", n=5000, args=["-mode", "forge", "-max", "300"])


def search(ctx):
    for s in range(3):
        ctx.stream(f"search{s}", "c29", "Driver/C30.lean", n=20000, args=["-mode", "forge", "-max", "200"], seed=ctx.seed * 7919 + s, count=False)
