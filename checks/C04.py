"""C04 Saved state is reproduced exactly after reopening from disk (DESIGN.md §5 C04)."""
import os

META = dict(
    engine="E-KV",
    technique="Lean 4 proof (LEB128/zig-zag round trips by strong induction; node and commit-info codecs; hash-addressed load = structural unfolding; induction over save histories) + differential replay of every atomic DB write of the real rootmulti/iavl stores against the model's disk",
    level_text="Kernel-checked: amino varint/byte-slice/node encodings round-trip for all int64/uint64 values; loading a saved tree through the hash-addressed node map returns exactly the saved tree; every retained version of every history reloads with the same contents and root hash; equal root hashes force equal trees unless SHA-256 collides; commit-info records round-trip. Tie: every Batch.Write of every Commit of the real store is recorded (faultdb), replayed into a typed disk, decoded with the model decoder and compared with the disk the model's SaveVersion/Commit produces (node bytes, node hashes via a Lean SHA-256, orphan records, roots, commit-info bytes); new store objects on the same DB (LoadLatestVersion, LoadVersion v, lazy loads; thorough: GoLevelDB closed and reopened) are compared with the live store, a plain-map oracle and a never-reopened replica.",
    level_note="Trusted: Lean kernel; harness and driver parsers. SHA-256 is a parameter H in every theorem (collision appears as an explicit hypothesis or disjunct). The tree algorithm (Set/Remove/balance) is C03's subject: here a block's effect on a substore is the working tree it leaves behind. DB durability and batch atomicity (tm-db) are assumed. Pruning = nothing (the only mode the app uses).",
)


def build_driver_lib(ctx):
    """The line-protocol driver imports executable-only modules that no Props module imports; make sure their
    .olean files are current (lean --run does not rebuild imports)."""
    import verif
    mods = "PocketModel.Store.DiskDriver".split()
    rc, out = verif.sh(["lake", "build"] + mods, cwd=verif.LEAN, timeout=3000)
    if rc != 0:
        ctx.fail("build", "driver-lib", "lake build %s failed:\n%s" % (" ".join(mods), out[-1200:]))


def run(ctx):
    ctx.lean_proofs("Props.C04")
    build_driver_lib(ctx)
    ctx.rule("c04: per history 1-3 IAVL substores, 2-8 blocks of 0-7 (small key space 4-13 keys) or 5-29 (40-99 keys) writes, 1/3 deletes, "
             "values incl. empty; after each commit with prob 1/3 the store object is replaced by a new one on the same DB; at the end "
             "every version 1..latest+1 is loaded on a new object and lazily; a replica runs the same history on another DB; "
             "non-trivial = commit/state/reopen/lazy line (distinct)")
    ctx.trust("tm-db MemDB/GoLevelDB (iteration order, batch atomicity)", "Sha256.lean (executable only) — compared with the implementation's hashes on every node")
    ctx.assume("pruning = nothing; all substores mounted before the first commit")
    n = 150 if ctx.thorough else 12
    ctx.stream("persist", "c04", "Driver/C04.lean", n=n)
    if ctx.thorough:
        scratch = os.path.join(ctx.outdir, "leveldb")
        ctx.stream("persist-goleveldb", "c04", "Driver/C04.lean", n=60, seed=ctx.seed * 1000 + 5,
                   args=["-backend", "goleveldb", "-dir", scratch])
        ctx.stream("persist-s2", "c04", "Driver/C04.lean", n=150, seed=ctx.seed * 1000 + 6)


def search(ctx):
    for s in range(3):
        ctx.stream(f"search{s}", "c04", "Driver/C04.lean", n=40, seed=ctx.seed * 7919 + s, count=False)
