"""Shared part of the checks of the nodes ledger (C19, C21, C22, C23, C24, C25): one Go harness (cmd/nodesdrive),
one trace format, one Lean driver module (PocketModel/Ledger/NodesDriver.lean) parameterised by the property id."""

RULE = ("nodesdrive: histories of 36 blocks on the real app (8 node keys, 4 output/stranger keys, 3-6 genesis validators at/above the minimum, "
        "random MaxValidators 1-5, BlocksPerSession 2-5 (1-5 through governance), UnstakingTime 0..30h, window 10-12 (3-10 through governance), "
        "MaxJailedBlocks 2..1000, slash fractions 1%..100%); per block: time step 1s..31h, votes of the accumulated consensus set with per-node "
        "miss rates, occasional double-sign evidence (age around MaxEvidenceAge, heights around the limit), 0-6 actions drawn from the current state: "
        "new stakes at/below/above minimum, edit-stakes up/same/down/next-bin with chains/URL/output/delegator changes signed by operator, output, new output "
        "or stranger, begin-unstake, unjail, governance parameter changes, direct slashes (amounts around the stake and the minimum), BurnForChallenge, "
        "RewardForRelays, plain sends (also to the pool address); the generator is biased per property (-mode); "
        "non-trivial = accepted transaction / positive slash / block with votes or updates")

TRUST = ("x/auth bank keeper (SendCoins/MintCoins/BurnCoins) is modelled as exact integer transfers",
         "governance handler is not modelled: new parameter values are taken from the implementation's dump",
         "BurnForChallenge's amount formula is C27's: the driver recovers the requested amount from the outcome")

ASSUME = ("modern rule set (all features active from block 2, codec upgrade in block 1); block 1 is executed but not traced",
          "one vote per validator per block (as Tendermint delivers them)")

NOTE = ("Trusted: Lean kernel (axioms propext, Classical.choice, Quot.sound), harness + driver parser, the x/auth bank primitives "
        "(integer transfers; their conservation is C17/C18). Modern rule set only; governance is not modelled (new parameter values are read "
        "from the dump); the sortable time format of the unstaking-queue keys is assumed order-preserving (exercised across day/month boundaries).")


def run_nodes(ctx, pid, mode, quick=250, thorough=4000):
    ctx.rule(RULE)
    ctx.trust(*TRUST)
    ctx.assume(*ASSUME)
    driver = f"Driver/{pid}.lean"
    n = thorough if ctx.thorough else quick
    ctx.stream("nodes", "nodesdrive", driver, n=n, args=["-mode", mode])
    if ctx.thorough:
        for s in range(2):
            ctx.stream(f"nodes-s{s}", "nodesdrive", driver, n=3000, seed=ctx.seed * 1000 + 19 + s, args=["-mode", "all"])


def search_nodes(ctx, pid, mode):
    for s in range(2):
        ctx.stream(f"search{s}", "nodesdrive", f"Driver/{pid}.lean", n=600, seed=ctx.seed * 7919 + s, args=["-mode", mode], count=False)


def load():
    return run_nodes, search_nodes
