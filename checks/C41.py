"""C41 Coin set arithmetic matches multiset arithmetic (DESIGN.md §5 C41)."""

META = dict(
    engine="E-PURE",
    technique="Lean 4 proof (induction over the safeAdd merge / binary search; omega for rounding) + differential correspondence vs types.Coins/BigInt/BigDec",
    level_text="Kernel-checked theorems for all coin lists and all integers: per-denomination sums/differences, canonical results, negative flag iff some denomination underflows, binary-search lookup = map lookup, uniqueness of the canonical form (so add is commutative/associative as lists and (a+b)-b = a), IsAllGTE = pointwise order, 255-bit overflow exactness, banker's rounding within half ulp. The Go code is tied to the model by running both on generated inputs every run; the Lean driver also evaluates the executable spec on the implementation's own outputs.",
    level_note="Trusted: Lean kernel; axioms propext, Classical.choice, Quot.sound; the Go harness/driver parser; math/big itself. Unsorted inputs are compared with the model only. BigDec ApproxRoot/FracPow are covered under C27.",
)

def run(ctx):
    ctx.lean_proofs("Props.C41")
    ctx.rule("c41: type-directed coin sets over 7 valid denominations (0-4 coins, ~10% malformed: unsorted/duplicate), "
             "amounts from {0,±1,small,random<=248bit,near ±2^255}; BigInt and BigDec ops on boundary values incl. exact .5 ties; "
             "non-trivial = sorted non-empty operands and no panic (coins) / no panic (numbers); distinct = distinct trace line")
    ctx.trust("math/big (Go) is not modelled: results are compared as decimal strings",
              "unsorted coin inputs are outside the documented contract: compared with the model, not specified")
    n = 200000 if ctx.thorough else 6000
    ctx.stream("coins", "c41", "Driver/C41.lean", n=n)
    if ctx.thorough:
        for s in range(3):
            ctx.stream(f"coins-s{s}", "c41", "Driver/C41.lean", n=100000, seed=ctx.seed * 1000 + 17 + s)

def search(ctx):
    # wider stream with the executable specification as oracle (PROPFAIL lines carry the failing input)
    for s in range(4):
        ctx.stream(f"search{s}", "c41", "Driver/C41.lean", n=50000, seed=ctx.seed * 7919 + s, count=False)
