module verifharness

go 1.21

require (
	github.com/gogo/protobuf v1.3.2
	github.com/jordanorelli/lexnum v0.0.0-20141216151731-460eeb125754
	github.com/pokt-network/pocket-core v0.0.0
	github.com/tendermint/go-amino v0.15.1
	github.com/tendermint/tendermint v0.33.7
	github.com/tendermint/tm-db v0.5.1
	github.com/willf/bloom v2.0.3+incompatible
	golang.org/x/crypto v0.0.0-20210921155107-089bfa567519
	golang.org/x/text v0.9.0
)

require (
	github.com/ChainSafe/go-schnorrkel v0.0.0-20200405005733-88cbf1b4c40d // indirect
	github.com/Workiva/go-datastructures v1.0.52 // indirect
	github.com/beorn7/perks v1.0.1 // indirect
	github.com/btcsuite/btcd v0.20.1-beta // indirect
	github.com/cespare/xxhash/v2 v2.2.0 // indirect
	github.com/cosmos/go-bip39 v0.0.0-20180819234021-555e2067c45d // indirect
	github.com/cosmos/gogoproto v1.4.10 // indirect
	github.com/davecgh/go-spew v1.1.1 // indirect
	github.com/go-kit/kit v0.12.0 // indirect
	github.com/go-kit/log v0.2.0 // indirect
	github.com/go-logfmt/logfmt v0.5.1 // indirect
	github.com/golang/protobuf v1.5.3 // indirect
	github.com/golang/snappy v0.0.4 // indirect
	github.com/google/btree v1.0.0 // indirect
	github.com/google/go-cmp v0.5.9 // indirect
	github.com/gorilla/websocket v1.4.2 // indirect
	github.com/gtank/merlin v0.1.1 // indirect
	github.com/gtank/ristretto255 v0.1.2 // indirect
	github.com/hashicorp/golang-lru v0.5.4 // indirect
	github.com/libp2p/go-buffer-pool v0.0.2 // indirect
	github.com/matttproud/golang_protobuf_extensions v1.0.1 // indirect
	github.com/mimoo/StrobeGo v0.0.0-20181016162300-f8f6d4d2b643 // indirect
	github.com/minio/highwayhash v1.0.2 // indirect
	github.com/pkg/errors v0.9.1 // indirect
	github.com/pmezard/go-difflib v1.0.0 // indirect
	github.com/prometheus/client_golang v1.11.0 // indirect
	github.com/prometheus/client_model v0.2.0 // indirect
	github.com/prometheus/common v0.30.0 // indirect
	github.com/prometheus/procfs v0.7.3 // indirect
	github.com/rcrowley/go-metrics v0.0.0-20200313005456-10cdbea86bc0 // indirect
	github.com/regen-network/cosmos-proto v0.3.0 // indirect
	github.com/rs/cors v1.7.0 // indirect
	github.com/spaolacci/murmur3 v1.1.0 // indirect
	github.com/spf13/cobra v1.4.0 // indirect
	github.com/spf13/pflag v1.0.5 // indirect
	github.com/stretchr/testify v1.7.0 // indirect
	github.com/syndtr/goleveldb v1.0.1-0.20210819022825-2ae1ddf74ef7 // indirect
	github.com/willf/bitset v1.1.10 // indirect
	golang.org/x/exp v0.0.0-20230131160201-f062dba9d201 // indirect
	golang.org/x/net v0.9.0 // indirect
	golang.org/x/sys v0.14.0 // indirect
	golang.org/x/term v0.7.0 // indirect
	google.golang.org/genproto v0.0.0-20230306155012-7f2fa6fef1f4 // indirect
	google.golang.org/grpc v1.55.0 // indirect
	google.golang.org/protobuf v1.30.0 // indirect
	gopkg.in/yaml.v2 v2.4.0 // indirect
	gopkg.in/yaml.v3 v3.0.1 // indirect
)

replace github.com/pokt-network/pocket-core => /repo

replace github.com/tendermint/tendermint => github.com/pokt-network/tendermint v0.32.11-0.20230426215212-59310158d3e9

replace github.com/tendermint/tm-db => github.com/pokt-network/tm-db v0.5.2-0.20220118210553-9b2300f289ba
