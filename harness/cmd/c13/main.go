// c13: consensus must not depend on off-chain activity or node-local caches.
//
// Twin nodes in separate processes per generated history.  Both execute the same blocks, restart at
// the same block boundaries (fresh node-local caches, as a process restart gives) and run with the
// same (often tiny) LRU capacities.  B additionally serves ONE kind of RPC-like traffic per history
// at the points between ABCI calls:
//
//	appquery   Query custom/application/application|applications at historical and latest heights
//	nodequery  Query custom/pos/validator|validators|signingInfos|account..., custom/auth, custom/gov
//	dispatch   PocketCoreApp.HandleDispatch (the RPC path: app.NewContext(latest))
//	qdispatch  Query custom/pocketcore/dispatch at historical and latest heights
//	simulate   Query app/simulate of transactions that are VALID against the current state and write
//	           cached records: application edit-stake / stake, node edit-stake, unjail
//	none       nothing
//
// Histories are made cache-sensitive: application edit-stakes up and down around the current stake,
// application unstake/re-stake with a short unstaking time, node unstakes that mature inside a
// session, claims of every node for every finished session (4-block sessions, 4 of 6 nodes per
// session).  After every block both twins print app hash / codes / validator updates / state
// digests; B also reports the coherence of the real ApplicationCache with the working store.
// Trace consumed by lean/Driver/C13.lean.
package main

import (
	"flag"
	"fmt"
	"os"
	"runtime/debug"
	"strings"
	"sync"
	"time"

	"github.com/pokt-network/pocket-core/store/rootmulti"
	sdk "github.com/pokt-network/pocket-core/types"
	appsTypes "github.com/pokt-network/pocket-core/x/apps/types"
	nodesTypes "github.com/pokt-network/pocket-core/x/nodes/types"
	pocketTypes "github.com/pokt-network/pocket-core/x/pocketcore/types"
	abci "github.com/tendermint/tendermint/abci/types"
	dbm "github.com/tendermint/tm-db"

	"verifharness/internal/chain"
	"verifharness/internal/chainx"
	"verifharness/internal/gen"
)

var kinds = []string{"appquery", "simulate", "dispatch", "qdispatch", "nodequery", "simulate", "appquery", "none"}

const chainID = "verif"

var childEnv = []string{"GOMAXPROCS=2"}

const baseAppStake = int64(10000000000)

var chainIDs = []string{chain.ChainHash, "21", "0021"}

// nodeChains: the first three nodes serve 0001+0021, the others 0001+21 (as in the genesis).
func nodeChains(w *chain.World, k chain.Key) []string {
	for i, n := range append(append([]chain.Key{}, w.Vals...), w.Servs...) {
		if n.Addr.Equals(k.Addr) {
			if i < 3 {
				return []string{chain.ChainHash, "0021"}
			}
			return []string{chain.ChainHash, "21"}
		}
	}
	return []string{chain.ChainHash}
}

type cfg struct {
	kind     string
	hseed    uint64
	blocks   int
	cacheCap int // capacity of application/validator/ctx caches
	restarts int // a restart every `restarts` blocks (0 = never)
}

type env struct {
	w   *chain.World
	o   chain.GenesisOpts
	run *chainx.Runner
	c   cfg
	vbc *chainx.VbcMonitor
}

func resetCaches(c cfg) {
	nodesTypes.InitConfig(int64(c.cacheCap))
	appsTypes.InitConfig(int64(c.cacheCap))
	ctxCap := c.cacheCap
	if ctxCap > 20 {
		ctxCap = 20
	}
	sdk.InitCtxCache(ctxCap)
	sdk.VbCCache = sdk.NewCache(1200)
	chainx.InitSessionCache(100)
}

func boot(c cfg) *env {
	chain.ModernGlobals()
	resetCaches(c)
	w, o := chain.DefaultWorld(chainID, 3, 3, 2, 4)
	o.Mutate = func(g *chain.Genesis) {
		g.Nodes.Params.SessionBlockFrequency = 4
		g.Nodes.Params.UnstakingTime = 2 * time.Minute
		g.Apps.Params.UnstakingTime = 2 * time.Minute
		// a one-byte network identifier and the two-byte identifier with the same low byte, served by
		// different nodes: 3 nodes each, all six serve 0001; sessions of 3 nodes
		g.Pocket.Params.SessionNodeCount = 3
		g.Pocket.Params.SupportedBlockchains = chainIDs
		for i := range g.Nodes.Validators {
			if i < 3 {
				g.Nodes.Validators[i].Chains = []string{chain.ChainHash, "0021"}
			} else {
				g.Nodes.Validators[i].Chains = []string{chain.ChainHash, "21"}
			}
		}
		for i := range g.Apps.Applications {
			g.Apps.Applications[i].StakedTokens = sdk.NewInt(baseAppStake)
			g.Apps.Applications[i].Chains = chainIDs
		}
	}
	g := chain.BuildGenesis(o)
	n := chain.NewNode(g, chainID, o.GenesisTime, dbm.NewMemDB(), dbm.NewMemDB(), dbm.NewMemDB(), false)
	n.InitChain()
	return &env{w: w, o: o, run: &chainx.Runner{N: n}, c: c, vbc: chainx.NewVbcMonitor()}
}

// restart = a process restart: new app object on the same DBs, every node-local cache empty.
func (e *env) restart() {
	resetCaches(e.c)
	e.run.Restart()
}

// extraTxs adds the cache-sensitive transactions to a generated block.
func (e *env) extraTxs(r *gen.R, height int64, ent *int64) ([][]byte, []string) {
	var txs [][]byte
	var kinds []string
	next := func() int64 { *ent++; return 500000000 + *ent }
	if height < chain.FirstModernHeight {
		return nil, nil
	}
	// application edit-stake around the current stake
	if r.Chance(1, 2) {
		k := e.w.Apps[r.Intn(len(e.w.Apps))]
		amt := baseAppStake + int64(r.Intn(5))*1000000
		txs = append(txs, chain.SignTx(chainID, k, chain.MsgAppStake(k, amt, chainIDs), chain.DefaultFee, next(), ""))
		kinds = append(kinds, "appedit")
	}
	// node edit-stake up and down the stake bins (15e9 each): succeeds only when it reaches a higher bin
	if r.Chance(1, 3) {
		ks := append(append([]chain.Key{}, e.w.Vals...), e.w.Servs...)
		k := ks[r.Intn(len(ks))]
		amt := e.w.MinStake * int64(1+r.Intn(4))
		txs = append(txs, chain.SignTx(chainID, k, chain.MsgNodeStake(k, amt, nodeChains(e.w, k), "https://n.example:443", k.Addr, nil), chain.DefaultFee, next(), ""))
		kinds = append(kinds, "nodeedit-bin")
	}
	if r.Chance(1, 8) {
		k := e.w.Apps[r.Intn(len(e.w.Apps))]
		txs = append(txs, chain.SignTx(chainID, k, chain.MsgAppUnstake(k.Addr), chain.DefaultFee, next(), ""))
		kinds = append(kinds, "appunstake")
	}
	if r.Chance(1, 10) {
		ks := append(append([]chain.Key{}, e.w.Vals[1:]...), e.w.Servs...)
		k := ks[r.Intn(len(ks))]
		txs = append(txs, chain.SignTx(chainID, k, chain.MsgNodeUnstake(k.Addr, k.Addr), chain.DefaultFee, next(), ""))
		kinds = append(kinds, "nodeunstake")
	}
	// claims for the session that ended most recently (and the one before)
	if height > 4 {
		nodes := append(append([]chain.Key{}, e.w.Vals...), e.w.Servs...)
		lastStart := ((height-1)/4)*4 + 1 - 4 // start of the last finished session
		for _, nd := range nodes {
			if !r.Chance(1, 4) {
				continue
			}
			s := lastStart
			if s > 4 && r.Chance(1, 4) {
				s -= 4
			}
			if s < 1 {
				continue
			}
			app := e.w.Apps[r.Intn(len(e.w.Apps))]
			cid := chainIDs[r.Intn(len(chainIDs))]
			txs = append(txs, chain.SignTx(chainID, nd, chainx.MsgClaimChain(nd, app, cid, s, 5+int64(r.Intn(10)), byte(r.Intn(3))), chain.DefaultFee, next(), ""))
			kinds = append(kinds, fmt.Sprintf("claim:%s@%d", cid, s))
		}
	}
	return txs, kinds
}

type actor struct {
	e      *env
	kind   string
	r      *gen.R
	nActs  int
	simEnt int64
}


func (a *actor) heights() int64 {
	n, r := a.e.run.N, a.r
	hs := []int64{0, n.Height}
	for i := 0; i < 4 && n.Height > 1; i++ {
		hs = append(hs, 1+int64(r.Intn(int(n.Height))))
	}
	return hs[r.Intn(len(hs))]
}

func query(n *chain.Node, q abci.RequestQuery) (code string) {
	defer func() {
		if e := recover(); e != nil {
			code = "panic"
			if os.Getenv("C13_DEBUG") != "" {
				fmt.Fprintf(os.Stderr, "query %s@%d panic: %v\n%s\n", q.Path, q.Height, e, debug.Stack())
			}
		}
	}()
	return fmt.Sprint(n.App.Query(q).Code)
}

func (a *actor) act(point string, i int) {
	r, n := a.r, a.e.run.N
	if point == "pre-begin" { // experiment switch: drop one cache before every block (attribution of a divergence)
		switch os.Getenv("C13_CLEAR") {
		case "ctx":
			sdk.GlobalCtxCache.Purge()
		case "vbc":
			sdk.VbCCache.Purge()
		case "session":
			pocketTypes.ClearSessionCache(pocketTypes.GlobalSessionCache)
		case "app":
			n.App.VerifAppsKeeper().ApplicationCache.Purge()
		}
	}
	if a.kind == "none" || n.Height < chain.FirstModernHeight {
		return
	}
	if !r.Chance(3, 5) {
		return
	}
	for c := 1 + r.Intn(2); c > 0; c-- {
		desc, code, extra := "", "", ""
		switch a.kind {
		case "appquery":
			h := a.heights()
			ks := append(append([]chain.Key{}, a.e.w.Apps...), a.e.w.Accts[0])
			ad := ks[r.Intn(len(ks))].Addr
			rts := chainx.AppRoutes(ad)
			rt := rts[0]
			if r.Chance(1, 4) {
				rt = rts[r.Intn(len(rts))]
			}
			desc = fmt.Sprintf("%s:%s@%d", strings.TrimPrefix(rt.Path, "custom/application/"), ad.String()[:8], h)
			if rt.Path == "custom/application/application" {
				extra = fmt.Sprintf(" key=%s ver=%s pre=%s", ad.String()[:8], versionRecord(n, h, ad), chainx.AppCacheDump(n))
			}
			code = query(n, abci.RequestQuery{Path: rt.Path, Data: rt.Data, Height: h})
		case "nodequery":
			h := a.heights()
			all := append(append(append([]chain.Key{}, a.e.w.Vals...), a.e.w.Servs...), a.e.w.Accts...)
			ad := all[r.Intn(len(all))].Addr
			routes := chainx.NodeRoutes(ad)
			rt := routes[r.Intn(len(routes))]
			if r.Chance(1, 2) { // mostly the single-validator route for a node address (fills the validator cache)
				nodes := append(append([]chain.Key{}, a.e.w.Vals...), a.e.w.Servs...)
				ad = nodes[r.Intn(len(nodes))].Addr
				rt = chainx.NodeRoutes(ad)[0]
			}
			desc = fmt.Sprintf("%s@%d", rt.Path, h)
			code = query(n, abci.RequestQuery{Path: rt.Path, Data: rt.Data, Height: h})
		case "dispatch":
			app := a.e.w.Apps[r.Intn(len(a.e.w.Apps))]
			cid := chainIDs[r.Intn(len(chainIDs))]
			hdr := pocketTypes.SessionHeader{ApplicationPubKey: app.Pub.RawString(), Chain: cid, SessionBlockHeight: 1}
			desc = "dispatch:" + cid + ":" + app.Addr.String()[:8]
			func() {
				defer func() {
					if e := recover(); e != nil {
						code = "panic"
					}
				}()
				res, err := n.App.HandleDispatch(hdr)
				if err != nil {
					code = "err"
				} else {
					code = fmt.Sprintf("ok:s%d:n%d", res.Session.SessionHeader.SessionBlockHeight, len(res.Session.SessionNodes))
				}
			}()
		case "simulate":
			a.simEnt++
			ent := 900000000 + a.simEnt
			var bz []byte
			switch r.Intn(4) {
			case 0, 1: // application edit-stake above whatever the current stake can be
				k := a.e.w.Apps[r.Intn(len(a.e.w.Apps))]
				amt := baseAppStake + int64(6+r.Intn(4))*1000000
				bz, desc = chain.SignTx(chainID, k, chain.MsgAppStake(k, amt, chainIDs), chain.DefaultFee, ent, ""), fmt.Sprintf("appedit:%s:%d", k.Addr.String()[:8], amt)
			case 2: // a funded account stakes a new application
				k := a.e.w.Accts[r.Intn(len(a.e.w.Accts))]
				bz, desc = chain.SignTx(chainID, k, chain.MsgAppStake(k, baseAppStake, chainIDs), chain.DefaultFee, ent, ""), "appstake:"+k.Addr.String()[:8]
			default: // node edit-stake into the highest bin
				ks := append(append([]chain.Key{}, a.e.w.Vals...), a.e.w.Servs...)
				k := ks[r.Intn(len(ks))]
				if r.Bool() {
					bz, desc = chain.SignTx(chainID, k, chain.MsgNodeStake(k, a.e.w.MinStake*5, nodeChains(a.e.w, k), "https://n.example:443", k.Addr, nil), chain.DefaultFee, ent, ""), "nodeedit:"+k.Addr.String()[:8]
				} else {
					bz, desc = chain.SignTx(chainID, k, chain.MsgNodeUnjail(k.Addr, k.Addr), chain.DefaultFee, ent, ""), "unjail:"+k.Addr.String()[:8]
				}
			}
			code = query(n, abci.RequestQuery{Path: "app/simulate", Data: bz, Height: n.Height})
		case "qdispatch":
			h := a.heights()
			app := a.e.w.Apps[r.Intn(len(a.e.w.Apps))]
			cid := chainIDs[r.Intn(len(chainIDs))]
			rt := chainx.DispatchRouteChain(app, cid)
			desc = fmt.Sprintf("qdispatch:%s:%s@%d", cid, app.Addr.String()[:8], h)
			code = query(n, abci.RequestQuery{Path: rt.Path, Data: rt.Data, Height: h})
		}
		vc, vs := a.e.vbc.Dump(n)
		fmt.Printf("act %s %s %s => code=%s cap=%d%s post=%s store=%s vbc=%s vbcstore=%s\n", a.kind, point, desc, code, a.e.c.cacheCap, extra, chainx.AppCacheDump(n), chainx.AppStoreDump(n), vc, vs)
		a.nActs++
	}
}

// versionRecord reads the application record of addr at a committed height (0 = latest) through a
// lazily loaded copy of that version and a prev context (touches no node-local cache).
func versionRecord(n *chain.Node, height int64, addr sdk.Address) (d string) {
	defer func() {
		if e := recover(); e != nil {
			d = "?"
		}
	}()
	if height == 0 {
		height = n.App.LastBlockHeight()
	}
	st, err := n.App.Store().(*rootmulti.Store).LoadLazyVersion(height)
	if err != nil {
		return "?"
	}
	ctx := sdk.NewContext((*st).(sdk.MultiStore), abci.Header{ChainID: chainID, Height: height}, false, n.App.Logger()).SetPrevCtx(true)
	ap, found := n.App.VerifAppsKeeper().GetApplication(ctx, addr)
	if !found {
		return "-"
	}
	return chainx.AppDigest(ap)
}

// probe tells which query context the code under test builds: after a restart a custom application
// query at an old height fills the ApplicationCache (as is) or leaves it alone (repaired).
func probe() {
	e := boot(cfg{"none", 1, 3, 100, 0})
	t := e.o.GenesisTime
	for i := 0; i < 3; i++ {
		t = t.Add(time.Minute)
		e.run.RunBlock(chain.Block{Time: t, Proposer: e.w.Vals[0].Addr}, nil)
	}
	e.restart()
	n := e.run.N
	ad := e.w.Apps[0].Addr
	pre := chainx.AppCacheDump(n)
	rt := chainx.AppRoutes(ad)[0]
	code := query(n, abci.RequestQuery{Path: rt.Path, Data: rt.Data, Height: 2})
	post := chainx.AppCacheDump(n)
	mode := "unknown"
	switch {
	case code != "0" || pre != "-":
	case post == "-":
		mode = "fixed"
	case strings.HasPrefix(post, ad.String()[:8]+":"):
		mode = "asis"
	}
	fmt.Printf("mode %s => code=%s cap=100 key=%s ver=%s pre=%s post=%s\n", mode, code, ad.String()[:8], versionRecord(n, 2, ad), pre, post)
}

// genHistory draws the chain data of one history (no node involved: the generator's view only).
func genHistory(c cfg) *chainx.History {
	w, o := chain.DefaultWorld(chainID, 3, 3, 2, 4)
	e := &env{w: w, o: o, c: c}
	r := gen.New(c.hseed)
	t := o.GenesisTime
	var ent int64
	h := &chainx.History{}
	for bi := 0; bi < c.blocks; bi++ {
		height := int64(bi + 1)
		b, descs := w.GenBlock(r, t, height, 2)
		// keep block times short so that 2-minute unstaking periods end inside a session now and then
		b.Time = t.Add([]time.Duration{time.Second, 20 * time.Second, time.Minute, 3 * time.Minute}[r.Intn(4)])
		t = b.Time
		xs, xk := e.extraTxs(r, height, &ent)
		b.Txs = append(b.Txs, xs...)
		var ks []string
		for _, d := range descs {
			ks = append(ks, d.Kind)
		}
		ks = append(ks, xk...)
		h.AddBlock(b, ks)
	}
	return h
}

func twin(role string, c cfg, histPath string) {
	h, err := chainx.LoadHistory(histPath)
	if err != nil {
		panic(err)
	}
	e := boot(c)
	a := &actor{e: e, kind: c.kind, r: gen.New(c.hseed ^ 0x5bd1e995)}
	for bi := range h.Blocks {
		b, ks := h.Block(bi)
		var hook chainx.Hook
		if role == "B" {
			hook = a.act
		}
		res := e.run.RunBlock(b, hook)
		n := e.run.N
		st := n.Dump(nil)
		kd := "-"
		if len(ks) > 0 {
			kd = strings.Join(ks, ",")
		}
		fmt.Printf("blk %d %s => %x %s %s %s %s\n", res.Height, kd, res.AppHash, chainx.Codes(res), chainx.ValUpdates(res), chainx.StateDigest(st), chainx.RawDigest(n))
		// runtime monitor of the coherence invariant after block execution (both twins)
		vc, vs := e.vbc.Dump(n)
		fmt.Printf("coh %d => cap=%d post=%s store=%s vbc=%s vbcstore=%s\n", res.Height, c.cacheCap, chainx.AppCacheDump(n), chainx.AppStoreDump(n), vc, vs)
		if c.restarts > 0 && (bi+1)%c.restarts == 0 {
			e.restart()
			fmt.Printf("restart %d\n", res.Height)
		}
	}
	fmt.Printf("done %d\n", a.nActs)
}

func main() {
	seed := flag.Uint64("seed", 1, "")
	nh := flag.Int("n", 12, "number of histories")
	out := flag.String("out", "c13.trace", "")
	role := flag.String("role", "", "internal: A | B")
	kind := flag.String("kind", "none", "internal")
	hseed := flag.Uint64("hseed", 0, "internal")
	blocks := flag.Int("blocks", 0, "internal / blocks per history (0 = 10..22)")
	ccap := flag.Int("cap", 0, "internal")
	restarts := flag.Int("restarts", 0, "internal")
	only := flag.String("only", "", "restrict to one traffic kind")
	histPath := flag.String("hist", "", "internal: history file")
	flag.Parse()
	if *role == "probe" {
		probe()
		return
	}
	if *role == "A" || *role == "B" {
		twin(*role, cfg{*kind, *hseed, *blocks, *ccap, *restarts}, *histPath)
		return
	}
	t := gen.NewTrace(*out)
	pl, perr := chainx.Child(childEnv, "-role", "probe")
	if perr != nil || len(pl) == 0 {
		fmt.Fprintln(os.Stderr, "probe failed:", perr)
		os.Exit(3)
	}
	t.Line("mode", true, "%s", pl[len(pl)-1])
	type result struct {
		a, b   []string
		ea, eb error
	}
	results := make([]result, *nh)
	cfgs := make([]cfg, *nh)
	pr := gen.New(*seed)
	for i := range cfgs {
		k := kinds[i%len(kinds)]
		if *only != "" {
			k = *only
		}
		nb := *blocks
		if nb == 0 {
			nb = 10 + pr.Intn(13)
		}
		cfgs[i] = cfg{k, *seed*1000003 + uint64(i)*7919 + 13, nb, []int{1, 1, 2, 100}[pr.Intn(4)], []int{0, 3, 5, 7}[pr.Intn(4)]}
	}
	// chain data is generated once, sequentially (the codec is process-global), before any twin starts
	chain.ModernGlobals()
	for i, c := range cfgs {
		if err := genHistory(c).Save(fmt.Sprintf("%s.h%d.json", *out, i)); err != nil {
			panic(err)
		}
	}
	sem := make(chan struct{}, 8)
	var wg sync.WaitGroup
	for i := range cfgs {
		wg.Add(1)
		go func(i int) {
			defer wg.Done()
			sem <- struct{}{}
			defer func() { <-sem }()
			c := cfgs[i]
			hp := fmt.Sprintf("%s.h%d.json", *out, i)
			defer os.Remove(hp)
			args := []string{"-hist", hp, "-kind", c.kind, "-hseed", fmt.Sprint(c.hseed), "-blocks", fmt.Sprint(c.blocks), "-cap", fmt.Sprint(c.cacheCap), "-restarts", fmt.Sprint(c.restarts)}
			a, e1 := chainx.Child(childEnv, append([]string{"-role", "A"}, args...)...)
			b, e2 := chainx.Child(childEnv, append([]string{"-role", "B"}, args...)...)
			results[i] = result{a, b, e1, e2}
		}(i)
	}
	wg.Wait()
	acts := 0
	for i, res := range results {
		c := cfgs[i]
		t.Line("hist", false, "hist %d %s %d %d cap=%d restarts=%d", i, c.kind, c.hseed, c.blocks, c.cacheCap, c.restarts)
		if res.ea != nil {
			t.Line("crash", false, "crash %d A => %s", i, strings.ReplaceAll(res.ea.Error(), "\n", " | "))
			continue
		}
		if res.eb != nil {
			t.Line("crash", false, "crash %d B => %s", i, strings.ReplaceAll(res.eb.Error(), "\n", " | "))
			continue
		}
		for _, l := range res.a {
			if strings.HasPrefix(l, "blk ") {
				t.Line("A/blk", true, "A %s", l)
			}
			if strings.HasPrefix(l, "coh ") {
				t.Line("A/coh", true, "A %s", l)
			}
		}
		for _, l := range res.b {
			f := strings.Fields(l)
			switch f[0] {
			case "blk":
				t.Line("B/blk", true, "B %s", l)
			case "restart":
				t.Line("B/restart", false, "B %s", l)
			case "coh":
				t.Line("B/coh", true, "B %s", l)
			case "act":
				acts++
				t.Line("B/act/"+f[1], true, "B %s", l)
			}
		}
		t.Line("end", false, "end %d", i)
	}
	t.Close(map[string]interface{}{"histories": *nh, "activities": acts})
}
