// c26: drives the real reward / fee splitting code of x/nodes and writes the trace consumed by
// lean/Driver/C26.lean.  No hooks: splitRewards is reached through the exported
// CalculateRelayReward (RSCAL off, RTTM 1), splitFeesCollected + blockReward through the exported
// keeper.BeginBlocker, SplitNodeRewards and RewardForRelaysPerChain are exported.
//
// Lines (decimal integers; delegators `id:share` with id = index of a 20-byte address, `id:share:x`
// = a key that is not a hex address; `-` = none):
//
//	split DAO PROP REWARD              => node fees | PANIC
//	deleg REWARDS DELEGS               => ERR | id:amt,…,P:amt     (callbacks, delegators sorted by id, primary last)
//	block DAO PROP FEES DELEGS         => daoDelta ; id:amt,…,P:amt ; feeCollectorLeft | PANIC
//	relay DAO PROP MULT RELAYS COST DELEGS => toNode ; supplyDelta ; O:amt id:amt … P:amt F:amt | PANIC
//	      (COST = reward cost read from the real keeper, `-` before the RewardDelegators upgrade;
//	       O = operator address, P = output address, F = fee collector)
package main

import (
	"encoding/binary"
	"flag"
	"fmt"
	"math/big"
	"runtime"
	"sort"
	"strings"

	"github.com/pokt-network/pocket-core/codec"
	"github.com/pokt-network/pocket-core/crypto"
	sdk "github.com/pokt-network/pocket-core/types"
	"github.com/pokt-network/pocket-core/x/auth"
	govTypes "github.com/pokt-network/pocket-core/x/gov/types"
	"github.com/pokt-network/pocket-core/x/nodes/keeper"
	"github.com/pokt-network/pocket-core/x/nodes/types"
	abci "github.com/tendermint/tendermint/abci/types"
	"github.com/tendermint/tendermint/libs/log"
	"verifharness/internal/gen"
	"verifharness/internal/poskeeper"
)

type deleg struct {
	id    int
	share uint32
	bad   bool
}

func idAddr(id int) sdk.Address {
	a := make([]byte, sdk.AddrLen)
	binary.BigEndian.PutUint64(a, uint64(id)+1)
	a[19] = 0xd1
	return a
}

func delegKey(d deleg) string {
	if d.bad {
		return fmt.Sprintf("zz-not-hex-%d", d.id)
	}
	return idAddr(d.id).String()
}

func delegMap(ds []deleg) map[string]uint32 {
	if len(ds) == 0 {
		return nil
	}
	m := map[string]uint32{}
	for _, d := range ds {
		m[delegKey(d)] = d.share
	}
	return m
}

func renderDelegs(ds []deleg) string {
	if len(ds) == 0 {
		return "-"
	}
	parts := make([]string, len(ds))
	for i, d := range ds {
		parts[i] = fmt.Sprintf("%d:%d", d.id, d.share)
		if d.bad {
			parts[i] += ":x"
		}
	}
	return strings.Join(parts, ",")
}

// genDelegs: 0..64 delegators; totals 0..100 mostly, sometimes a zero share, a bad key, or > 100.
func genDelegs(r *gen.R) []deleg {
	var n int
	switch r.Intn(8) {
	case 0:
		n = 0
	case 1:
		n = 1
	case 2:
		n = 2 + r.Intn(3)
	case 3:
		n = 64
	case 4:
		n = 5 + r.Intn(60)
	default:
		n = 1 + r.Intn(8)
	}
	ds := make([]deleg, n)
	target := 100
	switch r.Intn(5) {
	case 0:
		target = 100
	case 1:
		target = r.Intn(101)
	case 2:
		target = 99
	default:
		target = 1 + r.Intn(100)
	}
	if target < n {
		target = n
	}
	// random composition of `target` into n positive parts
	left := target
	for i := 0; i < n; i++ {
		rem := n - i - 1
		max := left - rem
		s := 1
		if i == n-1 {
			s = left
		} else if max > 1 {
			s = 1 + r.Intn(max)
			if r.Chance(2, 3) && s > (left/(rem+1))*2+1 {
				s = 1 + r.Intn((left/(rem+1))*2+1)
			}
		}
		ds[i] = deleg{id: i, share: uint32(s)}
		left -= s
	}
	if n > 0 {
		switch r.Intn(14) {
		case 0:
			ds[r.Intn(n)].share = 0
		case 1:
			ds[r.Intn(n)].bad = true
		case 2:
			ds[r.Intn(n)].share += uint32(101 - target + r.Intn(3)) // total > 100
		case 3:
			ds[r.Intn(n)].share = 4294967295
		}
	}
	// the Go map has no order; shuffle so that the line order is not meaningful either
	for i := n - 1; i > 0; i-- {
		j := r.Intn(i + 1)
		ds[i], ds[j] = ds[j], ds[i]
	}
	return ds
}

func genAmount(r *gen.R) *big.Int {
	switch r.Intn(10) {
	case 0:
		return big.NewInt(0)
	case 1:
		return big.NewInt(int64(1 + r.Intn(3)))
	case 2:
		return big.NewInt(int64(r.Intn(200)))
	case 3:
		return big.NewInt(99 + int64(r.Intn(3)))
	case 4:
		return new(big.Int).SetBytes(r.Bytes(1 + r.Intn(12)))
	case 5:
		x := new(big.Int).Lsh(big.NewInt(1), uint(100+r.Intn(150)))
		return x.Sub(x, big.NewInt(int64(r.Intn(3))))
	case 6:
		return big.NewInt(int64(r.Intn(10000)) * 100)
	default:
		return big.NewInt(int64(r.Intn(100000000)))
	}
}

func genAlloc(r *gen.R) (int64, int64) {
	switch r.Intn(10) {
	case 0:
		return 10, 1
	case 1:
		return 10, 5
	case 2:
		d := int64(r.Intn(101))
		return d, 100 - d
	case 3:
		return 0, int64(r.Intn(101))
	case 4:
		return int64(r.Intn(101)), 0
	case 5:
		return int64(1 + r.Intn(3)), int64(1 + r.Intn(3))
	default:
		d := int64(r.Intn(101))
		return d, int64(r.Intn(int(101 - d)))
	}
}

func try(f func() string) (s string) {
	defer func() {
		if r := recover(); r != nil {
			s = "PANIC"
		}
	}()
	return f()
}

var (
	env     *poskeeper.Env
	opPub   crypto.Ed25519PublicKey
	outAddr sdk.Address
)

func features(rscal bool, delegUpgrade bool) {
	codec.UpgradeFeatureMap[codec.NonCustodialUpdateKey] = 1
	if rscal {
		codec.UpgradeFeatureMap[codec.RSCALKey] = 1
	} else {
		codec.UpgradeFeatureMap[codec.RSCALKey] = 0
	}
	if delegUpgrade {
		codec.UpgradeFeatureMap[codec.RewardDelegatorsKey] = 1
	} else {
		codec.UpgradeFeatureMap[codec.RewardDelegatorsKey] = 0
	}
}

func setAlloc(ctx sdk.Ctx, dao, prop, mult int64) {
	p := env.K.GetParams(ctx)
	p.DAOAllocation = dao
	p.ProposerAllocation = prop
	p.RelaysToTokensMultiplier = mult
	env.K.SetParams(ctx, p)
}

func coin(x sdk.BigInt) sdk.Coins { return sdk.NewCoins(sdk.NewCoin(sdk.DefaultStakeDenom, x)) }

func bint(x *big.Int) sdk.BigInt { return sdk.NewIntFromBigInt(new(big.Int).Set(x)) }

type pay struct {
	key string
	id  int
	amt sdk.BigInt
}

func renderPays(ps []pay) string {
	if len(ps) == 0 {
		return "-"
	}
	sort.SliceStable(ps, func(i, j int) bool { return ps[i].id < ps[j].id })
	parts := make([]string, len(ps))
	for i, p := range ps {
		parts[i] = p.key + ":" + p.amt.String()
	}
	return strings.Join(parts, ",")
}

// order: O (operator) first, delegators by id, P (output), F (fee collector)
const (
	idOperator = -1
	idPrimary  = 1 << 30
	idFee      = 1<<30 + 1
)

func doSplit(dao, prop int64, reward *big.Int) string {
	return try(func() string {
		features(false, true)
		ctx, _ := env.Ctx.CacheContext()
		setAlloc(ctx, dao, prop, 1)
		node, fees := env.K.CalculateRelayReward(ctx, "", bint(reward), sdk.NewInt(1))
		return node.String() + " " + fees.String()
	})
}

func doDeleg(rewards *big.Int, ds []deleg) string {
	return try(func() string {
		var ps []pay
		primary := outAddr
		err := keeper.SplitNodeRewards(log.NewNopLogger(), bint(rewards), primary, delegMap(ds),
			func(addr sdk.Address, c sdk.BigInt) {
				if addr.Equals(primary) {
					ps = append(ps, pay{"P", idPrimary, c})
					return
				}
				for _, d := range ds {
					if !d.bad && addr.Equals(idAddr(d.id)) {
						ps = append(ps, pay{fmt.Sprint(d.id), d.id, c})
						return
					}
				}
				ps = append(ps, pay{"UNKNOWN", idFee, c})
			})
		if err != nil {
			return "ERR"
		}
		return renderPays(ps)
	})
}

func setValidator(ctx sdk.Ctx, stake sdk.BigInt, ds []deleg) types.Validator {
	v := poskeeper.Validator(opPub, stake, outAddr, delegMap(ds))
	env.K.SetValidator(ctx, v)
	return v
}

func balances(ctx sdk.Ctx, v types.Validator, ds []deleg, withOperator bool) []pay {
	var ps []pay
	if withOperator {
		ps = append(ps, pay{"O", idOperator, env.Balance(ctx, v.Address)})
	}
	for _, d := range ds {
		if !d.bad {
			ps = append(ps, pay{fmt.Sprint(d.id), d.id, env.Balance(ctx, idAddr(d.id))})
		}
	}
	ps = append(ps, pay{"P", idPrimary, env.Balance(ctx, outAddr)})
	return ps
}

func nonzero(ps []pay) []pay {
	var out []pay
	for _, p := range ps {
		if !p.amt.IsZero() {
			out = append(out, p)
		}
	}
	return out
}

func doBlock(dao, prop int64, fees *big.Int, ds []deleg) string {
	return try(func() string {
		features(false, true)
		ctx, _ := env.Ctx.CacheContext()
		setAlloc(ctx, dao, prop, 1)
		v := setValidator(ctx, sdk.NewInt(15000000000), ds)
		env.K.SetPreviousProposer(ctx, v.Address)
		if fees.Sign() > 0 {
			if err := env.AK.MintCoins(ctx, types.StakedPoolName, coin(bint(fees))); err != nil {
				panic(err)
			}
			if err := env.AK.SendCoinsFromModuleToModule(ctx, types.StakedPoolName, auth.FeeCollectorName, coin(bint(fees))); err != nil {
				panic(err)
			}
		}
		daoBefore := sdk.ZeroInt()
		if a := env.AK.GetModuleAccount(ctx, govTypes.DAOAccountName); a != nil {
			daoBefore = a.GetCoins().AmountOf(sdk.DefaultStakeDenom)
		}
		keeper.BeginBlocker(ctx, abci.RequestBeginBlock{Header: abci.Header{ProposerAddress: v.Address}}, env.K)
		daoAfter := env.AK.GetModuleAccount(ctx, govTypes.DAOAccountName).GetCoins().AmountOf(sdk.DefaultStakeDenom)
		left := env.AK.GetModuleAccount(ctx, auth.FeeCollectorName).GetCoins().AmountOf(sdk.DefaultStakeDenom)
		return fmt.Sprintf("%s ; %s ; %s", daoAfter.Sub(daoBefore), renderPays(nonzero(balances(ctx, v, ds, false))), left)
	})
}

func doRelay(dao, prop, mult int64, relays *big.Int, delegUpgrade bool, feeMult int64, ds []deleg) (string, string) {
	cost := "-"
	res := try(func() string {
		features(false, delegUpgrade)
		ctx, _ := env.Ctx.CacheContext()
		setAlloc(ctx, dao, prop, mult)
		ap := env.AK.GetParams(ctx)
		ap.FeeMultiplier.Default = feeMult
		env.AK.SetParams(ctx, ap)
		if delegUpgrade {
			cost = env.K.GetRewardCost(ctx).String()
		}
		v := setValidator(ctx, sdk.NewInt(15000000000), ds)
		supply0 := env.Supply(ctx)
		toNode := env.K.RewardForRelaysPerChain(ctx, "0001", bint(relays), v.Address)
		ps := nonzero(balances(ctx, v, ds, true))
		if f := env.AK.GetModuleAccount(ctx, auth.FeeCollectorName).GetCoins().AmountOf(sdk.DefaultStakeDenom); !f.IsZero() {
			ps = append(ps, pay{"F", idFee, f})
		}
		return fmt.Sprintf("%s ; %s ; %s", toNode, env.Supply(ctx).Sub(supply0), renderPays(ps))
	})
	return cost, res
}

func main() {
	seed := flag.Uint64("seed", 1, "")
	n := flag.Int("n", 3000, "")
	out := flag.String("out", "c26.trace", "")
	mode := flag.String("mode", "gen", "gen | witness")
	flag.Parse()
	runtime.GOMAXPROCS(2)
	r := gen.New(*seed)
	t := gen.NewTrace(*out)
	env = poskeeper.New()
	env.Ctx = env.Ctx.WithBlockHeight(100000)
	copy(opPub[:], []byte("c26-operator-key-0123456789abcdef"))
	outAddr = make([]byte, sdk.AddrLen)
	for i := range outAddr {
		outAddr[i] = 0xee
	}
	if *mode == "witness" {
		t.Line("block", true, "block 0 0 1000 - => %s", doBlock(0, 0, big.NewInt(1000), nil))
		t.Line("block", true, "block 0 0 0 - => %s", doBlock(0, 0, big.NewInt(0), nil))
		t.Line("block", true, "block 10 1 1100 - => %s", doBlock(10, 1, big.NewInt(1100), nil))
		t.Line("split", true, "split 0 0 1000 => %s", doSplit(0, 0, big.NewInt(1000)))
		t.Close(nil)
		return
	}
	for i := 0; i < *n; i++ {
		switch k := r.Intn(10); {
		case k < 3:
			dao, prop := genAlloc(r)
			reward := genAmount(r)
			res := doSplit(dao, prop, reward)
			t.Line("split", res != "PANIC" && reward.Sign() > 0, "split %d %d %s => %s", dao, prop, reward, res)
		case k < 6:
			rewards := genAmount(r)
			ds := genDelegs(r)
			res := doDeleg(rewards, ds)
			t.Line("deleg", res != "PANIC" && res != "ERR" && len(ds) > 0, "deleg %s %s => %s", rewards, renderDelegs(ds), res)
		case k < 8:
			dao, prop := genAlloc(r)
			if r.Chance(1, 25) {
				dao, prop = 0, 0
			}
			fees := genAmount(r)
			if fees.BitLen() > 120 {
				fees = big.NewInt(int64(r.Intn(1000000)))
			}
			ds := genDelegs(r)
			res := doBlock(dao, prop, fees, ds)
			t.Line("block", res != "PANIC" && fees.Sign() > 0, "block %d %d %s %s => %s", dao, prop, fees, renderDelegs(ds), res)
		default:
			dao, prop := genAlloc(r)
			mult := []int64{1, 1000, 10000, int64(1 + r.Intn(100000))}[r.Intn(4)]
			relays := genAmount(r)
			if relays.BitLen() > 60 {
				relays = big.NewInt(int64(r.Intn(100000)))
			}
			up := !r.Chance(1, 5)
			feeMult := []int64{1, 1, 0, 2, int64(r.Intn(5000))}[r.Intn(5)]
			ds := genDelegs(r)
			cost, res := doRelay(dao, prop, mult, relays, up, feeMult, ds)
			t.Line("relay", res != "PANIC" && relays.Sign() > 0, "relay %d %d %d %s %s %s => %s", dao, prop, mult, relays, cost, renderDelegs(ds), res)
		}
	}
	t.Close(nil)
}
