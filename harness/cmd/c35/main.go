// c35: drives the real x/pocketcore relay authorization (types.Relay.Validate with
// RelayProof.ValidateLocal/ValidateBasic, AAT.Validate, Session.Validate; and keeper.HandleRelay
// including the session-height tolerance, evidence storage, execution against a local HTTP server
// and the signed response) on a well-formed relay with single fields altered, and writes the trace
// consumed by lean/Driver/C35.lean.
//
// The keepers of the other modules are stubs of the expectedKeepers interfaces whose answers depend
// only on the height of the context they are asked with (world at session height vs. world now).
// Signature verdicts, hashes, address derivation and session-node selection are handed to the Lean
// driver as oracle data; the driver evaluates the decision logic (order of checks, error class).
package main

import (
	"encoding/hex"
	"errors"
	"flag"
	"fmt"
	"io"
	"math"
	"net/http"
	"net/http/httptest"
	"os"
	"os/exec"
	"sort"
	"strings"
	"sync"

	"github.com/pokt-network/pocket-core/codec"
	"github.com/pokt-network/pocket-core/crypto"
	"github.com/pokt-network/pocket-core/store"
	sdk "github.com/pokt-network/pocket-core/types"
	appexported "github.com/pokt-network/pocket-core/x/apps/exported"
	appsTypes "github.com/pokt-network/pocket-core/x/apps/types"
	nodesexported "github.com/pokt-network/pocket-core/x/nodes/exported"
	nodesTypes "github.com/pokt-network/pocket-core/x/nodes/types"
	pckeeper "github.com/pokt-network/pocket-core/x/pocketcore/keeper"
	pc "github.com/pokt-network/pocket-core/x/pocketcore/types"
	abci "github.com/tendermint/tendermint/abci/types"
	"github.com/tendermint/tendermint/config"
	"github.com/tendermint/tendermint/crypto/ed25519"
	"github.com/tendermint/tendermint/libs/log"
	dbm "github.com/tendermint/tm-db"
	"verifharness/internal/gen"
)

// ---------------------------------------------------------------- world + stubs

type world struct {
	apps  map[string]appsTypes.Application // address hex -> app
	vals  []nodesTypes.Validator           // validators (GetValidatorsByChain returns those with the chain)
	count int64                            // SessionNodeCount
}

type env struct {
	height       int64
	bps          int64
	worlds       map[int64]*world // by context height; missing height => PrevCtx fails
	maxChainsApp int64
	maxChainsPos int64
}

func (e *env) w(ctx sdk.Ctx) *world {
	if w, ok := e.worlds[ctx.BlockHeight()]; ok {
		return w
	}
	return &world{apps: map[string]appsTypes.Application{}}
}

// the embedded field must not be called Context (the interface has a method of that name)
type baseCtx = sdk.Context

type hctx struct {
	baseCtx
	e *env
}

func mkCtx(h int64) sdk.Context {
	hash := pc.Hash([]byte(fmt.Sprintf("block-%d", h)))
	return sdk.NewContext(nil, abci.Header{ChainID: "verif", Height: h, LastBlockId: abci.BlockID{Hash: hash}}, false, log.NewNopLogger())
}

func (c hctx) PrevCtx(h int64) (sdk.Context, error) {
	if _, ok := c.e.worlds[h]; !ok {
		return sdk.Context{}, errors.New("block at height not found")
	}
	return mkCtx(h), nil
}

type posStub struct{ e *env }

func (p posStub) CalculateRelayReward(sdk.Ctx, string, sdk.BigInt, sdk.BigInt) (a, b sdk.BigInt) {
	panic("unused")
}
func (p posStub) RewardForRelays(sdk.Ctx, sdk.BigInt, sdk.Address) sdk.BigInt { panic("unused") }
func (p posStub) RewardForRelaysPerChain(sdk.Ctx, string, sdk.BigInt, sdk.Address) sdk.BigInt {
	panic("unused")
}
func (p posStub) GetStakedTokens(sdk.Ctx) sdk.BigInt { panic("unused") }
func (p posStub) Validator(ctx sdk.Ctx, addr sdk.Address) nodesexported.ValidatorI {
	for _, v := range p.e.w(ctx).vals {
		if v.Address.Equals(addr) {
			return v
		}
	}
	return nil
}
func (p posStub) TotalTokens(sdk.Ctx) sdk.BigInt                    { panic("unused") }
func (p posStub) BurnForChallenge(sdk.Ctx, sdk.BigInt, sdk.Address) { panic("unused") }
func (p posStub) JailValidator(sdk.Ctx, sdk.Address)                { panic("unused") }
func (p posStub) AllValidators(sdk.Ctx) []nodesexported.ValidatorI  { panic("unused") }
func (p posStub) GetStakedValidators(sdk.Ctx) []nodesexported.ValidatorI {
	panic("unused")
}
func (p posStub) BlocksPerSession(sdk.Ctx) int64 { return p.e.bps }
func (p posStub) StakeDenom(sdk.Ctx) string      { return "upokt" }
func (p posStub) GetValidatorsByChain(ctx sdk.Ctx, chain string) (out []sdk.Address, total int) {
	for _, v := range p.e.w(ctx).vals {
		for _, c := range v.Chains {
			if c == chain {
				out = append(out, v.Address)
				break
			}
		}
	}
	return out, len(out)
}
func (p posStub) MaxChains(sdk.Ctx) int64          { return p.e.maxChainsPos }
func (p posStub) GetRewardCost(sdk.Ctx) sdk.BigInt { panic("unused") }

type appsStub struct{ e *env }

func (a appsStub) GetStakedTokens(sdk.Ctx) sdk.BigInt { panic("unused") }
func (a appsStub) Application(ctx sdk.Ctx, addr sdk.Address) appexported.ApplicationI {
	if app, ok := a.e.w(ctx).apps[addr.String()]; ok {
		return app
	}
	return nil
}
func (a appsStub) AllApplications(sdk.Ctx) []appexported.ApplicationI { panic("unused") }
func (a appsStub) TotalTokens(sdk.Ctx) sdk.BigInt                     { panic("unused") }
func (a appsStub) JailApplication(sdk.Ctx, sdk.Address)               { panic("unused") }
func (a appsStub) MaxChains(sdk.Ctx) int64                            { return a.e.maxChainsApp }

type pocketStub struct{ e *env }

func (p pocketStub) SessionNodeCount(ctx sdk.Ctx) int64 { return p.e.w(ctx).count }
func (p pocketStub) Codec() *codec.Codec                { return pc.ModuleCdc }

// ---------------------------------------------------------------- keys

func edKey(r *gen.R) crypto.Ed25519PrivateKey {
	return crypto.Ed25519PrivateKey(ed25519.GenPrivKeyFromSecret(r.Bytes(16)))
}

func newStore() *pc.CacheStorage {
	s := &pc.CacheStorage{}
	s.Init("", "", config.DefaultLevelDBOpts(), 100, true)
	s.SealMap = &sync.Map{}
	return s
}

// ---------------------------------------------------------------- scenario

type scenario struct {
	e          *env
	node       *pc.PocketNode
	nodeKey    crypto.Ed25519PrivateKey
	appKey     crypto.Ed25519PrivateKey
	clientKey  crypto.Ed25519PrivateKey
	hosted     []string
	relay      pc.Relay
	sbh        int64 // the sessionBlockHeight argument of Validate
	blockAllow int
	enforceMax bool
	label      string
	ws         *world
}

// ensureEnd makes the world at the end of the (possibly altered) session exist, as it does on a
// node that has the session's first block.
func (s *scenario) ensureEnd() {
	end := s.sbh + s.e.bps - 1
	if end < s.e.height {
		if _, ok := s.e.worlds[end]; !ok {
			if w, ok := s.e.worlds[s.e.height]; ok {
				s.e.worlds[end] = w
			}
		}
	}
}

func hx(s string) string { return gen.Hex([]byte(s)) }

const chainA, chainB, chainC = "0001", "0021", "0040"

func signToken(k crypto.PrivateKey, t *pc.AAT) {
	t.ApplicationSignature = ""
	sig, _ := k.Sign(t.Hash())
	t.ApplicationSignature = hex.EncodeToString(sig)
}
func signProof(k crypto.PrivateKey, p *pc.RelayProof) {
	p.Signature = ""
	sig, _ := k.Sign(p.Hash())
	p.Signature = hex.EncodeToString(sig)
}

func latestSession(h, bps int64) int64 {
	if h%bps == 0 {
		return h - bps + 1
	}
	return (h/bps)*bps + 1
}

func flipHexChar(r *gen.R, s string) string {
	if len(s) == 0 {
		return "00"
	}
	i := r.Intn(len(s))
	c := s[i]
	repl := byte('0')
	if c == '0' {
		repl = '1'
	}
	return s[:i] + string(repl) + s[i+1:]
}

// base builds a well-formed world and relay.
func base(r *gen.R) *scenario {
	s := &scenario{}
	bps := int64(4)
	h := int64(40 + r.Intn(40))
	s.e = &env{height: h, bps: bps, worlds: map[int64]*world{}, maxChainsApp: 15, maxChainsPos: 15}
	s.nodeKey, s.appKey, s.clientKey = edKey(r), edKey(r), edKey(r)
	s.node = &pc.PocketNode{PrivateKey: s.nodeKey, EvidenceStore: newStore(), SessionStore: newStore()}
	s.hosted = []string{chainA, chainC}
	s.blockAllow = 3
	sbh := latestSession(h, bps)
	s.sbh = sbh
	mkWorld := func() *world {
		w := &world{apps: map[string]appsTypes.Application{}, count: 3}
		app := appsTypes.NewApplication(sdk.Address(s.appKey.PublicKey().Address()), s.appKey.PublicKey(), []string{chainA, chainB}, sdk.NewInt(1000000))
		app.MaxRelays = sdk.NewInt(int64(600 + r.Intn(3)*7))
		w.apps[app.Address.String()] = app
		self := nodesTypes.NewValidator(s.node.GetAddress(), s.nodeKey.PublicKey(), []string{chainA, chainC}, "http://x", sdk.NewInt(15000000000), s.node.GetAddress())
		w.vals = append(w.vals, self)
		for i := 0; i < 2; i++ {
			k := edKey(r)
			w.vals = append(w.vals, nodesTypes.NewValidator(sdk.Address(k.PublicKey().Address()), k.PublicKey(), []string{chainA}, "http://y", sdk.NewInt(15000000000), nil))
		}
		return w
	}
	ws := mkWorld()
	s.e.worlds[sbh] = ws
	if h != sbh {
		// the world now: same content (copied so that it can be altered independently)
		wn := &world{apps: map[string]appsTypes.Application{}, count: ws.count, vals: append([]nodesTypes.Validator(nil), ws.vals...)}
		for k, v := range ws.apps {
			wn.apps[k] = v
		}
		s.e.worlds[h] = wn
	}
	s.ws = ws
	rel := pc.Relay{
		Payload: pc.Payload{Data: `{"jsonrpc":"2.0","method":"eth_blockNumber","id":` + fmt.Sprint(r.Intn(1000)) + `}`, Method: "POST", Path: "", Headers: nil},
		Meta:    pc.RelayMeta{BlockHeight: h - int64(r.Intn(3))},
		Proof: pc.RelayProof{
			Entropy:            int64(r.U64() >> 2),
			SessionBlockHeight: sbh,
			ServicerPubKey:     s.nodeKey.PublicKey().RawString(),
			Blockchain:         chainA,
			Token: pc.AAT{
				Version:              "0.0.1",
				ApplicationPublicKey: s.appKey.PublicKey().RawString(),
				ClientPublicKey:      s.clientKey.PublicKey().RawString(),
			},
		},
	}
	rel.Proof.RequestHash = rel.RequestHashString()
	signToken(s.appKey, &rel.Proof.Token)
	signProof(s.clientKey, &rel.Proof)
	s.relay = rel
	s.label = "ok"
	return s
}

// resign: re-sign token and proof with the legitimate keys after a field was altered (so that
// only the altered field is wrong, not the signatures that cover it).
func (s *scenario) resign(token, proof bool) {
	if token {
		signToken(s.appKey, &s.relay.Proof.Token)
	}
	if proof {
		signProof(s.clientKey, &s.relay.Proof)
	}
}

var alterations = []string{
	"ok", "ok", "ok",
	"token-sig-flip", "token-sig-otherkey", "token-sig-empty", "token-sig-short", "token-version-empty", "token-version-other",
	"token-apppub-other", "token-apppub-other-resigned", "token-apppub-upper", "token-apppub-mixed", "token-apppub-bad", "token-apppub-empty",
	"token-clientpub-other", "token-clientpub-other-resigned", "token-clientpub-bad", "token-clientpub-empty",
	"client-sig-flip", "client-sig-otherkey", "client-sig-empty", "client-sig-nonhex", "client-sig-appkey",
	"payload-changed", "payload-empty", "payload-path-only", "reqhash-flip", "reqhash-flip-resigned", "reqhash-short-resigned", "reqhash-nonhex-resigned", "meta-changed",
	"servicer-other", "servicer-other-resigned", "servicer-bad-resigned", "servicer-empty-resigned",
	"chain-unhosted-resigned", "chain-hosted-notapp-resigned", "chain-app-nothosted-resigned", "chain-bad-resigned", "chain-empty-resigned", "chain-long-resigned", "chain-flip",
	"sbh-plus1-resigned", "sbh-minus1-resigned", "sbh-prev-session-resigned", "sbh-zero-resigned", "sbh-negative-resigned", "sbh-arg-mismatch", "sbh-changed-unsigned",
	"meta-high-edge", "meta-high-over", "meta-low-edge", "meta-low-under",
	"meta-h-plus-minint64", "meta-h-plus-minint64-plus1", "meta-h-plus-minint64-minus1", "meta-h-minus-maxint64",
	"meta-minint64", "meta-maxint64", "meta-zero", "meta-minus1", "meta-minus-h",
	"entropy-negative-resigned", "entropy-changed",
	"app-absent", "app-absent-at-session-present-now", "app-present-at-session-absent-now", "app-unstaking", "app-jailed", "app-unstaked-zero-relays", "app-chains-over-limit", "app-chains-over-limit-unenforced", "app-no-chains",
	"evidence-sealed", "evidence-duplicate", "evidence-at-max", "evidence-some",
	"node-not-in-session", "insufficient-nodes", "node-jailed-now", "prevctx-missing", "session-count-zero",
	"session-end-ctx-missing", "app-tiny-allowance",
}

func (s *scenario) alter(r *gen.R, a string) {
	s.label = a
	p := &s.relay.Proof
	other := edKey(r)
	ws := s.e.worlds[s.sbh]
	appAddr := sdk.Address(s.appKey.PublicKey().Address()).String()
	switch a {
	case "ok":
	case "token-sig-flip":
		p.Token.ApplicationSignature = flipHexChar(r, p.Token.ApplicationSignature)
	case "token-sig-otherkey":
		signToken(other, &p.Token)
	case "token-sig-empty":
		p.Token.ApplicationSignature = ""
	case "token-sig-short":
		p.Token.ApplicationSignature = p.Token.ApplicationSignature[:126]
	case "token-version-empty":
		p.Token.Version = ""
		s.resign(true, true)
	case "token-version-other":
		p.Token.Version = "0.0.2"
		s.resign(true, true)
	case "token-apppub-other":
		p.Token.ApplicationPublicKey = other.PublicKey().RawString()
	case "token-apppub-other-resigned":
		// a key pair that is not an application signs its own token
		p.Token.ApplicationPublicKey = other.PublicKey().RawString()
		signToken(other, &p.Token)
		s.resign(false, true)
	case "token-apppub-upper":
		p.Token.ApplicationPublicKey = strings.ToUpper(p.Token.ApplicationPublicKey)
		s.resign(true, true)
	case "token-apppub-mixed":
		if sp := respell(p.Token.ApplicationPublicKey, r.U64()|1<<uint(r.Intn(8))); sp != p.Token.ApplicationPublicKey {
			p.Token.ApplicationPublicKey = sp
		} else {
			p.Token.ApplicationPublicKey = strings.ToUpper(sp)
		}
		s.resign(true, true)
	case "token-apppub-bad":
		p.Token.ApplicationPublicKey = "zz" + p.Token.ApplicationPublicKey[2:]
		s.resign(false, true)
	case "token-apppub-empty":
		p.Token.ApplicationPublicKey = ""
		s.resign(false, true)
	case "token-clientpub-other":
		p.Token.ClientPublicKey = other.PublicKey().RawString()
	case "token-clientpub-other-resigned":
		// the app never authorised this client key; the client signs with its own key
		p.Token.ClientPublicKey = other.PublicKey().RawString()
		signProof(other, p)
	case "token-clientpub-bad":
		p.Token.ClientPublicKey = p.Token.ClientPublicKey[:60]
		s.resign(true, true)
	case "token-clientpub-empty":
		p.Token.ClientPublicKey = ""
		s.resign(true, true)
	case "client-sig-flip":
		p.Signature = flipHexChar(r, p.Signature)
	case "client-sig-otherkey":
		signProof(other, p)
	case "client-sig-empty":
		p.Signature = ""
	case "client-sig-nonhex":
		p.Signature = "zz" + p.Signature[2:]
	case "client-sig-appkey":
		signProof(s.appKey, p)
	case "payload-changed":
		s.relay.Payload.Data += " "
	case "payload-empty":
		s.relay.Payload.Data, s.relay.Payload.Path = "", ""
		p.RequestHash = s.relay.RequestHashString()
		s.resign(false, true)
	case "payload-path-only":
		s.relay.Payload.Data, s.relay.Payload.Path = "", "/v1/x"
		p.RequestHash = s.relay.RequestHashString()
		s.resign(false, true)
	case "reqhash-flip":
		p.RequestHash = flipHexChar(r, p.RequestHash)
	case "reqhash-flip-resigned":
		p.RequestHash = flipHexChar(r, p.RequestHash)
		s.resign(false, true)
	case "reqhash-short-resigned":
		p.RequestHash = p.RequestHash[:62]
		s.resign(false, true)
	case "reqhash-nonhex-resigned":
		p.RequestHash = "zz" + p.RequestHash[2:]
		s.resign(false, true)
	case "meta-changed":
		s.relay.Meta.BlockHeight++
	case "servicer-other":
		p.ServicerPubKey = ws.vals[1].PublicKey.RawString()
	case "servicer-other-resigned":
		p.ServicerPubKey = ws.vals[1].PublicKey.RawString()
		s.resign(false, true)
	case "servicer-bad-resigned":
		p.ServicerPubKey = p.ServicerPubKey[:62]
		s.resign(false, true)
	case "servicer-empty-resigned":
		p.ServicerPubKey = ""
		s.resign(false, true)
	case "chain-unhosted-resigned":
		p.Blockchain = chainB // in app.chains, not hosted by this node
		s.resign(false, true)
	case "chain-hosted-notapp-resigned":
		p.Blockchain = chainC // hosted, not in app.chains
		s.resign(false, true)
	case "chain-app-nothosted-resigned":
		p.Blockchain = "0099"
		s.resign(false, true)
	case "chain-bad-resigned":
		p.Blockchain = "00zz"
		s.hosted = append(s.hosted, "00zz")
		s.resign(false, true)
	case "chain-empty-resigned":
		p.Blockchain = ""
		s.hosted = append(s.hosted, "")
		s.resign(false, true)
	case "chain-long-resigned":
		p.Blockchain = "0001020304"
		s.hosted = append(s.hosted, "0001020304")
		s.resign(false, true)
	case "chain-flip":
		p.Blockchain = chainC
	case "sbh-plus1-resigned", "sbh-minus1-resigned", "sbh-prev-session-resigned", "sbh-zero-resigned", "sbh-negative-resigned":
		d := map[string]int64{"sbh-plus1-resigned": 1, "sbh-minus1-resigned": -1, "sbh-prev-session-resigned": -s.e.bps}[a]
		n := p.SessionBlockHeight + d
		if a == "sbh-zero-resigned" {
			n = 0
		}
		if a == "sbh-negative-resigned" {
			n = -5
		}
		p.SessionBlockHeight = n
		s.sbh = n
		// the world exists at that height as well (same content)
		if _, ok := s.e.worlds[n]; !ok {
			s.e.worlds[n] = ws
		}
		s.ensureEnd()
		s.resign(false, true)
	case "sbh-arg-mismatch":
		s.sbh = p.SessionBlockHeight - s.e.bps
		s.e.worlds[s.sbh] = ws
		s.ensureEnd()
	case "sbh-changed-unsigned":
		p.SessionBlockHeight -= s.e.bps
		s.sbh = p.SessionBlockHeight
		s.e.worlds[s.sbh] = ws
		s.ensureEnd()
	case "session-end-ctx-missing":
		// previous session whose last block is not available (PrevCtx(sessionEnd) fails)
		p.SessionBlockHeight -= s.e.bps
		s.sbh = p.SessionBlockHeight
		s.e.worlds[s.sbh] = ws
		s.resign(false, true)
	case "app-tiny-allowance":
		// an allowance that rounds to zero relays per node and session
		app := ws.apps[appAddr]
		app.MaxRelays = sdk.NewInt(1)
		for _, w := range s.e.worlds {
			if _, ok := w.apps[appAddr]; ok {
				w.apps[appAddr] = app
			}
		}
	case "meta-high-edge":
		s.relay.Meta.BlockHeight = s.e.height + int64(s.blockAllow)
		p.RequestHash = s.relay.RequestHashString()
		s.resign(false, true)
	case "meta-high-over":
		s.relay.Meta.BlockHeight = s.e.height + int64(s.blockAllow) + 1
		p.RequestHash = s.relay.RequestHashString()
		s.resign(false, true)
	case "meta-low-edge":
		s.relay.Meta.BlockHeight = s.e.height - int64(s.blockAllow)
		p.RequestHash = s.relay.RequestHashString()
		s.resign(false, true)
	case "meta-low-under":
		s.relay.Meta.BlockHeight = s.e.height - int64(s.blockAllow) - 1
		p.RequestHash = s.relay.RequestHashString()
		s.resign(false, true)
	case "meta-h-plus-minint64", "meta-h-plus-minint64-plus1", "meta-h-plus-minint64-minus1", "meta-h-minus-maxint64",
		"meta-minint64", "meta-maxint64", "meta-zero", "meta-minus1", "meta-minus-h":
		// client block heights at the int64 corners, derived from the node height (wrapping as Go does)
		h := s.e.height
		v := map[string]int64{
			"meta-h-plus-minint64":        h + math.MinInt64,
			"meta-h-plus-minint64-plus1":  h + math.MinInt64 + 1,
			"meta-h-plus-minint64-minus1": h + math.MinInt64 - 1,
			"meta-h-minus-maxint64":       h - math.MaxInt64,
			"meta-minint64":               math.MinInt64,
			"meta-maxint64":               math.MaxInt64,
			"meta-zero":                   0,
			"meta-minus1":                 -1,
			"meta-minus-h":                -h,
		}[a]
		s.relay.Meta.BlockHeight = v
		p.RequestHash = s.relay.RequestHashString()
		s.resign(false, true)
	case "entropy-negative-resigned":
		p.Entropy = -1 - int64(r.Intn(100))
		s.resign(false, true)
	case "entropy-changed":
		p.Entropy++
	case "app-absent":
		for _, w := range s.e.worlds {
			delete(w.apps, appAddr)
		}
	case "app-absent-at-session-present-now":
		if s.e.height == s.sbh {
			s.label = "ok"
			return
		}
		delete(ws.apps, appAddr)
	case "app-present-at-session-absent-now":
		if s.e.height == s.sbh {
			s.label = "ok"
			return
		}
		delete(s.e.worlds[s.e.height].apps, appAddr)
	case "app-unstaking":
		app := ws.apps[appAddr]
		app.Status = sdk.Unstaking
		ws.apps[appAddr] = app
	case "app-jailed":
		app := ws.apps[appAddr]
		app.Jailed = true
		ws.apps[appAddr] = app
	case "app-unstaked-zero-relays":
		app := ws.apps[appAddr]
		app.Status = sdk.Unstaked
		app.MaxRelays = sdk.ZeroInt()
		ws.apps[appAddr] = app
	case "app-chains-over-limit", "app-chains-over-limit-unenforced":
		s.e.maxChainsApp = 1
		s.enforceMax = a == "app-chains-over-limit"
	case "app-no-chains":
		app := ws.apps[appAddr]
		app.Chains = nil
		ws.apps[appAddr] = app
	case "evidence-sealed", "evidence-duplicate", "evidence-at-max", "evidence-some":
		// handled after construction (needs the header and max)
	case "node-not-in-session":
		// five other nodes, session of 3 drawn among 6: keep only worlds where the node is out
		for i := 0; i < 5; i++ {
			k := edKey(r)
			ws.vals = append(ws.vals, nodesTypes.NewValidator(sdk.Address(k.PublicKey().Address()), k.PublicKey(), []string{chainA}, "http://y", sdk.NewInt(15000000000), nil))
		}
		if w, ok := s.e.worlds[s.e.height]; ok && w != ws {
			w.vals = ws.vals
		}
	case "insufficient-nodes":
		ws.vals = ws.vals[:2]
		if w, ok := s.e.worlds[s.e.height]; ok && w != ws {
			w.vals = ws.vals
		}
	case "node-jailed-now":
		w := s.e.worlds[s.e.height]
		vals := append([]nodesTypes.Validator(nil), w.vals...)
		vals[0].Jailed = true
		w.vals = vals
	case "prevctx-missing":
		delete(s.e.worlds, s.sbh)
	case "session-count-zero":
		ws.count = 0
	}
}

// evidence preparation for the evidence-* alterations; returns after the store has been set up.
func (s *scenario) prepEvidence(r *gen.R) {
	if !strings.HasPrefix(s.label, "evidence-") {
		return
	}
	ws := s.e.worlds[s.sbh]
	app, ok := ws.apps[sdk.Address(s.appKey.PublicKey().Address()).String()]
	if !ok || ws.count == 0 || len(app.Chains) == 0 {
		return
	}
	max := pc.MaxPossibleRelays(app, ws.count)
	header := s.relay.Proof.SessionHeader()
	store := s.node.EvidenceStore
	mk := func(i int) pc.RelayProof {
		q := s.relay.Proof
		q.Entropy = int64(1000 + i)
		signProof(s.clientKey, &q)
		return q
	}
	switch s.label {
	case "evidence-some":
		for i := 0; i < 3; i++ {
			pc.SetProof(header, pc.RelayEvidence, mk(i), max, store)
		}
	case "evidence-duplicate":
		pc.SetProof(header, pc.RelayEvidence, mk(0), max, store)
		pc.SetProof(header, pc.RelayEvidence, s.relay.Proof, max, store)
	case "evidence-sealed":
		pc.SetProof(header, pc.RelayEvidence, mk(0), max, store)
		ev, _ := pc.GetEvidence(header, pc.RelayEvidence, max, store)
		pc.SealEvidence(ev, store)
	case "evidence-at-max":
		// shrink the allowance so that a handful of proofs reach it
		app.MaxRelays = sdk.NewInt(int64(2 * len(app.Chains) * int(ws.count)))
		for _, w := range s.e.worlds {
			if _, ok := w.apps[app.Address.String()]; ok {
				w.apps[app.Address.String()] = app
			}
		}
		max = pc.MaxPossibleRelays(app, ws.count)
		for i := 0; int64(i) < max.Int64(); i++ {
			pc.SetProof(header, pc.RelayEvidence, mk(i), max, store)
		}
	}
}

func errStr(err sdk.Error) string {
	if err == nil {
		return "OK"
	}
	return fmt.Sprintf("ERR %s:%d", err.Codespace(), err.Code())
}

func joinS(xs []string) string {
	if len(xs) == 0 {
		return "-"
	}
	ys := make([]string, len(xs))
	for i, x := range xs {
		ys[i] = hx(x)
		if ys[i] == "-" {
			ys[i] = "~"
		}
	}
	return strings.Join(ys, ",")
}

func verify(pubHex string, msg []byte, sigHex string) string {
	pk, err := crypto.NewPublicKey(pubHex)
	if err != nil {
		return "x"
	}
	sig, err := hex.DecodeString(sigHex)
	if err != nil {
		return "x"
	}
	ok := false
	func() {
		defer func() { recover() }()
		ok = pk.VerifyBytes(msg, sig)
	}()
	if ok {
		return "1"
	}
	return "0"
}

func addrOfPub(pubHex string) string {
	pk, err := crypto.NewPublicKey(pubHex)
	if err != nil {
		return "x"
	}
	var out string
	func() {
		defer func() {
			if recover() != nil {
				out = "x"
			}
		}()
		out = hex.EncodeToString(pk.Address())
	}()
	return out
}

// describe renders every input of the decision as key=value words (strings hex-encoded).
func (s *scenario) describe() string {
	e := s.e
	p := s.relay.Proof
	var kv []string
	add := func(k string, v interface{}) { kv = append(kv, fmt.Sprintf("%s=%v", k, v)) }
	add("label", s.label)
	add("height", e.height)
	add("bps", e.bps)
	add("blockAllow", s.blockAllow)
	add("hosted", joinS(s.hosted))
	add("sbhArg", s.sbh)
	add("enforceMax", s.enforceMax)
	add("maxChainsApp", e.maxChainsApp)
	add("data", hx(s.relay.Payload.Data))
	add("path", hx(s.relay.Payload.Path))
	add("metaHeight", s.relay.Meta.BlockHeight)
	add("reqHashProof", hx(p.RequestHash))
	add("reqHashReal", hx(s.relay.RequestHashString()))
	add("entropy", p.Entropy)
	add("sbh", p.SessionBlockHeight)
	add("servicer", hx(p.ServicerPubKey))
	add("chain", hx(p.Blockchain))
	add("version", hx(p.Token.Version))
	add("appPub", hx(p.Token.ApplicationPublicKey))
	add("clientPub", hx(p.Token.ClientPublicKey))
	add("appSig", hx(p.Token.ApplicationSignature))
	add("clientSig", hx(p.Signature))
	// oracles
	add("appSigOK", verify(p.Token.ApplicationPublicKey, p.Token.Hash(), p.Token.ApplicationSignature))
	add("clientSigOK", verify(p.Token.ClientPublicKey, p.Hash(), p.Signature))
	add("servicerAddr", addrOfPub(p.ServicerPubKey))
	add("nodeAddr", s.node.GetAddress().String())
	add("appAddr", addrOfPub(p.Token.ApplicationPublicKey))
	_, prevOK := e.worlds[s.sbh]
	add("prevOK", prevOK)
	// the application record at session height
	appFound := false
	if prevOK {
		if a := addrOfPub(p.Token.ApplicationPublicKey); a != "x" {
			if app, ok := e.worlds[s.sbh].apps[a]; ok {
				appFound = true
				add("appRecPub", hx(app.PublicKey.RawString()))
				add("appChains", joinS(app.Chains))
				add("appMaxRelays", app.MaxRelays.String())
				add("appStatus", int(app.Status))
				add("appJailed", app.Jailed)
			}
		}
		add("nodeCount", e.worlds[s.sbh].count)
	}
	add("appFound", appFound)
	// is the application staked in the world "now"
	nowStaked := false
	if w, ok := e.worlds[e.height]; ok {
		if a := addrOfPub(p.Token.ApplicationPublicKey); a != "x" {
			if app, ok := w.apps[a]; ok && app.Status == sdk.Staked && !app.Jailed {
				nowStaked = true
			}
		}
	}
	add("appStakedNow", nowStaked)
	// evidence before the call
	header := p.SessionHeader()
	evFound, evN, evSealed, evHas := false, int64(0), false, false
	func() {
		defer func() { recover() }()
		ev, err := pc.GetEvidence(header, pc.RelayEvidence, sdk.ZeroInt(), s.node.EvidenceStore)
		if err == nil {
			evFound, evN = true, ev.NumOfProofs
			evSealed = s.node.EvidenceStore.IsSealed(ev)
			evHas = !pc.IsUniqueProof(p, ev)
		}
	}()
	add("evFound", evFound)
	add("evN", evN)
	add("evSealed", evSealed)
	add("evHas", evHas)
	// session oracle: the nodes NewSession selects with the same stubs (or its error)
	sess := "-"
	if prevOK && appFound {
		func() {
			defer func() {
				if recover() != nil {
					sess = "PANIC"
				}
			}()
			sctx := mkCtx(s.sbh)
			bh, err := sctx.BlockHash(pc.ModuleCdc, s.sbh)
			if err != nil {
				sess = "ERR sdk:1"
				return
			}
			endH := s.sbh + e.bps - 1
			var endCtx sdk.Ctx = hctx{mkCtx(e.height), e}
			if e.height > endH {
				c, err := endCtx.PrevCtx(endH)
				if err != nil {
					sess = "ERR sdk:1"
					return
				}
				endCtx = c
			}
			ss, er := pc.NewSession(sctx, endCtx, posStub{e}, header, hex.EncodeToString(bh), int(e.worlds[s.sbh].count))
			if er != nil {
				sess = fmt.Sprintf("ERR:%s:%d", er.Codespace(), er.Code())
				return
			}
			var as []string
			for _, n := range ss.SessionNodes {
				as = append(as, n.String())
			}
			sort.Strings(as)
			sess = strings.Join(as, ",")
			if sess == "" {
				sess = "~"
			}
		}()
	}
	add("session", sess)
	// what the servicer's session cache holds for this header before the call
	cached := "-"
	func() {
		defer func() { recover() }()
		if cs, found := pc.GetSession(header, s.node.SessionStore); found {
			var as []string
			for _, n := range cs.SessionNodes {
				as = append(as, n.String())
			}
			sort.Strings(as)
			cached = strings.Join(as, ",")
			if cached == "" {
				cached = "~"
			}
		}
	}()
	add("cached", cached)
	// is the servicer in the session of the application's key in its canonical spelling (only
	// computed when the token spells the key differently)
	canonIn := "-"
	if prevOK && appFound {
		if a := addrOfPub(p.Token.ApplicationPublicKey); a != "x" {
			if canon := e.worlds[s.sbh].apps[a].PublicKey.RawString(); canon != p.Token.ApplicationPublicKey {
				ch := header
				ch.ApplicationPubKey = canon
				if in, ok := s.sessionMembers(ch, int(e.worlds[s.sbh].count)); ok {
					canonIn = fmt.Sprint(in[s.node.GetAddress().String()])
				}
			}
		}
	}
	add("canonIn", canonIn)
	return strings.Join(kv, " ")
}

var t *gen.Trace

// fatalProne: Validate ends in log.Fatalf (process exit) when the allowance rounds to zero and no
// evidence exists yet (GetTotalProofs -> GetEvidence "not found" with max = 0).  Such a case is run
// in a child process and its exit is observed.
func (s *scenario) fatalProne() bool {
	ws, ok := s.e.worlds[s.sbh]
	if !ok {
		return false
	}
	a := addrOfPub(s.relay.Proof.Token.ApplicationPublicKey)
	app, ok := ws.apps[a]
	if !ok || len(app.Chains) == 0 || ws.count == 0 {
		return false
	}
	if !pc.MaxPossibleRelays(app, ws.count).IsZero() {
		return false
	}
	found := false
	func() {
		defer func() { recover() }()
		_, err := pc.GetEvidence(s.relay.Proof.SessionHeader(), pc.RelayEvidence, sdk.ZeroInt(), s.node.EvidenceStore)
		found = err == nil
	}()
	return !found
}

var (
	childMode bool
	caseSeed  uint64
	caseAlter string
)

func (s *scenario) run() {
	if !childMode && s.fatalProne() {
		cmd := exec.Command(os.Args[0], "-child", "-caseseed", fmt.Sprint(caseSeed), "-alter", caseAlter)
		var stderr, stdout strings.Builder
		cmd.Stderr, cmd.Stdout = &stderr, &stdout
		err := cmd.Run()
		res := strings.TrimSpace(stdout.String())
		if err != nil && strings.Contains(stderr.String(), "could not get total proofs") {
			res = "FATAL"
		} else if res == "" {
			res = "CHILDERR"
		}
		t.Line("validate-"+s.label, false, "validate %s => %s", s.describe(), res)
		return
	}
	pc.GlobalPocketConfig.ClientBlockSyncAllowance = s.blockAllow
	if s.enforceMax {
		codec.UpgradeFeatureMap[codec.EnforceMaxChainsUpdateKey] = 1
	} else {
		delete(codec.UpgradeFeatureMap, codec.EnforceMaxChainsUpdateKey)
	}
	hb := &pc.HostedBlockchains{M: map[string]pc.HostedBlockchain{}}
	for _, c := range s.hosted {
		hb.M[c] = pc.HostedBlockchain{ID: c, URL: "http://127.0.0.1:1"}
	}
	desc := s.describe()
	rel := s.relay
	res := func() (out string) {
		defer func() {
			if r := recover(); r != nil {
				out = "PANIC"
			}
		}()
		max, err := rel.Validate(hctx{mkCtx(s.e.height), s.e}, posStub{s.e}, appsStub{s.e}, pocketStub{s.e}, hb, s.sbh, s.node)
		if err != nil {
			return errStr(err)
		}
		return "OK " + max.String()
	}()
	if childMode {
		fmt.Println(res)
		return
	}
	t.Line("validate-"+s.label, strings.HasPrefix(res, "OK"), "validate %s => %s", desc, res)
	t.Flush()
}

// ---------------------------------------------------------------- HandleRelay

var (
	hrMS     sdk.MultiStore
	hrKeeper pckeeper.Keeper
)

func mkCtxMS(h int64) sdk.Context {
	hash := pc.Hash([]byte(fmt.Sprintf("block-%d", h)))
	return sdk.NewContext(hrMS, abci.Header{ChainID: "verif", Height: h, LastBlockId: abci.BlockID{Hash: hash}}, false, log.NewNopLogger())
}

type hctxMS struct {
	baseCtx
	e *env
}

func (c hctxMS) PrevCtx(h int64) (sdk.Context, error) {
	if _, ok := c.e.worlds[h]; !ok {
		return sdk.Context{}, errors.New("block at height not found")
	}
	return mkCtxMS(h), nil
}

var hrAlterations = []string{
	"ok", "ok", "ok", "ok",
	"sbh-plus1-resigned", "sbh-minus1-resigned", "sbh-prev-session-resigned", "sbh-prev2-session-resigned", "sbh-prev3-session-resigned", "sbh-zero-resigned", "sbh-negative-resigned", "sbh-next-session-resigned",
	"token-sig-flip", "client-sig-flip", "payload-changed", "servicer-other-resigned", "chain-unhosted-resigned", "chain-hosted-notapp-resigned",
	"app-absent", "app-unstaking", "evidence-duplicate", "evidence-sealed", "evidence-at-max", "meta-high-over", "token-clientpub-other-resigned", "token-apppub-other-resigned",
}

// handleRelayStream: the same scenarios through the real keeper.HandleRelay (tolerance check,
// Validate, Proof.Store, Execute against a local HTTP server, signed response).
// hrSetup mounts the param store once.
var hrPocketKey *sdk.KVStoreKey

func hrInit() {
	if hrMS != nil {
		return
	}
	db := dbm.NewMemDB()
	ms := store.NewCommitMultiStore(db, false, 5000000)
	hrPocketKey = sdk.NewKVStoreKey(pc.StoreKey)
	ms.MountStoreWithDB(sdk.ParamsKey, sdk.StoreTypeIAVL, db)
	ms.MountStoreWithDB(sdk.ParamsTKey, sdk.StoreTypeTransient, db)
	ms.MountStoreWithDB(hrPocketKey, sdk.StoreTypeIAVL, db)
	if err := ms.LoadLatestVersion(); err != nil {
		panic(err)
	}
	hrMS = ms
}

// handleOne: one real keeper.HandleRelay call for the scenario in its current state.
func (s *scenario) handleOne(url string, sessAllow int64, lean bool, nodes map[string]*pc.PocketNode, extra string) {
	hb := &pc.HostedBlockchains{M: map[string]pc.HostedBlockchain{}}
	for _, c := range s.hosted {
		hb.M[c] = pc.HostedBlockchain{ID: c, URL: url}
	}
	k := pckeeper.NewKeeper(hrPocketKey, pc.ModuleCdc, nil, posStub{s.e}, appsStub{s.e}, hb, sdk.NewSubspace(pc.DefaultParamspace))
	ctx := hctxMS{mkCtxMS(s.e.height), s.e}
	params := pc.DefaultParams()
	params.SessionNodeCount = 3
	k.SetParams(ctx, params)
	pc.GlobalPocketConfig.ClientBlockSyncAllowance = s.blockAllow
	pc.GlobalPocketConfig.ClientSessionSyncAllowance = sessAllow
	pc.GlobalPocketConfig.LeanPocket = lean
	delete(codec.UpgradeFeatureMap, codec.EnforceMaxChainsUpdateKey)
	pc.GlobalPocketNodes = nodes
	desc := s.describe()
	header := s.relay.Proof.SessionHeader()
	rel := s.relay
	res := func() (out string) {
		defer func() {
			if rr := recover(); rr != nil {
				out = "PANIC"
			}
		}()
		resp, err := k.HandleRelay(ctx, rel)
		if err != nil {
			return errStr(err)
		}
		sig, _ := hex.DecodeString(resp.Signature)
		sigOK := s.nodeKey.PublicKey().VerifyBytes(resp.Hash(), sig)
		evN := int64(-1)
		stored := false
		if ev, e := pc.GetEvidence(header, pc.RelayEvidence, sdk.ZeroInt(), s.node.EvidenceStore); e == nil {
			evN = ev.NumOfProofs
			for _, p := range ev.Proofs {
				if p.HashString() == rel.Proof.HashString() {
					stored = true
				}
			}
		}
		return fmt.Sprintf("OK sig=%v evN=%d stored=%v resp=%s", sigOK, evN, stored, hx(resp.Response))
	}()
	t.Line("handle-"+s.label, strings.HasPrefix(res, "OK"), "handle sessAllow=%d %s%s => %s", sessAllow, extra, desc, res)
	t.Flush()
}

// handleSeqs: sequences through the real keeper.HandleDispatch / HandleRelay on one session cache.
func handleSeqs(r *gen.R, url string, n int) {
	hrInit()
	for i := 0; i < n; i++ {
		s := base(r)
		member, outsider, ok := s.seqWorld(r)
		if !ok {
			continue
		}
		sess, ev := newStore(), newStore()
		switch i % 3 {
		case 0: // rejected, then an identical retry
			s.addressTo(outsider, sess, ev)
			nodes := map[string]*pc.PocketNode{s.node.GetAddress().String(): s.node}
			s.label = "hseq-retry-1"
			s.handleOne(url, 0, false, nodes, "")
			s.label = "hseq-retry-2"
			s.handleOne(url, 0, false, nodes, "")
		case 1: // a dispatch for that application and chain is answered first (fills the session cache)
			s.addressTo(outsider, sess, ev)
			nodes := map[string]*pc.PocketNode{s.node.GetAddress().String(): s.node}
			pc.GlobalSessionCache = sess
			pc.GlobalPocketNodes = nodes
			hb := &pc.HostedBlockchains{M: map[string]pc.HostedBlockchain{}}
			k := pckeeper.NewKeeper(hrPocketKey, pc.ModuleCdc, nil, posStub{s.e}, appsStub{s.e}, hb, sdk.NewSubspace(pc.DefaultParamspace))
			ctx := hctxMS{mkCtxMS(s.e.height), s.e}
			params := pc.DefaultParams()
			params.SessionNodeCount = 3
			k.SetParams(ctx, params)
			dres := func() (out string) {
				defer func() {
					if recover() != nil {
						out = "PANIC"
					}
				}()
				_, err := k.HandleDispatch(ctx, s.relay.Proof.SessionHeader())
				if err != nil {
					return errStr(err)
				}
				return "OK"
			}()
			s.label = "hseq-after-dispatch-" + strings.ReplaceAll(dres, " ", "_")
			s.handleOne(url, 0, false, nodes, "")
		default: // lean pocket: member and non-member servicers of one process behind one session cache
			s.addressTo(member, sess, ev)
			m := s.node
			x := &pc.PocketNode{PrivateKey: outsider, EvidenceStore: newStore(), SessionStore: sess}
			nodes := map[string]*pc.PocketNode{m.GetAddress().String(): m, x.GetAddress().String(): x}
			s.label = "hseq-member-first"
			s.handleOne(url, 0, true, nodes, "")
			s.nodeKey, s.node = outsider, x
			s.relay.Proof.ServicerPubKey = outsider.PublicKey().RawString()
			s.resign(false, true)
			s.label = "hseq-then-outsider"
			s.handleOne(url, 0, true, nodes, "")
		}
	}
	pc.GlobalPocketConfig.LeanPocket = false
}

func handleRelayStream(r *gen.R, url string, n int) {
	hrInit()
	pocketKey := hrPocketKey
	for i := 0; i < n; i++ {
		s := base(r)
		a := hrAlterations[r.Intn(len(hrAlterations))]
		sessAllow := int64(r.Intn(3))
		switch a {
		case "sbh-prev2-session-resigned", "sbh-prev3-session-resigned", "sbh-next-session-resigned":
			d := map[string]int64{"sbh-prev2-session-resigned": -2 * s.e.bps, "sbh-prev3-session-resigned": -3 * s.e.bps, "sbh-next-session-resigned": s.e.bps}[a]
			s.label = a
			s.relay.Proof.SessionBlockHeight += d
			s.sbh = s.relay.Proof.SessionBlockHeight
			s.e.worlds[s.sbh] = s.e.worlds[s.sbh-d]
			s.ensureEnd()
			s.resign(false, true)
		default:
			s.alter(r, a)
		}
		// session node count comes from the pocketcore params here
		for _, w := range s.e.worlds {
			w.count = 3
		}
		s.prepEvidence(r)
		s.sbh = s.relay.Proof.SessionBlockHeight // HandleRelay passes the proof's own height
		hb := &pc.HostedBlockchains{M: map[string]pc.HostedBlockchain{}}
		for _, c := range s.hosted {
			hb.M[c] = pc.HostedBlockchain{ID: c, URL: url}
		}
		k := pckeeper.NewKeeper(pocketKey, pc.ModuleCdc, nil, posStub{s.e}, appsStub{s.e}, hb, sdk.NewSubspace(pc.DefaultParamspace))
		ctx := hctxMS{mkCtxMS(s.e.height), s.e}
		params := pc.DefaultParams()
		params.SessionNodeCount = 3
		k.SetParams(ctx, params)
		pc.GlobalPocketConfig.ClientBlockSyncAllowance = s.blockAllow
		pc.GlobalPocketConfig.ClientSessionSyncAllowance = sessAllow
		pc.GlobalPocketConfig.LeanPocket = false
		delete(codec.UpgradeFeatureMap, codec.EnforceMaxChainsUpdateKey)
		pc.GlobalPocketNodes = map[string]*pc.PocketNode{s.node.GetAddress().String(): s.node}
		desc := s.describe()
		header := s.relay.Proof.SessionHeader()
		rel := s.relay
		res := func() (out string) {
			defer func() {
				if rr := recover(); rr != nil {
					out = "PANIC"
				}
			}()
			resp, err := k.HandleRelay(ctx, rel)
			if err != nil {
				return errStr(err)
			}
			sig, _ := hex.DecodeString(resp.Signature)
			sigOK := s.nodeKey.PublicKey().VerifyBytes(resp.Hash(), sig)
			evN := int64(-1)
			stored := false
			if ev, e := pc.GetEvidence(header, pc.RelayEvidence, sdk.ZeroInt(), s.node.EvidenceStore); e == nil {
				evN = ev.NumOfProofs
				for _, p := range ev.Proofs {
					if p.HashString() == rel.Proof.HashString() {
						stored = true
					}
				}
			}
			return fmt.Sprintf("OK sig=%v evN=%d stored=%v resp=%s", sigOK, evN, stored, hx(resp.Response))
		}()
		t.Line("handle-"+s.label, strings.HasPrefix(res, "OK"), "handle sessAllow=%d %s => %s", sessAllow, desc, res)
	}
}

// second alterations that can be stacked on any first one (to expose the ORDER of the checks:
// with two wrong fields the error class tells which check runs first)
var stackable = []string{
	"payload-changed", "chain-unhosted-resigned", "chain-hosted-notapp-resigned", "meta-high-over", "token-sig-flip",
	"client-sig-flip", "servicer-other-resigned", "entropy-negative-resigned", "payload-empty", "token-version-other",
	"reqhash-short-resigned", "chain-bad-resigned", "servicer-bad-resigned", "app-absent",
}

// ---------------------------------------------------------------- multi-step sequences on one session cache

// seqWorld rebuilds the scenario's worlds with six keyed validators of which three form the
// session; returns a member and a non-member key (both nodes' keys are known to the harness).
func (s *scenario) seqWorld(r *gen.R) (member, outsider crypto.Ed25519PrivateKey, ok bool) {
	var keys []crypto.Ed25519PrivateKey
	var vals []nodesTypes.Validator
	for i := 0; i < 6; i++ {
		k := edKey(r)
		keys = append(keys, k)
		vals = append(vals, nodesTypes.NewValidator(sdk.Address(k.PublicKey().Address()), k.PublicKey(), []string{chainA, chainC}, "http://x", sdk.NewInt(15000000000), nil))
	}
	for _, w := range s.e.worlds {
		w.vals = vals
		w.count = 3
	}
	sctx := mkCtx(s.sbh)
	bh, err := sctx.BlockHash(pc.ModuleCdc, s.sbh)
	if err != nil {
		return
	}
	ss, er := pc.NewSession(sctx, hctx{mkCtx(s.e.height), s.e}, posStub{s.e}, s.relay.Proof.SessionHeader(), hex.EncodeToString(bh), 3)
	if er != nil {
		return
	}
	in := map[string]bool{}
	for _, n := range ss.SessionNodes {
		in[n.String()] = true
	}
	var haveM, haveO bool
	for _, k := range keys {
		a := sdk.Address(k.PublicKey().Address()).String()
		if in[a] && !haveM {
			member, haveM = k, true
		}
		if !in[a] && !haveO {
			outsider, haveO = k, true
		}
	}
	return member, outsider, haveM && haveO
}

// address the scenario's relay to the node with key k (shares the session and evidence stores)
func (s *scenario) addressTo(k crypto.Ed25519PrivateKey, sessStore, evStore *pc.CacheStorage) {
	s.nodeKey = k
	s.node = &pc.PocketNode{PrivateKey: k, EvidenceStore: evStore, SessionStore: sessStore}
	s.relay.Proof.ServicerPubKey = k.PublicKey().RawString()
	s.resign(false, true)
}

// sessionMembers: the node set NewSession selects for a header (with the scenario's stubs).
func (s *scenario) sessionMembers(h pc.SessionHeader, count int) (in map[string]bool, ok bool) {
	defer func() {
		if recover() != nil {
			ok = false
		}
	}()
	sctx := mkCtx(s.sbh)
	bh, err := sctx.BlockHash(pc.ModuleCdc, s.sbh)
	if err != nil {
		return nil, false
	}
	ss, er := pc.NewSession(sctx, hctx{mkCtx(s.e.height), s.e}, posStub{s.e}, h, hex.EncodeToString(bh), count)
	if er != nil {
		return nil, false
	}
	in = map[string]bool{}
	for _, n := range ss.SessionNodes {
		in[n.String()] = true
	}
	return in, true
}

// respell: bit i of mask decides whether the i-th hex LETTER of the key is upper case; every
// spelling decodes to the same key bytes.
func respell(hexKey string, mask uint64) string {
	out := []byte(strings.ToLower(hexKey))
	bit := uint(0)
	for i, c := range out {
		if c >= 'a' && c <= 'f' && bit < 64 {
			if mask&(1<<bit) != 0 {
				out[i] = c - 'a' + 'A'
			}
			bit++
		}
	}
	return string(out)
}

// grind: a spelling of the token's application key (token and proof re-signed by the legitimate
// keys) whose derived session contains / does not contain the addressed servicer.
func (s *scenario) grind(r *gen.R, wantIn bool) bool {
	canon := strings.ToLower(s.relay.Proof.Token.ApplicationPublicKey)
	me := s.node.GetAddress().String()
	start := r.U64()
	for i := uint64(0); i < 64; i++ {
		sp := respell(canon, start+i*0x9e3779b97f4a7c15)
		if sp == canon {
			continue
		}
		h := s.relay.Proof.SessionHeader()
		h.ApplicationPubKey = sp
		in, ok := s.sessionMembers(h, 3)
		if !ok || in[me] != wantIn {
			continue
		}
		s.relay.Proof.Token.ApplicationPublicKey = sp
		s.resign(true, true)
		return true
	}
	return false
}

// spellingSeqs: the application key in the token re-spelled (upper / mixed case hex, same key
// bytes, signed by the application and the client).  The session is a function of the key TEXT,
// so a spelling can be ground until a servicer outside the application's session is "in session".
func spellingSeqs(r *gen.R, url string, n int) {
	hrInit()
	for i := 0; i < n; i++ {
		s := base(r)
		member, outsider, ok := s.seqWorld(r)
		if !ok {
			continue
		}
		sess, ev := newStore(), newStore()
		switch i % 5 {
		case 0: // outsider of the canonical session, spelling ground until it is in the spelled session
			s.addressTo(outsider, sess, ev)
			if s.grind(r, true) {
				s.label = "spell-ground-outsider"
				s.run()
				s.relay.Proof.Entropy++
				s.resign(false, true)
				s.label = "spell-ground-outsider-again"
				s.run()
			}
		case 1: // the same through the keeper
			s.addressTo(outsider, sess, ev)
			if s.grind(r, true) {
				nodes := map[string]*pc.PocketNode{s.node.GetAddress().String(): s.node}
				s.label = "hspell-ground-outsider"
				s.handleOne(url, 0, false, nodes, "")
			}
		case 2: // a member of the canonical session that is also in the spelled session
			s.addressTo(member, sess, ev)
			if s.grind(r, true) {
				s.label = "spell-member-stays-in"
				s.run()
			}
		case 3: // a member of the canonical session that the spelling puts out
			s.addressTo(member, sess, ev)
			if s.grind(r, false) {
				s.label = "spell-member-put-out"
				s.run()
			}
		default: // canonical first (served, session cached), then a ground spelling for the outsider on the same cache
			s.addressTo(member, sess, ev)
			s.label = "spell-canonical-first"
			s.run()
			s.addressTo(outsider, sess, newStore())
			if s.grind(r, true) {
				s.label = "spell-then-ground-outsider"
				s.run()
			}
		}
	}
}

// validateSeqs: sequences through the real Relay.Validate on ONE servicer's session cache.
func validateSeqs(r *gen.R, n int) {
	for i := 0; i < n; i++ {
		s := base(r)
		member, outsider, ok := s.seqWorld(r)
		if !ok {
			continue
		}
		sess, ev := newStore(), newStore()
		switch i % 3 {
		case 0: // a relay to a non-member is rejected - and rejected again on a plain retry
			s.addressTo(outsider, sess, ev)
			s.label = "seq-retry-1"
			s.run()
			s.label = "seq-retry-2"
			s.run()
			s.relay.Proof.Entropy++
			s.resign(false, true)
			s.label = "seq-retry-3-new-entropy"
			s.run()
		case 1: // the session is already cached (as HandleDispatch / HandleChallenge leave it)
			s.addressTo(outsider, sess, ev)
			sctx := mkCtx(s.sbh)
			bh, _ := sctx.BlockHash(pc.ModuleCdc, s.sbh)
			if ss, er := pc.NewSession(sctx, hctx{mkCtx(s.e.height), s.e}, posStub{s.e}, s.relay.Proof.SessionHeader(), hex.EncodeToString(bh), 3); er == nil {
				pc.SetSession(ss, sess)
			}
			s.label = "seq-precached-outsider"
			s.run()
		default: // a member is served; the same cache then sees a relay addressed to a non-member
			s.addressTo(member, sess, ev)
			s.label = "seq-member-first"
			s.run()
			s.addressTo(outsider, sess, newStore())
			s.label = "seq-then-outsider"
			s.run()
			s.addressTo(member, sess, ev)
			s.relay.Proof.Entropy++
			s.resign(false, true)
			s.label = "seq-member-again"
			s.run()
		}
	}
}

func oneCase(seed uint64, a string) (sc *scenario) {
	parts := strings.Split(a, "+")
	if len(parts) > 1 {
		// a second alteration may not be applicable after the first (e.g. it slices a field the
		// first one emptied): then the case degrades to the first alteration alone
		defer func() {
			if recover() != nil {
				caseAlter = parts[0]
				sc = oneCase(seed, parts[0])
			}
		}()
	}
	r := gen.New(seed)
	s := base(r)
	for _, p := range parts {
		s.alter(r, p)
	}
	s.label = a
	if len(parts) > 1 && strings.HasPrefix(parts[0], "evidence-") {
		s.label = parts[0] // prepEvidence keys on the label
	}
	s.prepEvidence(r)
	s.label = a
	return s
}

func main() {
	seed := flag.Uint64("seed", 1, "")
	n := flag.Int("n", 400, "")
	out := flag.String("out", "c35.trace", "")
	flag.BoolVar(&childMode, "child", false, "run one case and print its result (used for cases that kill the process)")
	flag.Uint64Var(&caseSeed, "caseseed", 0, "")
	flag.StringVar(&caseAlter, "alter", "ok", "")
	flag.Parse()
	pc.InitGlobalServiceMetric(&pc.HostedBlockchains{M: map[string]pc.HostedBlockchain{}}, log.NewNopLogger(), "0", 10)
	pc.GlobalPocketConfig = sdk.DefaultTestingPocketConfig().PocketConfig
	if childMode {
		oneCase(caseSeed, caseAlter).run()
		return
	}
	r := gen.New(*seed)
	t = gen.NewTrace(*out)
	srv := httptest.NewServer(http.HandlerFunc(func(w http.ResponseWriter, req *http.Request) {
		b, _ := io.ReadAll(req.Body)
		fmt.Fprintf(w, `{"echo":%d}`, len(b))
	}))
	defer srv.Close()
	// every alteration once per round, in a shuffled order, until n cases are done
	done := 0
	for done < *n {
		order := append([]string(nil), alterations...)
		for i := len(order) - 1; i > 0; i-- {
			j := r.Intn(i + 1)
			order[i], order[j] = order[j], order[i]
		}
		for _, a := range order {
			if done >= *n {
				break
			}
			caseSeed, caseAlter = r.U64(), a
			if a != "ok" && r.Chance(1, 4) {
				caseAlter = a + "+" + stackable[r.Intn(len(stackable))]
			}
			oneCase(caseSeed, caseAlter).run()
			done++
		}
	}
	validateSeqs(r, 6+*n/40)
	handleRelayStream(r, srv.URL, *n/4)
	handleSeqs(r, srv.URL, 4+*n/80)
	spellingSeqs(r, srv.URL, 10+*n/50)
	t.Close(nil)
}
