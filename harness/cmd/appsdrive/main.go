// appsdrive: drives the real PocketCoreApp through application-lifecycle histories (stake at /
// below / above the minimum, chains at / over the maximum, stakes at the MaxApplications boundary,
// edits up / same / down, transfers to new / existing keys from owner / stranger keys, unstake +
// block-time jumps past AppUnstakingTime, governance parameter changes, keeper-level jail and
// force-unstake) and writes, after InitChain, every BeginBlock, every DeliverTx and every
// EndBlock+Commit, the abstract applications-ledger state (records, decoded raw index prefixes
// of the application store, pool / fee-collector balances, balances, parameters).  The trace is
// judged by lean/Driver/C20.lean (transition checking + invariant monitors for C20, C28 and the
// application half of C23).
package main

import (
	"flag"
	"fmt"
	"strings"
	"time"

	sdk "github.com/pokt-network/pocket-core/types"
	appsTypes "github.com/pokt-network/pocket-core/x/apps/types"
	abci "github.com/tendermint/tendermint/abci/types"
	dbm "github.com/tendermint/tm-db"
	"verifharness/internal/appsh"
	"verifharness/internal/chain"
	"verifharness/internal/gen"
)

const fee = chain.DefaultFee

var chainIDs = []string{"0001", "0021", "0040", "03DF", "00A3"}

type op struct {
	kind  string // statistics bucket
	pre   string // words before "=>"
	bytes []byte // tx bytes ("" for keeper ops)
	keep  func(ctx sdk.Context) string
}

type drv struct {
	n      *chain.Node
	s      *appsh.Stepper
	w      *chain.World
	r      *gen.R
	t      *gen.Trace
	keys   []chain.Key
	ent    int64
	keeper bool
	donate bool
	exact  bool // block times land exactly on unstaking completion times (C24)
}

func (d *drv) entropy() int64 { d.ent++; return d.ent }

func (d *drv) key(i int) chain.Key { return d.keys[i%len(d.keys)] }

type view struct {
	apps   map[string]appsTypes.Application
	staked []chain.Key
	unst   []chain.Key
	none   []chain.Key
	bal    map[string]int64
	p      appsTypes.Params
	count  int64
}

// look reads the generator's (heuristic) view of the committed state.
func (d *drv) look() view {
	ctx := d.s.Ctx()
	v := view{apps: map[string]appsTypes.Application{}, bal: map[string]int64{}}
	apk := d.n.App.VerifAppsKeeper()
	for _, a := range apk.GetAllApplications(ctx) {
		v.apps[a.Address.String()] = a
	}
	for _, k := range d.keys {
		a, ok := v.apps[k.Addr.String()]
		switch {
		case !ok:
			v.none = append(v.none, k)
		case a.Status == sdk.Staked:
			v.staked = append(v.staked, k)
			if !a.Jailed {
				v.count++
			}
		default:
			v.unst = append(v.unst, k)
		}
		if acc := d.n.App.VerifAccountKeeper().GetAccount(ctx, k.Addr); acc != nil {
			v.bal[k.Addr.String()] = acc.GetCoins().AmountOf(sdk.DefaultStakeDenom).Int64()
		}
	}
	v.p = apk.GetParams(ctx)
	return v
}

func pick(r *gen.R, ks []chain.Key, fallback []chain.Key) chain.Key {
	if len(ks) == 0 {
		return fallback[r.Intn(len(fallback))]
	}
	return ks[r.Intn(len(ks))]
}

func (d *drv) chains(max int64) []string {
	r := d.r
	n := 1 + r.Intn(int(max))
	switch r.Intn(10) {
	case 0:
		n = int(max) + 1
	case 1:
		n = int(max)
	case 2:
		n = 0
	}
	var cs []string
	off := r.Intn(len(chainIDs))
	for i := 0; i < n; i++ {
		cs = append(cs, chainIDs[(off+i)%len(chainIDs)])
	}
	if r.Chance(1, 40) && len(cs) > 0 {
		cs[0] = []string{"zz", "000001", ""}[r.Intn(3)]
	}
	return cs
}

func (d *drv) stakeOp(kind string, signer, pub chain.Key, amt int64, chains []string) op {
	msg := &appsTypes.MsgStake{PubKey: pub.Pub, Chains: chains, Value: sdk.NewInt(amt)}
	bz := chain.SignTx(d.w.ChainID, signer, msg, fee, d.entropy(), "")
	cs := "-"
	if len(chains) > 0 {
		var xs []string
		for _, c := range chains {
			if c == "" {
				c = "EMPTY"
			}
			xs = append(xs, c)
		}
		cs = strings.Join(xs, "+")
	}
	return op{kind: kind, bytes: bz, pre: fmt.Sprintf("tx stake %s %s %s %d %s %d", signer.Addr, pub.Pub.RawString(), pub.Addr, amt, cs, fee)}
}

// genOp draws one operation against the heuristic view.
func (d *drv) genOp(v view) op {
	r := d.r
	min := v.p.AppStakeMin
	switch c := r.Intn(100); {
	case c < 26: // new stake
		k := pick(r, v.none, d.keys)
		if r.Chance(1, 8) {
			k = d.keys[r.Intn(len(d.keys))]
		}
		bal := v.bal[k.Addr.String()]
		amt := []int64{min - 1, min, min + 1, min + 999999, min + 1000000, 3 * min, bal - fee, bal - fee + 1, bal, 1}[r.Intn(10)]
		if amt <= 0 {
			amt = min
		}
		return d.stakeOp("stake-new", k, k, amt, d.chains(v.p.MaxChains))
	case c < 48: // edit
		k := pick(r, v.staked, d.keys)
		a := v.apps[k.Addr.String()]
		tok := int64(0)
		if _, ok := v.apps[k.Addr.String()]; ok && a.StakedTokens.String() != "<nil>" {
			tok = a.StakedTokens.Int64()
		}
		bal := v.bal[k.Addr.String()]
		amt := []int64{tok - 1, tok, tok + 1, tok + 1000000, tok + bal - fee, tok + bal - fee + 1, tok - 1000000, tok + 17}[r.Intn(8)]
		if amt <= 0 {
			amt = 1
		}
		return d.stakeOp("stake-edit", k, k, amt, d.chains(v.p.MaxChains))
	case c < 72: // transfer-shaped and near misses
		var signer, pub chain.Key
		switch r.Intn(10) {
		case 0:
			signer = pick(r, v.unst, d.keys)
		case 1:
			signer = pick(r, v.none, d.keys)
		case 2:
			signer = d.keys[r.Intn(len(d.keys))]
		default:
			signer = pick(r, v.staked, d.keys)
		}
		switch r.Intn(10) {
		case 0, 1:
			pub = pick(r, v.staked, d.keys)
		case 2:
			pub = pick(r, v.unst, d.keys)
		case 3:
			pub = signer
		default:
			pub = pick(r, v.none, d.keys)
		}
		amt, cs := int64(0), []string(nil)
		if r.Chance(1, 8) {
			amt = []int64{1, v.p.AppStakeMin, 10000000}[r.Intn(3)]
		}
		if r.Chance(1, 8) {
			cs = d.chains(v.p.MaxChains)
		}
		return d.stakeOp("stake-transfer", signer, pub, amt, cs)
	case c < 86: // begin unstake
		k := pick(r, v.staked, d.keys)
		if r.Chance(1, 5) {
			k = d.keys[r.Intn(len(d.keys))]
		}
		signer := k
		if r.Chance(1, 8) {
			signer = d.keys[r.Intn(len(d.keys))]
		}
		bz := chain.SignTx(d.w.ChainID, signer, chain.MsgAppUnstake(k.Addr), fee, d.entropy(), "")
		return op{kind: "unstake", bytes: bz, pre: fmt.Sprintf("tx unstake %s %s %d", signer.Addr, k.Addr, fee)}
	case c < 91: // send: fund a fresh key / drain an account
		from := d.keys[r.Intn(len(d.keys))]
		to := d.keys[r.Intn(len(d.keys))]
		bal := v.bal[from.Addr.String()]
		amt := []int64{bal - fee - 10000, bal - fee - 1500000, 2000000, 20000000, 1}[r.Intn(5)]
		if amt <= 0 {
			amt = 1
		}
		if d.donate && r.Chance(1, 3) {
			// a plain MsgSend whose recipient is the application pool's module-account address
			pool := d.n.App.VerifAccountKeeper().GetModuleAddress(appsTypes.StakedPoolName)
			amt = []int64{1, 1000000, 12345}[r.Intn(3)]
			bz := chain.SignTx(d.w.ChainID, from, chain.MsgSend(from.Addr, pool, amt), fee, d.entropy(), "")
			return op{kind: "donate", bytes: bz, pre: fmt.Sprintf("tx donate %s %d %d", from.Addr, amt, fee)}
		}
		bz := chain.SignTx(d.w.ChainID, from, chain.MsgSend(from.Addr, to.Addr, amt), fee, d.entropy(), "")
		return op{kind: "ext-send", bytes: bz, pre: "tx ext send"}
	case c < 95 || !d.keeper: // governance parameter change
		key, val := "application/MaxApplications", interface{}(v.count+int64(r.Intn(4))-1)
		switch r.Intn(9) {
		case 0, 1, 2:
			if val.(int64) <= 0 {
				val = int64(1)
			}
		case 3:
			key, val = "application/ApplicationStakeMinimum", []int64{1000000, 2000000, 10000000, 10000001}[r.Intn(4)]
		case 4:
			key, val = "application/MaximumChains", int64(1+r.Intn(3))
		case 5:
			key, val = "application/BaseRelaysPerPOKT", []int64{100, 200, 1, 333}[r.Intn(4)]
		case 6:
			key, val = "application/StabilityAdjustment", []int64{0, 5, 1000}[r.Intn(3)]
		case 7:
			key, val = "application/AppUnstakingTime", time.Duration([]int64{int64(time.Minute), int64(time.Hour), int64(90 * time.Minute)}[r.Intn(3)])
			if d.exact && r.Chance(1, 3) {
				val = time.Duration(0)
			}
		default:
			key, val = "application/ParticipationRateOn", r.Bool()
		}
		bz := chain.SignTx(d.w.ChainID, d.w.Owner, chain.MsgChangeParam(d.w.Owner.Addr, key, val), fee, d.entropy(), "")
		return op{kind: "ext-param", bytes: bz, pre: "tx ext param:" + key}
	default: // keeper-level calls that no transaction of this version reaches
		k := d.keys[r.Intn(len(d.keys))]
		if r.Chance(3, 4) {
			k = pick(r, append(append([]chain.Key{}, v.staked...), v.unst...), d.keys)
		}
		apk := d.n.App.VerifAppsKeeper()
		switch r.Intn(4) {
		case 0:
			return op{kind: "keeper-unjail", pre: "keeper unjail " + k.Addr.String(), keep: func(ctx sdk.Context) string {
				apk.UnjailApplication(ctx, k.Addr)
				return "-"
			}}
		case 1:
			// jail + unjail, preferably of an unstaking application: SetApplication appends its address to the
			// unstaking-queue slot on every call, so the slot then holds the address several times
			if len(v.unst) > 0 {
				k = v.unst[r.Intn(len(v.unst))]
			}
			return op{kind: "keeper-requeue", pre: "keeper requeue " + k.Addr.String(), keep: func(ctx sdk.Context) string {
				apk.JailApplication(ctx, k.Addr)
				apk.UnjailApplication(ctx, k.Addr)
				return "-"
			}}
		}
		if r.Bool() {
			return op{kind: "keeper-jail", pre: "keeper jail " + k.Addr.String(), keep: func(ctx sdk.Context) string {
				apk.JailApplication(ctx, k.Addr)
				return "-"
			}}
		}
		return op{kind: "keeper-force", pre: "keeper force " + k.Addr.String(), keep: func(ctx sdk.Context) string {
			a, found := apk.GetApplication(ctx, k.Addr)
			if !found {
				return "notfound"
			}
			if err := apk.ForceApplicationUnstake(ctx, a); err != nil {
				return "err"
			}
			return "ok"
		}}
	}
}

func (d *drv) state() string { return appsh.AppsState(d.n, d.s.Ctx()) }

// history runs one chain from genesis for the given number of blocks.
func (d *drv) history(blocks int, maxApps int64, breadth bool) {
	chain.ModernGlobals()
	w, o := chain.DefaultWorld("verif", 3, 1, 3, 6)
	d.w = w
	d.keys = append(append(append([]chain.Key{}, w.Apps...), w.Accts...), w.Fresh...)
	o.Mutate = func(g *chain.Genesis) {
		g.Apps.Params.MaxApplications = maxApps
		g.Apps.Params.UnstakingTime = time.Hour
		if d.exact {
			g.Apps.Params.UnstakingTime = []time.Duration{0, time.Minute, 30 * time.Minute, time.Hour}[d.r.Intn(4)]
		}
		g.Apps.Params.MaxChains = 3
		g.Apps.Params.AppStakeMin = 1000000
	}
	g := chain.BuildGenesis(o)
	d.n = chain.NewNode(g, "verif", o.GenesisTime, dbm.NewMemDB(), dbm.NewMemDB(), dbm.NewMemDB(), false)
	d.s = &appsh.Stepper{N: d.n}
	d.n.InitChain()
	// the state written by InitChain is only visible after the first commit: run an empty block
	votes := func() []abci.VoteInfo {
		var vs []abci.VoteInfo
		for _, v := range w.Vals {
			vs = append(vs, abci.VoteInfo{Validator: abci.Validator{Address: v.Addr, Power: 15000}, SignedLastBlock: true})
		}
		return vs
	}
	tm := o.GenesisTime.Add(time.Second)
	d.s.Begin(chain.Block{Time: tm, Proposer: w.Vals[0].Addr, Votes: votes()})
	d.s.End()
	d.t.Line("init", false, "init => %s", d.state())
	for b := 0; b < blocks; b++ {
		r := d.r
		if breadth && r.Chance(1, 6) {
			// a block of the shared mostly-valid generator (node / send / gov / dao traffic): frame check only
			blk, ds := w.GenBlock(r, tm, d.n.Height+1, 4)
			tm = blk.Time
			d.s.Begin(blk)
			d.t.Line("begin", false, "begin => %s", d.state())
			for i, x := range ds {
				res := d.s.Deliver(blk.Txs[i])
				word := "ext"
				if strings.HasPrefix(x.Kind, "app") {
					word = "extapp" // application txs of the shared generator: invariant monitors only
				}
				d.t.Line("ext-"+x.Kind, res.Code == 0, "tx %s %s => %s %s", word, strings.ReplaceAll(x.Kind, " ", "_"), appsh.Code(res), d.state())
			}
			d.s.End()
			d.t.Line("end", false, "end => %s", d.state())
			continue
		}
		if d.exact {
			// whole minutes only: sums of steps hit completion times (begin time + 0 / 1m / 30m / 1h / 90m) to the nanosecond
			tm = tm.Add([]time.Duration{time.Minute, time.Minute, 29 * time.Minute, 30 * time.Minute, time.Hour}[r.Intn(5)])
		} else {
			tm = tm.Add([]time.Duration{time.Second, 10 * time.Minute, 31 * time.Minute, time.Hour, 2 * time.Hour}[r.Intn(5)])
		}
		v := d.look()
		nops := r.Intn(5)
		var ops []op
		var txs [][]byte
		for i := 0; i < nops; i++ {
			o := d.genOp(v)
			ops = append(ops, o)
			if o.bytes != nil {
				txs = append(txs, o.bytes)
			}
		}
		d.s.Begin(chain.Block{Time: tm, Proposer: w.Vals[r.Intn(len(w.Vals))].Addr, Votes: votes(), Txs: txs})
		d.t.Line("begin", false, "begin => %s", d.state())
		for _, o := range ops {
			if o.bytes == nil {
				res := o.keep(d.s.DeliverCtx())
				d.t.Line(o.kind, res == "ok" || res == "-", "%s => %s %s", o.pre, res, d.state())
				continue
			}
			res := d.s.Deliver(o.bytes)
			d.t.Line(o.kind+"/"+appsh.Code(res), res.Code == 0, "%s => %s %s", o.pre, appsh.Code(res), d.state())
		}
		d.s.End()
		d.t.Line("end", false, "end => %s", d.state())
	}
}

func main() {
	seed := flag.Uint64("seed", 1, "")
	n := flag.Int("n", 2000, "approximate number of trace lines")
	out := flag.String("out", "appsdrive.trace", "")
	blocks := flag.Int("blocks", 40, "blocks per history")
	keeper := flag.Bool("keeper", true, "include keeper-level jail / force-unstake calls")
	breadth := flag.Bool("breadth", true, "mix in blocks of the shared generator")
	exact := flag.Bool("exact", false, "C24 bias: block-time steps and AppUnstakingTime chosen so that block times land exactly on completion times (multiples of one minute, and unstaking time 0)")
	donate := flag.Int("donate", 4, "one history in this many contains sends to the pool's module address (0 = none)")
	flag.Parse()
	d := &drv{r: gen.New(*seed), t: gen.NewTrace(*out), keeper: *keeper, exact: *exact}
	hist := 0
	for d.t.Lines < *n {
		maxApps := []int64{4, 5, 6, 3, 1000}[d.r.Intn(5)]
		d.donate = *donate > 0 && hist%*donate == *donate-1
		d.history(*blocks, maxApps, *breadth)
		hist++
	}
	d.t.Close(map[string]interface{}{"histories": hist})
}
