// c39: drives the real pocket-core crypto package (ed25519, secp256k1, multisig keys, key
// dispatch by length, amino key encodings, addresses, MultiSignature assembly) on generated
// keys/messages/mutations and writes the trace consumed by lean/Driver/C39.lean.
//
// Key syntax on the wire: e:<hex32>  s:<hex33>  m[k;k;...]  n (nil interface member).
// Every verdict of a *primitive* verification (single ed25519/secp256k1 VerifyBytes, or the
// VerifyBytes of a multisig member) is passed to the Lean driver as data: the driver evaluates
// the composition logic (count, position, nil signatures, nil members) with the real primitives
// as an oracle table and compares with the real PublicKeyMultiSignature.VerifyBytes.  The harness
// also records for each signature whether it was genuinely produced by the private key of the
// member at that position over exactly the message (the ground truth only the signer knows).
package main

import (
	"crypto/sha256"
	"encoding/hex"
	"encoding/json"
	"flag"
	"fmt"
	"math/big"
	"strings"

	"github.com/pokt-network/pocket-core/crypto"
	"github.com/tendermint/tendermint/crypto/ed25519"
	"github.com/tendermint/tendermint/crypto/secp256k1"
	"golang.org/x/crypto/ripemd160"
	"verifharness/internal/gen"
)

type signer struct {
	priv crypto.PrivateKey
	pub  crypto.PublicKey
	// for a multisig "signer": its members
	members []*signer
}

func newEd(r *gen.R) *signer {
	p := crypto.Ed25519PrivateKey(ed25519.GenPrivKeyFromSecret(r.Bytes(16)))
	return &signer{priv: p, pub: p.PublicKey()}
}
func newSecp(r *gen.R) *signer {
	p := crypto.Secp256k1PrivateKey(secp256k1.GenPrivKeySecp256k1(r.Bytes(16)))
	return &signer{priv: p, pub: p.PublicKey()}
}
func newSimple(r *gen.R) *signer {
	if r.Bool() {
		return newEd(r)
	}
	return newSecp(r)
}
func newMulti(r *gen.R, n int, depth int) *signer {
	s := &signer{}
	var pks []crypto.PublicKey
	for i := 0; i < n; i++ {
		var m *signer
		if depth > 0 && r.Chance(1, 6) {
			m = newMulti(r, 1+r.Intn(3), depth-1)
		} else {
			m = newSimple(r)
		}
		s.members = append(s.members, m)
		pks = append(pks, m.pub)
	}
	s.pub = crypto.PublicKeyMultiSignature{PublicKeys: pks}
	return s
}

// sign produces a genuine signature of the signer over msg (recursively for multisig signers).
func (s *signer) sign(msg []byte) []byte {
	if s.priv != nil {
		b, err := s.priv.Sign(msg)
		if err != nil {
			panic(err)
		}
		return b
	}
	ms := crypto.MultiSignature{Sigs: [][]byte{}}
	for _, m := range s.members {
		ms.Sigs = append(ms.Sigs, m.sign(msg))
	}
	return ms.Marshal()
}

func render(k crypto.PublicKey) string {
	switch v := k.(type) {
	case nil:
		return "n"
	case crypto.Ed25519PublicKey:
		return "e:" + hex.EncodeToString(v.RawBytes())
	case crypto.Secp256k1PublicKey:
		return "s:" + hex.EncodeToString(v.RawBytes())
	case crypto.PublicKeyMultiSignature:
		parts := make([]string, len(v.PublicKeys))
		for i, m := range v.PublicKeys {
			parts[i] = render(m)
		}
		return "m[" + strings.Join(parts, ";") + "]"
	case *crypto.PublicKeyMultiSignature:
		return render(*v)
	default:
		return fmt.Sprintf("?%T", k)
	}
}

func try(f func() string) (s string) {
	defer func() {
		if r := recover(); r != nil {
			s = "PANIC"
		}
	}()
	return f()
}

func sha(b []byte) []byte { h := sha256.Sum256(b); return h[:] }
func rip(b []byte) []byte { h := ripemd160.New(); h.Write(b); return h.Sum(nil) }

var (
	secpN, _ = new(big.Int).SetString("FFFFFFFFFFFFFFFFFFFFFFFFFFFFFFFEBAAEDCE6AF48A03BBFD25E8CD0364141", 16)
	edL, _   = new(big.Int).SetString("1000000000000000000000000000000014DEF9DEA2F79CD65812631A5CF5D3ED", 16)
)

func be32(x *big.Int) []byte {
	b := x.Bytes()
	if len(b) > 32 {
		return nil
	}
	return append(make([]byte, 32-len(b)), b...)
}

func le32(x *big.Int) []byte {
	b := be32(x)
	if b == nil {
		return nil
	}
	for i, j := 0, 31; i < j; i, j = i+1, j-1 {
		b[i], b[j] = b[j], b[i]
	}
	return b
}

type twin struct {
	label string
	sig   []byte
}

// malleations: structured variants of a genuine signature that a sloppy verifier accepts.
// secp256k1 (R||S big endian): the high-S twin (R, N-S), S+N and R+N where they fit into 32
// bytes, R = 0, S = 0, S = N.  ed25519 (R||S, S little endian): the non-canonical S + L, S + 2L.
func malleations(secp bool, sig []byte) []twin {
	var out []twin
	if len(sig) != 64 {
		return nil
	}
	add := func(label string, a, b []byte) {
		if a == nil || b == nil {
			return
		}
		c := append(append([]byte{}, a...), b...)
		if string(c) != string(sig) {
			out = append(out, twin{label, c})
		}
	}
	if secp {
		R, S := new(big.Int).SetBytes(sig[:32]), new(big.Int).SetBytes(sig[32:])
		add("highS", sig[:32], be32(new(big.Int).Sub(secpN, S)))
		add("SplusN", sig[:32], be32(new(big.Int).Add(S, secpN)))
		add("RplusN", be32(new(big.Int).Add(R, secpN)), sig[32:])
		add("zeroR", make([]byte, 32), sig[32:])
		add("zeroS", sig[:32], make([]byte, 32))
		add("SisN", sig[:32], be32(secpN))
		add("negBoth", be32(new(big.Int).Sub(secpN, R)), be32(new(big.Int).Sub(secpN, S)))
	} else {
		S := new(big.Int).SetBytes(func() []byte {
			b := append([]byte{}, sig[32:]...)
			for i, j := 0, 31; i < j; i, j = i+1, j-1 {
				b[i], b[j] = b[j], b[i]
			}
			return b
		}())
		add("SplusL", sig[:32], le32(new(big.Int).Add(S, edL)))
		add("Splus2L", sig[:32], le32(new(big.Int).Add(S, new(big.Int).Lsh(edL, 1))))
		add("Splus8L", sig[:32], le32(new(big.Int).Add(S, new(big.Int).Lsh(edL, 3))))
		add("zeroS", sig[:32], make([]byte, 32))
		add("zeroR", make([]byte, 32), sig[32:])
	}
	return out
}

func mutate(r *gen.R, b []byte) []byte {
	c := append([]byte(nil), b...)
	if len(c) == 0 {
		return []byte{byte(r.U64())}
	}
	i := r.Intn(len(c))
	switch r.Intn(4) {
	case 0:
		c[i] ^= 1 << uint(r.Intn(8))
	case 1:
		c[i] = 0
	case 2:
		c[i] ^= 0xff
	default:
		c[i] += byte(1 + r.Intn(255))
	}
	return c
}

// mutateAt mutates exactly position i (bit flip / set) guaranteeing a change.
func mutateAt(r *gen.R, b []byte, i int) []byte {
	c := append([]byte(nil), b...)
	c[i] ^= byte(1 + r.Intn(255))
	return c
}

func sigList(sigs [][]byte) string {
	if len(sigs) == 0 {
		return "-"
	}
	p := make([]string, len(sigs))
	for i, s := range sigs {
		p[i] = gen.Hex(s)
	}
	return strings.Join(p, ",")
}

// decodeMS decodes a MultiSignature with the real codec (Unmarshal panics on error).
func decodeMS(b []byte) (sigs [][]byte, ok bool) {
	defer func() {
		if r := recover(); r != nil {
			ok = false
		}
	}()
	ms := crypto.MultiSignature{}.Unmarshal(b)
	return ms.Signatures(), true
}

var t *gen.Trace

func newKeyLine(kind string, b []byte, nontriv bool) {
	res := try(func() string {
		k, err := crypto.NewPublicKeyBz(b)
		if err != nil {
			return "ERR"
		}
		return render(k)
	})
	t.Line(kind, nontriv && res != "ERR", "new %s => %s", gen.Hex(b), res)
}

func pkfbLine(kind string, b []byte, nontriv bool) {
	res := try(func() string {
		k, err := crypto.PubKeyFromBytes(b)
		if err != nil {
			return "ERR"
		}
		return render(k)
	})
	t.Line(kind, nontriv && res != "ERR", "pkfb %s => %s", gen.Hex(b), res)
}

func keyCase(r *gen.R, s *signer) {
	k := s.pub
	ks := render(k)
	// encodings
	t.Line("enc", true, "enc %s => %s %s", ks, gen.Hex(k.Bytes()), gen.Hex(k.RawBytes()))
	// dispatch round trip through NewPublicKeyBz(RawBytes) and PubKeyFromBytes(Bytes), with addresses
	res := try(func() string {
		k2, err := crypto.NewPublicKeyBz(k.RawBytes())
		if err != nil {
			return "ERR"
		}
		k3, err := crypto.PubKeyFromBytes(k.Bytes())
		if err != nil {
			return "ERR"
		}
		return fmt.Sprintf("%s %s %s %s %s", render(k2), render(k3), gen.Hex(k.Address()), gen.Hex(k2.Address()), gen.Hex(k3.Address()))
	})
	t.Line("rt", true, "rt %s => %s", ks, res)
	// address = truncated hash; the hashes are handed over as an oracle table
	raw, am := k.RawBytes(), k.Bytes()
	t.Line("addr", true, "addr %s %s %s %s => %s", ks, gen.Hex(sha(raw)), gen.Hex(sha(am)), gen.Hex(rip(sha(raw))), gen.Hex(k.Address()))
	newKeyLine("new-raw", raw, true)
	pkfbLine("pkfb-amino", am, true)
	// JSON round trip for the simple kinds (hex of the raw bytes)
	switch v := k.(type) {
	case crypto.Ed25519PublicKey:
		res := try(func() string {
			j, err := json.Marshal(v)
			if err != nil {
				return "ERR"
			}
			var o crypto.Ed25519PublicKey
			if err := json.Unmarshal(j, &o); err != nil {
				return "ERR"
			}
			return string(j) + " " + render(o)
		})
		t.Line("json", true, "json %s => %s", ks, res)
	case crypto.Secp256k1PublicKey:
		res := try(func() string {
			j, err := json.Marshal(v)
			if err != nil {
				return "ERR"
			}
			var o crypto.Secp256k1PublicKey
			if err := json.Unmarshal(j, &o); err != nil {
				return "ERR"
			}
			return string(j) + " " + render(o)
		})
		t.Line("json", true, "json %s => %s", ks, res)
	}
}

// verCase: single key, genuine signature and mutations; label tells the driver the ground truth.
func verCase(r *gen.R, s *signer) {
	kind := "e"
	if _, ok := s.pub.(crypto.Secp256k1PublicKey); ok {
		kind = "s"
	}
	msg := r.Bytes(r.Intn(64))
	if r.Chance(1, 10) {
		msg = []byte{}
	}
	sig := s.sign(msg)
	line := func(label string, pk crypto.PublicKey, m, sg []byte) {
		res := try(func() string { return fmt.Sprint(pk.VerifyBytes(m, sg)) })
		t.Line("ver-"+kind+"-"+label, label == "ok", "ver %s %s %s %s %s => %s", kind, label, render(pk), gen.Hex(m), gen.Hex(sg), res)
	}
	line("ok", s.pub, msg, sig)
	// every byte position family: message, signature, key
	for j := 0; j < 3; j++ {
		if len(msg) > 0 {
			line("msg", s.pub, mutateAt(r, msg, r.Intn(len(msg))), sig)
		} else {
			line("msg", s.pub, []byte{byte(r.U64())}, sig)
		}
		line("sig", s.pub, msg, mutateAt(r, sig, r.Intn(len(sig))))
		raw := mutateAt(r, s.pub.RawBytes(), r.Intn(len(s.pub.RawBytes())))
		pk2, err := crypto.NewPublicKeyBz(raw)
		if err == nil {
			line("key", pk2, msg, sig)
		}
	}
	for _, tw := range malleations(kind == "s", sig) {
		line("sig-"+tw.label, s.pub, msg, tw.sig)
	}
	line("msg", s.pub, append(append([]byte{}, msg...), 0), sig)
	line("sig", s.pub, msg, sig[:len(sig)-1])
	line("sig", s.pub, msg, append(append([]byte{}, sig...), 0))
	line("sig", s.pub, msg, []byte{})
	var other *signer
	if kind == "e" {
		other = newEd(r)
	} else {
		other = newSecp(r)
	}
	line("other", s.pub, msg, other.sign(msg))
	line("other", other.pub, msg, sig)
}

// msvLine runs the real multisig VerifyBytes on (msg, sigBytes) and hands the driver the
// primitive member verdicts and the ground truth per position.
func msvLine(label string, s *signer, msg []byte, sigBytes []byte, truth []bool) {
	pms := s.pub.(crypto.PublicKeyMultiSignature)
	res := try(func() string { return fmt.Sprint(pms.VerifyBytes(msg, sigBytes)) })
	dec, ok := decodeMS(sigBytes)
	decS := "DECERR"
	prims := "-"
	if ok {
		decS = sigList(dec)
		var sb strings.Builder
		for i := 0; i < len(dec) && i < len(pms.PublicKeys); i++ {
			if dec[i] == nil || pms.PublicKeys[i] == nil {
				sb.WriteByte('x')
				continue
			}
			v := try(func() string {
				if pms.PublicKeys[i].VerifyBytes(msg, dec[i]) {
					return "1"
				}
				return "0"
			})
			if v == "PANIC" {
				v = "p"
			}
			sb.WriteString(v)
		}
		if sb.Len() > 0 {
			prims = sb.String()
		}
	}
	tr := "-"
	if len(truth) > 0 {
		var sb strings.Builder
		for _, b := range truth {
			if b {
				sb.WriteByte('1')
			} else {
				sb.WriteByte('0')
			}
		}
		tr = sb.String()
	}
	t.Line("msv-"+strings.TrimRight(label, "0123456789"), res == "true", "msv %s %s %s %s %s %s => %s", label, render(pms), gen.Hex(sigBytes), decS, prims, tr, res)
}

func marshalSigs(sigs [][]byte) []byte { return crypto.MultiSignature{Sigs: sigs}.Marshal() }

func allTrue(n int) []bool {
	b := make([]bool, n)
	for i := range b {
		b[i] = true
	}
	return b
}

func msvCase(r *gen.R, n int) {
	s := newMulti(r, n, 1)
	msg := r.Bytes(1 + r.Intn(48))
	sigs := make([][]byte, n)
	for i, m := range s.members {
		sigs[i] = m.sign(msg)
	}
	cp := func() [][]byte { return append([][]byte(nil), sigs...) }
	msvLine("ok", s, msg, marshalSigs(sigs), allTrue(n))
	// all adjacent swaps
	for i := 0; i+1 < n; i++ {
		c := cp()
		c[i], c[i+1] = c[i+1], c[i]
		tr := allTrue(n)
		tr[i], tr[i+1] = false, false
		msvLine(fmt.Sprintf("swap%d", i), s, msg, marshalSigs(c), tr)
	}
	// a non-adjacent swap and a rotation
	if n >= 3 {
		c := cp()
		c[0], c[n-1] = c[n-1], c[0]
		tr := allTrue(n)
		tr[0], tr[n-1] = false, false
		msvLine("swapends", s, msg, marshalSigs(c), tr)
		rot := append(cp()[1:], sigs[0])
		msvLine("rotate", s, msg, marshalSigs(rot), make([]bool, n))
	}
	// omissions
	for i := 0; i < n; i++ {
		c := append(cp()[:i:i], sigs[i+1:]...)
		tr := make([]bool, n-1)
		for j := 0; j < i; j++ {
			tr[j] = true
		}
		msvLine(fmt.Sprintf("omit%d", i), s, msg, marshalSigs(c), tr)
	}
	// duplicates: position i+1 overwritten by signature i, and an appended duplicate
	for i := 0; i+1 < n; i++ {
		c := cp()
		c[i+1] = c[i]
		tr := allTrue(n)
		tr[i+1] = false
		msvLine(fmt.Sprintf("dup%d", i), s, msg, marshalSigs(c), tr)
	}
	msvLine("extra", s, msg, marshalSigs(append(cp(), sigs[n-1])), append(allTrue(n), false))
	// one empty / nil signature
	{
		i := r.Intn(n)
		c := cp()
		c[i] = []byte{}
		tr := allTrue(n)
		tr[i] = false
		msvLine("emptysig", s, msg, marshalSigs(c), tr)
	}
	// mutated message / one mutated signature
	msvLine("msgmut", s, mutateAt(r, msg, r.Intn(len(msg))), marshalSigs(sigs), make([]bool, n))
	{
		i := r.Intn(n)
		c := cp()
		c[i] = mutateAt(r, c[i], r.Intn(len(c[i])))
		tr := allTrue(n)
		tr[i] = false
		msvLine("sigmut", s, msg, marshalSigs(c), tr)
	}
	// a structurally malleated twin of a member's own signature at its position
	for i, m := range s.members {
		if m.priv == nil {
			continue
		}
		_, secp := m.pub.(crypto.Secp256k1PublicKey)
		tws := malleations(secp, sigs[i])
		if len(tws) == 0 {
			continue
		}
		tw := tws[r.Intn(len(tws))]
		c := cp()
		c[i] = tw.sig
		tr := allTrue(n)
		tr[i] = false
		msvLine("malleated-"+tw.label, s, msg, marshalSigs(c), tr)
		if r.Chance(1, 2) {
			break
		}
	}
	// a signature by a stranger at one position
	{
		i := r.Intn(n)
		c := cp()
		c[i] = newSimple(r).sign(msg)
		tr := allTrue(n)
		tr[i] = false
		msvLine("stranger", s, msg, marshalSigs(c), tr)
	}
	// the encoded multi-signature itself mutated / truncated / garbage / empty
	enc := marshalSigs(sigs)
	for j := 0; j < 3; j++ {
		m := mutate(r, enc)
		dec, ok := decodeMS(m)
		var tr []bool
		if ok {
			for i := range dec {
				tr = append(tr, i < n && string(dec[i]) == string(sigs[i]) && dec[i] != nil)
			}
		}
		msvLine("encmut", s, msg, m, tr)
	}
	msvLine("enctrunc", s, msg, enc[:r.Intn(len(enc))], nil)
	msvLine("garbage", s, msg, r.Bytes(r.Intn(12)), nil)
	msvLine("nosigs", s, msg, marshalSigs([][]byte{}), nil)
}

func multiFrom(members []*signer) *signer {
	s := &signer{members: members}
	var pks []crypto.PublicKey
	for _, m := range members {
		pks = append(pks, m.pub)
	}
	s.pub = crypto.PublicKeyMultiSignature{PublicKeys: pks}
	return s
}

// dupKeyCase: multisig keys that list the SAME member key at several positions (adjacent,
// non-adjacent, all equal, across key kinds, nested multisig members), with the genuine signature
// list and, for every slot, a mutated / junk / foreign / other-member signature in that slot only.
// Verification is positional: a bad signature in a later duplicate slot must be rejected even
// though the same key's genuine signature sits in an earlier slot.
func dupKeyCase(r *gen.R) {
	a, b := newSimple(r), newSimple(r)
	var other *signer
	if _, ok := a.pub.(crypto.Ed25519PublicKey); ok {
		other = newSecp(r)
	} else {
		other = newEd(r)
	}
	nested := newMulti(r, 2, 0)
	shapes := [][]*signer{
		{a, a},
		{a, b, a},
		{a, a, b},
		{b, a, a},
		{a, b, b, a},
		{a, a, a},
		{a, a, a, a},
		{a, other, a},
		{other, a, other, a},
		{nested, b, nested},
		{nested, nested},
		{a, nested, a, nested},
	}
	members := shapes[r.Intn(len(shapes))]
	s := multiFrom(members)
	n := len(members)
	msg := r.Bytes(1 + r.Intn(48))
	sigs := make([][]byte, n)
	for i, m := range members {
		sigs[i] = m.sign(msg)
	}
	cp := func() [][]byte { return append([][]byte(nil), sigs...) }
	msvLine("dupkey-ok", s, msg, marshalSigs(sigs), allTrue(n))
	for i := 0; i < n; i++ {
		bad := func(label string, sg []byte) {
			c := cp()
			c[i] = sg
			tr := allTrue(n)
			tr[i] = false
			msvLine(fmt.Sprintf("dupkey-%s%d", label, i), s, msg, marshalSigs(c), tr)
		}
		bad("sigmut", mutateAt(r, sigs[i], r.Intn(len(sigs[i]))))
		bad("junk", r.Bytes(len(sigs[i])))
		bad("stranger", newSimple(r).sign(msg))
		// the signature of a different member of the same key list
		for j := 0; j < n; j++ {
			if members[j] != members[i] {
				bad("othermember", sigs[j])
				break
			}
		}
		bad("emptysig", []byte{})
		bad("oldmsg", members[i].sign(append(append([]byte{}, msg...), 1)))
	}
	// the key itself round-trips like any other
	keyCase(r, s)
}

// decoder-produced keys outside what NewMultiKey allows: empty, single member, nil member.
func oddKeyCase(r *gen.R) {
	empty := crypto.PublicKeyMultiSignature{}
	eb := empty.Bytes()
	newKeyLine("new-empty-multi", eb, true)
	msg := r.Bytes(1 + r.Intn(32))
	k, err := crypto.NewPublicKeyBz(eb)
	if err == nil {
		es := &signer{pub: k}
		msvLine("emptykey", es, msg, marshalSigs([][]byte{}), nil)
		msvLine("emptykey-nilenc", es, msg, []byte{}, nil)
		msvLine("emptykey-extra", es, msg, marshalSigs([][]byte{r.Bytes(64)}), []bool{false})
	}
	one := newMulti(r, 1, 0)
	newKeyLine("new-single-multi", one.pub.Bytes(), true)
	msvLine("ok", one, msg, marshalSigs([][]byte{one.members[0].sign(msg)}), []bool{true})
	// nil member: field 1 with a zero length
	nb := append(append([]byte{}, eb...), 0x0a, 0x00)
	newKeyLine("new-nil-member", nb, true)
	if k, err := crypto.NewPublicKeyBz(nb); err == nil {
		ns := &signer{pub: k}
		msvLine("nilmember", ns, msg, marshalSigs([][]byte{r.Bytes(64)}), []bool{false})
		msvLine("nilmember-nosig", ns, msg, marshalSigs([][]byte{}), nil)
	}
	// genuine member followed by a nil member
	s1 := newSimple(r)
	mb := crypto.PublicKeyMultiSignature{PublicKeys: []crypto.PublicKey{s1.pub}}.Bytes()
	mb = append(mb, 0x0a, 0x00)
	newKeyLine("new-nil-member", mb, true)
	if k, err := crypto.NewPublicKeyBz(mb); err == nil {
		ns := &signer{pub: k}
		msvLine("nilmember", ns, msg, marshalSigs([][]byte{s1.sign(msg), r.Bytes(64)}), []bool{true, false})
		msvLine("nilmember-first-bad", ns, msg, marshalSigs([][]byte{r.Bytes(64), r.Bytes(64)}), []bool{false, false})
	}
}

// malformed key encodings through the dispatcher and the interface decoder.
func malformedCase(r *gen.R) {
	var s *signer
	switch r.Intn(3) {
	case 0:
		s = newSimple(r)
	default:
		s = newMulti(r, 1+r.Intn(4), 1)
	}
	am := s.pub.Bytes()
	for j := 0; j < 4; j++ {
		m := mutate(r, am)
		newKeyLine("new-mut", m, false)
		pkfbLine("pkfb-mut", m, false)
	}
	// mutate the structural bytes specifically (prefix, field key, length)
	for _, i := range []int{0, 3, 4, 5, 6, 9, 10} {
		if i < len(am) {
			m := mutateAt(r, am, i)
			newKeyLine("new-mut", m, false)
			pkfbLine("pkfb-mut", m, false)
		}
	}
	cut := r.Intn(len(am) + 1)
	newKeyLine("new-trunc", am[:cut], false)
	pkfbLine("pkfb-trunc", am[:cut], false)
	// appended unknown fields (amino skips fields with a larger number)
	tails := [][]byte{{0x10, 0x05}, {0x12, 0x01, 0xaa}, {0x0a, 0x00}, {0x08, 0x01}, {0x15, 1, 2, 3, 4}, {0x19, 1, 2, 3, 4, 5, 6, 7, 8}, {0x10}, {0x13}, {0x10, 0x01, 0x10, 0x02}, {0x18, 0x01, 0x10, 0x02}}
	tl := tails[r.Intn(len(tails))]
	ext := append(append([]byte{}, am...), tl...)
	newKeyLine("new-tail", ext, false)
	pkfbLine("pkfb-tail", ext, false)
	// random bytes of dispatch-relevant lengths
	for _, n := range []int{0, 1, 3, 4, 5, 31, 32, 33, 34, 37, 38} {
		if r.Chance(1, 3) {
			b := r.Bytes(n)
			newKeyLine("new-rand", b, n == 32 || n == 33)
			pkfbLine("pkfb-rand", b, false)
		}
	}
	// non-minimal length varint in front of a member
	if pms, ok := s.pub.(crypto.PublicKeyMultiSignature); ok && len(pms.PublicKeys) > 0 {
		first := pms.PublicKeys[0].Bytes()
		if len(first) < 128 {
			b := append([]byte{}, am[:4]...)
			b = append(b, 0x0a, byte(len(first))|0x80, 0x00)
			b = append(b, first...)
			b = append(b, am[4+2+len(first):]...)
			newKeyLine("new-nonminimal", b, true)
		}
		// disfix form (0x00 + 3 disamb bytes + prefix) for the first member
		nm := map[byte]string{'e': "crypto/ed25519_public_key", 's': "crypto/secp256k1_public_key", 'm': "crypto/public_key_multi_signature"}[render(pms.PublicKeys[0])[0]]
		h := sha(([]byte)(nm))
		for h[0] == 0 {
			h = h[1:]
		}
		dis := append([]byte{0}, h[:3]...)
		inner := append(dis, first...)
		b := append([]byte{}, am[:4]...)
		b = append(b, 0x0a)
		b = appendUvarint(b, uint64(len(inner)))
		b = append(b, inner...)
		b = append(b, am[4+1+uvarintLen(uint64(len(first)))+len(first):]...)
		newKeyLine("new-disfix", b, true)
	}
}

func appendUvarint(b []byte, v uint64) []byte {
	for v >= 0x80 {
		b = append(b, byte(v)|0x80)
		v >>= 7
	}
	return append(b, byte(v))
}
func uvarintLen(v uint64) int { return len(appendUvarint(nil, v)) }

// Equals across kinds (type assertions inside the simple kinds).
func eqCase(r *gen.R) {
	a, b := newEd(r), newSecp(r)
	m := newMulti(r, 2, 0)
	ks := []crypto.PublicKey{a.pub, b.pub, m.pub, newEd(r).pub, a.pub}
	x, y := ks[r.Intn(len(ks))], ks[r.Intn(len(ks))]
	res := try(func() string { return fmt.Sprint(x.Equals(y)) })
	t.Line("eq", res != "PANIC", "eq %s %s => %s", render(x), render(y), res)
}

// MultiSignature assembly: AddSignatureByIndex / GetSignatureByIndex.
func addSigCase(r *gen.R) {
	n := r.Intn(4)
	var sigs [][]byte
	for i := 0; i < n; i++ {
		sigs = append(sigs, r.Bytes(2))
	}
	idx := r.Intn(6)
	sig := r.Bytes(2)
	in := sigList(sigs)
	res := try(func() string {
		ms := crypto.MultiSignature{Sigs: append(make([][]byte, 0, 8), sigs...)}
		out := ms.AddSignatureByIndex(sig, idx)
		return sigList(out.Signatures())
	})
	t.Line("addsig", res != "PANIC", "addsig %s %d %s => %s", in, idx, gen.Hex(sig), res)
}

// AddSignature by key through getIndex: members sign in a generated order; then verify.
func assembleCase(r *gen.R) {
	n := 2 + r.Intn(4)
	s := &signer{}
	var pks []crypto.PublicKey
	ed := r.Bool()
	for i := 0; i < n; i++ {
		var m *signer
		if ed {
			m = newEd(r)
		} else {
			m = newSecp(r)
		}
		s.members = append(s.members, m)
		pks = append(pks, m.pub)
	}
	s.pub = crypto.PublicKeyMultiSignature{PublicKeys: pks}
	msg := r.Bytes(1 + r.Intn(32))
	// order: identity mostly, otherwise a random permutation
	order := make([]int, n)
	for i := range order {
		order[i] = i
	}
	if r.Chance(1, 2) {
		for i := n - 1; i > 0; i-- {
			j := r.Intn(i + 1)
			order[i], order[j] = order[j], order[i]
		}
	}
	os := make([]string, n)
	for i, o := range order {
		os[i] = fmt.Sprint(o)
	}
	res := try(func() string {
		var ms crypto.MultiSig = crypto.MultiSignature{}.NewMultiSignature()
		for _, o := range order {
			var err error
			ms, err = ms.AddSignature(s.members[o].sign(msg), pks[o], pks)
			if err != nil {
				return "ERR"
			}
		}
		// which member's signature ended at which position
		pos := make([]string, len(ms.Signatures()))
		for i, sg := range ms.Signatures() {
			pos[i] = "x"
			for j, m := range s.members {
				if string(m.sign(msg)) == string(sg) {
					pos[i] = fmt.Sprint(j)
				}
			}
		}
		return strings.Join(pos, ",") + " " + fmt.Sprint(s.pub.VerifyBytes(msg, ms.Marshal()))
	})
	t.Line("assemble", res != "PANIC", "assemble %d %s => %s", n, strings.Join(os, ","), res)
}

func main() {
	seed := flag.Uint64("seed", 1, "")
	n := flag.Int("n", 300, "")
	out := flag.String("out", "c39.trace", "")
	flag.Parse()
	r := gen.New(*seed)
	t = gen.NewTrace(*out)
	// constants of the encoding, compared with the model's literals
	{
		e, s := newEd(r), newSecp(r)
		m := crypto.PublicKeyMultiSignature{}
		ms := crypto.MultiSignature{}
		t.Line("consts", true, "consts => %s %s %s %s %d %d", gen.Hex(e.pub.Bytes()[:4]), gen.Hex(s.pub.Bytes()[:4]), gen.Hex(m.Bytes()[:4]), gen.Hex(ms.Marshal()[:4]), crypto.Ed25519PubKeySize, crypto.Secp256k1PublicKeySize)
	}
	oddKeyCase(r)
	dupKeyCase(r)
	dupKeyCase(r)
	for i := 0; i < *n; i++ {
		switch k := r.Intn(20); {
		case k < 3:
			keyCase(r, newSimple(r))
		case k < 5:
			keyCase(r, newMulti(r, r.Intn(5), 2))
		case k < 9:
			verCase(r, newSimple(r))
		case k < 13:
			msvCase(r, 2+r.Intn(7))
		case k < 15:
			malformedCase(r)
		case k < 16:
			eqCase(r)
		case k < 17:
			oddKeyCase(r)
		case k < 18:
			assembleCase(r)
		case k < 19:
			dupKeyCase(r)
		default:
			addSigCase(r)
		}
	}
	t.Close(nil)
}
