// c41: drives the real types.Coins / BigInt / BigDec on generated inputs and writes the trace
// consumed by lean/Driver/C41.lean.
package main

import (
	"flag"
	"fmt"
	"math/big"
	"strings"

	sdk "github.com/pokt-network/pocket-core/types"
	"verifharness/internal/gen"
)

var denoms = []string{"aaa", "aab", "aac", "aaaa", "upokt", "zzz", "ab0"}

type coin struct {
	d string
	a *big.Int
}

func bigFrom(r *gen.R) *big.Int {
	two255 := new(big.Int).Lsh(big.NewInt(1), 255)
	switch r.Intn(12) {
	case 0:
		return big.NewInt(0)
	case 1:
		return big.NewInt(1)
	case 2:
		return big.NewInt(-1)
	case 3: // near +2^255
		return new(big.Int).Sub(two255, big.NewInt(int64(1+r.Intn(3))))
	case 4: // near -2^255
		return new(big.Int).Neg(new(big.Int).Sub(two255, big.NewInt(int64(1+r.Intn(3)))))
	case 5:
		return new(big.Int).Rsh(two255, uint(1+r.Intn(3)))
	case 6:
		x := new(big.Int).SetBytes(r.Bytes(1 + r.Intn(31)))
		if r.Bool() {
			x.Neg(x)
		}
		return x
	default:
		return big.NewInt(int64(r.Intn(2000)) - 600)
	}
}

// mulPair: factors whose bit lengths add up to 255, 256 or 257 — the window in which the
// product's own bit length (254..257 bits) decides between a value and an overflow and in
// which BigInt.Mul's up-front bound BitLen(a)+BitLen(b)-1 is not decisive: all-ones factors
// (product just below 2^(la+lb)), powers of two (product exactly 2^(la+lb-2)), and random
// factors of those lengths, with random signs.
func mulPair(r *gen.R) (*big.Int, *big.Int) {
	la := 1 + r.Intn(255)
	lb := 255 + r.Intn(3) - la
	if lb < 1 {
		lb = 1
	}
	mk := func(l int) *big.Int {
		top := new(big.Int).Lsh(big.NewInt(1), uint(l-1)) // 2^(l-1): smallest l-bit number
		switch r.Intn(4) {
		case 0: // all ones: 2^l - 1 - small
			x := new(big.Int).Sub(new(big.Int).Lsh(big.NewInt(1), uint(l)), big.NewInt(int64(1+r.Intn(3))))
			if x.Sign() <= 0 {
				return big.NewInt(1)
			}
			return x
		case 1: // power of two (+ small)
			return new(big.Int).Add(top, big.NewInt(int64(r.Intn(2))))
		case 2: // around sqrt(2)*2^(l-1): products of two such factors straddle 2^(la+lb-1)
			x := new(big.Int).Mul(top, big.NewInt(int64(1414+r.Intn(3)-1)))
			return x.Quo(x, big.NewInt(1000))
		default:
			x := new(big.Int).SetBytes(r.Bytes((l + 7) / 8))
			x.SetBit(x, l-1, 1)
			for x.BitLen() > l {
				x.SetBit(x, x.BitLen()-1, 0)
			}
			return x
		}
	}
	a, b := mk(la), mk(lb)
	if r.Chance(1, 3) {
		a.Neg(a)
	}
	if r.Chance(1, 3) {
		b.Neg(b)
	}
	return a, b
}

func mkInt(b *big.Int) sdk.BigInt { return sdk.NewIntFromBigInt(new(big.Int).Set(b)) }

// genCoins: mostly sorted valid sets; sometimes zero/negative amounts; malformed (unsorted /
// duplicate) when mal is true.
func genCoins(r *gen.R, mal bool) []coin {
	n := r.Intn(6)
	if n > len(denoms) {
		n = len(denoms)
	}
	idx := map[int]bool{}
	for len(idx) < n {
		idx[r.Intn(len(denoms))] = true
	}
	sorted := append([]string(nil), denoms...)
	// sort denoms bytewise
	for i := range sorted {
		for j := i + 1; j < len(sorted); j++ {
			if sorted[j] < sorted[i] {
				sorted[i], sorted[j] = sorted[j], sorted[i]
			}
		}
	}
	var cs []coin
	for i, d := range sorted {
		_ = i
		for k, dn := range denoms {
			if dn == d && idx[k] {
				a := bigFrom(r)
				if !r.Chance(1, 6) && a.Sign() <= 0 { // mostly positive
					a = new(big.Int).Add(new(big.Int).Abs(a), big.NewInt(1))
					if a.BitLen() > 255 {
						a = big.NewInt(3)
					}
				}
				cs = append(cs, coin{d, a})
			}
		}
	}
	// runs of adjacent zero-amount coins (a zero that follows a removed zero is where an in-place
	// removal loop goes wrong), at the head, in the middle or as the tail of the set
	if len(cs) >= 2 && r.Chance(1, 4) {
		i := r.Intn(len(cs) - 1)
		l := 2 + r.Intn(2)
		for j := i; j < i+l && j < len(cs); j++ {
			cs[j].a = big.NewInt(0)
		}
	}
	if mal && len(cs) >= 1 {
		switch r.Intn(3) {
		case 0:
			cs = append(cs, cs[0])
		case 1:
			cs[0], cs[len(cs)-1] = cs[len(cs)-1], cs[0]
		default:
			cs = append([]coin{cs[len(cs)-1]}, cs...)
		}
	}
	return cs
}

func toSDK(cs []coin) sdk.Coins {
	out := make(sdk.Coins, 0, len(cs))
	for _, c := range cs {
		out = append(out, sdk.Coin{Denom: c.d, Amount: mkInt(c.a)})
	}
	return out
}

func render(cs sdk.Coins) string {
	if len(cs) == 0 {
		return "-"
	}
	parts := make([]string, len(cs))
	for i, c := range cs {
		parts[i] = fmt.Sprintf("%x:%s", []byte(c.Denom), c.Amount.String())
	}
	return strings.Join(parts, ",")
}

func renderIn(cs []coin) string { return render(toSDK(cs)) }

func try(f func() string) (s string) {
	defer func() {
		if r := recover(); r != nil {
			s = "PANIC"
		}
	}()
	return f()
}

func isSorted(cs []coin) bool {
	for i := 1; i < len(cs); i++ {
		if !(cs[i-1].d < cs[i].d) {
			return false
		}
	}
	return true
}

func decFrom(r *gen.R) *big.Int {
	p := new(big.Int).Exp(big.NewInt(10), big.NewInt(18), nil)
	switch r.Intn(8) {
	case 0: // exact half ties
		x := big.NewInt(int64(r.Intn(9)))
		x.Mul(x, p)
		x.Add(x, new(big.Int).Quo(p, big.NewInt(2)))
		if r.Bool() {
			x.Neg(x)
		}
		return x
	case 1:
		return new(big.Int).Mul(big.NewInt(int64(r.Intn(50))-10), p)
	case 2:
		x := new(big.Int).SetBytes(r.Bytes(1 + r.Intn(39)))
		if r.Bool() {
			x.Neg(x)
		}
		return x
	case 3:
		return big.NewInt(int64(r.Intn(5)) - 2)
	default:
		x := new(big.Int).SetBytes(r.Bytes(1 + r.Intn(10)))
		if r.Chance(1, 3) {
			x.Neg(x)
		}
		return x
	}
}

func mkDec(b *big.Int) sdk.BigDec { return sdk.NewDecFromBigIntWithPrec(new(big.Int).Set(b), 18) }

func main() {
	seed := flag.Uint64("seed", 1, "")
	n := flag.Int("n", 5000, "")
	out := flag.String("out", "c41.trace", "")
	flag.Parse()
	r := gen.New(*seed)
	t := gen.NewTrace(*out)
	// constants the model hard-codes, read from the real package (regenerated tie)
	t.Line("const", true, "const precision => %d", sdk.Precision)
	t.Line("const", true, "const decbits => %d", sdk.DecimalPrecisionBits)
	t.Line("const", true, "const one => %s", sdk.OneDec().BigInt().String())
	t.Line("const", true, "const smallest => %s", sdk.SmallestDec().BigInt().String())
	func() {
		defer func() { recover() }()
		// the largest BigInt the package accepts: 2^255-1 passes, 2^255 panics
		max := new(big.Int).Sub(new(big.Int).Lsh(big.NewInt(1), 255), big.NewInt(1))
		ok1 := try(func() string { return sdk.NewIntFromBigInt(max).String() }) != "PANIC"
		ok2 := try(func() string { return sdk.NewIntFromBigInt(new(big.Int).Add(max, big.NewInt(1))).String() }) == "PANIC"
		t.Line("const", true, "const maxbits255 => %v", ok1 && ok2)
	}()
	for i := 0; i < *n; i++ {
		mal := r.Chance(1, 10)
		switch k := r.Intn(16); {
		case k < 4:
			a, b := genCoins(r, mal), genCoins(r, mal && r.Bool())
			ia, ib := renderIn(a), renderIn(b)
			res := try(func() string { return render(toSDK(a).Add(toSDK(b))) })
			t.Line("add", isSorted(a) && isSorted(b) && len(a) > 0 && len(b) > 0 && res != "PANIC", "add %s %s => %s", ia, ib, res)
		case k < 7:
			a, b := genCoins(r, mal), genCoins(r, mal && r.Bool())
			ia, ib := renderIn(a), renderIn(b)
			res := try(func() string {
				d, neg := toSDK(a).SafeSub(toSDK(b))
				return fmt.Sprintf("%s %v", render(d), neg)
			})
			t.Line("sub", isSorted(a) && isSorted(b) && len(a) > 0 && len(b) > 0 && res != "PANIC", "sub %s %s => %s", ia, ib, res)
		case k < 8:
			a, b := genCoins(r, mal), genCoins(r, false)
			ia, ib := renderIn(a), renderIn(b)
			res := try(func() string { return render(toSDK(a).Sub(toSDK(b))) })
			t.Line("subp", res != "PANIC", "subp %s %s => %s", ia, ib, res)
		case k < 10:
			a := genCoins(r, mal)
			d := r.Pick(denoms)
			res := try(func() string { return toSDK(a).AmountOf(d).String() })
			t.Line("amt", len(a) > 1, "amt %s %x => %s", renderIn(a), []byte(d), res)
		case k < 11:
			a := genCoins(r, mal)
			res := try(func() string { return fmt.Sprint(toSDK(a).IsValid()) })
			t.Line("valid", len(a) > 0, "valid %s => %s", renderIn(a), res)
		case k < 12:
			a, b := genCoins(r, false), genCoins(r, false)
			res := try(func() string { return fmt.Sprint(toSDK(a).IsAllGTE(toSDK(b))) })
			t.Line("gte", len(a) > 0 && len(b) > 0, "gte %s %s => %s", renderIn(a), renderIn(b), res)
		case k < 14:
			x, y := bigFrom(r), bigFrom(r)
			op := r.Pick([]string{"iadd", "isub", "imul", "imul", "iquo", "imod"})
			if op == "imul" && r.Chance(2, 3) {
				x, y = mulPair(r)
			}
			res := try(func() string {
				a, b := mkInt(x), mkInt(y)
				switch op {
				case "iadd":
					return a.Add(b).String()
				case "isub":
					return a.Sub(b).String()
				case "imul":
					return a.Mul(b).String()
				case "iquo":
					return a.Quo(b).String()
				default:
					return a.Mod(b).String()
				}
			})
			t.Line(op, res != "PANIC", "%s %s %s => %s", op, x, y, res)
		default:
			x, y := decFrom(r), decFrom(r)
			ops := []string{"dadd", "dsub", "dmul", "dmult", "dquo", "dquot", "dquou", "dquoi", "dround", "dtrunc", "dround64", "dtrunc64", "dpow", "dmuli"}
			op := r.Pick(ops)
			if (op == "dquoi" || op == "dmuli") && y.BitLen() > 255 {
				y = new(big.Int).Rsh(y, uint(y.BitLen()-255))
			}
			if op == "dpow" {
				y = big.NewInt(int64(r.Intn(40)))
				if x.BitLen() > 70 {
					x = new(big.Int).Rsh(x, uint(x.BitLen()-70))
				}
			}
			res := try(func() string {
				a, b := mkDec(x), mkDec(y)
				raw := func(d sdk.BigDec) string { return d.BigInt().String() }
				switch op {
				case "dadd":
					return raw(a.Add(b))
				case "dsub":
					return raw(a.Sub(b))
				case "dmul":
					return raw(a.Mul(b))
				case "dmult":
					return raw(a.MulTruncate(b))
				case "dmuli":
					return raw(a.MulInt(sdk.NewIntFromBigInt(new(big.Int).Set(y))))
				case "dquo":
					return raw(a.Quo(b))
				case "dquot":
					return raw(a.QuoTruncate(b))
				case "dquou":
					return raw(a.QuoRoundUp(b))
				case "dquoi":
					return raw(a.QuoInt(sdk.NewIntFromBigInt(new(big.Int).Set(y))))
				case "dround":
					return a.RoundInt().String()
				case "dtrunc":
					return a.TruncateInt().String()
				case "dround64":
					return fmt.Sprint(a.RoundInt64())
				case "dtrunc64":
					return fmt.Sprint(a.TruncateInt64())
				default:
					return raw(a.Power(y.Uint64()))
				}
			})
			if op == "dround" || op == "dtrunc" || op == "dround64" || op == "dtrunc64" {
				t.Line(op, res != "PANIC", "%s %s => %s", op, x, res)
			} else {
				t.Line(op, res != "PANIC", "%s %s %s => %s", op, x, y, res)
			}
		}
	}
	t.Close(nil)
}
