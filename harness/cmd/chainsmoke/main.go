// chainsmoke: sanity run of the chain harness; prints the result-code distribution per tx kind.
package main

import (
	"flag"
	"fmt"
	"sort"

	dbm "github.com/tendermint/tm-db"
	"verifharness/internal/chain"
	"verifharness/internal/gen"
)

func main() {
	seed := flag.Uint64("seed", 1, "")
	blocks := flag.Int("blocks", 30, "")
	flag.Parse()
	chain.ModernGlobals()
	w, o := chain.DefaultWorld("verif", 3, 2, 2, 4)
	g := chain.BuildGenesis(o)
	n := chain.NewNode(g, "verif", o.GenesisTime, dbm.NewMemDB(), dbm.NewMemDB(), dbm.NewMemDB(), false)
	n.InitChain()
	r := gen.New(*seed)
	dist := map[string]int{}
	t := o.GenesisTime
	for i := 0; i < *blocks; i++ {
		b, ds := w.GenBlock(r, t, n.Height+1, 4)
		t = b.Time
		res := n.RunBlock(b)
		for j, d := range ds {
			dist[fmt.Sprintf("%-28s code=%d/%s", d.Kind, res.Txs[j].Code, res.Txs[j].Codespace)]++
		}
		if len(res.ValUpdates) > 0 {
			fmt.Printf("h=%d valupdates=%d\n", res.Height, len(res.ValUpdates))
		}
	}
	ks := make([]string, 0, len(dist))
	for k := range dist {
		ks = append(ks, k)
	}
	sort.Strings(ks)
	for _, k := range ks {
		fmt.Println(dist[k], k)
	}
	st := n.Dump(nil)
	for _, l := range st.Lines() {
		if len(l) > 160 {
			l = l[:160]
		}
		fmt.Println(l)
	}
}
