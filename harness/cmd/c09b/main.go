// c09b (C09 stage B): drives one real iavl.MutableTree over MemDB and, after EVERY operation, dumps the
// Go heap below the working root, the lastSaved root, every open view and a set of saved versions
// through the side-effect-free hook of store/iavl/export_verif.go (object identity, persisted flag,
// memoised hash, child pointers, cache/disk resolution of lazily loaded children).
// lean/Driver/C09b.lean checks the ownership discipline on the dumped heap (a persisted or hashed
// object is never written, saved roots reach persisted objects only, saved versions never change) and
// that the abstraction of every dumped root is the pure model's tree.
//
// Trace lines
//
//	set <k> <v> => <updated>             rm <k> => <value> <removed>
//	save => saved <ver> | idem <ver> | err            whash => ok          rollback => ok
//	reload <v> => ok <ver> | err          (MutableTree.LoadVersion on the same tree object)
//	open I|Z <v> => x<id> | err | nil     (GetImmutable / LazyLoadVersion; the handle is kept)
//	drop x<id> => ok
//	get|has|idx|iter <w|x<id>> args… => answer
//	heap <tokens…> => ok
//
// heap tokens (fields separated by ','):
//
//	N,m<id>,key,value,height,size,version,hash,lhash,rhash,lptr,rptr,persisted   an in-memory object (emitted when new or changed)
//	D,h<n>,key,value,height,size,version,lhash,rhash                              the DB record under hash n (emitted when new or changed)
//	E,h<n>,c:m<id> | d | x            how GetNode(hash n) would resolve now: cache object / disk record / missing
//	R,<label>,m<id> | h<n> | - | none a root: W working, L lastSaved, X<id> view handle, V<ver> root record of a saved version
//	Q,key:height:version;…            the node cache's LRU queue, least recently used first (small caches, first 400 steps)
//
// hashes are numbered h<n> in order of first appearance; '~' = nil.
package main

import (
	"flag"
	"fmt"
	"sort"
	"strings"

	dbm "github.com/tendermint/tm-db"

	"github.com/pokt-network/pocket-core/store/iavl"
	"verifharness/internal/gen"
)

type write struct {
	rm   bool
	k, v []byte
}

type view struct {
	id  int
	it  *iavl.ImmutableTree
	ver int64
}

type H struct {
	r    *gen.R
	r2   *gen.R // choices that must not disturb the operation stream (which versions to dump)
	t    *gen.Trace
	tree *iavl.MutableTree
	keys [][]byte

	present map[string]bool
	saved   []int64
	views   []*view
	nextV   int

	block      []write           // writes since the last save/reload/rollback
	blockOK    bool              // block starts at a saved version
	blocks     map[int64][]write // writes that produced version v from v-1
	replay     []write           // pending replay after a reload
	objID      map[interface{}]int
	hashID     map[string]int
	lastN      map[int]string
	lastD      map[int]string
	lastE      map[int]string
	step       int
	nIdem      int
	nReload    int
	nHeapNodes int
	cacheSize  int
	mid        int // percent: mid-block views of the latest version
	nMid       int
}

func hx(b []byte) string { return gen.Hex(b) }
func keyHex(b []byte) string {
	if len(b) == 0 {
		return "-"
	}
	return gen.Hex(b)
}

func try(f func() string) (s string) {
	defer func() {
		if r := recover(); r != nil {
			msg := fmt.Sprint(r)
			msg = strings.Map(func(c rune) rune {
				if c == ' ' || c == '\n' || c == '\t' {
					return '_'
				}
				return c
			}, msg)
			if len(msg) > 80 {
				msg = msg[:80]
			}
			s = "PANIC " + msg
		}
	}()
	return f()
}

func (h *H) hid(hash []byte) string {
	if hash == nil {
		return "~"
	}
	id, ok := h.hashID[string(hash)]
	if !ok {
		id = len(h.hashID)
		h.hashID[string(hash)] = id
	}
	return fmt.Sprintf("h%d", id)
}

func (h *H) oid(ref interface{}) int {
	id, ok := h.objID[ref]
	if !ok {
		id = len(h.objID)
		h.objID[ref] = id
	}
	return id
}

func b01(x bool) int {
	if x {
		return 1
	}
	return 0
}

// ---------------------------------------------------------------- heap dump

type dumper struct {
	h     *H
	toks  []string
	seenE map[int]bool
}

// emitDump renders one pre-order dump: object tokens for new/changed objects, record tokens for
// disk nodes, resolution tokens for lazily reached children. Returns the root reference.
func (d *dumper) nodes(ns []iavl.HeapNode) {
	h := d.h
	// the pre-order list is consumed recursively so that the pointer targets are known
	pos := 0
	var walk func() string // returns "m<id>" for pointer children, "" otherwise
	walk = func() string {
		n := ns[pos]
		pos++
		h.nHeapNodes++
		switch n.How {
		case 'x':
			d.edge(n.Hash, "x")
			return ""
		case 'd':
			d.disk(n)
			d.edge(n.Hash, "d")
			if n.Height != 0 {
				walk()
				walk()
			}
			return ""
		}
		id := h.oid(n.Ref)
		if n.How == 'c' {
			d.edge(n.Hash, fmt.Sprintf("c:m%d", id))
		}
		lp, rp := "~", "~"
		if n.Height != 0 {
			l := walk()
			r := walk()
			if n.HasLeftPtr {
				lp = l
			}
			if n.HasRightPtr {
				rp = r
			}
		}
		s := fmt.Sprintf("N,m%d,%s,%s,%d,%d,%d,%s,%s,%s,%s,%s,%d", id, keyHex(n.Key), hx(n.Value), n.Height, n.Size, n.Version,
			h.hid(n.Hash), h.hid(n.LeftHash), h.hid(n.RightHash), lp, rp, b01(n.Persisted))
		if h.lastN[id] != s {
			h.lastN[id] = s
			d.toks = append(d.toks, s)
		}
		if n.Hash != nil {
			if dn, ok := h.tree.DiskNodeForVerif(n.Hash); ok {
				d.disk(dn)
			}
		}
		return fmt.Sprintf("m%d", id)
	}
	for pos < len(ns) {
		walk()
	}
}

func (d *dumper) disk(n iavl.HeapNode) {
	h := d.h
	hs := h.hid(n.Hash)
	id := h.hashID[string(n.Hash)]
	s := fmt.Sprintf("D,%s,%s,%s,%d,%d,%d,%s,%s", hs, keyHex(n.Key), hx(n.Value), n.Height, n.Size, n.Version, h.hid(n.LeftHash), h.hid(n.RightHash))
	if h.lastD[id] != s {
		h.lastD[id] = s
		d.toks = append(d.toks, s)
	}
}

func (d *dumper) edge(hash []byte, how string) {
	h := d.h
	hs := h.hid(hash)
	id := h.hashID[string(hash)]
	if d.seenE[id] {
		return
	}
	d.seenE[id] = true
	s := fmt.Sprintf("E,%s,%s", hs, how)
	if h.lastE[id] != s {
		h.lastE[id] = s
		d.toks = append(d.toks, s)
	}
}

func (d *dumper) root(label string, ns []iavl.HeapNode) {
	if len(ns) == 0 {
		d.toks = append(d.toks, "R,"+label+",-")
		return
	}
	d.nodes(ns)
	n := ns[0]
	switch n.How {
	case 'r':
		d.toks = append(d.toks, fmt.Sprintf("R,%s,m%d", label, d.h.oid(n.Ref)))
	default:
		d.toks = append(d.toks, fmt.Sprintf("R,%s,%s", label, d.h.hid(n.Hash)))
	}
}

func (h *H) dumpHeap() {
	h.step++
	res := try(func() string {
		d := &dumper{h: h, seenE: map[int]bool{}}
		d.root("W", h.tree.WorkingTree().DumpHeapForVerif())
		d.root("L", h.tree.DumpLastSavedHeapForVerif())
		for _, v := range h.views {
			d.root(fmt.Sprintf("X%d", v.id), v.it.DumpHeapForVerif())
		}
		vs := map[int64]bool{}
		n := len(h.saved)
		if n <= 6 || h.step%64 == 0 {
			for _, v := range h.saved {
				vs[v] = true
			}
		} else {
			for _, v := range h.saved[n-3:] {
				vs[v] = true
			}
			for i := 0; i < 3; i++ {
				vs[h.saved[h.r2.Intn(n)]] = true
			}
		}
		// the version every held view claims to be: its root record is dumped next to the handle
		isSaved := map[int64]bool{}
		for _, v := range h.saved {
			isSaved[v] = true
		}
		for _, v := range h.views {
			if isSaved[v.ver] {
				vs[v.ver] = true
			}
		}
		order := make([]int64, 0, len(vs))
		for v := range vs {
			order = append(order, v)
		}
		sort.Slice(order, func(i, j int) bool { return order[i] < order[j] })
		for _, v := range order {
			ns, ok := h.tree.DumpVersionHeapForVerif(v)
			if !ok {
				d.toks = append(d.toks, fmt.Sprintf("R,V%d,none", v))
				continue
			}
			d.root(fmt.Sprintf("V%d", v), ns)
		}
		if h.cacheSize <= 64 && h.step <= 400 {
			// the LRU queue of a small node cache (least recently used first), for the heap model's cache
			q := []string{}
			for _, n := range h.tree.NodeCacheForVerif() {
				q = append(q, fmt.Sprintf("%s:%d:%d", keyHex(n.Key), n.Height, n.Version))
			}
			qs := "-"
			if len(q) > 0 {
				qs = strings.Join(q, ";")
			}
			d.toks = append(d.toks, "Q,"+qs)
		}
		h.t.Line("heap", true, "heap %s => ok", strings.Join(d.toks, " "))
		return ""
	})
	if res != "" {
		h.t.Line("heap", true, "heap - => %s", res)
	}
}

// ---------------------------------------------------------------- operations

func (h *H) randKey() []byte { return h.keys[h.r.Intn(len(h.keys))] }

func (h *H) presentKey() []byte {
	ks := make([]string, 0, len(h.present))
	for pk := range h.present {
		ks = append(ks, pk)
	}
	sort.Strings(ks)
	return []byte(ks[h.r.Intn(len(ks))])
}

func (h *H) value() []byte { return h.r.Bytes(1 + h.r.Intn(2)) }

func (h *H) doSet(k, v []byte) {
	res := try(func() string { return fmt.Sprint(h.tree.Set(k, v)) })
	h.present[string(k)] = true
	h.block = append(h.block, write{k: k, v: v})
	h.t.Line("set", true, "set %s %s => %s", keyHex(k), hx(v), res)
	h.dumpHeap()
	h.midBlock()
}

func (h *H) doRemove(k []byte) {
	res := try(func() string {
		v, ok := h.tree.Remove(k)
		return fmt.Sprintf("%s %v", hx(v), ok)
	})
	delete(h.present, string(k))
	h.block = append(h.block, write{rm: true, k: k})
	h.t.Line("rm", true, "rm %s => %s", keyHex(k), res)
	h.dumpHeap()
	h.midBlock()
}

func (h *H) doSave() {
	before := h.tree.Version()
	existed := h.tree.VersionExists(before + 1)
	res := try(func() string {
		_, v, err := h.tree.SaveVersion()
		if err != nil {
			return "err"
		}
		if existed {
			h.nIdem++
			return fmt.Sprintf("idem %d", v)
		}
		return fmt.Sprintf("saved %d", v)
	})
	if strings.HasPrefix(res, "saved") {
		h.saved = append(h.saved, before+1)
		if h.blockOK {
			h.blocks[before+1] = h.block
		}
	}
	if !strings.HasPrefix(res, "err") {
		h.block, h.blockOK = nil, true
	}
	h.t.Line("save", true, "save => %s", res)
	h.dumpHeap()
}

func (h *H) doWHash() {
	res := try(func() string { h.tree.WorkingHash(); return "ok" })
	h.t.Line("whash", true, "whash => %s", res)
	h.dumpHeap()
}

// resyncPresent re-reads the key set of the working tree through a traced full iteration (a read
// like any other: it loads nodes through the cache, so it is part of the history the driver replays).
func (h *H) resyncPresent() {
	h.present = map[string]bool{}
	res := try(func() string {
		var ks, vs [][]byte
		h.tree.WorkingTree().IterateRange(nil, nil, true, func(k, v []byte) bool {
			h.present[string(k)] = true
			ks = append(ks, k)
			vs = append(vs, v)
			return false
		})
		return renderKVs(ks, vs)
	})
	h.t.Line("iter", true, "iter w ~ ~ 1 0 => %s", res)
}

func (h *H) doRollback() {
	res := try(func() string { h.tree.Rollback(); return "ok" })
	h.block, h.blockOK = nil, h.tree.Version() > 0
	h.t.Line("rollback", true, "rollback => %s", res)
	h.dumpHeap()
	h.resyncPresent()
	h.dumpHeap()
}

// doReload: LoadVersion(v) on the same tree object; when v is the version before the latest, the
// writes that produced v+1 are queued for replay (the idempotent re-commit path of SaveVersion).
func (h *H) doReload(v int64) {
	res := try(func() string {
		got, err := h.tree.LoadVersion(v)
		if err != nil {
			return "err"
		}
		return fmt.Sprintf("ok %d", got)
	})
	h.nReload++
	h.block, h.blockOK = nil, true
	h.replay = nil
	if strings.HasPrefix(res, "ok") {
		if ws, ok := h.blocks[h.tree.Version()+1]; ok && h.tree.VersionExists(h.tree.Version()+1) {
			h.replay = append([]write{}, ws...)
		}
	}
	h.t.Line("reload", true, "reload %d => %s", v, res)
	h.dumpHeap()
	h.resyncPresent()
	h.dumpHeap()
}

func (h *H) doOpen() {
	kind := "I"
	if h.r.Bool() {
		kind = "Z"
	}
	var v int64
	switch {
	case len(h.saved) == 0 || h.r.Chance(1, 12):
		v = h.tree.Version() + int64(h.r.Intn(3))
	case kind == "Z" && h.r.Chance(1, 10):
		v = 0
	default:
		v = h.saved[h.r.Intn(len(h.saved))]
	}
	h.openAt(kind, v)
}

// openAt opens a view of version v (kind I = GetImmutable, Z = LazyLoadVersion) and keeps the handle.
func (h *H) openAt(kind string, v int64) *view {
	var it *iavl.ImmutableTree
	var nv *view
	res := try(func() string {
		if kind == "I" {
			t, err := h.tree.GetImmutable(v)
			if err != nil {
				return "err"
			}
			it = t
		} else {
			m, err := h.tree.LazyLoadVersion(v)
			if err != nil {
				return "err"
			}
			if m == nil {
				return "nil"
			}
			it = m.WorkingTree()
		}
		return fmt.Sprintf("x%d", h.nextV)
	})
	if it != nil && strings.HasPrefix(res, "x") {
		nv = &view{id: h.nextV, it: it, ver: it.Version()}
		h.views = append(h.views, nv)
		h.nextV++
	}
	h.t.Line("open", it != nil, "open %s %d => %s", kind, v, res)
	h.dumpHeap()
	return nv
}

// midBlock: with probability mid% open a view of the LATEST committed version right after a write
// (the working tree is dirty), read it out completely and keep it. This is the situation of a
// historical query / PrevCtx of the last committed height issued in the middle of a block.
func (h *H) midBlock() {
	if h.mid == 0 || h.tree.Version() == 0 || !h.r.Chance(h.mid, 100) {
		return
	}
	for len(h.views) >= 8 {
		h.doDrop()
	}
	kind, v := "Z", h.tree.Version()
	switch h.r.Intn(6) {
	case 0:
		kind = "I"
	case 1:
		v = 0 // LazyLoadVersion(0) = latest
	}
	nv := h.openAt(kind, v)
	if nv == nil {
		return
	}
	h.nMid++
	res := try(func() string {
		var ks, vs [][]byte
		nv.it.IterateRange(nil, nil, true, func(k, v []byte) bool { ks = append(ks, k); vs = append(vs, v); return false })
		return renderKVs(ks, vs)
	})
	h.t.Line("iter", true, "iter x%d ~ ~ 1 0 => %s", nv.id, res)
	h.dumpHeap()
}

func (h *H) doDrop() {
	if len(h.views) == 0 {
		return
	}
	i := h.r.Intn(len(h.views))
	v := h.views[i]
	h.views = append(h.views[:i], h.views[i+1:]...)
	h.t.Line("drop", true, "drop x%d => ok", v.id)
	h.dumpHeap()
}

func renderKVs(ks, vs [][]byte) string {
	if len(ks) == 0 {
		return "-"
	}
	var sb strings.Builder
	for i := range ks {
		if i > 0 {
			sb.WriteByte(',')
		}
		sb.WriteString(keyHex(ks[i]))
		sb.WriteByte(':')
		sb.WriteString(hx(vs[i]))
	}
	return sb.String()
}

func (h *H) probe() []byte {
	k := h.randKey()
	if h.r.Chance(1, 8) {
		k = append(append([]byte{}, k...), 0x00)
	}
	return k
}

func (h *H) bound() []byte {
	if h.r.Chance(1, 3) {
		return nil
	}
	return h.probe()
}

func (h *H) doRead() {
	tok := "w"
	it := h.tree.WorkingTree()
	if len(h.views) > 0 && h.r.Chance(3, 4) {
		v := h.views[h.r.Intn(len(h.views))]
		tok, it = fmt.Sprintf("x%d", v.id), v.it
	}
	switch h.r.Intn(5) {
	case 0:
		k := h.probe()
		res := try(func() string {
			i, v := it.Get(k)
			return fmt.Sprintf("%d %s", i, hx(v))
		})
		h.t.Line("get", true, "get %s %s => %s", tok, keyHex(k), res)
	case 1:
		k := h.probe()
		res := try(func() string { return fmt.Sprint(it.Has(k)) })
		h.t.Line("has", true, "has %s %s => %s", tok, keyHex(k), res)
	case 2:
		i := int64(h.r.Intn(len(h.keys)+2)) - 1
		res := try(func() string {
			k, v := it.GetByIndex(i)
			if k == nil && v == nil {
				return "~ ~"
			}
			return fmt.Sprintf("%s %s", keyHex(k), hx(v))
		})
		h.t.Line("idx", true, "idx %s %d => %s", tok, i, res)
	default:
		s, e := h.bound(), h.bound()
		asc, incl := h.r.Bool(), h.r.Chance(1, 4)
		res := try(func() string {
			var ks, vs [][]byte
			if incl {
				it.IterateRangeInclusive(s, e, asc, func(k, v []byte, _ int64) bool { ks = append(ks, k); vs = append(vs, v); return false })
			} else {
				it.IterateRange(s, e, asc, func(k, v []byte) bool { ks = append(ks, k); vs = append(vs, v); return false })
			}
			return renderKVs(ks, vs)
		})
		h.t.Line("iter", true, "iter %s %s %s %d %d => %s", tok, hx(s), hx(e), b01(asc), b01(incl), res)
	}
	h.dumpHeap()
}

func main() {
	seed := flag.Uint64("seed", 1, "")
	n := flag.Int("n", 1000, "number of operations")
	out := flag.String("out", "c09b.trace", "")
	nkeys := flag.Int("keys", 16, "key space")
	cache := flag.Int("cache", 10000, "iavl node cache size (10000 = the store's default)")
	mid := flag.Int("mid", 0, "percent of writes followed by a view of the latest committed version that is read out at once (mid-block historical read)")
	flag.Parse()

	tree, err := iavl.NewMutableTree(dbm.NewMemDB(), *cache)
	if err != nil {
		panic(err)
	}
	h := &H{r: gen.New(*seed), r2: gen.New(*seed*31 + 7), t: gen.NewTrace(*out), tree: tree, present: map[string]bool{},
		blocks: map[int64][]write{}, objID: map[interface{}]int{}, hashID: map[string]int{},
		lastN: map[int]string{}, lastD: map[int]string{}, lastE: map[int]string{}, blockOK: true, cacheSize: *cache, mid: *mid}
	for i := 0; i < *nkeys; i++ {
		k := []byte{byte(i >> 2), byte(i<<6) | byte(i%3)}
		if i%5 == 3 {
			k = append(k, 0x00)
		}
		if i == 0 {
			k = []byte{}
		}
		h.keys = append(h.keys, k)
	}
	h.t.Line("config", false, "config cache %d => ok", *cache)
	phaseLen := *n / 4
	if phaseLen < 1 {
		phaseLen = 1
	}
	for i := 0; i < *n; i++ {
		if len(h.replay) > 0 {
			// re-apply the writes of the block that produced the next (already saved) version, then commit
			w := h.replay[0]
			h.replay = h.replay[1:]
			if w.rm {
				h.doRemove(w.k)
			} else {
				h.doSet(w.k, w.v)
			}
			if len(h.replay) == 0 && h.r.Chance(9, 10) {
				h.doSave()
			}
			continue
		}
		wSet, wRm := 30, 22
		if (i/phaseLen)%2 == 1 {
			wSet, wRm = 18, 34 // shrinking phases: removals below saved versions trigger the double rotations
		}
		if len(h.keys) <= 4 {
			// tiny key space: keep the tree at 1-3 keys most of the time (a leaf directly under the root)
			wSet, wRm = 36, 18
		}
		x := h.r.Intn(100)
		switch {
		case x < wSet:
			k := h.randKey()
			if len(h.present) > 0 && h.r.Chance(1, 5) {
				k = h.presentKey()
			}
			h.doSet(k, h.value())
		case x < wSet+wRm:
			k := h.randKey()
			if len(h.present) > 0 && h.r.Chance(3, 4) {
				k = h.presentKey()
			}
			h.doRemove(k)
		case x < 64:
			h.doSave()
		case x < 72:
			h.doOpen()
		case x < 75:
			if len(h.views) > 5 || h.r.Chance(1, 3) {
				h.doDrop()
			}
		case x < 78:
			h.doWHash()
		case x < 80:
			h.doRollback()
		case x < 83:
			if len(h.saved) >= 2 {
				latest := h.saved[len(h.saved)-1]
				v := latest - 1
				if h.r.Chance(1, 5) {
					v = 0
				} else if h.r.Chance(1, 6) {
					v = h.saved[h.r.Intn(len(h.saved))]
				}
				h.doReload(v)
			}
		default:
			h.doRead()
		}
		for len(h.views) > 8 {
			h.doDrop()
		}
	}
	h.t.Close(map[string]interface{}{"versions": len(h.saved), "idempotent_saves": h.nIdem, "reloads": h.nReload,
		"heap_nodes_walked": h.nHeapNodes, "mid_block_views": h.nMid, "objects": len(h.objID), "hashes": len(h.hashID), "cache": *cache})
}
