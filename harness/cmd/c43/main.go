// c43: export → init round trip on the real application.
//
// For every history the parent process re-executes itself twice (pocket-core keeps
// consensus-relevant state in package globals, and InitGenesis ends the process with
// os.Exit/log.Fatal on inconsistencies):
//
//	-role export : builds the default modern chain, runs a generated history (blocks of the shared
//	               generator + application/node lifecycle traffic + keeper-inserted pending claims),
//	               calls PocketCoreApp.ExportAppState at the last height, writes the JSON and the
//	               abstract dump A of the exporting node;
//	-role import : a NEW node on fresh databases with app.GenState = exported JSON, InitChain, and the
//	               abstract dump B.
//
// The parent merges both dumps into one trace line per component
//
//	rt <component> <history> A=… => B=…          (component ∈ accounts supply nodes apps params claims
//	                                              nodeidx appidx signing prevpower dao)
//	rt init <history> => ok | fatal:<exit code>
//
// judged by lean/Driver/C43.lean: PROPFAIL export-init-<component>-differs when the views differ
// (with the history as replay: -replay <seed>), DIFF when the Lean model of export/init predicts
// something else than the real B.
package main

import (
	"encoding/base64"
	"encoding/binary"
	"encoding/json"
	"flag"
	"fmt"
	"os"
	"os/exec"
	"path/filepath"
	"sort"
	"strings"
	"time"

	"github.com/pokt-network/pocket-core/app"
	sdk "github.com/pokt-network/pocket-core/types"
	apps "github.com/pokt-network/pocket-core/x/apps"
	appsTypes "github.com/pokt-network/pocket-core/x/apps/types"
	"github.com/pokt-network/pocket-core/x/auth"
	"github.com/pokt-network/pocket-core/x/gov"
	govTypes "github.com/pokt-network/pocket-core/x/gov/types"
	"github.com/pokt-network/pocket-core/x/nodes"
	pocket "github.com/pokt-network/pocket-core/x/pocketcore"
	authexp "github.com/pokt-network/pocket-core/x/auth/exported"
	nodesTypes "github.com/pokt-network/pocket-core/x/nodes/types"
	pcTypes "github.com/pokt-network/pocket-core/x/pocketcore/types"
	abci "github.com/tendermint/tendermint/abci/types"
	dbm "github.com/tendermint/tm-db"
	"verifharness/internal/appsh"
	"verifharness/internal/chain"
	"verifharness/internal/chainx"
	"verifharness/internal/gen"
)

const fee = chain.DefaultFee

func orDash(s string) string {
	if s == "" {
		return "-"
	}
	return s
}

func ns(t time.Time) int64 {
	if t.IsZero() {
		return 0
	}
	return t.UnixNano()
}

// ---------------------------------------------------------------- rendering of abstract values

func rAcct(a authexp.Account) string {
	m := "-"
	if ma, ok := a.(authexp.ModuleAccountI); ok {
		m = ma.GetName()
	}
	hp := 0
	if a.GetPubKey() != nil {
		hp = 1
	}
	other := 0
	for _, c := range a.GetCoins() {
		if c.Denom != sdk.DefaultStakeDenom {
			other = 1
		}
	}
	return fmt.Sprintf("%s:%s:%s:%d:%d", a.GetAddress(), a.GetCoins().AmountOf(sdk.DefaultStakeDenom), m, hp, other)
}

func esc(s string) string {
	return strings.NewReplacer(":", "%3A", ";", "%3B", " ", "%20", "|", "%7C", "=", "%3D", "+", "%2B").Replace(s)
}

func rNode(v nodesTypes.Validator) string {
	j := 0
	if v.Jailed {
		j = 1
	}
	var ds []string
	for _, k := range chain.SortedKeys(v.RewardDelegators) {
		ds = append(ds, fmt.Sprintf("%s=%d", k, v.RewardDelegators[k]))
	}
	out := "-"
	if v.OutputAddress != nil {
		out = v.OutputAddress.String()
	}
	return fmt.Sprintf("%s:%d:%d:%s:%d:%s:%s:%s:%s", v.Address, int(v.Status), j, v.StakedTokens, ns(v.UnstakingCompletionTime), orDash(out),
		orDash(strings.Join(v.Chains, "+")), orDash(strings.Join(ds, "+")), esc(v.ServiceURL))
}

func rApp(a appsTypes.Application) string {
	j := 0
	if a.Jailed {
		j = 1
	}
	mr := a.MaxRelays.String()
	if mr == "<nil>" {
		mr = "0"
	}
	return fmt.Sprintf("%s:%s:%d:%d:%s:%s:%d:%s", a.Address, a.PublicKey.RawString(), int(a.Status), j, a.StakedTokens, mr, ns(a.UnstakingCompletionTime), orDash(strings.Join(a.Chains, "+")))
}

func rClaim(c pcTypes.MsgClaim) string {
	return fmt.Sprintf("%s:%s:%s:%d:%x:%d:%d:%d:%d", c.FromAddress, c.SessionHeader.ApplicationPubKey, c.SessionHeader.Chain, c.SessionHeader.SessionBlockHeight,
		c.MerkleRoot.Hash, c.MerkleRoot.Range.Upper, c.TotalProofs, int(c.EvidenceType), c.ExpirationHeight)
}

func rSign(a sdk.Address, i nodesTypes.ValidatorSigningInfo) string {
	return fmt.Sprintf("%s:%d:%d:%d:%d:%d", a, i.StartHeight, i.Index, i.JailedUntil.UnixNano(), i.MissedBlocksCounter, i.JailedBlocksCounter)
}

// generic JSON values of the exported document
func jstr(v interface{}) string {
	if s, ok := v.(string); ok {
		return s
	}
	return ""
}
func jnum(v interface{}) string {
	switch x := v.(type) {
	case string:
		return x
	case float64:
		return fmt.Sprintf("%d", int64(x))
	case nil:
		return "0"
	}
	return fmt.Sprint(v)
}
func jbool(v interface{}) string {
	if b, ok := v.(bool); ok && b {
		return "1"
	}
	return "0"
}
func jstrs(v interface{}) []string {
	var out []string
	if xs, ok := v.([]interface{}); ok {
		for _, x := range xs {
			out = append(out, jstr(x))
		}
	}
	return out
}
func jtime(v interface{}) int64 {
	t, err := time.Parse(time.RFC3339Nano, jstr(v))
	if err != nil {
		return -1
	}
	return ns(t)
}

func joinSorted(xs []string) string {
	sort.Strings(xs)
	return orDash(strings.Join(xs, ";"))
}

// paramWords renders stored parameters as one word per subspace: params-<subspace> <Key>:<hex(raw JSON)>;…
func paramWords(kv map[string]string) []string {
	by := map[string][]string{}
	for _, k := range chain.SortedKeys(kv) {
		p := strings.SplitN(k, "/", 2)
		by[p[0]] = append(by[p[0]], fmt.Sprintf("%s:%x", p[1], kv[k]))
	}
	var out []string
	for _, m := range []string{"auth", "pos", "application", "pocketcore", "gov"} {
		out = append(out, "params-"+m+" "+joinSorted(by[m]))
	}
	return out
}

// dump renders the abstract state of a node, one "component value" line per component.
func dump(n *chain.Node, ctx sdk.Context) []string {
	cdc := n.App.VerifCodec()
	ak, nk, apk, pk, gk := n.App.VerifAccountKeeper(), n.App.VerifNodesKeeper(), n.App.VerifAppsKeeper(), n.App.VerifPocketKeeper(), n.App.VerifGovKeeper()
	var out []string
	var as []string
	for _, a := range ak.GetAllAccounts(ctx) {
		as = append(as, rAcct(a))
	}
	out = append(out, "accounts "+joinSorted(as))
	out = append(out, "supply "+ak.GetSupply(ctx).GetTotal().AmountOf(sdk.DefaultStakeDenom).String())
	// node and application records: read record by record from the raw store prefixes (the exporting
	// getters GetAllValidators / GetAllApplications are part of what is checked), key cross-checked
	var vs []string
	rit, _ := sdk.KVStorePrefixIterator(ctx.KVStore(n.App.Keys[nodesTypes.StoreKey]), nodesTypes.AllValidatorsKey)
	for ; rit.Valid(); rit.Next() {
		v, err := nk.UnmarshalValidator(ctx, rit.Value())
		if err != nil {
			vs = append(vs, fmt.Sprintf("BAD%x", rit.Key()))
			continue
		}
		r := rNode(v)
		if fmt.Sprintf("%x", rit.Key()[1:]) != v.Address.String() {
			r += "!KEY" + fmt.Sprintf("%x", rit.Key())
		}
		vs = append(vs, r)
	}
	rit.Close()
	out = append(out, "nodes "+joinSorted(vs))
	var aps []string
	rit, _ = sdk.KVStorePrefixIterator(ctx.KVStore(n.App.Keys[appsTypes.StoreKey]), appsTypes.AllApplicationsKey)
	for ; rit.Valid(); rit.Next() {
		a, err := appsTypes.UnmarshalApplication(cdc, ctx, rit.Value())
		if err != nil {
			aps = append(aps, fmt.Sprintf("BAD%x", rit.Key()))
			continue
		}
		r := rApp(a)
		if fmt.Sprintf("%x", rit.Key()[1:]) != a.Address.String() {
			r += "!KEY" + fmt.Sprintf("%x", rit.Key())
		}
		aps = append(aps, r)
	}
	rit.Close()
	_ = apk
	out = append(out, "apps "+joinSorted(aps))
	out = append(out, paramWords(gk.GetAllParamNameValue(ctx))...)
	var acl []string
	for _, p := range gk.GetACL(ctx) {
		acl = append(acl, p.Key)
	}
	out = append(out, "acl "+joinSorted(acl))
	// pending claims: read from the raw store (prefix ClaimKey), one fresh value per record — not through
	// Keeper.GetAllClaims, which is the function ExportGenesis uses and therefore part of what is checked —
	// and cross-checked with the store key (ClaimKey ‖ sender address ‖ header hash ‖ evidence type)
	var cs []string
	pcst := ctx.KVStore(n.App.Keys[pcTypes.StoreKey])
	cit, _ := sdk.KVStorePrefixIterator(pcst, pcTypes.ClaimKey)
	for ; cit.Valid(); cit.Next() {
		var c pcTypes.MsgClaim
		if err := cdc.UnmarshalBinaryBare(cit.Value(), &c, ctx.BlockHeight()); err != nil {
			cs = append(cs, fmt.Sprintf("BAD%x", cit.Key()))
			continue
		}
		r := rClaim(c)
		k := cit.Key()
		if len(k) < len(pcTypes.ClaimKey)+sdk.AddrLen || fmt.Sprintf("%x", k[len(pcTypes.ClaimKey):len(pcTypes.ClaimKey)+sdk.AddrLen]) != c.FromAddress.String() {
			r += "!KEY" + fmt.Sprintf("%x", k)
		}
		cs = append(cs, r)
	}
	cit.Close()
	_ = pk
	out = append(out, "claims "+joinSorted(cs))
	out = append(out, "dao "+gk.GetDAOTokens(ctx).String())
	// decoded index prefixes of the pos store
	pos := ctx.KVStore(n.App.Keys[nodesTypes.StoreKey])
	var ni []string
	iter := func(st sdk.KVStore, prefix []byte, f func(k, v []byte)) {
		it, _ := sdk.KVStorePrefixIterator(st, prefix)
		defer it.Close()
		for ; it.Valid(); it.Next() {
			f(it.Key(), it.Value())
		}
	}
	staked := func(tag string, dst *[]string) func(k, v []byte) {
		return func(k, v []byte) {
			if len(k) == 1+8+sdk.AddrLen {
				ad := make([]byte, sdk.AddrLen)
				for i, b := range k[9:] {
					ad[i] = ^b
				}
				*dst = append(*dst, fmt.Sprintf("staked/%d/%x/%x", binary.BigEndian.Uint64(k[1:9]), ad, v))
			} else {
				*dst = append(*dst, fmt.Sprintf("staked/BAD%x", k))
			}
		}
	}
	queue := func(dst *[]string) func(k, v []byte) {
		return func(k, v []byte) {
			tm, err := sdk.ParseTimeBytes(k[1:])
			var addrs sdk.Addresses
			err2 := cdc.UnmarshalBinaryLengthPrefixed(v, &addrs, ctx.BlockHeight())
			if err != nil || err2 != nil {
				*dst = append(*dst, fmt.Sprintf("unstaking/BAD%x", k))
				return
			}
			var xs []string
			for _, a := range addrs {
				xs = append(xs, a.String())
			}
			*dst = append(*dst, fmt.Sprintf("unstaking/%d/%s", ns(tm), strings.Join(xs, "+")))
		}
	}
	iter(pos, nodesTypes.StakedValidatorsKey, staked("staked", &ni))
	iter(pos, nodesTypes.StakedValidatorsByNetIDKey, func(k, v []byte) { ni = append(ni, fmt.Sprintf("chain/%x/%x", k[1:len(k)-sdk.AddrLen], k[len(k)-sdk.AddrLen:])) })
	iter(pos, nodesTypes.UnstakingValidatorsKey, queue(&ni))
	iter(pos, nodesTypes.WaitingToBeginUnstakingKey, func(k, v []byte) { ni = append(ni, fmt.Sprintf("waiting/%x", k[1:])) })
	out = append(out, "nodeidx "+joinSorted(ni))
	ap := ctx.KVStore(n.App.Keys[appsTypes.StoreKey])
	var ai []string
	iter(ap, appsTypes.StakedAppsKey, staked("staked", &ai))
	iter(ap, appsTypes.UnstakingAppsKey, queue(&ai))
	out = append(out, "appidx "+joinSorted(ai))
	var si []string
	nk.IterateAndExecuteOverValSigningInfo(ctx, func(a sdk.Address, i nodesTypes.ValidatorSigningInfo) bool {
		si = append(si, rSign(a, i))
		return false
	})
	out = append(out, "signing "+joinSorted(si))
	var pp []string
	nk.IterateAndExecuteOverPrevStateValsByPower(ctx, func(a sdk.Address, p int64) bool {
		pp = append(pp, fmt.Sprintf("%s:%d", a, p))
		return false
	})
	out = append(out, "prevpower "+joinSorted(pp))
	out = append(out, "prevtotal "+nk.PrevStateValidatorsPower(ctx).String())
	out = append(out, "proposer "+orDash(nk.GetPreviousProposer(ctx).String()))
	// typed values the model needs: pos StakeMinimum, application params
	ap2 := apk.GetParams(ctx)
	po := 0
	if ap2.ParticipationRateOn {
		po = 1
	}
	out = append(out, fmt.Sprintf("typed %d,%d,%d,%d,%d,%d,%d,%d", nk.GetParams(ctx).StakeMinimum, ap2.AppStakeMin, ap2.MaxChains, ap2.MaxApplications,
		ap2.BaseRelaysPerPOKT, ap2.StabilityAdjustment, int64(ap2.UnstakingTime), po))
	return out
}

// exportWords renders the exported genesis JSON in the same abstract forms ("x-" components).
func exportWords(gs app.GenesisState) []string {
	var out []string
	var ag auth.GenesisState
	auth.ModuleCdc.MustUnmarshalJSON(gs["auth"], &ag)
	var as []string
	for _, a := range ag.Accounts {
		as = append(as, rAcct(a))
	}
	out = append(out, "x-accounts "+joinSorted(as), "x-supply "+ag.Supply.AmountOf(sdk.DefaultStakeDenom).String())
	var ng nodesTypes.GenesisState
	nodesTypes.ModuleCdc.MustUnmarshalJSON(gs["pos"], &ng)
	var vs, pp, si []string
	// node, application and claim records are read from the JSON text itself (generic decoder), not
	// through the modules' own UnmarshalJSON — that decode path is what InitGenesis uses and is judged
	// by the cmp lines
	var rawPos struct {
		Validators []map[string]interface{} `json:"validators"`
	}
	must(json.Unmarshal(gs["pos"], &rawPos))
	for _, v := range rawPos.Validators {
		var ds []string
		if m, ok := v["reward_delegators"].(map[string]interface{}); ok {
			for _, k := range chain.SortedKeys(m) {
				ds = append(ds, fmt.Sprintf("%s=%s", k, jnum(m[k])))
			}
		}
		vs = append(vs, fmt.Sprintf("%s:%s:%s:%s:%d:%s:%s:%s:%s", jstr(v["address"]), jnum(v["status"]), jbool(v["jailed"]), jnum(v["tokens"]), jtime(v["unstaking_time"]),
			orDash(jstr(v["output_address"])), orDash(strings.Join(jstrs(v["chains"]), "+")), orDash(strings.Join(ds, "+")), esc(jstr(v["service_url"]))))
	}
	for _, p := range ng.PrevStateValidatorPowers {
		pp = append(pp, fmt.Sprintf("%s:%d", p.Address, p.Power))
	}
	for k, i := range ng.SigningInfos {
		a, _ := sdk.AddressFromHex(k)
		si = append(si, rSign(a, i))
	}
	ex := 0
	if ng.Exported {
		ex = 1
	}
	out = append(out, "x-nodes "+joinSorted(vs), "x-prevpower "+joinSorted(pp), "x-prevtotal "+ng.PrevStateTotalPower.String(),
		"x-signing "+joinSorted(si), "x-proposer "+orDash(ng.PreviousProposer.String()), fmt.Sprintf("x-missed %d", len(ng.MissedBlocks)), fmt.Sprintf("x-exported %d", ex))
	var apg appsTypes.GenesisState
	appsTypes.ModuleCdc.MustUnmarshalJSON(gs["application"], &apg)
	var aps []string
	var rawApp struct {
		Applications []map[string]interface{} `json:"applications"`
	}
	must(json.Unmarshal(gs["application"], &rawApp))
	for _, a := range rawApp.Applications {
		aps = append(aps, fmt.Sprintf("%s:%s:%s:%s:%s:%s:%d:%s", jstr(a["address"]), jstr(a["public_key"]), jnum(a["status"]), jbool(a["jailed"]), jnum(a["staked_tokens"]),
			jnum(a["max_relays"]), jtime(a["unstaking_time"]), orDash(strings.Join(jstrs(a["chains"]), "+"))))
	}
	_ = apg
	out = append(out, "x-apps "+joinSorted(aps))
	var cs []string
	var rawPc struct {
		Claims []map[string]interface{} `json:"claims"`
	}
	must(json.Unmarshal(gs["pocketcore"], &rawPc))
	for _, c := range rawPc.Claims {
		h, _ := c["header"].(map[string]interface{})
		mr, _ := c["merkle_root"].(map[string]interface{})
		rg, _ := mr["range"].(map[string]interface{})
		root, _ := base64.StdEncoding.DecodeString(jstr(mr["merkleHash"]))
		cs = append(cs, fmt.Sprintf("%s:%s:%s:%s:%x:%s:%s:%s:%s", jstr(c["from_address"]), jstr(h["app_public_key"]), jstr(h["chain"]), jnum(h["session_height"]),
			root, jnum(rg["upper"]), jnum(c["total_proofs"]), jnum(c["evidence_type"]), jnum(c["expiration_height"])))
	}
	out = append(out, "x-claims "+joinSorted(cs))
	var gg govTypes.GenesisState
	govTypes.ModuleCdc.MustUnmarshalJSON(gs["gov"], &gg)
	var acl []string
	for _, p := range gg.Params.ACL {
		acl = append(acl, p.Key)
	}
	out = append(out, "x-dao "+gg.DAOTokens.String(), "x-acl "+joinSorted(acl))
	return out
}

type hist struct {
	n   *chain.Node
	s   *appsh.Stepper
	w   *chain.World
	r   *gen.R
	ent int64
	log []string
}

func (h *hist) entropy() int64 { h.ent++; return 1000000 + h.ent }

// appTx draws an application-lifecycle transaction (stake / edit / transfer / unstake).
func (h *hist) appTx() ([]byte, string) {
	r, w := h.r, h.w
	keys := append(append(append([]chain.Key{}, w.Apps...), w.Accts...), w.Fresh...)
	k := keys[r.Intn(len(keys))]
	switch r.Intn(5) {
	case 0, 1: // stake or edit
		amt := []int64{1000000, 2000000, 10000000, 11000000, 12500000}[r.Intn(5)]
		cs := []string{chain.ChainHash}
		if r.Bool() {
			cs = append(cs, "0021")
		}
		return chain.SignTx(w.ChainID, k, chain.MsgAppStake(k, amt, cs), fee, h.entropy(), ""), fmt.Sprintf("appstake %s %d", k.Addr, amt)
	case 2: // transfer
		to := keys[r.Intn(len(keys))]
		return chain.SignTx(w.ChainID, k, &appsTypes.MsgStake{PubKey: to.Pub, Chains: nil, Value: sdk.NewInt(0)}, fee, h.entropy(), ""), fmt.Sprintf("apptransfer %s->%s", k.Addr, to.Addr)
	case 3:
		return chain.SignTx(w.ChainID, k, chain.MsgAppUnstake(k.Addr), fee, h.entropy(), ""), "appunstake " + k.Addr.String()
	default: // application parameter change
		key, val := "application/BaseRelaysPerPOKT", interface{}([]int64{100, 200, 50}[r.Intn(3)])
		switch r.Intn(4) {
		case 0:
			key, val = "application/StabilityAdjustment", []int64{0, 7}[r.Intn(2)]
		case 1:
			key, val = "application/AppUnstakingTime", time.Duration([]int64{int64(time.Minute), int64(time.Hour), int64(30 * time.Hour)}[r.Intn(3)])
		case 2:
			key, val = "application/ParticipationRateOn", r.Bool()
		}
		return chain.SignTx(w.ChainID, w.Owner, chain.MsgChangeParam(w.Owner.Addr, key, val), fee, h.entropy(), ""), "param " + key
	}
}

func votes(w *chain.World, r *gen.R) []abci.VoteInfo {
	var vs []abci.VoteInfo
	for _, v := range w.Vals {
		vs = append(vs, abci.VoteInfo{Validator: abci.Validator{Address: v.Addr, Power: 15000}, SignedLastBlock: r == nil || !r.Chance(1, 8)})
	}
	return vs
}

func runExport(hseed uint64, blocks int, dir string, flavour int) {
	chain.ModernGlobals()
	chainx.InitSessionCache(100)
	w, o := chain.DefaultWorld("verif", 3, 2, 3, 5)
	o.Mutate = func(g *chain.Genesis) {
		g.Apps.Params.UnstakingTime = time.Hour
		g.Nodes.Params.UnstakingTime = 2 * time.Hour
		g.Apps.Params.BaseRelaysPerPOKT = 10000000 // allowances large enough for the claimed proofs (over-service check)
		g.Nodes.Params.SignedBlocksWindow = 10 // downtime jailing within a history: jailed once > 4 of the last 10 blocks were missed
		g.Nodes.Params.MinSignedPerWindow = sdk.NewDecWithPrec(6, 1)
		// small slash fractions: a jailed validator stays above the minimum stake (otherwise it is force-unstaked
		// and removed in the same block and no history ever ends with a jailed node)
		g.Nodes.Params.SlashFractionDowntime = sdk.NewDecWithPrec(1, 6)
		g.Nodes.Params.SlashFractionDoubleSign = sdk.NewDecWithPrec(1, 5)
		g.Nodes.Params.SessionBlockFrequency = 4 // sessions of 4 blocks: claims of ended sessions are valid within a history
	}
	g := chain.BuildGenesis(o)
	n := chain.NewNode(g, "verif", o.GenesisTime, dbm.NewMemDB(), dbm.NewMemDB(), dbm.NewMemDB(), false)
	h := &hist{n: n, s: &appsh.Stepper{N: n}, w: w, r: gen.New(hseed)}
	n.InitChain()
	tm := o.GenesisTime.Add(time.Second)
	h.s.Begin(chain.Block{Time: tm, Proposer: w.Vals[0].Addr, Votes: votes(w, nil)})
	h.s.End()
	r := h.r
	for b := 0; b < blocks; b++ {
		var blk chain.Block
		var descs []string
		switch {
		case flavour == 0: // quiet history: empty blocks only (the base case of the round trip)
			tm = tm.Add(time.Minute)
			blk = chain.Block{Time: tm, Proposer: w.Vals[r.Intn(len(w.Vals))].Addr, Votes: votes(w, nil)}
		case flavour == 1 || (flavour != 4 && r.Chance(1, 2)): // the shared generator (flavour 3: without the unstake messages): sends, node + app traffic, gov, dao, evidence
			var ds []chain.TxDesc
			blk, ds = w.GenBlock(r, tm, n.Height+1, 4)
			tm = blk.Time
			blk.Txs = nil
			for _, d := range ds {
				if flavour == 3 && (strings.HasPrefix(d.Kind, "nodeunstake") || strings.HasPrefix(d.Kind, "appunstake")) {
					continue // histories without unstaking records reach the later init stages
				}
				blk.Txs = append(blk.Txs, d.Bytes)
				descs = append(descs, d.Kind)
			}
		default: // application lifecycle
			tm = tm.Add([]time.Duration{time.Second, 20 * time.Minute, 50 * time.Minute, 2 * time.Hour}[r.Intn(4)])
			blk = chain.Block{Time: tm, Proposer: w.Vals[r.Intn(len(w.Vals))].Addr, Votes: votes(w, r)}
			for i := r.Intn(4); i > 0; i-- {
				bz, d := h.appTx()
				if flavour == 3 && strings.HasPrefix(d, "appunstake") {
					continue
				}
				blk.Txs = append(blk.Txs, bz)
				descs = append(descs, d)
			}
		}
		if flavour >= 1 && n.Height+1 > 5 {
			// real MsgClaim transactions: every node may claim the session that ended last (or the one before)
			nodes := append(append([]chain.Key{}, w.Vals...), w.Servs...)
			hh := n.Height + 1
			lastStart := ((hh-1)/4)*4 + 1 - 4
			for _, nd := range nodes {
				if !r.Chance(1, 3) {
					continue
				}
				sh := lastStart
				if sh > 4 && r.Chance(1, 4) {
					sh -= 4
				}
				ap := w.Apps[r.Intn(len(w.Apps))]
				blk.Txs = append(blk.Txs, chain.SignTx(w.ChainID, nd, chainx.MsgClaim(nd, ap, sh, int64(5+r.Intn(20)), byte(r.Intn(250))), fee, h.entropy(), ""))
				descs = append(descs, fmt.Sprintf("claim %s@%d", nd.Addr, sh))
			}
		}
		if flavour >= 1 {
			// a lazy validator (misses 3 votes of 4) so that histories regularly end with a jailed node, and in
			// flavour 2 a double-sign evidence against another one
			lazy := w.Vals[2]
			for i := range blk.Votes {
				if sdk.Address(blk.Votes[i].Validator.Address).Equals(lazy.Addr) {
					blk.Votes[i].SignedLastBlock = r.Chance(1, 4)
				}
			}
			if flavour == 1 && b == 2 {
				// the lazy validator begins unstaking early: it is unstaking AND jailed at the export height
				blk.Txs = append(blk.Txs, chain.SignTx(w.ChainID, lazy, chain.MsgNodeUnstake(lazy.Addr, lazy.Addr), fee, h.entropy(), ""))
				descs = append(descs, "nodeunstake-lazy")
			}
			if flavour == 2 && b == blocks/2 && n.Height > 2 {
				blk.Evidence = append(blk.Evidence, abci.Evidence{Type: "duplicate/vote", Validator: abci.Validator{Address: w.Vals[1].Addr, Power: 15000}, Height: n.Height, Time: tm, TotalVotingPower: 45000})
				descs = append(descs, "evidence "+w.Vals[1].Addr.String())
			}
		}
		h.s.Begin(blk)
		var codes []string
		for _, t := range blk.Txs {
			codes = append(codes, appsh.Code(h.s.Deliver(t)))
		}
		if flavour >= 1 && b == blocks-1 {
			for i, k := range append(append([]chain.Key{}, w.Servs...), w.Vals[0]) {
				ap := w.Apps[i%len(w.Apps)]
				c := pcTypes.MsgClaim{SessionHeader: pcTypes.SessionHeader{ApplicationPubKey: ap.Pub.RawString(), Chain: chain.ChainHash, SessionBlockHeight: 1},
					MerkleRoot: pcTypes.HashRange{Hash: r.Bytes(32), Range: pcTypes.Range{Lower: 0, Upper: uint64(2000 + i)}}, TotalProofs: int64(7 + i),
					FromAddress: k.Addr, EvidenceType: pcTypes.RelayEvidence, ExpirationHeight: n.Height + 1 + 300}
				err := n.App.VerifPocketKeeper().SetClaim(h.s.DeliverCtx(), c)
				descs = append(descs, fmt.Sprintf("keeper-claim %s err=%v", k.Addr, err))
				if i%2 == 0 {
					// the same servicer also holds a CHALLENGE claim for the same session: the store key
					// ends in the evidence type, so these are two distinct pending claims (no PRNG draw)
					c2 := c
					c2.EvidenceType = pcTypes.ChallengeEvidence
					c2.TotalProofs = int64(3 + i)
					c2.MerkleRoot = pcTypes.HashRange{Hash: pcTypes.Hash(append([]byte("challenge"), k.Addr...)), Range: pcTypes.Range{Lower: 0, Upper: uint64(900 + i)}}
					err := n.App.VerifPocketKeeper().SetClaim(h.s.DeliverCtx(), c2)
					descs = append(descs, fmt.Sprintf("keeper-challenge-claim %s err=%v", k.Addr, err))
				}
			}
		}
		if flavour >= 2 && r.Chance(1, 6) {
			// a pending claim written through the keeper (claim transactions need served relays;
			// the round trip only needs the stored record)
			k := append(append([]chain.Key{}, w.Vals...), w.Servs...)[r.Intn(len(w.Vals)+len(w.Servs))]
			ap := w.Apps[r.Intn(len(w.Apps))]
			c := pcTypes.MsgClaim{SessionHeader: pcTypes.SessionHeader{ApplicationPubKey: ap.Pub.RawString(), Chain: chain.ChainHash, SessionBlockHeight: 1 + 4*int64(r.Intn(3))},
				MerkleRoot: pcTypes.HashRange{Hash: r.Bytes(32), Range: pcTypes.Range{Lower: 0, Upper: uint64(1000 + r.Intn(1000))}}, TotalProofs: int64(5 + r.Intn(100)),
				FromAddress: k.Addr, EvidenceType: pcTypes.RelayEvidence, ExpirationHeight: n.Height + 1 + int64(100+r.Intn(100))}
			err := n.App.VerifPocketKeeper().SetClaim(h.s.DeliverCtx(), c)
			descs = append(descs, fmt.Sprintf("keeper-claim %s err=%v", k.Addr, err))
		}
		h.s.End()
		h.log = append(h.log, fmt.Sprintf("h=%d t=%d txs=[%s] codes=[%s]", n.Height, tm.Unix(), strings.Join(descs, ", "), strings.Join(codes, ",")))
	}
	js, err := n.App.ExportAppState(n.Height, false, nil)
	if err != nil {
		panic(err)
	}
	must(os.WriteFile(filepath.Join(dir, "export.json"), js, 0o644))
	var gs app.GenesisState
	must(json.Unmarshal(js, &gs))
	must(os.WriteFile(filepath.Join(dir, "x.dump"), []byte(strings.Join(exportWords(gs), "\n")+"\n"), 0o644))
	must(os.WriteFile(filepath.Join(dir, "a.dump"), []byte(strings.Join(dump(n, n.Ctx()), "\n")+"\n"), 0o644))
	must(os.WriteFile(filepath.Join(dir, "history.txt"), []byte(strings.Join(h.log, "\n")+"\n"), 0o644))
}

func loadExport(dir string) (app.GenesisState, *chain.Node) {
	js, err := os.ReadFile(filepath.Join(dir, "export.json"))
	must(err)
	var gs app.GenesisState
	must(json.Unmarshal(js, &gs))
	chain.ModernGlobals()
	_, o := chain.DefaultWorld("verif", 3, 2, 3, 5)
	return gs, chain.NewNode(gs, "verif2", o.GenesisTime, dbm.NewMemDB(), dbm.NewMemDB(), dbm.NewMemDB(), false)
}

// runImport: a NEW node initialised from the exported JSON through the real InitChain.
func runImport(dir string) {
	_, n := loadExport(dir)
	n.InitChain()
	must(os.WriteFile(filepath.Join(dir, "b.dump"), []byte(strings.Join(dump(n, n.Ctx()), "\n")+"\n"), 0o644))
}

var moduleOrder = []string{"auth", "pos", "application", "pocketcore", "gov"}

// runImport2 (only used when the real InitChain does not survive): what InitChain does, cut into
// its steps — every module's ValidateGenesis under recover (results recorded), then every
// module's InitGenesis in the application's order on the context InitChain would use — so that
// the per-module export/init code is still compared when the validation step crashes.
func runImport2(dir string) {
	gs, n := loadExport(dir)
	var val []string
	validate := func(name string, f func(json.RawMessage) error) {
		res := "ok"
		func() {
			defer func() {
				if r := recover(); r != nil {
					res = "panic:" + strings.ReplaceAll(fmt.Sprint(r), " ", "_")
				}
			}()
			if err := f(gs[name]); err != nil {
				res = "err:" + strings.ReplaceAll(err.Error(), " ", "_")
			}
		}()
		res = strings.Join(strings.Fields(res), "_")
		if len(res) > 120 {
			res = res[:120]
		}
		val = append(val, name+"="+res)
	}
	validate("auth", auth.AppModuleBasic{}.ValidateGenesis)
	validate("pos", nodes.AppModuleBasic{}.ValidateGenesis)
	validate("application", apps.AppModuleBasic{}.ValidateGenesis)
	validate("pocketcore", pocket.AppModuleBasic{}.ValidateGenesis)
	validate("gov", gov.AppModuleBasic{}.ValidateGenesis)
	must(os.WriteFile(filepath.Join(dir, "validate.txt"), []byte(strings.Join(val, " ")+"\n"), 0o644))
	ctx := sdk.NewContext(n.App.Store(), abci.Header{ChainID: n.ChainID, Time: n.GenTime}, false, n.App.Logger()).
		WithBlockStore(n.BlockStore).WithAppVersion(app.AppVersion).WithBlockGasMeter(sdk.NewInfiniteGasMeter())
	progress := func(m string) {
		// the state reached so far is dumped before the next module runs (a module may end the process)
		if m != "auth" {
			must(os.WriteFile(filepath.Join(dir, "b.dump"), []byte(strings.Join(dump(n, ctx), "\n")+"\n"), 0o644))
		}
		must(os.WriteFile(filepath.Join(dir, "progress.txt"), []byte(m+"\n"), 0o644))
	}
	ak, nk, apk, pk, gk := n.App.VerifAccountKeeper(), n.App.VerifNodesKeeper(), n.App.VerifAppsKeeper(), n.App.VerifPocketKeeper(), n.App.VerifGovKeeper()
	progress("auth")
	var ag auth.GenesisState
	auth.ModuleCdc.MustUnmarshalJSON(gs["auth"], &ag)
	auth.InitGenesis(ctx, ak, ag)
	progress("pos")
	var ng nodesTypes.GenesisState
	nodesTypes.ModuleCdc.MustUnmarshalJSON(gs["pos"], &ng)
	nodes.InitGenesis(ctx, nk, nk.AccountKeeper, ng)
	progress("application")
	var apg appsTypes.GenesisState
	appsTypes.ModuleCdc.MustUnmarshalJSON(gs["application"], &apg)
	apps.InitGenesis(ctx, apk, apk.AccountKeeper, apk.POSKeeper, apg)
	progress("pocketcore")
	var pg pcTypes.GenesisState
	pcTypes.ModuleCdc.MustUnmarshalJSON(gs["pocketcore"], &pg)
	pocket.InitGenesis(ctx, pk, pg)
	progress("gov")
	var gg govTypes.GenesisState
	govTypes.ModuleCdc.MustUnmarshalJSON(gs["gov"], &gg)
	gk.InitGenesis(ctx, gg)
	progress("done")
}

func must(err error) {
	if err != nil {
		panic(err)
	}
}

func readDump(p string) map[string]string {
	m := map[string]string{}
	b, err := os.ReadFile(p)
	if err != nil {
		return m
	}
	for _, l := range strings.Split(string(b), "\n") {
		if i := strings.Index(l, " "); i > 0 {
			m[l[:i]] = l[i+1:]
		}
	}
	return m
}

var components = []string{"accounts", "supply", "nodes", "nodeidx", "signing", "prevpower", "prevtotal", "proposer", "apps", "appidx", "claims",
	"params-auth", "params-pos", "params-application", "params-pocketcore", "params-gov", "acl", "dao", "typed"}

var xcomponents = []string{"x-accounts", "x-supply", "x-nodes", "x-prevpower", "x-prevtotal", "x-signing", "x-proposer", "x-missed", "x-exported",
	"x-apps", "x-claims", "x-dao", "x-acl"}

func words(m map[string]string, keys []string) string {
	var ws []string
	for _, k := range keys {
		ws = append(ws, k+"="+orDash(m[k]))
	}
	return strings.Join(ws, " ")
}

func main() {
	seed := flag.Uint64("seed", 1, "")
	n := flag.Int("n", 8, "number of histories")
	out := flag.String("out", "c43.trace", "")
	role := flag.String("role", "", "internal: export | import | import2")
	hseed := flag.Uint64("hseed", 0, "internal: history seed")
	blocks := flag.Int("blocks", 25, "maximal number of blocks per history")
	dir := flag.String("dir", "", "internal: history directory")
	flavour := flag.Int("flavour", -1, "internal: 0 quiet, 1 shared generator, 2 mixed + claims, 3 mixed without unstaking, 4 application lifecycle only")
	keep := flag.Bool("keep", false, "keep the per-history directories")
	flag.Parse()
	switch *role {
	case "export":
		runExport(*hseed, *blocks, *dir, *flavour)
		return
	case "import":
		runImport(*dir)
		return
	case "import2":
		runImport2(*dir)
		return
	}
	t := gen.NewTrace(*out)
	r := gen.New(*seed)
	base, _ := filepath.Abs(*out + ".d")
	for i := 0; i < *n; i++ {
		hs := r.U64() % 1000000
		fl := []int{0, 3, 4, 2, 3, 1, 3, 4}[i%8]
		bl := 3 + r.Intn(*blocks)
		if fl >= 1 {
			bl = 13 + r.Intn(*blocks-8) // longer than the signing window (10): downtime jailing can happen
		}
		d := filepath.Join(base, fmt.Sprintf("h%d", hs))
		os.RemoveAll(d)
		must(os.MkdirAll(d, 0o755))
		id := fmt.Sprintf("hseed=%d,blocks=%d,flavour=%d", hs, bl, fl)
		args := []string{"-hseed", fmt.Sprint(hs), "-blocks", fmt.Sprint(bl), "-dir", d, "-flavour", fmt.Sprint(fl)}
		ex := exec.Command(os.Args[0], append([]string{"-role", "export"}, args...)...)
		if outp, err := ex.CombinedOutput(); err != nil {
			panic(fmt.Sprintf("export process failed (%s): %v\n%s", id, err, tail(string(outp))))
		}
		a, x := readDump(filepath.Join(d, "a.dump")), readDump(filepath.Join(d, "x.dump"))
		// the exporting node's state (the driver keeps it for the lines of this history)
		t.Line("hist", true, "hist %s => %s", id, words(a, components))
		t.Line("export", true, "export %s => %s", id, words(x, xcomponents))
		// stage 1: the real InitChain on the exported JSON
		im := exec.Command(os.Args[0], "-role", "import", "-dir", d)
		outp, err := im.CombinedOutput()
		res := "ok"
		if err != nil {
			res = "fatal:" + crashClass(string(outp), err)
		}
		t.Line("init/"+strings.SplitN(res, ":", 2)[0], res == "ok", "init %s => %s", id, res)
		stage := "done"
		if res != "ok" {
			// stage 2: per-module ValidateGenesis + InitGenesis without the InitChain wrapper
			os.Remove(filepath.Join(d, "b.dump"))
			im2 := exec.Command(os.Args[0], "-role", "import2", "-dir", d)
			outp2, err2 := im2.CombinedOutput()
			vb, _ := os.ReadFile(filepath.Join(d, "validate.txt"))
			for _, kv := range strings.Fields(string(vb)) {
				p := strings.SplitN(kv, "=", 2)
				if len(p) != 2 {
					continue
				}
				t.Line("validate/"+p[0]+"/"+strings.SplitN(p[1], ":", 2)[0], p[1] == "ok", "validate %s %s => %s", p[0], id, p[1])
			}
			pb, _ := os.ReadFile(filepath.Join(d, "progress.txt"))
			stage = orDash(strings.TrimSpace(string(pb)))
			r2 := "ok"
			if err2 != nil || stage != "done" {
				r2 = "died:" + stage + ":" + crashClass(string(outp2), err2)
			}
			t.Line("initmod/"+strings.SplitN(r2, ":", 3)[0]+"/"+stage, r2 == "ok", "initmod %s => %s", id, r2)
		}
		// the state reached: stage = the module that did not complete ("done" when all did)
		b := readDump(filepath.Join(d, "b.dump"))
		if len(b) > 0 {
			for _, c := range components {
				if c == "typed" {
					continue
				}
				t.Line("cmp/"+c, a[c] != "-" && a[c] != "", "cmp %s %s stage=%s => %s", c, id, stage, orDash(b[c]))
			}
		}
		if !*keep {
			os.RemoveAll(d)
		}
	}
	if !*keep {
		os.RemoveAll(base)
	}
	t.Close(nil)
}

func tail(s string) string {
	if len(s) > 3000 {
		return s[len(s)-3000:]
	}
	return s
}

// crashClass names how a child process died: the first pocket-core frame of a panic, or the last
// output line of an os.Exit / log.Fatal.
func crashClass(out string, err error) string {
	code := -1
	if ee, ok := err.(*exec.ExitError); ok {
		code = ee.ExitCode()
	}
	if i := strings.Index(out, "panic:"); i >= 0 {
		msg := strings.SplitN(out[i:], "\n", 2)[0]
		fn := "-"
		for _, l := range strings.Split(out[i:], "\n") {
			if strings.HasPrefix(l, "github.com/pokt-network/pocket-core/") {
				fn = strings.TrimPrefix(strings.SplitN(l, "(", 2)[0], "github.com/pokt-network/pocket-core/")
				break
			}
		}
		if len(msg) > 100 {
			msg = msg[:100]
		}
		return fmt.Sprintf("panic@%s:%s", fn, strings.ReplaceAll(msg, " ", "_"))
	}
	return fmt.Sprintf("exit%d:%s", code, lastLine(out))
}

func lastLine(s string) string {
	ls := strings.Split(strings.TrimSpace(s), "\n")
	for i := len(ls) - 1; i >= 0; i-- {
		l := strings.TrimSpace(ls[i])
		if l != "" && !strings.HasPrefix(l, "goroutine") && !strings.HasPrefix(l, "exit status") {
			if len(l) > 160 {
				l = l[:160]
			}
			return strings.ReplaceAll(l, " ", "_")
		}
	}
	return "-"
}
