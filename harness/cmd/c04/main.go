// c04: histories of writes/deletes/commits on a real rootmulti.Store (IAVL substores) whose DB is
// wrapped by faultdb so that every atomic write of every Commit is recorded; the store object is
// replaced by a NEW object on the same DB at random points and at the end every version is reopened
// (LoadVersion, lazy load) and compared with the live store, a plain-map oracle and a never-reopened
// replica.  Trace consumed by lean/Driver/C04.lean.
package main

import (
	"flag"
	"fmt"
	"os"
	"path/filepath"
	"sort"
	"strings"

	"github.com/pokt-network/pocket-core/store/rootmulti"
	dbm "github.com/tendermint/tm-db"

	"verifharness/internal/faultdb"
	"verifharness/internal/gen"
	"verifharness/internal/msdrive"
)

type write struct {
	store string
	del   bool
	k, v  []byte
}

var pnames = []string{"acc", "pos", "a", "ab", "main"}

func pick(r *gen.R, n int) []string {
	idx := map[int]bool{}
	for len(idx) < n {
		idx[r.Intn(len(pnames))] = true
	}
	var out []string
	for i, s := range pnames {
		if idx[i] {
			out = append(out, s)
		}
	}
	return out
}

type oracle map[string]map[string][]byte

func (o oracle) clone() oracle {
	c := oracle{}
	for s, m := range o {
		c[s] = map[string][]byte{}
		for k, v := range m {
			c[s][k] = v
		}
	}
	return c
}

func (o oracle) dump(store string) string {
	m := o[store]
	keys := make([]string, 0, len(m))
	for k := range m {
		keys = append(keys, k)
	}
	sort.Strings(keys)
	if len(keys) == 0 {
		return "-"
	}
	parts := make([]string, len(keys))
	for i, k := range keys {
		parts[i] = gen.Hex([]byte(k)) + ":" + gen.Hex(m[k])
	}
	return strings.Join(parts, ",")
}

// applyRoute: 0 direct, 1 through CacheMultiStore()+Write(), 2 through a nested cache wrap.
func applyRoute(ms *msdrive.MS, b []write, route int) {
	ws := make([]msdrive.Write, len(b))
	for i, w := range b {
		ws[i] = msdrive.Write{Store: w.store, Del: w.del, K: w.k, V: w.v}
	}
	ms.ApplyWritesRoute(ws, route)
}

func renderEvents(evs []faultdb.Event) string {
	if len(evs) == 0 {
		return "-"
	}
	parts := make([]string, len(evs))
	for i, e := range evs {
		parts[i] = e.Render()
	}
	return strings.Join(parts, " ")
}

func storeStates(t *gen.Trace, tag string, ver string, ms *msdrive.MS, o oracle) {
	for _, n := range ms.Spec.Persistent {
		cs := ms.Store.GetCommitStore(ms.Keys[n])
		id := cs.LastCommitID()
		if o != nil {
			t.Line(tag, true, "%s %s %s => %s %s %s", tag, ver, n, msdrive.CID(id), msdrive.DumpKV(ms.KV(n)), o.dump(n))
		} else {
			t.Line(tag, true, "%s %s %s => %s %s", tag, ver, n, msdrive.CID(id), msdrive.DumpKV(ms.KV(n)))
		}
	}
}

func errStr(e interface{}) string {
	s := strings.ReplaceAll(fmt.Sprint(e), " ", "_")
	if len(s) > 80 {
		s = s[:80]
	}
	return s
}

func main() {
	seed := flag.Uint64("seed", 1, "")
	n := flag.Int("n", 12, "number of histories")
	out := flag.String("out", "c04.trace", "")
	backend := flag.String("backend", "memdb", "memdb|goleveldb")
	dir := flag.String("dir", "", "scratch dir for goleveldb")
	flag.Parse()
	r := gen.New(*seed)
	t := gen.NewTrace(*out)
	commits, reopens := 0, 0
	if *backend == "goleveldb" {
		if *dir == "" {
			panic("need -dir")
		}
		os.RemoveAll(*dir)
		os.MkdirAll(*dir, 0o755)
		defer os.RemoveAll(*dir)
	}
	for h := 0; h < *n; h++ {
		ps := pick(r, 1+r.Intn(3))
		space := 4 + r.Intn(10)
		if r.Chance(1, 4) {
			space = 40 + r.Intn(60)
		}
		nb := 2 + r.Intn(7)
		blocks := make([][]write, nb)
		for i := range blocks {
			k := r.Intn(8)
			if space > 20 {
				k = 5 + r.Intn(25)
			}
			if r.Chance(1, 10) {
				k = 0
			}
			for j := 0; j < k; j++ {
				w := write{store: r.Pick(ps), k: msdrive.Key(r, space), v: msdrive.Val(r)}
				w.del = r.Chance(1, 3)
				blocks[i] = append(blocks[i], w)
			}
		}
		// crash-and-recommit episode: after the commit of block ep (version ep+1) the store is reopened at version ep
		// (what the multistore does after a crash between the substore commits and the commit-info write of ep+1), block
		// ep is re-applied identically (SaveVersion's idempotent branch) and the history goes on; the next block sets
		// again every key block ep set, so its paths cross the nodes re-created by the re-execution
		ep := -1
		if nb >= 3 {
			ep = nb - 2
			if nb >= 4 && r.Bool() {
				ep = nb - 3
			}
			if len(blocks[ep]) == 0 {
				blocks[ep] = append(blocks[ep], write{store: ps[0], k: msdrive.Key(r, space), v: []byte{0x11}})
			}
			for _, w := range blocks[ep] {
				if !w.del {
					blocks[ep+1] = append(blocks[ep+1], write{store: w.store, k: w.k, v: []byte{0x5a, byte(ep)}})
				}
			}
		}
		spec := msdrive.Spec{Persistent: ps}
		// a software upgrade: after the commit of block mountAt the store object is replaced by a new one that mounts
		// an additional (so far non-existent) IAVL substore, whose own versions then lag behind the multistore's
		mountAt := -1
		if r.Chance(1, 2) {
			mountAt = r.Intn(nb - 1)
		}
		if mountAt >= 0 && mountAt == ep-1 {
			// the re-executed block would be the first one the new substore ever commits: it is absent from the commit
			// info of the reopened version, so it is loaded with the zero id = its latest version (LoadVersion(0)), i.e. with
			// the block's data already in it — the store-added-by-upgrade analogue of the first-commit crash (unreachable in
			// pocket-core, which mounts a fixed key set); keep the two episodes apart
			mountAt = -1
		}
		const upg = "upg"
		t.Line("hist", false, "hist %d %s", h, strings.Join(ps, ","))
		func() {
			defer func() {
				if e := recover(); e != nil {
					t.Line("panic", false, "panic main => %s", errStr(e))
				}
			}()
			var inner dbm.DB
			name := fmt.Sprintf("h%d", h)
			openInner := func() dbm.DB {
				if *backend == "goleveldb" {
					d, err := dbm.NewGoLevelDB(name, *dir)
					if err != nil {
						panic(err)
					}
					return d
				}
				return dbm.NewMemDB()
			}
			inner = openInner()
			db := faultdb.Wrap(inner)
			cache := int64(1 + r.Intn(30))
			ms, err := msdrive.Open(db, spec, cache)
			if err != nil {
				panic(err)
			}
			t.Line("open", false, "open => %s", msdrive.CID(ms.Store.LastCommitID()))
			o := oracle{}
			for _, p := range ps {
				o[p] = map[string][]byte{}
			}
			var snaps []oracle
			for bi, b := range blocks {
				if mountAt >= 0 && bi > mountAt { // the upgraded software also writes to its new store
					for j := r.Intn(4); j > 0; j-- {
						w := write{store: upg, k: msdrive.Key(r, space), v: msdrive.Val(r)}
						w.del = r.Chance(1, 4)
						b = append(b, w)
					}
				}
				applyRoute(ms, b, (bi+len(b))%3)
				for _, w := range b {
					if w.del {
						delete(o[w.store], string(w.k))
					} else {
						o[w.store][string(w.k)] = w.v
					}
				}
				db.Start()
				id := ms.Store.Commit()
				evs := db.Stop()
				commits++
				snaps = append(snaps, o.clone())
				t.Line("commit", true, "commit %d => %s %s", bi, msdrive.CID(id), renderEvents(evs))
				storeStates(t, "state", fmt.Sprint(id.Version), ms, o)
				if bi == ep {
					if *backend == "goleveldb" {
						inner.Close()
						inner = openInner()
						db = faultdb.Wrap(inner)
					}
					msr, err := msdrive.OpenAt(db, spec, int64(1+r.Intn(30)), int64(bi))
					reopens++
					if err != nil {
						t.Line("reopenat", true, "reopenat %d => ERR %s", bi, errStr(err))
						panic("reopen at latest-1 failed")
					}
					t.Line("reopenat", true, "reopenat %d => %s", bi, msdrive.CID(msr.Store.LastCommitID()))
					storeStates(t, "rstate", fmt.Sprint(bi), msr, nil)
					applyRoute(msr, b, (bi+len(b))%3)
					db.Start()
					id2 := msr.Store.Commit()
					evs2 := db.Stop()
					t.Line("commit", true, "commit %d => %s %s", bi, msdrive.CID(id2), renderEvents(evs2))
					storeStates(t, "state", fmt.Sprint(id2.Version), msr, o)
					ms = msr
				}
				if bi == mountAt {
					spec = msdrive.Spec{Persistent: append(append([]string{}, ps...), upg)}
					o[upg] = map[string][]byte{}
					t.Line("mount", true, "mount %s => ok", upg)
				}
				if bi == mountAt || r.Chance(1, 3) {
					// a NEW store object on the same DB (goleveldb: directory closed and reopened)
					if *backend == "goleveldb" {
						inner.Close()
						inner = openInner()
						db = faultdb.Wrap(inner)
					}
					ms2, err := msdrive.Open(db, spec, int64(1+r.Intn(30)))
					reopens++
					if err != nil {
						t.Line("reopen", true, "reopen latest => ERR %s", errStr(err))
						panic("reopen failed")
					}
					t.Line("reopen", true, "reopen latest => %s", msdrive.CID(ms2.Store.LastCommitID()))
					storeStates(t, "rstate", "latest", ms2, nil)
					ms = ms2
				}
			}
			// every version (and one beyond) on new objects
			for v := int64(1); v <= int64(nb)+1; v++ {
				func() {
					defer func() {
						if e := recover(); e != nil {
							t.Line("reopen", true, "reopen %d => PANIC %s", v, errStr(e))
						}
					}()
					ms2, err := msdrive.OpenAt(db, spec, int64(1+r.Intn(30)), v)
					reopens++
					if err != nil {
						t.Line("reopen", true, "reopen %d => ERR %s", v, errStr(err))
						return
					}
					t.Line("reopen", true, "reopen %d => %s", v, msdrive.CID(ms2.Store.LastCommitID()))
					storeStates(t, "rstate", fmt.Sprint(v), ms2, nil)
				}()
				func() {
					lazy := "lazy"
					if mountAt >= 0 {
						lazy = "lazym" // LoadLazyVersion with a later-mounted substore: compared with the model only
					}
					defer func() {
						if e := recover(); e != nil {
							t.Line("lazy", true, "%s %d => PANIC %s", lazy, v, errStr(e))
						}
					}()
					lz, err := ms.Store.LoadLazyVersion(v)
					if err != nil {
						t.Line("lazy", true, "%s %d => ERR %s", lazy, v, errStr(err))
						return
					}
					rs := (*lz).(*rootmulti.Store)
					var parts []string
					for _, p := range spec.Persistent {
						parts = append(parts, p+"="+msdrive.DumpKV(rs.GetKVStore(ms.Keys[p])))
					}
					t.Line("lazy", true, "%s %d => %s", lazy, v, strings.Join(parts, " "))
				}()
			}
			// a rollback over at least two versions on the same DB, then a cold reopen of every retained version and a
			// replay of the rolled-back blocks (compared with the run above, which never rolled back)
			if mountAt < 0 && nb >= 3 {
				target := int64(1 + r.Intn(nb-2))
				t.Line("base", false, "base => ok")
				t.Line("target", false, "target %d => ok", target)
				fresh := msdrive.New(db, spec, int64(1+r.Intn(30)))
				db.Start()
				var rerr error
				func() {
					defer func() {
						if e := recover(); e != nil {
							rerr = fmt.Errorf("PANIC %v", e)
						}
					}()
					rerr = fresh.Store.RollbackVersion(target)
				}()
				evs := db.Stop()
				if rerr != nil {
					t.Line("rollback", true, "rollback %d => ERR %s %s", target, errStr(rerr), renderEvents(evs))
				} else {
					t.Line("rollback", true, "rollback %d => OK %s", target, renderEvents(evs))
				}
				if *backend == "goleveldb" {
					inner.Close()
					inner = openInner()
					db = faultdb.Wrap(inner)
				}
				ms3, err := msdrive.Open(db, spec, int64(1+r.Intn(30)))
				if err != nil {
					t.Line("reopen", true, "reopen latest => ERR %s", errStr(err))
				} else {
					t.Line("reopen", true, "reopen latest => %s", msdrive.CID(ms3.Store.LastCommitID()))
					storeStates(t, "rstate", "latest", ms3, nil)
					for v := int64(1); v <= int64(nb); v++ {
						func() {
							defer func() {
								if e := recover(); e != nil {
									t.Line("reopen", true, "reopen %d => PANIC %s", v, errStr(e))
								}
							}()
							m4, err := msdrive.OpenAt(db, spec, int64(1+r.Intn(30)), v)
							if err != nil {
								t.Line("reopen", true, "reopen %d => ERR %s", v, errStr(err))
								return
							}
							t.Line("reopen", true, "reopen %d => %s", v, msdrive.CID(m4.Store.LastCommitID()))
							storeStates(t, "rstate", fmt.Sprint(v), m4, nil)
						}()
					}
					o2 := snaps[target-1].clone()
					for bi := int(target); bi < nb; bi++ {
						b := blocks[bi]
						applyRoute(ms3, b, (bi+len(b))%3)
						for _, w := range b {
							if w.del {
								delete(o2[w.store], string(w.k))
							} else {
								o2[w.store][string(w.k)] = w.v
							}
						}
						db.Start()
						id := ms3.Store.Commit()
						evs := db.Stop()
						t.Line("commit", true, "commit %d => %s %s", bi, msdrive.CID(id), renderEvents(evs))
						storeStates(t, "state", fmt.Sprint(id.Version), ms3, o2)
					}
				}
			}
			inner.Close()
		}()
		// never-persisted replica: same history, separate MemDB, never reopened (impossible when a substore is mounted midway)
		if mountAt < 0 {
			func() {
				defer func() {
					if e := recover(); e != nil {
						t.Line("panic", false, "panic replica => %s", errStr(e))
					}
				}()
				ms, err := msdrive.Open(dbm.NewMemDB(), spec, int64(200+r.Intn(1000)))
				if err != nil {
					panic(err)
				}
				for bi, b := range blocks {
					applyRoute(ms, b, (bi+len(b))%3)
					id := ms.Store.Commit()
					t.Line("replica", true, "replica %d => %s", bi, msdrive.CID(id))
				}
			}()
		}
	}
	if *dir != "" {
		_ = filepath.Walk // keep import
	}
	t.Close(map[string]interface{}{"histories": *n, "commits": commits, "reopens": reopens, "backend": *backend})
}
