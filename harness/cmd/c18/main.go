// c18: correspondence harness for C18 (transfers move exactly the requested amount or nothing).
// Signed MsgSend transactions go through the real DeliverTx of the real app; the bank state (all
// accounts + supply) is dumped before and after every DeliverTx.
//
//	init <modules> => S=… A=…
//	send <from> <to> <amount> <fee> => <code> <pre S=… A=…> <post S=… A=…>
package main

import (
	"flag"
	"fmt"
	"math"
	"strings"
	"time"

	sdk "github.com/pokt-network/pocket-core/types"
	appsTypes "github.com/pokt-network/pocket-core/x/apps/types"
	authTypes "github.com/pokt-network/pocket-core/x/auth/types"
	govTypes "github.com/pokt-network/pocket-core/x/gov/types"
	nodesTypes "github.com/pokt-network/pocket-core/x/nodes/types"
	dbm "github.com/tendermint/tm-db"
	"verifharness/internal/bankdrv"
	"verifharness/internal/chain"
	"verifharness/internal/gen"
)

var modNames = []string{authTypes.FeeCollectorName, nodesTypes.StakedPoolName, appsTypes.StakedPoolName, govTypes.DAOAccountName, nodesTypes.ModuleName, appsTypes.ModuleName}

func main() {
	seed := flag.Uint64("seed", 1, "")
	nn := flag.Int("n", 500, "")
	out := flag.String("out", "c18.trace", "")
	flag.Parse()
	t := gen.NewTrace(*out)
	r := gen.New(*seed)
	chain.ModernGlobals()
	w, o := chain.DefaultWorld("verif", 3, 1, 1, 5)
	g := chain.BuildGenesis(o)
	n := chain.NewNode(g, "verif", o.GenesisTime, dbm.NewMemDB(), dbm.NewMemDB(), dbm.NewMemDB(), false)
	n.InitChain()
	s := bankdrv.NewStepper(n)
	ak := n.App.VerifAccountKeeper()
	mods := ""
	for i, m := range modNames {
		a, _ := ak.GetModuleAddressAndPermissions(m)
		if i > 0 {
			mods += ";"
		}
		mods += fmt.Sprintf("%s:%s:true:true", m, a.String())
	}
	t.Line("init", false, "init %s => %s", mods, bankdrv.DumpBank(n, n.Ctx()))
	// senders: funded accounts, a validator, an app, the owner, and keys without an account (yet)
	var keys []chain.Key
	keys = append(keys, w.Accts...)
	keys = append(keys, w.Vals[0], w.Apps[0], w.Owner)
	keys = append(keys, w.Fresh[:3]...)
	var rcpt []sdk.Address
	for _, k := range keys {
		rcpt = append(rcpt, k.Addr)
	}
	for _, m := range modNames {
		rcpt = append(rcpt, ak.GetModuleAddress(m))
	}
	// recipients whose length is not 20 bytes (MsgSend.ValidateBasic only rejects an empty address):
	// an existing account's address plus one byte, a 19-byte prefix of one, 1 byte, 32 bytes.  Distinct
	// byte strings are distinct accounts.
	nBase := len(rcpt)
	odd := []sdk.Address{
		append(append(sdk.Address{}, keys[0].Addr...), 0x00),
		append(append(sdk.Address{}, keys[1].Addr...), 0x7f),
		append(sdk.Address{}, keys[2].Addr[:19]...),
		append(sdk.Address{}, keys[0].Addr[:19]...),
		{0x01},
		append(append(sdk.Address{}, keys[3].Addr...), keys[4].Addr[:12]...),
		append(append(sdk.Address{}, ak.GetModuleAddress(govTypes.DAOAccountName)...), 0x01),
	}
	rcpt = append(rcpt, odd...)
	_ = nBase
	for i := 0; i < 3; i++ { // recipients nobody holds a key for
		rcpt = append(rcpt, chain.KeyN(4000+uint64(i)).Addr)
	}
	now := o.GenesisTime
	// block 1 is the codec-upgrade block and runs under pre-feature rules (chain.ModernGlobals): no txs
	for n.Height+1 < chain.FirstModernHeight {
		now = now.Add(time.Minute)
		s.Begin(chain.Block{Time: now, Proposer: w.Vals[0].Addr})
		s.End()
		s.Commit()
	}
	entropy := int64(1)
	lines := 0
	for lines < *nn {
		now = now.Add(time.Minute)
		ntx := 1 + r.Intn(4)
		type plan struct {
			from     chain.Key
			to       sdk.Address
			amt, fee int64
			class    string
		}
		var ps []plan
		var txs [][]byte
		// amounts are chosen against the balance the sender has at the start of the block
		pre := bankdrv.DumpBank(n, n.Ctx())
		for i := 0; i < ntx; i++ {
			from := keys[r.Intn(len(keys))]
			for try := 0; try < 6 && r.Chance(5, 6); try++ { // mostly senders that can pay a fee
				if v, ok := sdk.NewIntFromString(pre.Bal(from.Addr.String())); ok && v.GT(sdk.NewInt(chain.DefaultFee)) {
					break
				}
				from = keys[r.Intn(len(keys))]
			}
			to := rcpt[r.Intn(len(rcpt))]
			class := "other"
			if len(to) != 20 {
				class = "oddlen"
			}
			if r.Chance(1, 8) {
				to, class = from.Addr, "self"
			} else if r.Chance(1, 12) { // the sender's own address plus one byte: a different account
				to, class = append(append(sdk.Address{}, from.Addr...), byte(r.Intn(3))), "oddlen-self"
			}
			fee := int64(chain.DefaultFee)
			if r.Chance(1, 6) {
				fee = 10000 // the exact required fee of a send
			}
			bal := sdk.ZeroInt()
			if v, ok := sdk.NewIntFromString(pre.Bal(from.Addr.String())); ok {
				bal = v
			}
			b := int64(0)
			if bal.IsInt64() {
				b = bal.Int64()
			}
			var amt int64
			switch r.Intn(12) {
			case 0:
				amt = 0
			case 1:
				amt = 1
			case 2:
				amt = b - fee
			case 3:
				amt = b - fee - 1
			case 4:
				amt = b - fee + 1
			case 5:
				amt = b
			case 6:
				amt = b + 1
			case 7:
				amt = math.MaxInt64
			case 8:
				amt = -int64(1 + r.Intn(3))
			case 9:
				amt = b / 2
			default:
				amt = int64(1 + r.Intn(5000000))
			}
			if strings.HasPrefix(class, "oddlen") && amt > 5000000 && r.Chance(9, 10) {
				amt = 1 + amt%5000000 // funds sent there never come back: keep the senders liquid
			}
			if amt > 1000000000 && r.Chance(3, 4) && !strings.HasPrefix(class, "oddlen") { // keep large amounts circulating among key holders
				to = keys[r.Intn(len(keys))].Addr
				if class == "self" {
					to = from.Addr
				}
			}
			tx := chain.SignTx("verif", from, chain.MsgSend(from.Addr, to, amt), fee, entropy, "")
			entropy++
			ps = append(ps, plan{from, to, amt, fee, class})
			txs = append(txs, tx)
		}
		s.Begin(chain.Block{Time: now, Proposer: w.Vals[r.Intn(len(w.Vals))].Addr, Txs: txs})
		for _, p := range ps {
			before := bankdrv.DumpBank(n, s.MidCtx())
			res := s.Deliver()
			after := bankdrv.DumpBank(n, s.MidCtx())
			kind := fmt.Sprintf("%s/%s%d", p.class, res.Codespace, res.Code)
			cs := res.Codespace
			if cs == "" {
				cs = "-"
			}
			t.Line(kind, res.Code == 0, "send %s %s %d %d => %d %s %s %s", p.from.Addr, p.to, p.amt, p.fee, res.Code, cs, before, after)
			lines++
		}
		s.End()
		s.Commit()
	}
	t.Close(nil)
}
