// c17: correspondence harness for C17 (supply = Σ balances).
//
//	-mode ops    drives the REAL auth keeper primitives (SendCoins, SendCoinsFromModuleToAccount, …,
//	             MintCoins, BurnCoins, GetModuleAccount) with generated operation sequences on the real
//	             app's store, plus the real mint/burn sites of the nodes keeper (RewardForRelays,
//	             BurnForChallenge) as "ext" lines; after every operation the whole bank state
//	             (all accounts through the auth store iterator + the supply entry) is dumped.
//	-mode genesis  the real auth.InitGenesis (module level) on a fresh app per case: account lists with
//	             duplicate addresses, duplicated module accounts, zero-coin accounts, supply omitted or
//	             given; the initial state is an `init` line, followed by a few real mint/burn/send calls.
//	-mode chain  generated block histories with the full transaction mix (chain.World.GenBlock); the
//	             bank state is dumped after BeginBlock, after every DeliverTx, after EndBlock and
//	             after Commit.
//
// Line formats (see lean/Driver/C17.lean):
//
//	init <name:addr:minter:burner;...> => S=<supply> A=<addr:upokt:module;...>
//	op <kind> <args…> => <errclass> S=… A=…
//	ext <reward|burn> <addr> <n> => S=… A=…
//	dropped <op …|ext …> => <errclass|-> S=… A=…   (run on a cache layer that is never written)
//	sync <what> => S=… A=…
//	begin <h> <missed> <evidence> => S=… A=…
//	tx <kind> <code> <daoburn-amount|0> => S=… A=…
//	end <h> => S=… A=…      commit <h> => S=… A=…
package main

import (
	"flag"
	"fmt"
	"strings"
	"time"

	sdk "github.com/pokt-network/pocket-core/types"
	appsTypes "github.com/pokt-network/pocket-core/x/apps/types"
	"github.com/pokt-network/pocket-core/x/auth"
	authexp "github.com/pokt-network/pocket-core/x/auth/exported"
	authTypes "github.com/pokt-network/pocket-core/x/auth/types"
	govTypes "github.com/pokt-network/pocket-core/x/gov/types"
	nodesTypes "github.com/pokt-network/pocket-core/x/nodes/types"
	dbm "github.com/tendermint/tm-db"
	"verifharness/internal/bankdrv"
	"verifharness/internal/chain"
	"verifharness/internal/gen"
)

var modNames = []string{authTypes.FeeCollectorName, nodesTypes.StakedPoolName, appsTypes.StakedPoolName, govTypes.DAOAccountName, nodesTypes.ModuleName, appsTypes.ModuleName}

func has(xs []string, x string) bool {
	for _, y := range xs {
		if y == x {
			return true
		}
	}
	return false
}

func modsLine(n *chain.Node) string {
	ak := n.App.VerifAccountKeeper()
	var ps []string
	for _, m := range modNames {
		a, perms := ak.GetModuleAddressAndPermissions(m)
		ps = append(ps, fmt.Sprintf("%s:%s:%v:%v", m, a.String(), has(perms, authTypes.Minter), has(perms, authTypes.Burner)))
	}
	return strings.Join(ps, ";")
}

// genesisVariant selects how the auth genesis of the chain/ops streams looks (seed % 3):
// 0 duplicate addresses (same and different coins; the later entry wins), supply omitted (derived);
// 1 the same plus zero-coin accounts, supply omitted; 2 duplicates, supply given (= Σ effective accounts).
var genesisVariant uint64

func effectiveTotal(accs []authexp.Account) sdk.Coins {
	last := map[string]sdk.Coins{}
	for _, a := range accs {
		last[a.GetAddress().String()] = a.GetCoins()
	}
	tot := sdk.NewCoins()
	for _, k := range chain.SortedKeys(last) {
		tot = tot.Add(last[k])
	}
	return tot
}

func boot() (*chain.World, chain.GenesisOpts, *chain.Node, *bankdrv.Stepper) {
	chain.ModernGlobals()
	w, o := chain.DefaultWorld("verif", 3, 2, 2, 4)
	variant := genesisVariant
	o.Mutate = func(g *chain.Genesis) {
		coin := func(a int64) sdk.Coins { return sdk.NewCoins(sdk.NewCoin(sdk.DefaultStakeDenom, sdk.NewInt(a))) }
		k1, k2 := w.Accts[1], w.Accts[2]
		// the same address again with the same coins, and another one again with different coins
		g.Auth.Accounts = append(g.Auth.Accounts,
			&auth.BaseAccount{Address: k1.Addr, Coins: coin(1000000000000), PubKey: k1.Pub},
			&auth.BaseAccount{Address: k2.Addr, Coins: coin(777000000000), PubKey: k2.Pub})
		if variant == 1 {
			z := chain.KeyN(5000)
			g.Auth.Accounts = append(g.Auth.Accounts, &auth.BaseAccount{Address: z.Addr, Coins: sdk.NewCoins(), PubKey: z.Pub},
				&auth.BaseAccount{Address: k2.Addr, Coins: sdk.NewCoins(), PubKey: k2.Pub})
		}
		if variant == 2 {
			g.Auth.Supply = effectiveTotal(g.Auth.Accounts)
		}
	}
	// validators hold two stake bins: BurnForChallenge then burns a non-zero amount on every call and
	// the validator stays above the minimum (with minimum+1e6 the weight bin rounds to 0: C27's subject)
	o.ValidatorStake = 2 * o.MinStake
	g := chain.BuildGenesis(o)
	n := chain.NewNode(g, "verif", o.GenesisTime, dbm.NewMemDB(), dbm.NewMemDB(), dbm.NewMemDB(), false)
	n.InitChain()
	return w, o, n, bankdrv.NewStepper(n)
}

func emptyBlock(w *chain.World, s *bankdrv.Stepper, t time.Time) {
	s.Begin(chain.Block{Time: t, Proposer: w.Vals[0].Addr})
	s.End()
	s.Commit()
}

func main() {
	seed := flag.Uint64("seed", 1, "")
	n := flag.Int("n", 1000, "")
	out := flag.String("out", "c17.trace", "")
	mode := flag.String("mode", "ops", "ops|chain")
	flag.Parse()
	t := gen.NewTrace(*out)
	r := gen.New(*seed)
	genesisVariant = *seed % 3
	if *mode == "chain" {
		runChain(t, r, *n)
	} else if *mode == "genesis" {
		runGenesis(t, r, *n)
	} else {
		runOps(t, r, *n)
	}
}

func runOps(t *gen.Trace, r *gen.R, nops int) {
	w, o, n, s := boot()
	now := o.GenesisTime
	// operations run on the committed state of the first modern height (chain.FirstModernHeight)
	for n.Height < chain.FirstModernHeight {
		now = now.Add(time.Minute)
		emptyBlock(w, s, now)
	}
	ak := n.App.VerifAccountKeeper()
	nk := n.App.VerifNodesKeeper()
	t.Line("init", false, "init %s => %s", modsLine(n), bankdrv.DumpBank(n, n.Ctx()))
	// address alphabet: funded accounts, owner, validators, unfunded keys, module addresses
	var addrs []sdk.Address
	for _, k := range w.Accts {
		addrs = append(addrs, k.Addr)
	}
	addrs = append(addrs, w.Owner.Addr, w.Vals[0].Addr, w.Servs[0].Addr, w.Apps[0].Addr)
	for _, k := range w.Fresh[:3] {
		addrs = append(addrs, k.Addr)
	}
	for _, m := range modNames {
		addrs = append(addrs, ak.GetModuleAddress(m))
	}
	// addresses whose length is not 20 bytes are accounts of their own (keeper level: any byte string)
	addrs = append(addrs, append(append(sdk.Address{}, addrs[0]...), 0x00), append(sdk.Address{}, addrs[1][:19]...), sdk.Address{0x01},
		append(append(sdk.Address{}, ak.GetModuleAddress(govTypes.DAOAccountName)...), 0x01))
	mods := append(append([]string{}, modNames...), "nope")
	pickAmt := func(bal sdk.BigInt) int64 {
		b := int64(0)
		if bal.IsInt64() {
			b = bal.Int64()
		}
		switch r.Intn(10) {
		case 0:
			return 0
		case 1:
			return 1
		case 2:
			return b - 1
		case 3:
			return b
		case 4:
			return b + 1
		case 5:
			return 1000000000000000
		case 6:
			return -int64(1 + r.Intn(5))
		default:
			return int64(1 + r.Intn(2000000))
		}
	}
	// the node staking pool is never drained by the generated bank operations, so that the real burn
	// sites (slash via BurnForChallenge) keep finding the tokens they burn
	gentle := func(m string, amt int64) int64 {
		if m == nodesTypes.StakedPoolName && amt > 2000000 {
			return 1 + amt%2000000
		}
		return amt
	}
	balOf := func(a sdk.Address) sdk.BigInt { return ak.GetCoins(n.Ctx(), a).AmountOf(sdk.DefaultStakeDenom) }
	for i := 0; i < nops; i++ {
		if i > 0 && i%50 == 0 {
			now = now.Add(time.Minute)
			emptyBlock(w, s, now)
			t.Line("sync", false, "sync block => %s", bankdrv.DumpBank(n, n.Ctx()))
			continue
		}
		ctx := n.Ctx()
		var desc string
		var call func() sdk.Error
		k := r.Intn(100)
		// 1 in 14: the operation runs on a cache layer that is then dropped (what happens to a message
		// whose store layer is discarded: ante abort, simulation, a failed message under a rolling-back
		// baseapp) — nothing of it may survive, neither in the store nor in what later operations compute
		dropped := r.Chance(1, 14)
		if dropped {
			ctx = ctx.WithMultiStore(ctx.MultiStore().CacheMultiStore())
			if r.Bool() {
				k = 60 + r.Intn(24) // mint / burn
			} else if r.Bool() {
				k = 90 + r.Intn(10) // the real reward / challenge-burn sites
			}
		}
		switch {
		case k < 28:
			src, dst := addrs[r.Intn(len(addrs))], addrs[r.Intn(len(addrs))]
			amt := pickAmt(balOf(src))
			desc = fmt.Sprintf("send %s %s %d", src, dst, amt)
			call = func() sdk.Error { return ak.SendCoins(ctx, src, dst, bankdrv.Coins(amt)) }
		case k < 40:
			m, dst := mods[r.Intn(len(mods))], addrs[r.Intn(len(addrs))]
			amt := gentle(m, pickAmt(balOf(ak.GetModuleAddress(m))))
			desc = fmt.Sprintf("modToAcc %s %s %d", m, dst, amt)
			call = func() sdk.Error { return ak.SendCoinsFromModuleToAccount(ctx, m, dst, bankdrv.Coins(amt)) }
		case k < 52:
			src, m := addrs[r.Intn(len(addrs))], mods[r.Intn(len(mods))]
			amt := pickAmt(balOf(src))
			desc = fmt.Sprintf("accToMod %s %s %d", src, m, amt)
			call = func() sdk.Error { return ak.SendCoinsFromAccountToModule(ctx, src, m, bankdrv.Coins(amt)) }
		case k < 60:
			m1, m2 := mods[r.Intn(len(mods))], mods[r.Intn(len(mods))]
			amt := gentle(m1, pickAmt(balOf(ak.GetModuleAddress(m1))))
			desc = fmt.Sprintf("modToMod %s %s %d", m1, m2, amt)
			call = func() sdk.Error { return ak.SendCoinsFromModuleToModule(ctx, m1, m2, bankdrv.Coins(amt)) }
		case k < 72:
			m := mods[r.Intn(len(mods))]
			amt := pickAmt(sdk.NewInt(int64(r.Intn(1000))))
			desc = fmt.Sprintf("mint %s %d", m, amt)
			call = func() sdk.Error { return ak.MintCoins(ctx, m, bankdrv.Coins(amt)) }
		case k < 84:
			m := mods[r.Intn(len(mods))]
			amt := gentle(m, pickAmt(balOf(ak.GetModuleAddress(m))))
			desc = fmt.Sprintf("burn %s %d", m, amt)
			call = func() sdk.Error { return ak.BurnCoins(ctx, m, bankdrv.Coins(amt)) }
		case k < 90:
			m := mods[r.Intn(len(mods))]
			desc = "touch " + m
			call = func() sdk.Error { ak.GetModuleAccount(ctx, m); return nil }
		case k < 95:
			v := append(append([]chain.Key{}, w.Vals...), w.Servs...)[r.Intn(len(w.Vals)+len(w.Servs))]
			relays := int64(1 + r.Intn(100000))
			func() {
				defer func() { recover() }()
				nk.RewardForRelays(ctx, sdk.NewInt(relays), v.Addr)
			}()
			if dropped {
				t.Line("dropped-ext-reward", true, "dropped ext reward %s %d => - %s", v.Addr, relays, bankdrv.DumpBank(n, n.Ctx()))
				continue
			}
			t.Line("ext-reward", true, "ext reward %s %d => %s", v.Addr, relays, bankdrv.DumpBank(n, n.Ctx()))
			continue
		default:
			v := append(append([]chain.Key{}, w.Vals...), w.Servs...)[r.Intn(len(w.Vals)+len(w.Servs))]
			ch := int64(1 + r.Intn(1000))
			func() {
				defer func() { recover() }()
				nk.BurnForChallenge(ctx, sdk.NewInt(ch), v.Addr)
			}()
			if dropped {
				t.Line("dropped-ext-burn", true, "dropped ext burn %s %d => - %s", v.Addr, ch, bankdrv.DumpBank(n, n.Ctx()))
				continue
			}
			t.Line("ext-burn", true, "ext burn %s %d => %s", v.Addr, ch, bankdrv.DumpBank(n, n.Ctx()))
			continue
		}
		res := func() (res string) {
			defer func() {
				if p := recover(); p != nil {
					res = "panic"
				}
			}()
			return bankdrv.ErrClass(call())
		}()
		kind := strings.SplitN(desc, " ", 2)[0]
		if dropped {
			t.Line("dropped-"+kind+"/"+res, res == "ok", "dropped op %s => %s %s", desc, res, bankdrv.DumpBank(n, n.Ctx()))
			continue
		}
		t.Line(kind+"/"+res, res == "ok", "op %s => %s %s", desc, res, bankdrv.DumpBank(n, n.Ctx()))
	}
	t.Close(nil)
}

func runChain(t *gen.Trace, r *gen.R, blocks int) {
	w, o, n, s := boot()
	t.Line("init", false, "init %s => %s", modsLine(n), bankdrv.DumpBank(n, n.Ctx()))
	now := o.GenesisTime
	codes := map[string]int{}
	for i := 0; i < blocks; i++ {
		b, ds := w.GenBlock(r, now, n.Height+1, 5)
		now = b.Time
		missed := 0
		for _, v := range b.Votes {
			if !v.SignedLastBlock {
				missed++
			}
		}
		h := n.Height + 1
		s.Begin(b)
		t.Line("begin", missed+len(b.Evidence) > 0, "begin %d %d %d => %s", h, missed, len(b.Evidence), bankdrv.DumpBank(n, s.MidCtx()))
		for _, d := range ds {
			res := s.Deliver()
			burn := "0"
			if strings.HasPrefix(d.Desc, "dao burn=true ") {
				burn = strings.TrimPrefix(d.Desc, "dao burn=true ")
			}
			codes[fmt.Sprintf("%s/%d", d.Kind, res.Code)]++
			t.Line("tx-"+strings.SplitN(d.Kind, "+", 2)[0], res.Code == 0, "tx %s %d %s => %s", d.Kind, res.Code, burn, bankdrv.DumpBank(n, s.MidCtx()))
		}
		s.End()
		t.Line("end", false, "end %d => %s", h, bankdrv.DumpBank(n, s.MidCtx()))
		s.Commit()
		t.Line("commit", false, "commit %d => %s", h, bankdrv.DumpBank(n, n.Ctx()))
		if r.Chance(1, 4) {
			// between blocks: a supply-changing keeper call on a cache layer that is dropped (a simulated or
			// aborted message); the following blocks' slashes and DAO burns must not inherit anything from it
			ak := n.App.VerifAccountKeeper()
			cctx := n.Ctx()
			cctx = cctx.WithMultiStore(cctx.MultiStore().CacheMultiStore())
			amt := int64(1 + r.Intn(1000000))
			desc, res := "", "ok"
			func() {
				defer func() {
					if p := recover(); p != nil {
						res = "panic"
					}
				}()
				if r.Bool() {
					desc = fmt.Sprintf("mint %s %d", govTypes.DAOAccountName, amt)
					res = bankdrv.ErrClass(ak.MintCoins(cctx, govTypes.DAOAccountName, bankdrv.Coins(amt)))
				} else {
					desc = fmt.Sprintf("burn %s %d", govTypes.DAOAccountName, amt)
					res = bankdrv.ErrClass(ak.BurnCoins(cctx, govTypes.DAOAccountName, bankdrv.Coins(amt)))
				}
			}()
			t.Line("dropped", true, "dropped op %s => %s %s", desc, res, bankdrv.DumpBank(n, n.Ctx()))
		}
	}
	t.Close(map[string]interface{}{"tx_codes": codes})
}

// runGenesis drives auth.InitGenesis directly (as the module manager does during InitChain, but without
// auth.ValidateGenesis in front, so module accounts — which have no public key — can be listed).
func runGenesis(t *gen.Trace, r *gen.R, cases int) {
	coin := func(a int64) sdk.Coins {
		if a == 0 {
			return sdk.NewCoins()
		}
		return sdk.NewCoins(sdk.NewCoin(sdk.DefaultStakeDenom, sdk.NewInt(a)))
	}
	for c := 0; c < cases; c++ {
		chain.ModernGlobals()
		_, o := chain.DefaultWorld("verif", 1, 0, 0, 1)
		n := chain.NewNode(chain.BuildGenesis(o), "verif", o.GenesisTime, dbm.NewMemDB(), dbm.NewMemDB(), dbm.NewMemDB(), false)
		ak := n.App.VerifAccountKeeper()
		ctx := n.Ctx()
		var accs []authexp.Account
		nk := 2 + r.Intn(5)
		for i := 0; i < nk; i++ {
			k := chain.KeyN(6000 + uint64(r.Intn(5))) // 5 addresses: duplicates are frequent
			accs = append(accs, &auth.BaseAccount{Address: k.Addr, Coins: coin([]int64{0, 1, 5, 1000000, 1000000, 999999999}[r.Intn(6)]), PubKey: k.Pub})
		}
		for i := r.Intn(3); i > 0; i-- { // module accounts, possibly twice
			m := modNames[r.Intn(4)]
			ma := authTypes.NewEmptyModuleAccount(m, authTypes.Minter, authTypes.Burner, authTypes.Staking)
			_ = ma.SetCoins(coin([]int64{0, 7, 50000}[r.Intn(3)]))
			accs = append(accs, ma)
		}
		// every third case: a PLAIN account with coins sits at the address of a module (nodes / apps module
		// name: the random operations below never use these two by name).  A later by-name use of the module
		// (bare GetModuleAccount = "touch") must not destroy those coins.  No PRNG draw.
		plainAt := ""
		if c%3 == 1 {
			plainAt = modNames[4+(c/3)%2]
			accs = append(accs, &auth.BaseAccount{Address: ak.GetModuleAddress(plainAt), Coins: coin(1000 + int64(c))})
		}
		data := auth.GenesisState{Params: authTypes.DefaultParams(), Accounts: accs}
		kind := "derived"
		if r.Chance(1, 3) {
			data.Supply, kind = effectiveTotal(accs), "given"
		}
		dup := "nodup"
		seen := map[string]bool{}
		for _, a := range accs {
			if seen[a.GetAddress().String()] {
				dup = "dup"
			}
			seen[a.GetAddress().String()] = true
		}
		auth.InitGenesis(ctx, ak, data)
		t.Line("genesis-"+kind+"-"+dup, dup == "dup", "init %s => %s", modsLine(n), bankdrv.DumpBank(n, n.Ctx()))
		// along the history: a few real keeper calls on that state
		for j := 0; j < 4; j++ {
			a1, a2 := accs[r.Intn(len(accs))].GetAddress(), accs[r.Intn(len(accs))].GetAddress()
			amt := int64(r.Intn(8))
			m := modNames[r.Intn(4)]
			var desc string
			var call func() sdk.Error
			switch r.Intn(3) {
			case 0:
				desc = fmt.Sprintf("send %s %s %d", a1, a2, amt)
				call = func() sdk.Error { return ak.SendCoins(ctx, a1, a2, bankdrv.Coins(amt)) }
			case 1:
				desc = fmt.Sprintf("mint %s %d", m, amt)
				call = func() sdk.Error { return ak.MintCoins(ctx, m, bankdrv.Coins(amt)) }
			default:
				desc = fmt.Sprintf("burn %s %d", m, amt)
				call = func() sdk.Error { return ak.BurnCoins(ctx, m, bankdrv.Coins(amt)) }
			}
			res := func() (res string) {
				defer func() {
					if p := recover(); p != nil {
						res = "panic"
					}
				}()
				return bankdrv.ErrClass(call())
			}()
			t.Line("genesis-op/"+res, res == "ok", "op %s => %s %s", desc, res, bankdrv.DumpBank(n, n.Ctx()))
		}
		if plainAt != "" {
			res := func() (res string) {
				defer func() {
					if p := recover(); p != nil {
						res = "panic"
					}
				}()
				ak.GetModuleAccount(ctx, plainAt)
				return "ok"
			}()
			t.Line("genesis-touch/"+res, res == "ok", "op touch %s => %s %s", plainAt, res, bankdrv.DumpBank(n, n.Ctx()))
		}
	}
	t.Close(nil)
}
