// c12: block execution must be a deterministic function of chain data.
//
// Chain data (genesis + blocks, exact transaction bytes) is generated ONCE per history by the parent
// and executed by several fresh child processes (Go randomises map iteration per range statement
// and per process); every block's app hash, DeliverTx codes/data digest, validator updates, abstract
// state and raw store digest are compared with the first run.  History kinds:
//
//	generic     chain.World.GenBlock histories (block 1 runs every module's ConvertState in map order)
//	delegators  a proposer edits its stake with 4 reward delegators whose accounts do not exist yet;
//	            the next BeginBlock pays the proposer reward through SplitNodeRewards (the real path:
//	            Keeper.blockReward), i.e. the accounts are created in Go map order
//	genesismaps genesis with SigningInfos / MissedBlocks maps for addresses without a validator
//	            (InitGenesis ranges over both maps and writes new store keys)
//	unstakequeue four nodes begin unstaking in one session (released together: one unstaking-queue entry
//	            with the same completion time), then one of them is slashed for a double sign while
//	            unstaking (SetValidator queues it again): whatever is done with the repeated entry
//	            must not depend on map order
//	unjail      the wall-clock witness: block timestamps straddle an instant T = start + 15 s; early runs
//	            execute while the local clock is before T, late runs after it.  Carries an unjail
//	            transaction of a node jailed until T and double-sign evidence stamped T: any consensus
//	            decision that consults the local clock (time.Now / Since / Until …) splits the runs
//
// A second stream (`split` / `norm` lines) calls the real keeper.SplitNodeRewards and
// types.NormalizeRewardDelegators on generated inputs and prints the normalised slice / the callback
// invocations IN ORDER; the Lean driver compares them with the model of the code as it is now
// (sorted by address), so a code base that pays in map order is a DIFF on these lines already.
// Trace consumed by lean/Driver/C12.lean.
package main

import (
	"crypto/sha256"
	"encoding/hex"
	"flag"
	"fmt"
	"os"
	"strings"
	"sync"
	"time"

	sdk "github.com/pokt-network/pocket-core/types"
	nodesKeeper "github.com/pokt-network/pocket-core/x/nodes/keeper"
	nodesTypes "github.com/pokt-network/pocket-core/x/nodes/types"
	abci "github.com/tendermint/tendermint/abci/types"
	"github.com/tendermint/tendermint/libs/log"
	dbm "github.com/tendermint/tm-db"

	"verifharness/internal/chain"
	"verifharness/internal/chainx"
	"verifharness/internal/gen"
)

const chainID = "verif"

var childEnv = []string{"GOMAXPROCS=2"}

var kinds = []string{"delegators", "generic", "genesismaps", "unstakequeue", "generic", "delegators", "generic", "unstakequeue"}

type cfg struct {
	kind    string
	hseed   uint64
	blocks  int
	genTime int64 // unix nanos
	until   int64 // unjail: JailedUntil (unix nanos)
}

func delegatorKeys() []chain.Key {
	var ks []chain.Key
	for i := 0; i < 4; i++ {
		ks = append(ks, chain.KeyN(3000+uint64(i)))
	}
	return ks
}

// world builds the generator's view and the genesis options of a history.
func world(c cfg) (*chain.World, chain.GenesisOpts) {
	w, o := chain.DefaultWorld(chainID, 3, 2, 2, 4)
	if c.genTime != 0 {
		o.GenesisTime = time.Unix(0, c.genTime).UTC()
	}
	switch c.kind {
	case "unstakequeue":
		o.ValidatorStake = 2 * w.MinStake // a slashed validator stays above the minimum stake (no force-unstake)
		o.MaxValidators = 5               // all five nodes are consensus validators: four of them leave the set in ONE block
		o.Mutate = func(g *chain.Genesis) { g.Nodes.Params.SessionBlockFrequency = 4 }
	case "genesismaps":
		o.Mutate = func(g *chain.Genesis) {
			g.Nodes.SigningInfos = map[string]nodesTypes.ValidatorSigningInfo{}
			g.Nodes.MissedBlocks = map[string][]nodesTypes.MissedBlock{}
			for i := 0; i < 6; i++ {
				k := chain.KeyN(4000 + uint64(i))
				g.Nodes.SigningInfos[k.Addr.String()] = nodesTypes.ValidatorSigningInfo{Address: k.Addr, StartHeight: 0, Index: int64(i), MissedBlocksCounter: int64(i % 3)}
				g.Nodes.MissedBlocks[k.Addr.String()] = []nodesTypes.MissedBlock{{Index: int64(i), Missed: true}}
			}
		}
	case "unjail":
		until := time.Unix(0, c.until).UTC()
		o.Mutate = func(g *chain.Genesis) {
			for i := range g.Nodes.Validators {
				if g.Nodes.Validators[i].Address.Equals(w.Servs[0].Addr) {
					g.Nodes.Validators[i].Jailed = true
				}
			}
			g.Nodes.SigningInfos = map[string]nodesTypes.ValidatorSigningInfo{
				w.Servs[0].Addr.String(): {Address: w.Servs[0].Addr, StartHeight: 0, JailedUntil: until},
			}
		}
	}
	return w, o
}

// genHistory draws the chain data of one history.
func genHistory(c cfg) *chainx.History {
	w, o := world(c)
	r := gen.New(c.hseed)
	t := o.GenesisTime
	h := &chainx.History{}
	kindsOf := func(ds []chain.TxDesc) []string {
		var ks []string
		for _, d := range ds {
			ks = append(ks, d.Kind)
		}
		return ks
	}
	ent := int64(700000000)
	next := func() int64 { ent++; return ent }
	switch c.kind {
	case "delegators":
		v := w.Vals[0]
		del := map[string]uint32{}
		for i, k := range delegatorKeys() {
			del[k.Addr.String()] = uint32(5 + 5*i)
		}
		for bi := 0; bi < c.blocks; bi++ {
			b, ds := w.GenBlock(r, t, int64(bi+1), 2)
			ks := kindsOf(ds)
			b.Proposer = v.Addr
			if bi+1 == 3 { // block 2 still decodes with the pre-feature codec (txDecoder uses LastBlockHeight)
				b.Txs = append(b.Txs, chain.SignTx(chainID, v, chain.MsgNodeStake(v, 30000000000, []string{chain.ChainHash}, "https://x.com:443", v.Addr, del), chain.DefaultFee, next(), ""))
				ks = append(ks, "nodeedit-delegators")
			}
			if bi+1 >= 2 {
				from := w.Accts[bi%4]
				b.Txs = append(b.Txs, chain.SignTx(chainID, from, chain.MsgSend(from.Addr, w.Accts[(bi+1)%4].Addr, 1000), chain.DefaultFee, next(), ""))
				ks = append(ks, "send-fee")
			}
			t = b.Time
			h.AddBlock(b, ks)
		}
	case "unstakequeue":
		leaving := []chain.Key{w.Servs[0], w.Servs[1], w.Vals[1], w.Vals[2]}
		for bi := 0; bi < c.blocks; bi++ {
			height := int64(bi + 1)
			b, ds := w.GenBlock(r, t, height, 1)
			ks := kindsOf(ds)
			b.Time = t.Add(20 * time.Second) // evidence must stay younger than MaxEvidenceAge (2 min)
			b.Evidence = nil
			b.Proposer = w.Vals[0].Addr
			if height == 3 { // all four ask to unstake in one session: released together at its end
				for _, k := range leaving {
					b.Txs = append(b.Txs, chain.SignTx(chainID, k, chain.MsgNodeUnstake(k.Addr, k.Addr), chain.DefaultFee, next(), ""))
					ks = append(ks, "nodeunstake")
				}
			}
			if height >= 6 && height%2 == 0 { // double-sign evidence against an unstaking validator
				v := leaving[2+int(height/2)%2]
				b.Evidence = append(b.Evidence, abci.Evidence{Type: "duplicate/vote", Validator: abci.Validator{Address: v.Addr, Power: 15000},
					Height: height - 1, Time: t, TotalVotingPower: 45000})
				ks = append(ks, "evidence:"+v.Addr.String()[:6])
			}
			t = b.Time
			h.AddBlock(b, ks)
		}
	case "unjail":
		until := time.Unix(0, c.until).UTC()
		for bi := 0; bi < c.blocks; bi++ {
			b, _ := w.GenBlock(r, t, int64(bi+1), 0)
			var ks []string
			// block times straddle JailedUntil: the unjail transaction is delivered in the first block whose time is >= JailedUntil
			b.Time = until.Add(time.Duration(bi-2) * time.Second)
			if bi+1 >= 3 {
				s := w.Servs[0]
				b.Txs = append(b.Txs, chain.SignTx(chainID, s, chain.MsgNodeUnjail(s.Addr, s.Addr), chain.DefaultFee, next(), ""))
				ks = append(ks, "unjail")
			}
			b.Evidence = nil
			if bi+1 == 4 {
				// double-sign evidence stamped `until`: ahead of the local clock of the early runs, behind that of
				// the late runs, one second old by block time (well inside MaxEvidenceAge)
				v := w.Vals[1]
				b.Evidence = append(b.Evidence, abci.Evidence{Type: "duplicate/vote", Validator: abci.Validator{Address: v.Addr, Power: 15000},
					Height: 3, Time: until, TotalVotingPower: 45000})
				ks = append(ks, "evidence@until")
			}
			t = b.Time
			h.AddBlock(b, ks)
		}
	default:
		for bi := 0; bi < c.blocks; bi++ {
			b, ds := w.GenBlock(r, t, int64(bi+1), 4)
			t = b.Time
			h.AddBlock(b, kindsOf(ds))
		}
	}
	return h
}

func dataDigest(res chain.BlockResult) string {
	h := sha256.New()
	for _, t := range res.Txs {
		h.Write(t.Data)
		h.Write([]byte{0})
	}
	return hex.EncodeToString(h.Sum(nil))[:8]
}

// runHistory executes a history in this (fresh) process.
func runHistory(c cfg, histPath string, startAt int64) {
	h, err := chainx.LoadHistory(histPath)
	if err != nil {
		panic(err)
	}
	if startAt > 0 {
		if d := time.Until(time.Unix(0, startAt)); d > 0 {
			time.Sleep(d)
		}
	}
	chain.ModernGlobals()
	chainx.InitSessionCache(100)
	_, o := world(c)
	g := chain.BuildGenesis(o)
	n := chain.NewNode(g, chainID, o.GenesisTime, dbm.NewMemDB(), dbm.NewMemDB(), dbm.NewMemDB(), false)
	n.InitChain()
	run := &chainx.Runner{N: n}
	for bi := range h.Blocks {
		b, ks := h.Block(bi)
		wall := "-"
		if c.kind == "unjail" {
			// which side of JailedUntil the local clock is on when the block is executed
			if time.Now().UnixNano() < c.until {
				wall = "before"
			} else {
				wall = "after"
			}
		}
		res := run.RunBlock(b, nil)
		st := n.Dump(nil)
		kd := "-"
		if len(ks) > 0 {
			kd = strings.Join(ks, ",")
		}
		fmt.Printf("blk %d %s wall=%s => %x %s %s %s %s %s\n", res.Height, kd, wall, res.AppHash, chainx.Codes(res), dataDigest(res), chainx.ValUpdates(res), chainx.StateDigest(st), chainx.RawDigest(n))
	}
}

// pure stream: SplitNodeRewards / NormalizeRewardDelegators on generated inputs.
func pureStream(t *gen.Trace, r *gen.R, n int) {
	addrs := make([]sdk.Address, 6)
	for i := range addrs {
		addrs[i] = chain.KeyN(5000 + uint64(i)).Addr
	}
	logger := log.NewNopLogger()
	for i := 0; i < n; i++ {
		del := map[string]uint32{}
		nd := r.Intn(5)
		for j := 0; j < nd; j++ {
			share := uint32([]int{0, 1, 5, 10, 25, 33, 50, 60, 99, 100}[r.Intn(10)])
			key := addrs[r.Intn(len(addrs))].String()
			if r.Chance(1, 15) {
				key = key[:10] + "zz" // not hex
			}
			if r.Chance(1, 15) && len(key) > 20 {
				key = key[:20] // wrong length
			}
			del[key] = share
		}
		var ds []string
		for _, k := range chain.SortedKeys(del) {
			ds = append(ds, fmt.Sprintf("%s:%d", k, del[k]))
		}
		dstr := "-"
		if len(ds) > 0 {
			dstr = strings.Join(ds, ",")
		}
		norm, nerr := nodesTypes.NormalizeRewardDelegators(del)
		if nerr != nil {
			t.Line("norm/invalid", false, "norm %s => invalid", dstr)
		} else {
			var ps []string
			for _, p := range norm { // in the order returned (the order SplitNodeRewards pays in)
				ps = append(ps, fmt.Sprintf("%s:%d", p.Address.String(), p.RewardShare))
			}
			res := "-"
			if len(ps) > 0 {
				res = strings.Join(ps, ",")
			}
			t.Line("norm/ok", len(ps) > 0, "norm %s => %s", dstr, res)
		}
		rewards := []int64{0, -5, 1, 7, 99, 100, 101, 12345, 1000000007, 999999999999}[r.Intn(10)]
		primary := addrs[r.Intn(len(addrs))]
		var calls []string // the callback invocations in order
		err := nodesKeeper.SplitNodeRewards(logger, sdk.NewInt(rewards), primary, del, func(a sdk.Address, c sdk.BigInt) {
			calls = append(calls, fmt.Sprintf("%s:%s", a.String(), c.String()))
		})
		if err != nil {
			t.Line("split/err", false, "split %d %s %s => error", rewards, primary.String(), dstr)
			continue
		}
		res := "-"
		if len(calls) > 0 {
			res = strings.Join(calls, ",")
		}
		t.Line("split/ok", len(del) > 0, "split %d %s %s => %s", rewards, primary.String(), dstr, res)
	}
}

func main() {
	seed := flag.Uint64("seed", 1, "")
	nh := flag.Int("n", 8, "number of histories")
	out := flag.String("out", "c12.trace", "")
	role := flag.String("role", "", "internal: run")
	kind := flag.String("kind", "generic", "internal")
	hseed := flag.Uint64("hseed", 0, "internal")
	blocks := flag.Int("blocks", 0, "internal")
	genTime := flag.Int64("gentime", 0, "internal")
	until := flag.Int64("until", 0, "internal")
	startAt := flag.Int64("at", 0, "internal: do not start before this wall-clock time (unix nanos)")
	histPath := flag.String("hist", "", "internal")
	repeats := flag.Int("repeats", 5, "executions per history")
	only := flag.String("only", "", "restrict to one history kind")
	noUnjail := flag.Bool("no-unjail", false, "skip the wall-clock history (it waits ~20 s)")
	pure := flag.Int("pure", 400, "number of SplitNodeRewards/NormalizeRewardDelegators cases")
	flag.Parse()
	if *role == "run" {
		runHistory(cfg{*kind, *hseed, *blocks, *genTime, *until}, *histPath, *startAt)
		return
	}
	t := gen.NewTrace(*out)
	chain.ModernGlobals()
	pureStream(t, gen.New(*seed^0xabcdef), *pure)

	pr := gen.New(*seed)
	var cfgs []cfg
	for i := 0; i < *nh; i++ {
		k := kinds[i%len(kinds)]
		if *only != "" {
			k = *only
		}
		nb := 4 + pr.Intn(8)
		if k == "unjail" {
			continue
		}
		if k == "genesismaps" {
			nb = 3
		}
		if k == "delegators" {
			nb = 5 + pr.Intn(3)
		}
		if k == "unstakequeue" {
			nb = 9 + pr.Intn(3)
		}
		cfgs = append(cfgs, cfg{kind: k, hseed: *seed*1000003 + uint64(i)*7919 + 29, blocks: nb})
	}
	now0 := time.Now()
	if !*noUnjail && (*only == "" || *only == "unjail") {
		// genesis one hour ago; JailedUntil 15 s from now: early runs start immediately, late runs after it has passed
		uj := cfg{kind: "unjail", hseed: *seed*1000003 + 999, blocks: 5, genTime: now0.Add(-time.Hour).UnixNano(), until: now0.Add(15 * time.Second).UnixNano()}
		if *only == "unjail" {
			cfgs = nil
		}
		cfgs = append([]cfg{uj}, cfgs...)
	}
	for i, c := range cfgs {
		if err := genHistory(c).Save(fmt.Sprintf("%s.h%d.json", *out, i)); err != nil {
			panic(err)
		}
	}
	type result struct {
		lines [][]string
		errs  []error
	}
	results := make([]result, len(cfgs))
	sem := make(chan struct{}, 10)
	var wg sync.WaitGroup
	for i := range cfgs {
		results[i] = result{make([][]string, *repeats), make([]error, *repeats)}
		for rep := 0; rep < *repeats; rep++ {
			wg.Add(1)
			go func(i, rep int) {
				defer wg.Done()
				c := cfgs[i]
				if c.kind != "unjail" { // the wall-clock history must not queue behind the others
					sem <- struct{}{}
					defer func() { <-sem }()
				}
				args := []string{"-role", "run", "-hist", fmt.Sprintf("%s.h%d.json", *out, i), "-kind", c.kind, "-hseed", fmt.Sprint(c.hseed), "-blocks", fmt.Sprint(c.blocks),
					"-gentime", fmt.Sprint(c.genTime), "-until", fmt.Sprint(c.until)}
				if c.kind == "unjail" && rep >= (*repeats+1)/2 {
					args = append(args, "-at", fmt.Sprint(c.until+int64(2*time.Second)))
				}
				results[i].lines[rep], results[i].errs[rep] = chainx.Child(childEnv, args...)
			}(i, rep)
		}
	}
	wg.Wait()
	for i, c := range cfgs {
		os.Remove(fmt.Sprintf("%s.h%d.json", *out, i))
		lv := "-"
		if c.kind == "unstakequeue" { // the validators that leave the staked set together (public keys as in ValidatorUpdate)
			w, _ := world(c)
			var ps []string
			for _, k := range []chain.Key{w.Servs[0], w.Servs[1], w.Vals[1], w.Vals[2]} {
				ps = append(ps, hex.EncodeToString(k.Pub.RawBytes()))
			}
			lv = strings.Join(ps, ",")
		}
		t.Line("hist", false, "hist %d %s %d %d leavers=%s", i, c.kind, c.hseed, c.blocks, lv)
		for rep := 0; rep < *repeats; rep++ {
			if results[i].errs[rep] != nil {
				t.Line("crash", false, "crash %d %d => %s", i, rep, strings.ReplaceAll(results[i].errs[rep].Error(), "\n", " | "))
				continue
			}
			for _, l := range results[i].lines[rep] {
				if strings.HasPrefix(l, "blk ") {
					t.Line("run/"+c.kind, true, "run %d %s", rep, l)
				}
			}
		}
		t.Line("end", false, "end %d", i)
	}
	t.Close(map[string]interface{}{"histories": len(cfgs), "repeats": *repeats})
}
