// c31: drives the real x/pocketcore keeper (ValidateClaim, ClaimIsMature, ValidateProof ->
// getPseudorandomIndex -> Context.GetPrevBlockHash) on a MemDB-backed multistore over a grid of
// (blocks per session, claim submission window, session height, claim height); the trace is consumed by
// lean/Driver/C31.lean.
package main

import (
	"encoding/hex"
	"encoding/json"
	"flag"
	"fmt"
	"strings"
	"time"

	"github.com/pokt-network/pocket-core/codec"
	cdctypes "github.com/pokt-network/pocket-core/codec/types"
	"github.com/pokt-network/pocket-core/crypto"
	"github.com/pokt-network/pocket-core/store"
	sdk "github.com/pokt-network/pocket-core/types"
	appskeeper "github.com/pokt-network/pocket-core/x/apps/keeper"
	appstypes "github.com/pokt-network/pocket-core/x/apps/types"
	"github.com/pokt-network/pocket-core/x/auth"
	"github.com/pokt-network/pocket-core/x/gov"
	govtypes "github.com/pokt-network/pocket-core/x/gov/types"
	nodeskeeper "github.com/pokt-network/pocket-core/x/nodes/keeper"
	nodestypes "github.com/pokt-network/pocket-core/x/nodes/types"
	pckeeper "github.com/pokt-network/pocket-core/x/pocketcore/keeper"
	pc "github.com/pokt-network/pocket-core/x/pocketcore/types"
	abci "github.com/tendermint/tendermint/abci/types"
	"github.com/tendermint/tendermint/libs/log"
	dbm "github.com/tendermint/tm-db"
	"verifharness/internal/gen"
)

const chain = "0001"

// blockHash is the hash of block h in the synthetic chain: every height has its own hash, so the
// hash a computation used identifies the block.
func blockHash(h int64) []byte { return pc.Hash([]byte(fmt.Sprintf("verif-block-%d", h))) }

// headerAt is the header of block h: LastBlockId.Hash is the hash of block h-1, as in Tendermint.
func headerAt(h int64) abci.Header {
	return abci.Header{ChainID: "verif", Height: h, Time: time.Unix(1600000000+h, 0).UTC(),
		LastBlockId: abci.BlockID{Hash: blockHash(h - 1)}}
}

// recCtx records which heights GetPrevBlockHash is asked for and delegates to the real Context.
type baseCtx = sdk.Context

type recCtx struct {
	baseCtx
	asked *[]int64
}

func (c recCtx) GetPrevBlockHash(h int64) ([]byte, error) {
	*c.asked = append(*c.asked, h)
	return c.baseCtx.GetPrevBlockHash(h)
}

var _ sdk.Ctx = recCtx{}

type world struct {
	base    sdk.Context
	k       pckeeper.Keeper
	nk      nodeskeeper.Keeper
	appk    appskeeper.Keeper
	nodePub crypto.PublicKey
	appPub  crypto.PublicKey
	cache   *pc.CacheStorage
}

func setup(r *gen.R) *world {
	sdk.VbCCache = sdk.NewCache(1)
	sdk.InitCtxCache(4096)
	codec.TestMode = 0
	codec.UpgradeFeatureMap = map[string]int64{}
	keyAcc := sdk.NewKVStoreKey(auth.StoreKey)
	nodesKey := sdk.NewKVStoreKey(nodestypes.StoreKey)
	appsKey := sdk.NewKVStoreKey(appstypes.StoreKey)
	pocketKey := sdk.NewKVStoreKey(pc.StoreKey)
	db := dbm.NewMemDB()
	ms := store.NewCommitMultiStore(db, false, 5000000)
	ms.MountStoreWithDB(keyAcc, sdk.StoreTypeIAVL, db)
	ms.MountStoreWithDB(sdk.ParamsKey, sdk.StoreTypeIAVL, db)
	ms.MountStoreWithDB(nodesKey, sdk.StoreTypeIAVL, db)
	ms.MountStoreWithDB(appsKey, sdk.StoreTypeIAVL, db)
	ms.MountStoreWithDB(pocketKey, sdk.StoreTypeIAVL, db)
	ms.MountStoreWithDB(sdk.ParamsTKey, sdk.StoreTypeTransient, db)
	if err := ms.LoadLatestVersion(); err != nil {
		panic(err)
	}
	ctx := sdk.NewContext(ms, headerAt(1), false, log.NewNopLogger())
	cdc := codec.NewCodec(cdctypes.NewInterfaceRegistry())
	auth.RegisterCodec(cdc)
	gov.RegisterCodec(cdc)
	sdk.RegisterCodec(cdc)
	crypto.RegisterAmino(cdc.AminoCodec().Amino)
	maccPerms := map[string][]string{
		auth.FeeCollectorName:     nil,
		appstypes.StakedPoolName:  {auth.Burner, auth.Staking, auth.Minter},
		nodestypes.StakedPoolName: {auth.Burner, auth.Staking},
		govtypes.DAOAccountName:   {auth.Burner, auth.Staking},
	}
	ak := auth.NewKeeper(cdc, keyAcc, sdk.NewSubspace(auth.DefaultParamspace), maccPerms)
	nk := nodeskeeper.NewKeeper(cdc, nodesKey, ak, sdk.NewSubspace(nodestypes.DefaultParamspace), nodestypes.ModuleName)
	appk := appskeeper.NewKeeper(cdc, appsKey, nk, ak, nil, sdk.NewSubspace(appstypes.DefaultParamspace), appstypes.ModuleName)
	hb := pc.HostedBlockchains{M: map[string]pc.HostedBlockchain{chain: {ID: chain, URL: "http://localhost"}}}
	k := pckeeper.NewKeeper(pocketKey, cdc, ak, nk, appk, &hb, sdk.NewSubspace(pc.DefaultParamspace))
	appk.PocketKeeper = k
	appk.SetParams(ctx, appstypes.DefaultParams())
	nk.SetParams(ctx, nodestypes.DefaultParams())
	pp := pc.DefaultParams()
	pp.SupportedBlockchains = []string{chain}
	pp.SessionNodeCount = 1
	pp.MinimumNumberOfProofs = 1
	k.SetParams(ctx, pp)
	// one node and one app, both staked for the chain
	nodePriv := crypto.Ed25519PrivateKey{}.GenPrivateKey()
	_ = r
	nodePub := nodePriv.PublicKey()
	nodeAddr := sdk.Address(nodePub.Address())
	val := nodestypes.NewValidator(nodeAddr, nodePub, []string{chain}, "https://node.example:443", sdk.NewInt(15000000000), nodeAddr)
	nk.SetValidator(ctx, val)
	nk.SetStakedValidatorByChains(ctx, val)
	appPub := crypto.Ed25519PrivateKey{}.GenPrivateKey().PublicKey()
	app := appstypes.NewApplication(sdk.Address(appPub.Address()), appPub, []string{chain}, sdk.NewInt(10000000))
	app.MaxRelays = sdk.NewInt(1000000)
	appk.SetApplication(ctx, app)
	appk.SetStakedApplication(ctx, app)
	cs := &pc.CacheStorage{}
	cs.Init("", "", sdk.DefaultTestingPocketConfig().TendermintConfig.LevelDBOptions, 10000, true)
	pc.GlobalSessionCache = cs
	return &world{base: ctx, k: k, nk: nk, appk: appk, nodePub: nodePub, appPub: appPub, cache: cs}
}

func (w *world) ctxAt(h int64) sdk.Context { return w.base.WithBlockHeader(headerAt(h)) }

// cacheHeights makes PrevCtx / GetPrevBlockHash answer for the given heights from the context cache
// (the real code path when the context of a height is cached; no blockstore is present).
func (w *world) cacheHeights(lo, hi int64) {
	for h := lo; h <= hi; h++ {
		if h < 1 {
			continue
		}
		sdk.GlobalCtxCache.Add(fmt.Sprintf("%d", h), w.ctxAt(h))
	}
}

func try(f func() string) (s string) {
	defer func() {
		if r := recover(); r != nil {
			s = "PANIC"
		}
	}()
	return f()
}

func (w *world) setParams(B, W int64) {
	np := w.nk.GetParams(w.base)
	np.SessionBlockFrequency = B
	w.nk.SetParams(w.base, np)
	pp := w.k.GetParams(w.base)
	pp.ClaimSubmissionWindow = W
	w.k.SetParams(w.base, pp)
}

func ceilLog2(n int64) int {
	l := 0
	for v := int64(1); v < n; v <<= 1 {
		l++
	}
	return l
}

func (w *world) one(t *gen.Trace, B, W, S, H, total int64) {
	w.setParams(B, W)
	P := S + W*B
	lo, hi := S-2, P+4
	if H+2 > hi {
		hi = H + 2
	}
	if S+B+1 > hi {
		hi = S + B + 1
	}
	w.cacheHeights(lo, hi)
	nodeAddr := sdk.Address(w.nodePub.Address())
	header := pc.SessionHeader{ApplicationPubKey: w.appPub.RawString(), Chain: chain, SessionBlockHeight: S}
	pc.SetSession(pc.Session{SessionKey: pc.SessionKey(pc.Hash([]byte("k"))), SessionHeader: header, SessionNodes: pc.SessionNodes{nodeAddr}}, w.cache)
	root := pc.HashRange{Hash: pc.Hash([]byte("root")), Range: pc.Range{Lower: 0, Upper: 7777}}
	claim := pc.MsgClaim{SessionHeader: header, MerkleRoot: root, TotalProofs: total, FromAddress: nodeAddr, EvidenceType: pc.RelayEvidence}
	// 1. claim acceptance at height H
	claimRes := try(func() string {
		err := w.k.ValidateClaim(w.ctxAt(H), claim)
		switch {
		case err == nil:
			return "ok"
		case err.Code() == pc.CodeInvalidBlockHeightError:
			return "early"
		case err.Code() == pc.CodeExpiredProofsSubmissionError:
			return "expired"
		default:
			return fmt.Sprintf("other:%d", err.Code())
		}
	})
	// 2. maturity predicate at height H
	mature := try(func() string { return fmt.Sprint(w.k.ClaimIsMature(w.ctxAt(H), S)) })
	// 3. which block seeds the leaf selection, and the selected leaf (ValidateProof at height P+1)
	var asked []int64
	idx := int64(-1)
	nmatch := 0
	proofRes := try(func() string {
		pctx := recCtx{baseCtx: w.ctxAt(P + 1), asked: &asked}
		stored := claim
		stored.ExpirationHeight = P + 1000
		if err := w.k.SetClaim(pctx, stored); err != nil {
			return "setclaim-err"
		}
		defer func() { _ = w.k.DeleteClaim(pctx, nodeAddr, header, pc.RelayEvidence) }()
		levels := ceilLog2(total)
		hrs := make([]pc.HashRange, levels)
		for i := range hrs {
			hrs[i] = pc.HashRange{Hash: pc.Hash([]byte{byte(i)}), Range: pc.Range{Lower: 0, Upper: 7777}}
		}
		leaf := pc.RelayProof{SessionBlockHeight: S, ServicerPubKey: w.nodePub.RawString(), Blockchain: chain,
			Token: pc.AAT{Version: "0.0.1", ApplicationPublicKey: w.appPub.RawString(), ClientPublicKey: w.appPub.RawString()}}
		for ti := int64(0); ti < total; ti++ {
			asked = asked[:0]
			msg := pc.MsgProof{MerkleProof: pc.MerkleProof{TargetIndex: ti, HashRanges: hrs, Target: pc.HashRange{Hash: pc.Hash([]byte("t")), Range: pc.Range{Lower: 0, Upper: 7777}}},
				Leaf: leaf, EvidenceType: pc.RelayEvidence}
			code := try(func() string {
				_, _, err := w.k.ValidateProof(pctx, msg)
				if err == nil {
					return "nil"
				}
				return fmt.Sprint(err.Code())
			})
			if code != fmt.Sprint(pc.CodeInvalidProofsError) {
				nmatch++
				idx = ti
			}
			if len(asked) != 1 {
				return fmt.Sprintf("asked:%v", asked)
			}
		}
		if nmatch != 1 {
			return fmt.Sprintf("matches:%d", nmatch)
		}
		return "ok"
	})
	req := int64(-1)
	if len(asked) == 1 {
		req = asked[0]
	}
	// the hash the leaf selection must have used, if the entropy came from header `req`
	hash8, seedHex, usedBlock := "-", "-", int64(-1)
	if proofRes == "ok" {
		// identify the block whose hash was returned for `req`
		got, _ := recCtx{baseCtx: w.ctxAt(P + 1), asked: &[]int64{}}.GetPrevBlockHash(req)
		for b := lo - 2; b <= hi+2; b++ {
			if hex.EncodeToString(blockHash(b)) == hex.EncodeToString(got) {
				usedBlock = b
			}
		}
		seed, _ := json.Marshal(struct {
			BlockHash string
			Header    string
		}{hex.EncodeToString(got), header.HashString()})
		seedHex = hex.EncodeToString(seed)
		hash8 = hex.EncodeToString(pc.Hash(seed)[:8])
	}
	t.Line("win", claimRes == "ok", "win %d %d %d %d %d %s %s %s %s => %s %s %s %d %d %d %s",
		B, W, S, H, total, hex.EncodeToString(blockHash(usedBlock)), header.HashString(), seedHex, hash8,
		claimRes, mature, strings.ReplaceAll(proofRes, " ", "_"), req, usedBlock, idx, "end")
}

func main() {
	seed := flag.Uint64("seed", 1, "")
	n := flag.Int("n", 1500, "")
	out := flag.String("out", "c31.trace", "")
	flag.Parse()
	r := gen.New(*seed)
	t := gen.NewTrace(*out)
	w := setup(r)
	for t.Lines < *n {
		B := int64(1 + r.Intn(6))
		if r.Chance(1, 5) {
			B = 4 // mainnet
		}
		if r.Chance(1, 12) {
			B = int64(10 + r.Intn(40))
		}
		W := int64(1 + r.Intn(4))
		if r.Chance(1, 5) {
			W = 3 // mainnet
		}
		// session heights are 1 mod B
		S := int64(r.Intn(30))*B + 1
		if r.Chance(1, 8) {
			S = int64(r.Intn(int(25000/B)))*B + 1 // below the codec switch height 30024 (amino-stored records)
		}
		total := int64(1 + r.Intn(40))
		P := S + W*B
		// every height in and around the window: from two before the session end to three after P
		for H := S + B - 3; H <= P+3 && t.Lines < *n; H++ {
			if H < 1 {
				continue
			}
			w.one(t, B, W, S, H, total)
		}
	}
	t.Close(nil)
}
