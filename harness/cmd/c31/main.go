// c31: drives the real x/pocketcore keeper (ValidateClaim, ClaimIsMature, ValidateProof ->
// getPseudorandomIndex -> Context.GetPrevBlockHash) on a MemDB-backed multistore over a grid of
// (blocks per session, claim submission window, session height, claim height); the trace is consumed by
// lean/Driver/C31.lean.
package main

import (
	"encoding/hex"
	"encoding/json"
	"flag"
	"fmt"
	"strings"
	"time"

	"github.com/pokt-network/pocket-core/codec"
	cdctypes "github.com/pokt-network/pocket-core/codec/types"
	"github.com/pokt-network/pocket-core/crypto"
	"github.com/pokt-network/pocket-core/store"
	sdk "github.com/pokt-network/pocket-core/types"
	appskeeper "github.com/pokt-network/pocket-core/x/apps/keeper"
	appstypes "github.com/pokt-network/pocket-core/x/apps/types"
	"github.com/pokt-network/pocket-core/x/auth"
	"github.com/pokt-network/pocket-core/x/gov"
	govtypes "github.com/pokt-network/pocket-core/x/gov/types"
	nodeskeeper "github.com/pokt-network/pocket-core/x/nodes/keeper"
	nodestypes "github.com/pokt-network/pocket-core/x/nodes/types"
	pckeeper "github.com/pokt-network/pocket-core/x/pocketcore/keeper"
	pc "github.com/pokt-network/pocket-core/x/pocketcore/types"
	amino "github.com/tendermint/go-amino"
	abci "github.com/tendermint/tendermint/abci/types"
	"github.com/tendermint/tendermint/libs/log"
	tmstore "github.com/tendermint/tendermint/store"
	tmtypes "github.com/tendermint/tendermint/types"
	dbm "github.com/tendermint/tm-db"
	"verifharness/internal/gen"
)

const chain = "0001"

// blockHash is the hash of block h in the synthetic chain: every height has its own hash, so the
// hash a computation used identifies the block.
func blockHash(h int64) []byte { return pc.Hash([]byte(fmt.Sprintf("verif-block-%d", h))) }

// headerAt is the header of block h: LastBlockId.Hash is the hash of block h-1, as in Tendermint.
func headerAt(h int64) abci.Header {
	return abci.Header{ChainID: "verif", Height: h, Time: time.Unix(1600000000+h, 0).UTC(),
		LastBlockId: abci.BlockID{Hash: blockHash(h - 1)}}
}

// recCtx records which heights GetPrevBlockHash is asked for and delegates to the real Context.
type baseCtx = sdk.Context

type recCtx struct {
	baseCtx
	asked *[]int64
}

func (c recCtx) GetPrevBlockHash(h int64) ([]byte, error) {
	*c.asked = append(*c.asked, h)
	return c.baseCtx.GetPrevBlockHash(h)
}

var _ sdk.Ctx = recCtx{}

type world struct {
	base    sdk.Context
	k       pckeeper.Keeper
	nk      nodeskeeper.Keeper
	appk    appskeeper.Keeper
	nodePub crypto.PublicKey
	appPub  crypto.PublicKey
	cache   *pc.CacheStorage
}

func setup(r *gen.R) *world {
	sdk.VbCCache = sdk.NewCache(1)
	sdk.InitCtxCache(4096)
	codec.TestMode = 0
	codec.UpgradeFeatureMap = map[string]int64{}
	keyAcc := sdk.NewKVStoreKey(auth.StoreKey)
	nodesKey := sdk.NewKVStoreKey(nodestypes.StoreKey)
	appsKey := sdk.NewKVStoreKey(appstypes.StoreKey)
	pocketKey := sdk.NewKVStoreKey(pc.StoreKey)
	db := dbm.NewMemDB()
	ms := store.NewCommitMultiStore(db, false, 5000000)
	ms.MountStoreWithDB(keyAcc, sdk.StoreTypeIAVL, db)
	ms.MountStoreWithDB(sdk.ParamsKey, sdk.StoreTypeIAVL, db)
	ms.MountStoreWithDB(nodesKey, sdk.StoreTypeIAVL, db)
	ms.MountStoreWithDB(appsKey, sdk.StoreTypeIAVL, db)
	ms.MountStoreWithDB(pocketKey, sdk.StoreTypeIAVL, db)
	ms.MountStoreWithDB(sdk.ParamsTKey, sdk.StoreTypeTransient, db)
	if err := ms.LoadLatestVersion(); err != nil {
		panic(err)
	}
	ctx := sdk.NewContext(ms, headerAt(1), false, log.NewNopLogger())
	cdc := codec.NewCodec(cdctypes.NewInterfaceRegistry())
	auth.RegisterCodec(cdc)
	gov.RegisterCodec(cdc)
	sdk.RegisterCodec(cdc)
	crypto.RegisterAmino(cdc.AminoCodec().Amino)
	maccPerms := map[string][]string{
		auth.FeeCollectorName:     nil,
		appstypes.StakedPoolName:  {auth.Burner, auth.Staking, auth.Minter},
		nodestypes.StakedPoolName: {auth.Burner, auth.Staking},
		govtypes.DAOAccountName:   {auth.Burner, auth.Staking},
	}
	ak := auth.NewKeeper(cdc, keyAcc, sdk.NewSubspace(auth.DefaultParamspace), maccPerms)
	nk := nodeskeeper.NewKeeper(cdc, nodesKey, ak, sdk.NewSubspace(nodestypes.DefaultParamspace), nodestypes.ModuleName)
	appk := appskeeper.NewKeeper(cdc, appsKey, nk, ak, nil, sdk.NewSubspace(appstypes.DefaultParamspace), appstypes.ModuleName)
	hb := pc.HostedBlockchains{M: map[string]pc.HostedBlockchain{chain: {ID: chain, URL: "http://localhost"}}}
	k := pckeeper.NewKeeper(pocketKey, cdc, ak, nk, appk, &hb, sdk.NewSubspace(pc.DefaultParamspace))
	appk.PocketKeeper = k
	appk.SetParams(ctx, appstypes.DefaultParams())
	nk.SetParams(ctx, nodestypes.DefaultParams())
	pp := pc.DefaultParams()
	pp.SupportedBlockchains = []string{chain}
	pp.SessionNodeCount = 1
	pp.MinimumNumberOfProofs = 1
	k.SetParams(ctx, pp)
	// one node and one app, both staked for the chain
	nodePriv := crypto.Ed25519PrivateKey{}.GenPrivateKey()
	_ = r
	nodePub := nodePriv.PublicKey()
	nodeAddr := sdk.Address(nodePub.Address())
	val := nodestypes.NewValidator(nodeAddr, nodePub, []string{chain}, "https://node.example:443", sdk.NewInt(15000000000), nodeAddr)
	nk.SetValidator(ctx, val)
	nk.SetStakedValidatorByChains(ctx, val)
	appPub := crypto.Ed25519PrivateKey{}.GenPrivateKey().PublicKey()
	app := appstypes.NewApplication(sdk.Address(appPub.Address()), appPub, []string{chain}, sdk.NewInt(10000000))
	app.MaxRelays = sdk.NewInt(1000000)
	appk.SetApplication(ctx, app)
	appk.SetStakedApplication(ctx, app)
	cs := &pc.CacheStorage{}
	cs.Init("", "", sdk.DefaultTestingPocketConfig().TendermintConfig.LevelDBOptions, 10000, true)
	pc.GlobalSessionCache = cs
	return &world{base: ctx, k: k, nk: nk, appk: appk, nodePub: nodePub, appPub: appPub, cache: cs}
}

func (w *world) ctxAt(h int64) sdk.Context { return w.base.WithBlockHeader(headerAt(h)) }

// cacheHeights makes PrevCtx / GetPrevBlockHash answer for the given heights from the context cache
// (the real code path when the context of a height is cached; no blockstore is present).
func (w *world) cacheHeights(lo, hi int64) {
	for h := lo; h <= hi; h++ {
		if h < 1 {
			continue
		}
		sdk.GlobalCtxCache.Add(fmt.Sprintf("%d", h), w.ctxAt(h))
	}
}

func try(f func() string) (s string) {
	defer func() {
		if r := recover(); r != nil {
			s = "PANIC"
		}
	}()
	return f()
}

func (w *world) setParams(B, W int64) {
	np := w.nk.GetParams(w.base)
	np.SessionBlockFrequency = B
	w.nk.SetParams(w.base, np)
	pp := w.k.GetParams(w.base)
	pp.ClaimSubmissionWindow = W
	w.k.SetParams(w.base, pp)
}

func ceilLog2(n int64) int {
	l := 0
	for v := int64(1); v < n; v <<= 1 {
		l++
	}
	return l
}

type prm struct{ B, W int64 }

// sessionCtxAt: a real context at height S whose state is a cache-wrapped branch of the live store in
// which the two parameters have their session-start values (never written back).
func (w *world) sessionCtxAt(base sdk.Context, S int64, ps prm) sdk.Context {
	cc, _ := base.WithBlockHeader(headerAt(S)).CacheContext()
	np := w.nk.GetParams(cc)
	np.SessionBlockFrequency = ps.B
	w.nk.SetParams(cc, np)
	pp := w.k.GetParams(cc)
	pp.ClaimSubmissionWindow = ps.W
	w.k.SetParams(cc, pp)
	return cc
}

// one: ps = parameters in the state at session start, pcl = live parameters when the claim is processed,
// ppr = live parameters when the proof is processed.
func (w *world) one(t *gen.Trace, ps, pcl, ppr prm, S, H, total int64) {
	B, W := ps.B, ps.W
	P := S + W*B
	scanH := P
	for _, x := range []prm{ps, pcl, ppr} {
		for _, y := range []prm{ps, pcl, ppr} {
			if S+x.W*y.B > scanH {
				scanH = S + x.W*y.B
			}
		}
	}
	scanH++
	lo, hi := S-2, scanH-1
	if H+2 > hi {
		hi = H + 2
	}
	if S+B+1 > hi {
		hi = S + B + 1
	}
	w.setParams(pcl.B, pcl.W)
	w.cacheHeights(lo, hi)
	sdk.GlobalCtxCache.Add(fmt.Sprintf("%d", S), w.sessionCtxAt(w.base, S, ps))
	nodeAddr := sdk.Address(w.nodePub.Address())
	header := pc.SessionHeader{ApplicationPubKey: w.appPub.RawString(), Chain: chain, SessionBlockHeight: S}
	pc.SetSession(pc.Session{SessionKey: pc.SessionKey(pc.Hash([]byte("k"))), SessionHeader: header, SessionNodes: pc.SessionNodes{nodeAddr}}, w.cache)
	root := pc.HashRange{Hash: pc.Hash([]byte("root")), Range: pc.Range{Lower: 0, Upper: 7777}}
	claim := pc.MsgClaim{SessionHeader: header, MerkleRoot: root, TotalProofs: total, FromAddress: nodeAddr, EvidenceType: pc.RelayEvidence}
	// 1. claim acceptance at height H
	claimRes := try(func() string {
		err := w.k.ValidateClaim(w.ctxAt(H), claim)
		switch {
		case err == nil:
			return "ok"
		case err.Code() == pc.CodeInvalidBlockHeightError:
			return "early"
		case err.Code() == pc.CodeExpiredProofsSubmissionError:
			return "expired"
		default:
			return fmt.Sprintf("other:%d", err.Code())
		}
	})
	// 2. maturity predicate at height H
	mature := try(func() string { return fmt.Sprint(w.k.ClaimIsMature(w.ctxAt(H), S)) })
	// 3. which block seeds the leaf selection, and the selected leaf (ValidateProof at height P+1)
	var asked []int64
	proofRes, idx := "", int64(-1)
	// 4. (before the parameters move on) the same proof path at the claim height H itself, in an honest world: the context cache holds only
	// contexts of past heights and the block store has no block >= H (a proof sent right behind its claim)
	earlyRes, earlyReq, earlyUsed, earlyIdx := "skip", int64(-1), int64(-1), int64(-1)
	if H > S && H >= 1 { // at H = S the session state IS the live state; below S there is no session state yet
		var easked []int64
		ectx := w.earlyCtx(H, S, ps)
		earlyRes, earlyIdx = w.scanProof(ectx, &easked, claim, header, S, P, total)
		if len(easked) >= 1 {
			earlyReq = easked[len(easked)-1]
		}
		if earlyRes == "ok" {
			got, _ := ectx.GetPrevBlockHash(earlyReq)
			for b := lo - 2; b <= hi+2; b++ {
				if hex.EncodeToString(blockHash(b)) == hex.EncodeToString(got) {
					earlyUsed = b
				}
			}
		}
	}
	// 5. the live parameters move to their proof-time values; ValidateProof at a height where every candidate
	// selecting block exists
	w.setParams(ppr.B, ppr.W)
	proofRes, idx = w.scanProof(w.ctxAt(scanH), &asked, claim, header, S, P, total)
	req := int64(-1)
	if len(asked) == 1 {
		req = asked[0]
	}
	// the hash the leaf selection must have used, if the entropy came from header `req`
	hash8, seedHex, usedBlock := "-", "-", int64(-1)
	if proofRes == "ok" {
		// identify the block whose hash was returned for `req`
		got, _ := recCtx{baseCtx: w.ctxAt(scanH), asked: &[]int64{}}.GetPrevBlockHash(req)
		for b := lo - 2; b <= hi+2; b++ {
			if hex.EncodeToString(blockHash(b)) == hex.EncodeToString(got) {
				usedBlock = b
			}
		}
		seed, _ := json.Marshal(struct {
			BlockHash string
			Header    string
		}{hex.EncodeToString(got), header.HashString()})
		seedHex = hex.EncodeToString(seed)
		hash8 = hex.EncodeToString(pc.Hash(seed)[:8])
	}
	t.Line("win", claimRes == "ok", "win %d %d %d %d %d %d %d %d %d %s %s %s %s => %s %s %s %d %d %d %s %d %d %d %s",
		ps.B, ps.W, pcl.B, pcl.W, ppr.B, ppr.W, S, H, total, hex.EncodeToString(blockHash(usedBlock)), header.HashString(), seedHex, hash8,
		claimRes, mature, strings.ReplaceAll(proofRes, " ", "_"), req, usedBlock, idx,
		strings.ReplaceAll(earlyRes, " ", "_"), earlyReq, earlyUsed, earlyIdx, "end")
}

// scanProof stores the claim and runs the real ValidateProof at the given context with every target index.
// "ok": exactly one index is not answered with InvalidProofs (that index is the selected leaf);
// "unavail": every call fails with an internal error (the selecting block hash cannot be obtained).
func (w *world) scanProof(base sdk.Context, asked *[]int64, claim pc.MsgClaim, header pc.SessionHeader, S, P, total int64) (string, int64) {
	nodeAddr := sdk.Address(w.nodePub.Address())
	idx := int64(-1)
	res := try(func() string {
		pctx := recCtx{baseCtx: base, asked: asked}
		stored := claim
		stored.ExpirationHeight = P + 1000
		if err := w.k.SetClaim(pctx, stored); err != nil {
			return "setclaim-err"
		}
		defer func() { _ = w.k.DeleteClaim(pctx, nodeAddr, header, pc.RelayEvidence) }()
		levels := ceilLog2(total)
		hrs := make([]pc.HashRange, levels)
		for i := range hrs {
			hrs[i] = pc.HashRange{Hash: pc.Hash([]byte{byte(i)}), Range: pc.Range{Lower: 0, Upper: 7777}}
		}
		leaf := pc.RelayProof{SessionBlockHeight: S, ServicerPubKey: w.nodePub.RawString(), Blockchain: chain,
			Token: pc.AAT{Version: "0.0.1", ApplicationPublicKey: w.appPub.RawString(), ClientPublicKey: w.appPub.RawString()}}
		nmatch, ninternal := 0, int64(0)
		for ti := int64(0); ti < total; ti++ {
			*asked = (*asked)[:0]
			msg := pc.MsgProof{MerkleProof: pc.MerkleProof{TargetIndex: ti, HashRanges: hrs, Target: pc.HashRange{Hash: pc.Hash([]byte("t")), Range: pc.Range{Lower: 0, Upper: 7777}}},
				Leaf: leaf, EvidenceType: pc.RelayEvidence}
			code := try(func() string {
				_, _, err := w.k.ValidateProof(pctx, msg)
				if err == nil {
					return "nil"
				}
				if err.Code() == sdk.CodeInternal {
					return "internal"
				}
				return fmt.Sprint(err.Code())
			})
			if code == "internal" {
				ninternal++
				continue
			}
			if code != fmt.Sprint(pc.CodeInvalidProofsError) {
				nmatch++
				idx = ti
			}
			if len(*asked) != 1 {
				return fmt.Sprintf("asked:%v", *asked)
			}
		}
		if ninternal == total {
			return "unavail"
		}
		if nmatch != 1 || ninternal != 0 {
			return fmt.Sprintf("matches:%d,internal:%d", nmatch, ninternal)
		}
		return "ok"
	})
	return res, idx
}

// earlyCtx: a context at height H whose world is honest: the context cache knows past heights only and
// the (real, empty) block store has no block at all, so nothing about heights > H can be looked up.
func (w *world) earlyCtx(H, S int64, ps prm) sdk.Context {
	late := sdk.GlobalCtxCache
	sdk.InitCtxCache(1024)
	ctx := sdk.NewContext(w.base.MultiStore(), headerAt(H), false, log.NewNopLogger()).WithBlockStore(tmstore.NewBlockStore(dbm.NewMemDB()))
	lo := S - 2
	if lo < 1 {
		lo = 1
	}
	for h := lo; h < H; h++ {
		sdk.GlobalCtxCache.Add(fmt.Sprintf("%d", h), ctx.WithBlockHeader(headerAt(h)))
	}
	if S < H && S >= lo {
		sdk.GlobalCtxCache.Add(fmt.Sprintf("%d", S), w.sessionCtxAt(ctx, S, ps))
	}
	sdk.GlobalCtxCache = late
	return ctx
}

// ---------------------------------------------------------------- GetPrevBlockHash on its own

func around(h int64) []int64 {
	var xs []int64
	for d := int64(-12); d <= 4; d++ {
		if d != 0 {
			xs = append(xs, h+d)
		}
	}
	return xs
}

var metaCdc = func() *amino.Codec { c := amino.NewCodec(); tmtypes.RegisterBlockAmino(c); return c }()

func srcHash(src string, h int64) []byte { return pc.Hash([]byte(fmt.Sprintf("%s-%d", src, h))) }

// gpbh: the real Context.GetPrevBlockHash over a real tendermint block store holding the block metas
// of some past heights and a context cache holding the contexts of some past heights; every source
// (own header / cached context / block store, LastBlockId hash or the ConsensusHash fallback) answers
// with a hash of its own family so the answer tells where it came from.
func gpbh(r *gen.R, t *gen.Trace) {
	ctxH := int64(3 + r.Intn(60))
	late := sdk.GlobalCtxCache
	sdk.InitCtxCache(256)
	db := dbm.NewMemDB()
	var cached, stored, nils []string
	isNil := map[string]bool{}
	hdr := func(src string, h int64) abci.Header {
		x := abci.Header{ChainID: "verif", Height: h, LastBlockId: abci.BlockID{Hash: srcHash(src, h-1)}, ConsensusHash: srcHash("cons-"+src, h)}
		if r.Chance(1, 6) {
			x.LastBlockId.Hash = nil
			isNil[fmt.Sprintf("%s%d", src, h)] = true
			nils = append(nils, fmt.Sprintf("%s%d", src, h))
		}
		return x
	}
	ctx := sdk.NewContext(nil, hdr("hdr", ctxH), false, log.NewNopLogger()).WithBlockStore(tmstore.NewBlockStore(db))
	for h := ctxH - 6; h < ctxH; h++ {
		if h < 1 {
			continue
		}
		if r.Chance(1, 2) {
			sdk.GlobalCtxCache.Add(fmt.Sprintf("%d", h), ctx.WithBlockHeader(hdr("cache", h)))
			cached = append(cached, fmt.Sprint(h))
		}
		if r.Chance(2, 3) {
			ah := hdr("store", h)
			meta := tmtypes.BlockMeta{Header: tmtypes.Header{ChainID: "verif", Height: h,
				LastBlockID: tmtypes.BlockID{Hash: ah.LastBlockId.Hash}, ConsensusHash: ah.ConsensusHash}}
			db.Set([]byte(fmt.Sprintf("H:%v", h)), metaCdc.MustMarshalBinaryBare(&meta))
			stored = append(stored, fmt.Sprint(h))
		}
	}
	sdk.GlobalCtxCache = late
	join := func(xs []string) string {
		if len(xs) == 0 {
			return "-"
		}
		return strings.Join(xs, ",")
	}
	for h := ctxH - 7; h <= ctxH+4; h++ {
		if h < 1 {
			continue
		}
		res := try(func() string {
			got, err := ctx.GetPrevBlockHash(h)
			if err != nil {
				return "err"
			}
			// whose hash is it? (normally block h-1 from the source that answered; any other block is named too)
			for _, x := range append([]int64{h}, around(h)...) {
				for _, src := range []string{"hdr", "cache", "store"} {
					if hex.EncodeToString(got) == hex.EncodeToString(srcHash(src, x-1)) {
						return fmt.Sprintf("%s:%d", src, x-1)
					}
					if hex.EncodeToString(got) == hex.EncodeToString(srcHash("cons-"+src, x)) {
						return fmt.Sprintf("cons-%s:%d", src, x)
					}
				}
			}
			return "unknown-hash"
		})
		t.Line("gpbh", res != "err", "gpbh %d %d %s %s %s => %s", ctxH, h, join(cached), join(stored), join(nils), res)
	}
}

func main() {
	seed := flag.Uint64("seed", 1, "")
	n := flag.Int("n", 1500, "")
	out := flag.String("out", "c31.trace", "")
	flag.Parse()
	r := gen.New(*seed)
	t := gen.NewTrace(*out)
	w := setup(r)
	for t.Lines < *n {
		if r.Chance(1, 6) {
			gpbh(r, t)
			continue
		}
		B := int64(1 + r.Intn(6))
		if r.Chance(1, 5) {
			B = 4 // mainnet
		}
		if r.Chance(1, 12) {
			B = int64(10 + r.Intn(40))
		}
		W := int64(1 + r.Intn(4))
		if r.Chance(1, 5) {
			W = 3 // mainnet
		}
		// session heights are 1 mod B
		S := int64(r.Intn(30))*B + 1
		if r.Chance(1, 8) {
			S = int64(r.Intn(int(25000/B)))*B + 1 // below the codec switch height 30024 (amino-stored records)
		}
		total := int64(1 + r.Intn(40))
		// every 9th case: a relay count at a power-of-two boundary (2^k-1, 2^k, 2^k+1 for k = 8..10) — the
		// selection is hash mod total for EVERY total, and the index must stay below total.  Chosen
		// from the line counter (no PRNG draw: the streams of older seeds are unchanged).
		if t.Lines%9 == 4 {
			k := uint(8 + (t.Lines/9)%3)
			total = int64(1)<<k + int64((t.Lines/27)%3) - 1
		}
		P := S + W*B
		// governance may change the two parameters between session start, claim and proof
		ps := prm{B, W}
		pcl, ppr := ps, ps
		vary := func(p prm) prm {
			q := p
			if r.Bool() {
				q.W = p.W + int64(r.Intn(3)) - 1
				if q.W < 1 {
					q.W = 2
				}
				if q.W == p.W {
					q.W = p.W + 1
				}
			} else {
				q.B = p.B + int64(r.Intn(3)) - 1
				if q.B < 1 {
					q.B = 2
				}
				if q.B == p.B {
					q.B = p.B + 1
				}
			}
			return q
		}
		switch c := r.Intn(20); {
		case c < 5: // changed after the claim, before the proof
			ppr = vary(ps)
		case c < 8: // changed after session start, before the claim (and kept)
			pcl = vary(ps)
			ppr = pcl
		case c < 9:
			pcl = vary(ps)
			ppr = vary(pcl)
		}
		if pcl.W*pcl.B > W*B {
			P = S + pcl.W*pcl.B
		}
		// every height in and around the window: from two before the session end to three after P
		for H := S + B - 3; H <= P+3 && t.Lines < *n; H++ {
			if H < 1 {
				continue
			}
			w.one(t, ps, pcl, ppr, S, H, total)
		}
	}
	t.Close(nil)
}
