// c16: drives the real PocketCoreApp one DeliverTx at a time, resubmitting earlier byte strings
// unchanged and after semantics-preserving re-encodings (appended unknown field, padded length
// prefix, padded varint value, padded field tag, repeated scalar field) in the same and in later
// blocks, and writes the trace consumed by lean/Driver/C16.lean.  See harness/internal/antelab.
package main

import "verifharness/internal/antelab"

func main() {
	antelab.Run("c16", []antelab.Part{{Name: "modern", Share: 100}})
}
