// c09: historical views on the real rootmulti.Store / iavl.Store.
//
// A multistore with two IAVL substores (and one transient store, to take the `continue` branch of
// LoadLazyVersion) over MemDB is driven through a generated block history (writes, deletes,
// commits).  Historical views are opened in every way the code offers —
//
//	L  rootmulti.Store.LoadLazyVersion(h)              (what Context.PrevCtx uses)
//	C  rootmulti.Store.CacheMultiStoreWithVersion(h)   (what ABCI queries with a height use)
//	P  sdk.Context.PrevCtx(h)                          (real block store on MemDB; reads through ctx.KVStore)
//	I  MutableTree.GetImmutable(h) per substore        (immutable trees; via the verif hook)
//	Q  rootmulti.Store.Query("/<store>/key", height h) (not held: one-shot)
//
// — and are *kept open* while the working multistore is written, committed and other heights are
// opened and read.  Every read through a view (Get, Has, drained Iterator/ReverseIterator,
// iterators that are opened, left open across later writes/commits and then advanced step by
// step) is written to the trace with the implementation's answer; lean/Driver/C09.lean compares
// it with the model and with the map committed at the view's height.
package main

import (
	"flag"
	"fmt"
	"sort"
	"strings"
	"time"

	abci "github.com/tendermint/tendermint/abci/types"
	"github.com/tendermint/tendermint/libs/log"
	tmStore "github.com/tendermint/tendermint/store"
	tmtypes "github.com/tendermint/tendermint/types"
	dbm "github.com/tendermint/tm-db"

	"github.com/pokt-network/pocket-core/store/iavl"
	"github.com/pokt-network/pocket-core/store/rootmulti"
	"github.com/pokt-network/pocket-core/store/types"
	sdk "github.com/pokt-network/pocket-core/types"
	"verifharness/internal/gen"
)

const nStores = 2

type view struct {
	id     int
	kind   string // L | C | P | I
	h      int64
	ms     types.MultiStore             // L, C
	its    [nStores]*iavl.ImmutableTree // I
	opened int                          // op counter at open time
	ctx    sdk.Context                  // P
}

type openIter struct {
	id int
	it types.Iterator
}

type H struct {
	r      *gen.R
	t      *gen.Trace
	rs     *rootmulti.Store
	keys   [nStores]*types.KVStoreKey
	tkey   *types.TransientStoreKey
	bs     *tmStore.BlockStore
	lastID tmtypes.BlockID
	space  [][]byte
	extra  [][]byte
	views  []*view
	iters  []*openIter
	nextV  int
	nextI  int
	height int64
	ops    int
	// statistics
	readsAfterLaterWrites, itersAcrossWrites, viewsOpened int
	dirtySince                                            map[int]int
	// block plans (flag -plan, stage B / seed C09-b addition)
	planOn     bool
	plan       [nStores]int // 0 untouched | 1 delete-only | 2 set-only | 3 mixed, for the block being built
	present    [nStores]map[string]bool
	deleted    [nStores][][]byte // keys deleted in recent blocks (probed through every cached height)
	sweepReads int
}

func keyHex(b []byte) string {
	if len(b) == 0 {
		return "-"
	}
	return gen.Hex(b)
}

func try(f func() string) (s string) {
	defer func() {
		if r := recover(); r != nil {
			msg := strings.Map(func(c rune) rune {
				if c == ' ' || c == '\n' || c == '\t' {
					return '_'
				}
				return c
			}, fmt.Sprint(r))
			if len(msg) > 80 {
				msg = msg[:80]
			}
			s = "PANIC " + msg
		}
	}()
	return f()
}

func (h *H) key() []byte { return h.space[h.r.Intn(len(h.space))] }

func (h *H) probe() []byte {
	if h.r.Chance(1, 6) {
		return h.extra[h.r.Intn(len(h.extra))]
	}
	return h.key()
}

func (h *H) bound() []byte {
	switch h.r.Intn(6) {
	case 0, 1:
		return nil
	default:
		return h.probe()
	}
}

func (h *H) working(i int) types.KVStore { return h.rs.GetKVStore(h.keys[i]) }

// kv returns the KVStore of substore i as seen through view v (nil for kind I).
func (h *H) kv(v *view, i int) types.KVStore {
	if v.kind == "I" {
		return nil
	}
	if v.kind == "P" {
		return v.ctx.KVStore(h.keys[i])
	}
	return v.ms.GetKVStore(h.keys[i])
}

func renderKVs(ks, vs [][]byte) string {
	if len(ks) == 0 {
		return "-"
	}
	var sb strings.Builder
	for i := range ks {
		if i > 0 {
			sb.WriteByte(',')
		}
		sb.WriteString(keyHex(ks[i]))
		sb.WriteByte(':')
		sb.WriteString(gen.Hex(vs[i]))
	}
	return sb.String()
}

// ---------------------------------------------------------------- working multistore

func (h *H) doSet(i int, k, v []byte) {
	res := try(func() string {
		if err := h.working(i).Set(k, v); err != nil {
			return "err"
		}
		return "ok"
	})
	h.ops++
	h.t.Line("set", true, "set %d %s %s => %s", i, keyHex(k), gen.Hex(v), res)
}

func (h *H) doDel(i int, k []byte) {
	res := try(func() string {
		if err := h.working(i).Delete(k); err != nil {
			return "err"
		}
		return "ok"
	})
	h.ops++
	h.t.Line("rm", true, "rm %d %s => %s", i, keyHex(k), res)
}

func (h *H) doCommit() {
	res := try(func() string {
		// something in the transient store too: it must not leak anywhere
		ts := h.rs.GetKVStore(h.tkey)
		_ = ts.Set([]byte{0x01}, []byte{byte(h.height)})
		h.saveBlock(h.height + 1)
		id := h.rs.Commit()
		h.height = id.Version
		return fmt.Sprint(id.Version)
	})
	h.ops++
	h.t.Line("commit", true, "commit => %s", res)
}

// saveBlock puts block `height` into the block store, as Tendermint does before the block is
// executed and committed as store version `height` (PrevCtx needs its meta).
func (h *H) saveBlock(height int64) {
	lastCommit := tmtypes.NewCommit(h.lastID, nil)
	blk := &tmtypes.Block{
		Header: tmtypes.Header{
			ChainID: "verif", Height: height, Time: time.Unix(1600000000+height*60, 0).UTC(),
			LastBlockID:    h.lastID,
			ValidatorsHash: []byte("verif-validators-hash-0000000000"), NextValidatorsHash: []byte("verif-validators-hash-0000000000"),
			ConsensusHash: []byte("verif-consensus-hash-00000000000"),
		},
		LastCommit: lastCommit,
	}
	blk.Header.LastCommitHash = lastCommit.Hash()
	parts := blk.MakePartSet(65536)
	bid := tmtypes.BlockID{Hash: blk.Hash(), PartsHeader: parts.Header()}
	h.bs.SaveBlock(blk, parts, tmtypes.NewCommit(bid, nil))
	h.lastID = bid
}

// ---------------------------------------------------------------- views

func (h *H) openView(kind string, ht int64) {
	id := h.nextV
	res := try(func() string {
		v := &view{id: id, kind: kind, h: ht, opened: h.ops}
		switch kind {
		case "L":
			ms, err := h.rs.LoadLazyVersion(ht)
			if err != nil {
				return "err"
			}
			v.ms = (*ms).(types.MultiStore)
		case "P":
			// the context of the block being executed (height = committed version + 1)
			cur := sdk.NewContext(h.rs, abci.Header{ChainID: "verif", Height: h.height + 1}, false, log.NewNopLogger()).WithBlockStore(h.bs)
			prev, err := cur.PrevCtx(ht)
			if err != nil {
				return "err"
			}
			v.ctx = prev
			v.ms = prev.MultiStore()
		case "C":
			cms, err := h.rs.CacheMultiStoreWithVersion(ht)
			if err != nil {
				return "err"
			}
			v.ms = cms
		case "I":
			for i := 0; i < nStores; i++ {
				st := h.rs.GetCommitKVStore(h.keys[i]).(*iavl.Store)
				it, err := st.MutableTreeForVerif().GetImmutable(ht)
				if err != nil {
					return "err"
				}
				v.its[i] = it
			}
		}
		h.views = append(h.views, v)
		h.nextV++
		h.viewsOpened++
		return fmt.Sprintf("v%d", id)
	})
	h.t.Line("open"+kind, !strings.HasPrefix(res, "err"), "open %s %d => %s", kind, ht, res)
}

func (h *H) dropView() {
	if len(h.views) == 0 {
		return
	}
	j := h.r.Intn(len(h.views))
	v := h.views[j]
	h.views = append(h.views[:j:j], h.views[j+1:]...)
	h.t.Line("drop", true, "drop v%d => ok", v.id)
}

func (h *H) note(v *view) {
	if h.ops > v.opened {
		h.readsAfterLaterWrites++
	}
}

func (h *H) vGet(v *view, i int, k []byte) {
	h.note(v)
	res := try(func() string {
		if v.kind == "I" {
			_, val := v.its[i].Get(k)
			return gen.Hex(val)
		}
		val, err := h.kv(v, i).Get(k)
		if err != nil {
			return "err"
		}
		return gen.Hex(val)
	})
	h.t.Line("vget", true, "vget v%d %d %s => %s", v.id, i, keyHex(k), res)
}

func (h *H) vHas(v *view, i int, k []byte) {
	h.note(v)
	res := try(func() string {
		if v.kind == "I" {
			return fmt.Sprint(v.its[i].Has(k))
		}
		b, err := h.kv(v, i).Has(k)
		if err != nil {
			return "err"
		}
		return fmt.Sprint(b)
	})
	h.t.Line("vhas", true, "vhas v%d %d %s => %s", v.id, i, keyHex(k), res)
}

// vIter drains a whole range through the view.
func (h *H) vIter(v *view, i int, s, e []byte, asc bool) {
	h.note(v)
	res := try(func() string {
		var ks, vs [][]byte
		if v.kind == "I" {
			v.its[i].IterateRange(s, e, asc, func(k, val []byte) bool {
				ks = append(ks, k)
				vs = append(vs, val)
				return false
			})
			return renderKVs(ks, vs)
		}
		var it types.Iterator
		var err error
		if asc {
			it, err = h.kv(v, i).Iterator(s, e)
		} else {
			it, err = h.kv(v, i).ReverseIterator(s, e)
		}
		if err != nil {
			return "err"
		}
		defer it.Close()
		for ; it.Valid(); it.Next() {
			ks = append(ks, it.Key())
			vs = append(vs, it.Value())
		}
		return renderKVs(ks, vs)
	})
	a := 0
	if asc {
		a = 1
	}
	h.t.Line("viter", true, "viter v%d %d %s %s %d => %s", v.id, i, gen.Hex(s), gen.Hex(e), a, res)
}

// vOpenIter opens an iterator on the view and leaves it open. Valid() is called once so that the
// iterator's goroutine has started its traversal (the schedule between creation and the first
// Valid() is outside what C09 claims).
func (h *H) vOpenIter(v *view, i int, s, e []byte, asc bool) {
	if v.kind == "I" {
		return
	}
	id := h.nextI
	res := try(func() string {
		var it types.Iterator
		var err error
		if asc {
			it, err = h.kv(v, i).Iterator(s, e)
		} else {
			it, err = h.kv(v, i).ReverseIterator(s, e)
		}
		if err != nil {
			return "err"
		}
		valid := it.Valid()
		h.iters = append(h.iters, &openIter{id: id, it: it})
		h.nextI++
		h.dirtySince[id] = h.ops
		return fmt.Sprintf("it%d %v", id, valid)
	})
	a := 0
	if asc {
		a = 1
	}
	h.t.Line("vopen", true, "vopen v%d %d %s %s %d => %s", v.id, i, gen.Hex(s), gen.Hex(e), a, res)
}

// iterNext reads up to cnt entries from an open iterator.
func (h *H) iterNext(j int, cnt int) {
	oi := h.iters[j]
	if h.ops > h.dirtySince[oi.id] {
		h.itersAcrossWrites++
	}
	res := try(func() string {
		var ks, vs [][]byte
		for n := 0; n < cnt && oi.it.Valid(); n++ {
			ks = append(ks, oi.it.Key())
			vs = append(vs, oi.it.Value())
			oi.it.Next()
		}
		return fmt.Sprintf("%v %s", oi.it.Valid(), renderKVs(ks, vs))
	})
	h.t.Line("inext", true, "inext it%d %d => %s", oi.id, cnt, res)
}

func (h *H) iterClose(j int) {
	oi := h.iters[j]
	res := try(func() string { oi.it.Close(); return "ok" })
	h.iters = append(h.iters[:j:j], h.iters[j+1:]...)
	h.t.Line("iclose", true, "iclose it%d => %s", oi.id, res)
}

// query: ABCI store query with a height (no proof).
func (h *H) query(i int, ht int64, k []byte) {
	res := try(func() string {
		r := h.rs.Query(abci.RequestQuery{Path: fmt.Sprintf("/s%d/key", i), Data: k, Height: ht})
		if r.Code != 0 {
			return fmt.Sprintf("code%d", r.Code)
		}
		if r.Log != "" {
			return "novers"
		}
		return fmt.Sprintf("%d %s", r.Height, gen.Hex(r.Value))
	})
	h.t.Line("query", true, "query %d %d %s => %s", i, ht, keyHex(k), res)
}

func (h *H) wGet(i int, k []byte) {
	res := try(func() string {
		val, err := h.working(i).Get(k)
		if err != nil {
			return "err"
		}
		return gen.Hex(val)
	})
	h.t.Line("wget", true, "wget %d %s => %s", i, keyHex(k), res)
}

func (h *H) randomViewRead() {
	if len(h.views) == 0 {
		return
	}
	v := h.views[h.r.Intn(len(h.views))]
	i := h.r.Intn(nStores)
	switch h.r.Intn(10) {
	case 0, 1, 2, 3:
		h.vGet(v, i, h.probe())
	case 4, 5:
		h.vHas(v, i, h.probe())
	case 6, 7:
		h.vIter(v, i, h.bound(), h.bound(), h.r.Bool())
	default:
		if len(h.iters) < 6 {
			h.vOpenIter(v, i, h.bound(), h.bound(), h.r.Bool())
		} else {
			h.vIter(v, i, nil, nil, h.r.Bool())
		}
	}
}

// ---------------------------------------------------------------- block plans and cache-window sweeps

// newPlan draws, for the block about to be built, what may happen to each substore: nothing at all,
// deletions only, sets only, or both. Delete-only blocks and blocks that touch only the other
// substore are what a per-store snapshot cache must get right.
func (h *H) newPlan() {
	for i := 0; i < nStores; i++ {
		x := h.r.Intn(100)
		switch {
		case x < 25:
			h.plan[i] = 0
		case x < 55:
			h.plan[i] = 1
		case x < 70:
			h.plan[i] = 2
		default:
			h.plan[i] = 3
		}
		if h.plan[i] == 1 && len(h.present[i]) == 0 {
			h.plan[i] = 2
		}
	}
}

func (h *H) storesWith(a, b int) []int {
	var out []int
	for i := 0; i < nStores; i++ {
		if h.plan[i] == a || h.plan[i] == b {
			out = append(out, i)
		}
	}
	return out
}

func (h *H) presentKey(i int) []byte {
	ks := make([]string, 0, len(h.present[i]))
	for k := range h.present[i] {
		ks = append(ks, k)
	}
	sort.Strings(ks)
	return []byte(ks[h.r.Intn(len(ks))])
}

func (h *H) planSet() {
	c := h.storesWith(2, 3)
	if len(c) == 0 {
		h.planDel()
		return
	}
	i := c[h.r.Intn(len(c))]
	k := h.key()
	v := h.r.Bytes(1 + h.r.Intn(3))
	h.doSet(i, k, v)
	h.present[i][string(k)] = true
}

func (h *H) planDel() {
	c := h.storesWith(1, 3)
	if len(c) == 0 {
		return
	}
	i := c[h.r.Intn(len(c))]
	k := h.key()
	if len(h.present[i]) > 0 && h.r.Chance(4, 5) {
		k = h.presentKey(i)
	}
	h.doDel(i, k)
	if h.present[i][string(k)] {
		delete(h.present[i], string(k))
		h.deleted[i] = append(h.deleted[i], k)
		if len(h.deleted[i]) > 4 {
			h.deleted[i] = h.deleted[i][1:]
		}
	}
}

// windowSweep: after a commit, read EVERY height that a 12-deep height cache can still serve (and
// the one just below the window) through a fresh historical view — LoadLazyVersion,
// CacheMultiStoreWithVersion, PrevCtx in turn, plus a height query — completely: full iteration of
// every substore and a Get of each recently deleted key. The views are dropped again.
func (h *H) windowSweep() {
	lo := h.height - 13
	if lo < 1 {
		lo = 1
	}
	for ht := lo; ht < h.height; ht++ {
		kind := []string{"L", "C", "P"}[int(ht+h.height)%3]
		before := len(h.views)
		h.openView(kind, ht)
		if len(h.views) == before {
			continue
		}
		v := h.views[len(h.views)-1]
		for i := 0; i < nStores; i++ {
			h.vIter(v, i, nil, nil, (ht+int64(i))%2 == 0)
			for _, k := range h.deleted[i] {
				h.vGet(v, i, k)
				h.sweepReads++
			}
			h.sweepReads++
		}
		if len(h.deleted[0]) > 0 && ht%4 == 0 {
			h.query(0, ht, h.deleted[0][len(h.deleted[0])-1])
		}
		h.views = h.views[:len(h.views)-1]
		h.t.Line("drop", true, "drop v%d => ok", v.id)
	}
}

// midBlock (stage B addition): right after a write, open a view of the latest committed height through
// one of the lazy-load paths (LoadLazyVersion / CacheMultiStoreWithVersion / PrevCtx) or a height query,
// and read every store through it completely.
func (h *H) midBlock(pct int) {
	if pct == 0 || h.height < 1 || !h.r.Chance(pct, 100) {
		return
	}
	if h.r.Chance(1, 5) {
		// custom ABCI query at the latest height
		h.query(h.r.Intn(nStores), h.height, h.key())
		return
	}
	if len(h.views) >= 8 {
		h.dropView()
	}
	kind := []string{"L", "C", "P"}[h.r.Intn(3)]
	before := len(h.views)
	h.openView(kind, h.height)
	if len(h.views) == before {
		return
	}
	v := h.views[len(h.views)-1]
	for i := 0; i < nStores; i++ {
		h.vIter(v, i, nil, nil, true)
	}
	h.vGet(v, h.r.Intn(nStores), h.key())
}

func (h *H) fullViewCheck() {
	vs := append([]*view{}, h.views...)
	sort.Slice(vs, func(a, b int) bool { return vs[a].id < vs[b].id })
	for _, v := range vs {
		for i := 0; i < nStores; i++ {
			h.vIter(v, i, nil, nil, true)
			h.vIter(v, i, nil, nil, false)
		}
	}
}

func main() {
	seed := flag.Uint64("seed", 1, "")
	n := flag.Int("n", 2000, "number of steps")
	out := flag.String("out", "c09.trace", "")
	cacheOn := flag.Bool("hcache", false, "enable the height cache (MultiStoreMemoryCache) of the multistore")
	iavlCache := flag.Int64("cache", 0, "iavl node cache size (0 = package default)")
	nkeys := flag.Int("keys", 24, "key space size")
	ctxCache := flag.Int("ctxcache", 5, "size of sdk.GlobalCtxCache (PrevCtx contexts)")
	planOn := flag.Bool("plan", false, "(seed C09-b addition) per-block plans for every substore (untouched | delete-only | set-only | mixed) and, after every commit, a complete read of every height inside the height-cache window through fresh historical views")
	mid := flag.Int("mid", 0, "(stage B addition) percent of writes followed at once by a historical view of the LATEST committed height that is read out completely (mid-block read of the last height while the working stores are dirty)")
	flag.Parse()

	h := &H{r: gen.New(*seed), t: gen.NewTrace(*out), dirtySince: map[int]int{}, planOn: *planOn}
	for i := 0; i < nStores; i++ {
		h.present[i] = map[string]bool{}
		h.plan[i] = 3
	}
	db := dbm.NewMemDB()
	h.rs = rootmulti.NewStore(db, *cacheOn, *iavlCache)
	for i := 0; i < nStores; i++ {
		h.keys[i] = types.NewKVStoreKey(fmt.Sprintf("s%d", i))
		h.rs.MountStoreWithDB(h.keys[i], types.StoreTypeIAVL, nil)
	}
	h.tkey = types.NewTransientStoreKey("t")
	h.rs.MountStoreWithDB(h.tkey, types.StoreTypeTransient, nil)
	if err := h.rs.LoadLatestVersion(); err != nil {
		panic(err)
	}
	h.bs = tmStore.NewBlockStore(dbm.NewMemDB())
	sdk.InitCtxCache(*ctxCache)
	// key space: short colliding keys
	alphabet := []byte{0x00, 0x01, 0x7f, 0xff}
	for len(h.space) < *nkeys {
		l := 1 + len(h.space)%3
		k := make([]byte, l)
		x := len(h.space)
		for j := range k {
			k[j] = alphabet[x%len(alphabet)]
			x /= len(alphabet)
		}
		dup := false
		for _, e := range h.space {
			if string(e) == string(k) {
				dup = true
			}
		}
		if dup {
			k = append(k, byte(len(h.space)))
		}
		h.space = append(h.space, k)
	}
	h.extra = [][]byte{{0x00, 0x00, 0x00, 0x00}, {0x02}, {0x7f, 0x80}, {0xfe}, {0xff, 0xff, 0xff, 0xff}}

	hc := 0
	if *cacheOn {
		hc = 1
	}
	h.t.Line("config", false, "config hcache %d => ok", hc)
	for step := 0; step < *n; step++ {
		x := h.r.Intn(100)
		if h.planOn && x < 53 {
			// planned blocks: writes obey the block's plan; every commit is followed by a window sweep
			switch {
			case x < 30:
				h.planSet()
			case x < 45:
				h.planDel()
			default:
				h.doCommit()
				h.windowSweep()
				h.newPlan()
			}
			continue
		}
		switch {
		case x < 30:
			v := h.r.Bytes(1 + h.r.Intn(3))
			if h.r.Chance(1, 30) {
				v = []byte{}
			}
			h.doSet(h.r.Intn(nStores), h.key(), v)
			h.midBlock(*mid)
		case x < 45:
			h.doDel(h.r.Intn(nStores), h.key())
			h.midBlock(*mid)
		case x < 53:
			h.doCommit()
		case x < 62:
			// open a view of a committed height (sometimes one that does not exist)
			ht := int64(1 + h.r.Intn(int(h.height)+1))
			if h.r.Chance(1, 10) {
				ht = h.height + 1 + int64(h.r.Intn(2))
			}
			if len(h.views) >= 8 {
				h.dropView()
			}
			kind := []string{"L", "C", "I", "P"}[h.r.Intn(4)]
			if kind == "P" && ht == h.height+1 {
				// PrevCtx(current block height) is by definition the live context, not a historical view
				ht++
			}
			h.openView(kind, ht)
		case x < 66:
			if len(h.iters) > 0 {
				h.iterClose(h.r.Intn(len(h.iters)))
			}
		case x < 76:
			if len(h.iters) > 0 {
				h.iterNext(h.r.Intn(len(h.iters)), 1+h.r.Intn(3))
			}
		case x < 80:
			h.query(h.r.Intn(nStores), int64(h.r.Intn(int(h.height)+2)), h.probe())
		case x < 83:
			h.wGet(h.r.Intn(nStores), h.probe())
		default:
			h.randomViewRead()
		}
		if step%97 == 96 {
			h.fullViewCheck()
		}
	}
	for len(h.iters) > 0 {
		h.iterNext(0, 1000)
		h.iterClose(0)
	}
	h.fullViewCheck()
	h.t.Close(map[string]interface{}{
		"hcache": *cacheOn, "height": h.height, "views_opened": h.viewsOpened,
		"view_reads_after_later_writes": h.readsAfterLaterWrites, "window_sweep_reads": h.sweepReads, "iterator_advances_across_writes": h.itersAcrossWrites,
	})
}
