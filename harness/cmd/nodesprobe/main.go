// nodesprobe: one-off reproductions on the real app for the nodes ledger findings (not used by any check).
package main

import (
	"fmt"
	"time"

	sdk "github.com/pokt-network/pocket-core/types"
	nodesTypes "github.com/pokt-network/pocket-core/x/nodes/types"
	dbm "github.com/tendermint/tm-db"
	"verifharness/internal/chain"
)

func main() {
	chain.ModernGlobals()
	keys := []chain.Key{chain.KeyN(100), chain.KeyN(101), chain.KeyN(102)}
	owner := chain.KeyN(1000)
	gt := time.Date(2024, 1, 1, 0, 0, 0, 0, time.UTC)
	o := chain.GenesisOpts{ChainID: "probe", GenesisTime: gt, Accounts: append(keys, owner), Owner: owner, MinStake: 15000000000, Balance: 200000000000}
	o.Mutate = func(g *chain.Genesis) {
		g.Nodes.Validators = append(g.Nodes.Validators,
			nodesTypes.Validator{Address: keys[0].Addr, PublicKey: keys[0].Pub, Status: sdk.Staked, Chains: []string{"00"}, ServiceURL: "https://a.example:443", StakedTokens: sdk.NewInt(15000000000)},
			nodesTypes.Validator{Address: keys[1].Addr, PublicKey: keys[1].Pub, Status: sdk.Staked, Chains: []string{"0001"}, ServiceURL: "https://b.example:443", StakedTokens: sdk.NewInt(16000000000)},
			nodesTypes.Validator{Address: keys[2].Addr, PublicKey: keys[2].Pub, Status: sdk.Unstaking, Chains: []string{"0001"}, ServiceURL: "https://c.example:443", StakedTokens: sdk.NewInt(17000000000), UnstakingCompletionTime: gt.Add(time.Hour)})
	}
	n := chain.NewNode(chain.BuildGenesis(o), "probe", gt, dbm.NewMemDB(), dbm.NewMemDB(), dbm.NewMemDB(), false)
	n.InitChain()
	n.RunBlock(chain.Block{Time: gt.Add(time.Minute), Proposer: keys[0].Addr})
	n.RunBlock(chain.Block{Time: gt.Add(2 * time.Minute), Proposer: keys[0].Addr})
	ctx := n.Ctx()
	nk := n.App.VerifNodesKeeper()
	vs, cnt := nk.GetValidatorsByChain(ctx, "00")
	fmt.Printf("GetValidatorsByChain(\"00\") -> %d entries\n", cnt)
	for _, a := range vs {
		_, found := nk.GetValidator(ctx, a)
		fmt.Printf("  %x (len %d) record found=%v\n", []byte(a), len(a), found)
	}
	pool := nk.GetStakedTokens(ctx)
	sum := sdk.ZeroInt()
	for _, v := range nk.GetAllValidators(ctx) {
		fmt.Printf("val %s status=%d tokens=%s\n", v.Address, v.Status, v.StakedTokens)
		sum = sum.Add(v.StakedTokens)
	}
	fmt.Printf("pool=%s sum(staked+unstaking)=%s\n", pool, sum)
	// let the unstaking genesis node mature
	n.RunBlock(chain.Block{Time: gt.Add(2 * time.Hour), Proposer: keys[0].Addr})
	ctx = n.Ctx()
	sum = sdk.ZeroInt()
	for _, v := range nk.GetAllValidators(ctx) {
		sum = sum.Add(v.StakedTokens)
	}
	fmt.Printf("after maturity: pool=%s sum=%s balance(node2)=%s\n", nk.GetStakedTokens(ctx), sum, nk.GetBalance(ctx, keys[2].Addr))
}
