// c15: drives the real PocketCoreApp one DeliverTx at a time over the fee matrix (message type ×
// fee {below, equal, above, zero, two denominations, unsorted, duplicate, zero coin, other
// denomination, above balance} × signer balance × handler outcome) and writes the trace consumed by
// lean/Driver/C15.lean.  See harness/internal/antelab.
package main

import "verifharness/internal/antelab"

func main() {
	antelab.Run("c15", []antelab.Part{
		{Name: "modern", Share: 50},
		{Name: "feex3", Share: 25, FeeMulti: 3},
		{Name: "pertype", Share: 25, FeeMulti: 2, SendMulti: 5}, // send ×5, stake_validator ×2, everything else ×2
	})
}
