// c16.go (C16, byte-level half): a wire-level rewriter that produces re-encodings of a really signed
// StdTx and asks the REAL decoder whether they still decode to the same signed content.
//
//	c16 <class> <path> <b0> <b1> => <accepted> <same-content> <same-sign-bytes> <signature-verifies> <tx-hash-differs>
//
// b0 is the canonical encoding (DefaultTxEncoder), b1 the rewritten one.  `path` names the (nested)
// message the rewrite was applied to: "" the ProtoStdTx itself, "1" the Any, "1.2" the message inside
// Any.value, "2" the first fee coin, "3" the signature.
package main

import (
	stded "crypto/ed25519"
	"encoding/hex"
	"fmt"
	"os"
	"path/filepath"
	"reflect"
	"sort"
	"strings"

	"github.com/pokt-network/pocket-core/codec"
	"github.com/pokt-network/pocket-core/crypto"
	sdk "github.com/pokt-network/pocket-core/types"
	appstypes "github.com/pokt-network/pocket-core/x/apps/types"
	authtypes "github.com/pokt-network/pocket-core/x/auth/types"
	govtypes "github.com/pokt-network/pocket-core/x/gov/types"
	nodestypes "github.com/pokt-network/pocket-core/x/nodes/types"
	pctypes "github.com/pokt-network/pocket-core/x/pocketcore/types"
	"math/big"

	"github.com/tendermint/tendermint/crypto/tmhash"
	"verifharness/internal/gen"
	"verifharness/internal/wirerw"
)

// ---- the run ------------------------------------------------------------------------------------

type c16stat struct {
	tried, accepted, same, sign, sigok, hash, replay int
	example                                          [2]string
	paths                                            map[string]bool
}

func mkSignedTx(r *gen.R, chain string) (authtypes.StdTx, crypto.PrivateKey) {
	seed := r.Bytes(32)
	var arr [64]byte
	copy(arr[:], stded.NewKeyFromSeed(seed))
	priv := crypto.Ed25519PrivateKey(arr)
	from := sdk.Address(priv.PublicKey().Address())
	to := sdk.Address(r.Bytes(20))
	var msg sdk.ProtoMsg
	switch r.Intn(6) {
	case 0, 1:
		msg = &nodestypes.MsgSend{FromAddress: from, ToAddress: to, Amount: sdk.NewInt(int64(1 + r.Intn(1000000)))}
	case 2:
		msg = &govtypes.MsgDAOTransfer{FromAddress: from, ToAddress: to, Amount: sdk.NewInt(int64(r.Intn(5000))), Action: "dao_transfer"}
	case 3:
		msg = &appstypes.MsgStake{PubKey: priv.PublicKey(), Chains: []string{"0001", "0021"}, Value: sdk.NewInt(int64(1000000 + r.Intn(1000)))}
	case 4:
		msg = &pctypes.MsgClaim{SessionHeader: pctypes.SessionHeader{ApplicationPubKey: hex.EncodeToString(r.Bytes(32)), Chain: "0001", SessionBlockHeight: int64(1 + r.Intn(1000))},
			MerkleRoot: pctypes.HashRange{Hash: r.Bytes(32), Range: pctypes.Range{Lower: 0, Upper: uint64(1 + r.Intn(100000))}}, TotalProofs: int64(1 + r.Intn(1000)), FromAddress: from, EvidenceType: pctypes.RelayEvidence}
	default:
		msg = &govtypes.MsgChangeParam{FromAddress: from, ParamKey: "pos/StakeMinimum", ParamVal: []byte("\"15000000000\"")}
	}
	fee := sdk.NewCoins(sdk.NewCoin("upokt", sdk.NewInt(int64(10000+r.Intn(100)))))
	memo := r.Pick([]string{"", "m", "hello <world>", "é"})
	entropy := int64(r.U64() >> 1)
	if r.Chance(1, 4) {
		entropy = 0
	}
	sb, err := authtypes.StdSignBytes(chain, entropy, fee, msg, memo)
	if err != nil {
		panic(err)
	}
	sig, err := priv.Sign(sb)
	if err != nil {
		panic(err)
	}
	tx := authtypes.NewTx(msg, fee, authtypes.StdSignature{PublicKey: priv.PublicKey(), Signature: sig}, memo, entropy).(authtypes.StdTx)
	return tx, priv
}

func runC16(r *gen.R, t *gen.Trace, cdc *codec.Codec, d *dumper, n int, corpus, notes string) {
	const height = int64(9000000) // after the codec upgrade: protobuf, no amino fallback
	const chain = "c16-chain"
	enc, dec := authtypes.DefaultTxEncoder(cdc), authtypes.DefaultTxDecoder(cdc)
	stats := map[string]*c16stat{}
	var order []string
	stat := func(c string) *c16stat {
		if stats[c] == nil {
			stats[c] = &c16stat{paths: map[string]bool{}}
			order = append(order, c)
		}
		return stats[c]
	}
	dumpTx := func(x sdk.Tx) string {
		s, ok := x.(authtypes.StdTx)
		if !ok {
			return "not-stdtx"
		}
		return d.dumpValue("x.auth.ProtoStdTx", reflect.ValueOf(s))
	}
	judge := func(class, path string, b0, b1 []byte, tx0 authtypes.StdTx) {
		st := stat(class)
		st.tried++
		st.paths[path] = true
		v0 := dumpTx(tx0)
		acc, same, sign, sigok := "0", "0", "0", "0"
		res := try(func() string {
			x, err := dec(b1, height)
			if err != nil {
				return "rejected"
			}
			acc = "1"
			if dumpTx(x) == v0 {
				same = "1"
			}
			sx := x.(authtypes.StdTx)
			sb0, e0 := authtypes.StdSignBytes(chain, tx0.Entropy, tx0.Fee, tx0.Msg, tx0.Memo)
			sb1, e1 := authtypes.StdSignBytes(chain, sx.Entropy, sx.Fee, sx.Msg, sx.Memo)
			if e0 == nil && e1 == nil && string(sb0) == string(sb1) {
				sign = "1"
			}
			if e1 == nil && sx.Signature.PublicKey != nil && sx.Signature.PublicKey.VerifyBytes(sb1, sx.Signature.Signature) {
				sigok = "1"
			}
			return "ok"
		})
		if res == "PANIC" {
			acc = "P"
		}
		hash := "0"
		if string(tmhash.Sum(b0)) != string(tmhash.Sum(b1)) {
			hash = "1"
		}
		if acc == "1" {
			st.accepted++
		}
		if same == "1" {
			st.same++
		}
		if sign == "1" {
			st.sign++
		}
		if sigok == "1" {
			st.sigok++
		}
		if hash == "1" {
			st.hash++
		}
		if acc == "1" && same == "1" && sign == "1" && sigok == "1" && hash == "1" {
			st.replay++
			if st.example[0] == "" || len(b0) < len(st.example[0])/2 {
				st.example = [2]string{hex.EncodeToString(b0), hex.EncodeToString(b1)}
			}
		}
		p := path
		if p == "" {
			p = "top"
		}
		t.Line("c16/"+class, acc == "1", "c16 %s %s %s %s => %s %s %s %s %s", class, p, hex.EncodeToString(b0), hex.EncodeToString(b1), acc, same, sign, sigok, hash)
	}

	for i := 0; i < n; i++ {
		tx, _ := mkSignedTx(r, chain)
		b0, err := enc(tx, height)
		if err != nil {
			panic(err)
		}
		// sanity: the canonical bytes decode, verify and re-encode to themselves
		x0, derr := dec(b0, height)
		if derr != nil {
			panic(derr.Error())
		}
		tx0 := x0.(authtypes.StdTx)
		classes := wirerw.Classes()
		cl := classes[i%len(classes)]
		b1, path, ok := wirerw.Rewrite(r, cl.Name, b0)
		if !ok && cl.Name == "bigint-text-alias" {
			continue
		}
		judge(cl.Name, path, b0, b1, tx0)
	}

	runBigText(r, t, n/3)

	// per-class table and concrete examples for the chain-level half of C16
	writeC16Notes(order, stats, notes, corpus, chain, height)
}

// runBigText: BigInt.Unmarshal / BigDec.Unmarshal / BigInt.UnmarshalJSON on their own: decimal text
// of the range boundaries with both signs, base-0 aliases, malformed text, out-of-range text.
func runBigText(r *gen.R, t *gen.Trace, n int) {
	alphabet := []byte("0123456789abfxXoOB_+-")
	for i := 0; i < n; i++ {
		var txt string
		switch r.Intn(6) {
		case 5:
			txt = bigEdges[r.Intn(len(bigEdges))].String()
			if r.Chance(1, 6) {
				txt = strings.TrimPrefix(txt, "-") + fmt.Sprint(r.Intn(10)) // one digit too many
			}
		case 0:
			al := wirerw.BigTextAliases(fmt.Sprint(int64(r.Intn(100000)) - 50000))
			if len(al) > 0 {
				txt = al[r.Intn(len(al))]
			}
		case 1:
			x := new(big.Int).Lsh(big.NewInt(1), 255)
			x.Sub(x, big.NewInt(int64(r.Intn(3))-1))
			if r.Bool() {
				x.Neg(x)
			}
			txt = x.String()
		case 2:
			txt = fmt.Sprint(r.U64())
		default:
			b := make([]byte, r.Intn(7))
			for j := range b {
				b[j] = alphabet[r.Intn(len(alphabet))]
			}
			txt = string(b)
		}
		res := try(func() string {
			var x sdk.BigInt
			if len(txt) == 0 {
				if err := x.Unmarshal(nil); err != nil {
					return "ERR"
				}
				return "NOP"
			}
			if err := x.Unmarshal([]byte(txt)); err != nil {
				return "ERR"
			}
			return x.String()
		})
		// the other two decoders of the same text must agree with the proto custom type
		dec := try(func() string {
			var x sdk.BigDec
			if len(txt) == 0 {
				return "NOP"
			}
			if err := x.Unmarshal([]byte(txt)); err != nil {
				return "ERR"
			}
			return x.BigInt().String()
		})
		js := try(func() string {
			var x sdk.BigInt
			if err := x.UnmarshalJSON([]byte("\"" + txt + "\"")); err != nil {
				return "ERR"
			}
			return x.String()
		})
		t.Line("bigtext", res != "ERR", "bigtext %s => %s %s %s", hexs([]byte(txt)), res, dec, js)
	}
}

func writeC16Notes(order []string, stats map[string]*c16stat, notes, corpus, chain string, height int64) {
	sort.Strings(order)
	if notes != "" {
		var sb strings.Builder
		sb.WriteString("| class | applied at | tried | accepted by DefaultTxDecoder | same decoded content | same sign bytes | signature verifies | tx hash differs | => replayable re-encoding |\n|---|---|---|---|---|---|---|---|---|\n")
		for _, c := range order {
			s := stats[c]
			var ps []string
			for p := range s.paths {
				if p == "" {
					p = "top"
				}
				ps = append(ps, p)
			}
			sort.Strings(ps)
			fmt.Fprintf(&sb, "| %s | %s | %d | %d | %d | %d | %d | %d | %d |\n", c, strings.Join(ps, " "), s.tried, s.accepted, s.same, s.sign, s.sigok, s.hash, s.replay)
		}
		os.WriteFile(notes, []byte(sb.String()), 0o644)
	}
	if corpus != "" {
		os.MkdirAll(corpus, 0o755)
		for _, c := range order {
			s := stats[c]
			if s.example[0] == "" {
				continue
			}
			os.WriteFile(filepath.Join(corpus, c+".txt"), []byte(fmt.Sprintf("# class %s: canonical encoding, then a re-encoding accepted by the real decoder with equal content, equal sign bytes, valid signature and a different tx hash\n# chain id %q, decode height %d\n%s\n%s\n", c, chain, height, s.example[0], s.example[1])), 0o644)
		}
	}
}
