package main

import (
	"github.com/pokt-network/pocket-core/codec"
	"verifharness/internal/gen"
)

func runC16(r *gen.R, t *gen.Trace, cdc *codec.Codec, d *dumper, n int, corpus, notes string) {}
