// fill.go: type-directed value generation by reflection over the Go types that are stored or
// transmitted.  Modes: 0 zero (nil slices/maps, nil BigInt, zero time), 1 empty (non-nil empty
// slices/maps/strings), 2 maximal (extreme integers, long strings, several elements, nested),
// 3+ random mixtures of nil / empty / boundary / random values.
package main

import (
	"bytes"
	"encoding/hex"
	"math"
	"math/big"
	"reflect"
	"strings"
	"time"

	"github.com/pokt-network/pocket-core/crypto"
	sdk "github.com/pokt-network/pocket-core/types"
	appstypes "github.com/pokt-network/pocket-core/x/apps/types"
	govtypes "github.com/pokt-network/pocket-core/x/gov/types"
	nodestypes "github.com/pokt-network/pocket-core/x/nodes/types"
	pctypes "github.com/pokt-network/pocket-core/x/pocketcore/types"
	"github.com/tendermint/tendermint/crypto/ed25519"
	"github.com/tendermint/tendermint/crypto/secp256k1"
	"github.com/willf/bloom"
	"verifharness/internal/gen"
)

var tAddress = reflect.TypeOf(sdk.Address{})

const (
	modeZero  = 0
	modeEmpty = 1
	modeMax   = 2
	modeRand  = 3
)

type filler struct {
	r    *gen.R
	mode int
	// msgPick >= 0 forces the message type chosen for sdk.Msg fields (StdTx with each Msg type)
	msgPick int
	mapCap  int
	// multiMap: maps get 2..4 entries everywhere (lines that do not compare bytes with the model)
	multiMap bool
}

var msgCtors = []func() sdk.ProtoMsg{
	func() sdk.ProtoMsg { return &nodestypes.MsgSend{} },
	func() sdk.ProtoMsg { return &nodestypes.MsgStake{} },
	func() sdk.ProtoMsg { return &nodestypes.MsgBeginUnstake{} },
	func() sdk.ProtoMsg { return &nodestypes.MsgUnjail{} },
	func() sdk.ProtoMsg { return &nodestypes.LegacyMsgStake{} },
	func() sdk.ProtoMsg { return &nodestypes.LegacyMsgBeginUnstake{} },
	func() sdk.ProtoMsg { return &nodestypes.LegacyMsgUnjail{} },
	func() sdk.ProtoMsg { return &appstypes.MsgStake{} },
	func() sdk.ProtoMsg { return &appstypes.MsgBeginUnstake{} },
	func() sdk.ProtoMsg { return &appstypes.MsgUnjail{} },
	func() sdk.ProtoMsg { return &pctypes.MsgClaim{} },
	func() sdk.ProtoMsg { return &pctypes.MsgProof{} },
	func() sdk.ProtoMsg { return &govtypes.MsgChangeParam{} },
	func() sdk.ProtoMsg { return &govtypes.MsgDAOTransfer{} },
	func() sdk.ProtoMsg { return &govtypes.MsgUpgrade{} },
}

var strAlphabet = []string{"", "a", "0001", "upokt", "http://node:8081", "é✓", "<&>\"\\", "\n\t", strings.Repeat("z", 130), "0021", "stake", "dao_transfer"}

func (f *filler) str() string {
	switch f.mode {
	case modeZero, modeEmpty:
		return ""
	case modeMax:
		return strings.Repeat("Z", 200) + "é"
	}
	if f.r.Chance(1, 6) {
		// arbitrary *valid* UTF-8 (JSON cannot carry other strings: encoding/json replaces invalid
		// bytes by U+FFFD, see design-notes/C38.md)
		rs := make([]rune, 1+f.r.Intn(8))
		for i := range rs {
			rs[i] = rune([]int{0x20, 0x41, 0x7f, 0xe9, 0x2028, 0x1f600, 0x3c, 0x22, 0x5c, 0x09}[f.r.Intn(10)])
		}
		return string(rs)
	}
	return f.r.Pick(strAlphabet)
}

// mapKey: a key of a string-keyed map (reward delegators, per-chain multipliers).
func (f *filler) mapKey() string {
	// a small pool of addresses so that the same address comes up under several spellings
	addr := make([]byte, 20)
	seed := byte(f.r.Intn(4))
	for i := range addr {
		addr[i] = 0xa1 + seed*0x13 + byte(i)*0x1d
	}
	lower := hex.EncodeToString(addr)
	mixed := []byte(lower)
	for i := range mixed {
		if i%2 == 0 && mixed[i] >= 'a' && mixed[i] <= 'f' {
			mixed[i] -= 'a' - 'A'
		}
	}
	switch f.r.Intn(10) {
	case 0, 1, 2:
		return lower
	case 3, 4:
		return strings.ToUpper(lower)
	case 5:
		return string(mixed)
	case 6:
		return lower[:39] // not an address: odd number of digits
	case 7:
		return strings.ToUpper(lower) + "AB" // 21 bytes: not an address
	case 8:
		return f.r.Pick([]string{"", "aa", "AB", "zz", "é", "0001", "0021"})
	}
	return hex.EncodeToString(f.r.Bytes(20))
}

func (f *filler) n() int { // element count
	switch f.mode {
	case modeZero, modeEmpty:
		return 0
	case modeMax:
		return 4
	}
	return f.r.Intn(4)
}

func (f *filler) bytes(lenHint int) []byte {
	switch f.mode {
	case modeZero:
		return nil
	case modeEmpty:
		return []byte{}
	case modeMax:
		return f.r.Bytes(300)
	}
	switch f.r.Intn(8) {
	case 0:
		return nil
	case 1:
		return []byte{}
	case 2:
		return []byte{0}
	case 3:
		return f.r.Bytes(1 + f.r.Intn(40))
	}
	return f.r.Bytes(lenHint)
}

func (f *filler) i64() int64 {
	switch f.mode {
	case modeZero, modeEmpty:
		return 0
	case modeMax:
		if f.r.Bool() {
			return math.MaxInt64
		}
		return math.MinInt64
	}
	switch f.r.Intn(10) {
	case 0:
		return 0
	case 1:
		return 1
	case 2:
		return -1
	case 3:
		return math.MaxInt64
	case 4:
		return math.MinInt64
	case 5:
		return 127
	case 6:
		return 128
	case 7:
		return int64(f.r.U64())
	}
	return int64(f.r.Intn(100000))
}

// bigBoundaries: the edges of the BigInt/BigDec value range (|x| < 2^255, 77 decimal digits) and of
// the machine integers inside it, each with both signs.
func bigBoundaries() []*big.Int {
	pow := func(b, e int64) *big.Int { return new(big.Int).Exp(big.NewInt(b), big.NewInt(e), nil) }
	sub1 := func(x *big.Int) *big.Int { return new(big.Int).Sub(x, big.NewInt(1)) }
	pos := []*big.Int{
		big.NewInt(1), sub1(pow(2, 255)), pow(10, 76), sub1(pow(10, 76)), pow(2, 63), sub1(pow(2, 63)),
		pow(2, 64), sub1(pow(2, 254)), pow(10, 18), sub1(pow(10, 77-1)),
	}
	out := []*big.Int{big.NewInt(0)}
	for _, p := range pos {
		out = append(out, p, new(big.Int).Neg(p))
	}
	return out
}

var bigEdges = bigBoundaries()

func (f *filler) big() *big.Int {
	switch f.mode {
	case modeEmpty:
		return new(big.Int).Set(bigEdges[f.r.Intn(3)]) // 0, 1, -1
	case modeMax:
		// the extremes of the range, both signs: ±(2^255-1), ±10^76
		return new(big.Int).Set(bigEdges[3+f.r.Intn(4)])
	}
	switch f.r.Intn(9) {
	case 0, 1, 2:
		return new(big.Int).Set(bigEdges[f.r.Intn(len(bigEdges))])
	case 3:
		return big.NewInt(-int64(f.r.Intn(1000)))
	case 4:
		x := new(big.Int).SetBytes(f.r.Bytes(1 + f.r.Intn(31)))
		if f.r.Bool() {
			x.Neg(x)
		}
		return x
	}
	return big.NewInt(int64(f.r.Intn(2000000000)))
}

func (f *filler) pubKey(allowMulti bool) crypto.PublicKey {
	k := f.r.Intn(5)
	if f.mode != modeRand {
		k = f.mode
	}
	switch {
	case k == 0 || k == 3:
		var b [32]byte
		copy(b[:], f.r.Bytes(32))
		return crypto.Ed25519PublicKey(ed25519.PubKeyEd25519(b))
	case k == 1 || !allowMulti:
		var b [33]byte
		copy(b[:], f.r.Bytes(33))
		b[0] = 2
		return crypto.Secp256k1PublicKey(secp256k1.PubKeySecp256k1(b))
	default:
		n := 2 + f.r.Intn(2)
		ks := make([]crypto.PublicKey, n)
		for i := range ks {
			ks[i] = f.pubKey(false)
		}
		return crypto.PublicKeyMultiSignature{PublicKeys: ks}
	}
}

func (f *filler) timeVal() time.Time {
	switch f.mode {
	case modeZero, modeEmpty:
		return time.Time{}
	case modeMax:
		return time.Unix(253402300799, 999999999).UTC()
	}
	switch f.r.Intn(5) {
	case 0:
		return time.Time{}
	case 1:
		return time.Unix(0, 0).UTC()
	case 2:
		return time.Unix(-int64(f.r.Intn(1000000)), int64(f.r.Intn(1000000000))).UTC()
	}
	return time.Unix(1600000000+int64(f.r.Intn(100000000)), int64(f.r.Intn(1000000000))).UTC()
}

func (f *filler) proof(depth int) pctypes.Proof {
	if f.r.Chance(2, 3) || depth > 2 {
		var p pctypes.RelayProof
		f.fill(reflect.ValueOf(&p).Elem(), depth+1)
		return p
	}
	var c pctypes.ChallengeProofInvalidData
	f.fill(reflect.ValueOf(&c).Elem(), depth+1)
	return c
}

// fill sets v (addressable) to a generated value of its type.
func (f *filler) fill(v reflect.Value, depth int) {
	t := v.Type()
	switch t {
	case tBigInt:
		if f.mode == modeZero || (f.mode == modeRand && f.r.Chance(1, 8)) {
			v.Set(reflect.Zero(t)) // BigInt{} with nil *big.Int
			return
		}
		v.Set(reflect.ValueOf(sdk.NewIntFromBigInt(f.big())))
		return
	case tBigDec:
		if f.mode == modeZero {
			v.Set(reflect.Zero(t))
			return
		}
		raw := f.big()
		// BigDec arithmetic admits 255 + DecimalPrecisionBits = 315 bits for the scaled integer: the
		// edges of that range too (±2^255, ±(2^315-1)), with both signs
		if (f.mode == modeMax && f.r.Bool()) || (f.mode == modeRand && f.r.Chance(1, 8)) {
			raw = new(big.Int).Lsh(big.NewInt(1), []uint{255, 256, 314, 315}[f.r.Intn(4)])
			if f.r.Bool() {
				raw.Sub(raw, big.NewInt(1))
			}
			if raw.BitLen() > 315 {
				raw.Sub(raw, big.NewInt(1))
			}
			if f.r.Bool() {
				raw.Neg(raw)
			}
		}
		v.Set(reflect.ValueOf(sdk.NewDecFromBigIntWithPrec(raw, 18)))
		return
	case tTime:
		v.Set(reflect.ValueOf(f.timeVal()))
		return
	case tBloom:
		bf := bloom.New(uint(64+f.r.Intn(64)), uint(1+f.r.Intn(4)))
		for i := 0; i < f.n(); i++ {
			bf.Add(f.r.Bytes(8))
		}
		v.Set(reflect.ValueOf(*bf))
		return
	case tPublicKey:
		v.Set(reflect.ValueOf(f.pubKey(true)))
		return
	case tAddress:
		// the JSON form of an address is only defined for 20 bytes or none
		b := f.bytes(20)
		if len(b) != 0 && len(b) != 20 {
			one := len(b) == 1
			b = f.r.Bytes(20)
			if one { // boundary addresses: all-zero (the burn address is NOT the absent address), all-0xff, 00…01
				switch b[0] % 3 {
				case 0:
					b = make([]byte, 20)
				case 1:
					b = bytes.Repeat([]byte{0xff}, 20)
				default:
					b = append(make([]byte, 19), 1)
				}
			}
		}
		if b == nil {
			v.Set(reflect.Zero(t))
		} else {
			v.Set(reflect.ValueOf(sdk.Address(b)))
		}
		return
	case tMsg, tProtoMsg:
		k := f.msgPick
		if k < 0 {
			k = f.r.Intn(len(msgCtors))
		}
		m := msgCtors[k%len(msgCtors)]()
		f.fill(reflect.ValueOf(m).Elem(), depth+1)
		v.Set(reflect.ValueOf(m))
		return
	case tProof:
		v.Set(reflect.ValueOf(f.proof(depth)))
		return
	}
	if t.Kind() == reflect.Interface && t.Name() == "isProofI_Proof" {
		if f.mode == modeZero {
			return
		}
		p := f.proof(depth)
		pi := p.ToProto() // wrapper selection only; the payload was generated above
		v.Set(reflect.ValueOf(pi.Proof))
		return
	}
	switch t.Kind() {
	case reflect.Bool:
		v.SetBool(f.mode == modeMax || (f.mode == modeRand && f.r.Bool()))
	case reflect.Int64, reflect.Int:
		v.SetInt(f.i64())
	case reflect.Int32:
		v.SetInt(int64(int32(f.i64())))
	case reflect.Uint64:
		v.SetUint(uint64(f.i64()))
	case reflect.Uint32:
		v.SetUint(uint64(uint32(f.i64())))
	case reflect.Uint8: // sdk.StakeStatus
		v.SetUint(uint64(f.i64()) % 3)
	case reflect.String:
		v.SetString(f.str())
	case reflect.Slice:
		if t.Elem().Kind() == reflect.Uint8 {
			b := f.bytes(20)
			if b == nil {
				v.Set(reflect.Zero(t))
			} else {
				v.SetBytes(b)
			}
			return
		}
		n := f.n()
		if f.mode == modeZero || (f.mode == modeRand && n == 0 && f.r.Bool()) {
			v.Set(reflect.Zero(t))
			return
		}
		if depth > 3 && n > 1 {
			n = 1
		}
		s := reflect.MakeSlice(t, n, n)
		for i := 0; i < n; i++ {
			f.fill(s.Index(i), depth+1)
			if t.Elem().Kind() == reflect.Slice && s.Index(i).IsNil() && f.r.Bool() {
				s.Index(i).Set(reflect.MakeSlice(t.Elem(), 0, 0))
			}
		}
		v.Set(s)
	case reflect.Map:
		n := f.n()
		if f.mapCap > 0 && n > f.mapCap {
			n = f.mapCap
		}
		if f.multiMap {
			n = 2 + f.r.Intn(3)
		}
		if f.mode == modeZero || (f.mode == modeRand && n == 0 && f.r.Bool()) {
			v.Set(reflect.Zero(t))
			return
		}
		m := reflect.MakeMap(t)
		// delegator tables are keyed by hex addresses written by the sender: lower-, upper- and
		// mixed-case spellings, the same address twice under two spellings, and non-address keys
		pair := ""
		for i := 0; i < n; i++ {
			k := reflect.New(t.Key()).Elem()
			key := f.mapKey()
			if i == 1 && pair != "" && f.r.Chance(2, 3) {
				key = strings.ToUpper(pair)
				if key == pair {
					key = strings.ToLower(pair)
				}
			}
			if i == 0 {
				pair = key
			}
			k.SetString(key)
			e := reflect.New(t.Elem()).Elem()
			f.fill(e, depth+1)
			if m.MapIndex(k).IsValid() && e.Kind() == reflect.Uint32 {
				continue // keep the first share of an exact duplicate key
			}
			m.SetMapIndex(k, e)
		}
		v.Set(m)
	case reflect.Ptr:
		if f.mode == modeZero && t.Elem() != reflect.TypeOf(pctypes.SessionHeader{}) && !f.ptrRequired(t) {
			v.Set(reflect.Zero(t))
			return
		}
		if f.mode == modeRand && !f.ptrRequired(t) && f.r.Chance(1, 6) {
			v.Set(reflect.Zero(t))
			return
		}
		p := reflect.New(t.Elem())
		f.fill(p.Elem(), depth+1)
		v.Set(p)
	case reflect.Struct:
		if (t.Name() == "MsgStake" || t.Name() == "MsgProtoStake") && !f.multiMap {
			// x.nodes.MsgProtoStake has no stable_marshaler: with >= 2 map entries its bytes follow Go's
			// random map order, so byte comparisons are only meaningful for <= 1 entry
			old := f.mapCap
			f.mapCap = 1
			defer func() { f.mapCap = old }()
		}
		for i := 0; i < t.NumField(); i++ {
			sf := t.Field(i)
			if sf.PkgPath != "" || strings.HasPrefix(sf.Name, "XXX_") {
				continue
			}
			f.fill(v.Field(i), depth+1)
		}
	case reflect.Array:
		for i := 0; i < v.Len(); i++ {
			f.fill(v.Index(i), depth+1)
		}
	case reflect.Interface:
		// unknown interface: leave nil
	}
}

// pointers whose nil value makes the implementation's own ToProto dereference nil
func (f *filler) ptrRequired(t reflect.Type) bool {
	return t.Elem().Name() == "BaseAccount" || t.Elem().Name() == "SessionHeader"
}
