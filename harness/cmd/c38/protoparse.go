// protoparse.go: a small parser for /repo/proto/**/*.proto (proto3 + gogoproto options) that
// regenerates, on every run, the message schemas handed to the Lean driver as `schema` lines.
package main

import (
	"fmt"
	"os"
	"path/filepath"
	"sort"
	"strconv"
	"strings"
)

type pField struct {
	Name     string
	Num      int
	Type     string // as written (scalar name or message reference)
	Repeated bool
	MapKey   string // non-empty for map<K,V>
	MapVal   string
	Opts     map[string]string
	Oneof    string // name of the enclosing oneof, if any
}

type pMessage struct {
	Pkg    string
	Name   string // simple name
	Full   string // pkg.Name
	Fields []*pField
	Opts   map[string]string
	File   string
	GoPkg  string // option go_package of the file
}

type protoSet struct {
	Msgs map[string]*pMessage // by full name
	ByGo map[string]*pMessage // by "<go import path>.<GoTypeName>"
}

type ptok struct {
	k string // "id", "num", "str", "p"
	s string
}

func protoLex(src string) []ptok {
	var out []ptok
	i := 0
	for i < len(src) {
		c := src[i]
		switch {
		case c == ' ' || c == '\t' || c == '\n' || c == '\r':
			i++
		case c == '/' && i+1 < len(src) && src[i+1] == '/':
			for i < len(src) && src[i] != '\n' {
				i++
			}
		case c == '/' && i+1 < len(src) && src[i+1] == '*':
			j := strings.Index(src[i+2:], "*/")
			if j < 0 {
				i = len(src)
			} else {
				i += j + 4
			}
		case c == '"':
			j := i + 1
			var sb strings.Builder
			for j < len(src) && src[j] != '"' {
				if src[j] == '\\' && j+1 < len(src) {
					sb.WriteByte(src[j+1])
					j += 2
					continue
				}
				sb.WriteByte(src[j])
				j++
			}
			out = append(out, ptok{"str", sb.String()})
			i = j + 1
		case c >= '0' && c <= '9':
			j := i
			for j < len(src) && (src[j] >= '0' && src[j] <= '9') {
				j++
			}
			out = append(out, ptok{"num", src[i:j]})
			i = j
		case c == '_' || (c >= 'a' && c <= 'z') || (c >= 'A' && c <= 'Z'):
			j := i
			for j < len(src) && (src[j] == '_' || src[j] == '.' || (src[j] >= 'a' && src[j] <= 'z') || (src[j] >= 'A' && src[j] <= 'Z') || (src[j] >= '0' && src[j] <= '9')) {
				j++
			}
			out = append(out, ptok{"id", src[i:j]})
			i = j
		default:
			out = append(out, ptok{"p", string(c)})
			i++
		}
	}
	return out
}

type pparser struct {
	t    []ptok
	i    int
	pkg  string
	gopk string
	file string
	set  *protoSet
	made []*pMessage
}

func (p *pparser) peek() ptok {
	if p.i < len(p.t) {
		return p.t[p.i]
	}
	return ptok{"eof", ""}
}
func (p *pparser) next() ptok { t := p.peek(); p.i++; return t }
func (p *pparser) expect(s string) {
	t := p.next()
	if t.s != s {
		panic(fmt.Sprintf("%s: expected %q, got %q (token %d)", p.file, s, t.s, p.i))
	}
}
func (p *pparser) skipTo(s string) {
	for p.peek().k != "eof" && !(p.peek().k == "p" && p.peek().s == s) {
		p.i++
	}
	p.i++
}

// option name: `(gogoproto.nullable)` or `deprecated` (possibly with .suffix)
func (p *pparser) optName() string {
	t := p.next()
	name := t.s
	if t.k == "p" && t.s == "(" {
		name = p.next().s
		p.expect(")")
	}
	for p.peek().k == "id" && strings.HasPrefix(p.peek().s, ".") {
		name += p.next().s
	}
	return name
}

func (p *pparser) fieldOpts() map[string]string {
	opts := map[string]string{}
	if !(p.peek().k == "p" && p.peek().s == "[") {
		return opts
	}
	p.next()
	for {
		name := p.optName()
		p.expect("=")
		v := p.next()
		opts[name] = v.s
		t := p.next()
		if t.s == "]" {
			break
		}
		if t.s != "," {
			panic(fmt.Sprintf("%s: bad option list near %q", p.file, t.s))
		}
	}
	return opts
}

func (p *pparser) field(oneof string) *pField {
	f := &pField{Oneof: oneof}
	t := p.next()
	if t.s == "repeated" {
		f.Repeated = true
		t = p.next()
	} else if t.s == "optional" {
		t = p.next()
	}
	if t.s == "map" {
		p.expect("<")
		f.MapKey = p.next().s
		p.expect(",")
		f.MapVal = p.next().s
		p.expect(">")
		f.Type = "map"
	} else {
		f.Type = t.s
	}
	f.Name = p.next().s
	p.expect("=")
	n, err := strconv.Atoi(p.next().s)
	if err != nil {
		panic(fmt.Sprintf("%s: field number of %s: %v", p.file, f.Name, err))
	}
	f.Num = n
	f.Opts = p.fieldOpts()
	p.expect(";")
	return f
}

func (p *pparser) message(prefix string) {
	name := p.next().s
	m := &pMessage{Pkg: p.pkg, Name: prefix + name, Opts: map[string]string{}, File: p.file}
	m.Full = p.pkg + "." + m.Name
	p.expect("{")
	for {
		t := p.peek()
		if t.k == "eof" {
			panic(p.file + ": unterminated message " + name)
		}
		if t.k == "p" && t.s == "}" {
			p.next()
			break
		}
		if t.k == "p" && t.s == ";" {
			p.next()
			continue
		}
		switch t.s {
		case "option":
			p.next()
			n := p.optName()
			p.expect("=")
			m.Opts[n] = p.next().s
			p.expect(";")
		case "oneof":
			p.next()
			on := p.next().s
			p.expect("{")
			for !(p.peek().k == "p" && p.peek().s == "}") {
				if p.peek().s == "option" {
					p.skipTo(";")
					continue
				}
				m.Fields = append(m.Fields, p.field(on))
			}
			p.next()
		case "message":
			p.next()
			p.message(m.Name + ".")
		case "enum":
			p.next()
			p.next()
			p.skipTo("}")
		case "reserved":
			p.skipTo(";")
		default:
			m.Fields = append(m.Fields, p.field(""))
		}
	}
	p.set.Msgs[m.Full] = m
	p.made = append(p.made, m)
}

func parseProtoDir(dir string) (*protoSet, []string, error) {
	set := &protoSet{Msgs: map[string]*pMessage{}, ByGo: map[string]*pMessage{}}
	var files []string
	err := filepath.Walk(dir, func(path string, info os.FileInfo, err error) error {
		if err != nil {
			return err
		}
		if !info.IsDir() && strings.HasSuffix(path, ".proto") {
			files = append(files, path)
		}
		return nil
	})
	if err != nil {
		return nil, nil, err
	}
	sort.Strings(files)
	for _, f := range files {
		src, err := os.ReadFile(f)
		if err != nil {
			return nil, nil, err
		}
		p := &pparser{t: protoLex(string(src)), file: f, set: set}
		for p.peek().k != "eof" {
			t := p.next()
			switch t.s {
			case "syntax", "import":
				p.skipTo(";")
			case "option":
				if p.peek().s == "go_package" {
					p.next()
					p.expect("=")
					p.gopk = p.next().s
				}
				p.skipTo(";")
			case "package":
				p.pkg = p.next().s
				p.expect(";")
			case "message":
				p.message("")
			case "enum":
				p.next()
				p.skipTo("}")
			case ";":
			default:
				return nil, nil, fmt.Errorf("%s: unexpected top-level token %q", f, t.s)
			}
		}
		for _, m := range p.made {
			m.GoPkg = p.gopk
			set.ByGo[p.gopk+"."+strings.ReplaceAll(m.Name, ".", "_")] = m
		}
	}
	return set, files, nil
}

// resolve a message reference as protoc does: innermost package scope first.
func (s *protoSet) resolve(from *pMessage, ref string) *pMessage {
	ref = strings.TrimPrefix(ref, ".")
	scope := from.Pkg
	for {
		cand := ref
		if scope != "" {
			cand = scope + "." + ref
		}
		if m, ok := s.Msgs[cand]; ok {
			return m
		}
		if scope == "" {
			return nil
		}
		if i := strings.LastIndex(scope, "."); i >= 0 {
			scope = scope[:i]
		} else {
			scope = ""
		}
	}
}

// ---- schema text for the Lean driver -------------------------------------------------------
//   i<num>.<l|w|u|y|b>.<0|1>    varint field (int64/uint64, int32, uint32, uint8, bool), always-written flag
//   b<num>.<b|s|n>.<0|1>        bytes / string / customtype BigInt|BigDec
//   m<num>.<0|1>{f,f,...}       embedded message, nullable flag
//   r<num>.<b|s>                repeated bytes / string
//   R<num>{f,f,...}             repeated message (also map entries)
//   o{<num>{f,...}|<num>{...}}  oneof of message-typed members

// goIntKind (set by the harness) reports the integer kind of the generated Go struct field.
var goIntKind func(full string, num int) string

var scalarKinds = map[string]string{"int64": "l", "uint64": "l", "int32": "w", "uint32": "u", "bool": "b"}

const timestampSpec = "i1.l.0,i2.w.0"
const anySpec = "b1.s.0,b2.b.0"

type unsupported struct{ why string }

func (s *protoSet) specOfMessage(m *pMessage, depth int) string {
	if depth > 12 {
		panic(unsupported{"recursive message " + m.Full})
	}
	var parts []string
	i := 0
	for i < len(m.Fields) {
		f := m.Fields[i]
		if f.Oneof != "" {
			var alts []string
			j := i
			for j < len(m.Fields) && m.Fields[j].Oneof == f.Oneof {
				a := m.Fields[j]
				sub := s.resolve(m, a.Type)
				if sub == nil {
					panic(unsupported{"oneof member of non-message type " + a.Type})
				}
				alts = append(alts, fmt.Sprintf("%d{%s}", a.Num, s.specOfMessage(sub, depth+1)))
				j++
			}
			parts = append(parts, "o{"+strings.Join(alts, "|")+"}")
			i = j
			continue
		}
		parts = append(parts, s.specOfField(m, f, depth))
		i++
	}
	return strings.Join(parts, ",")
}

func (s *protoSet) specOfField(m *pMessage, f *pField, depth int) string {
	nullable := f.Opts["gogoproto.nullable"] != "false"
	if f.Type == "map" {
		if f.MapKey != "string" || f.MapVal != "uint32" {
			panic(unsupported{"map type " + f.MapKey + "," + f.MapVal})
		}
		return fmt.Sprintf("R%d{b1.s.1,i2.u.1}", f.Num)
	}
	if k, ok := scalarKinds[f.Type]; ok {
		if f.Repeated {
			panic(unsupported{"repeated scalar " + f.Type})
		}
		if _, cast := f.Opts["gogoproto.casttype"]; cast && goIntKind != nil {
			// a casttype changes the Go integer width the generated code truncates to
			if gk := goIntKind(m.Full, f.Num); gk != "" {
				k = gk
			}
		}
		return fmt.Sprintf("i%d.%s.0", f.Num, k)
	}
	switch f.Type {
	case "string", "bytes":
		kind := "b"
		if f.Type == "string" {
			kind = "s"
		}
		if ct, ok := f.Opts["gogoproto.customtype"]; ok {
			if !(strings.HasSuffix(ct, "BigInt") || strings.HasSuffix(ct, "BigDec")) || nullable || f.Repeated {
				panic(unsupported{"customtype " + ct})
			}
			return fmt.Sprintf("b%d.n.1", f.Num)
		}
		if f.Repeated {
			return fmt.Sprintf("r%d.%s", f.Num, kind)
		}
		return fmt.Sprintf("b%d.%s.0", f.Num, kind)
	case "google.protobuf.Timestamp":
		if f.Repeated || f.Opts["gogoproto.stdtime"] != "true" {
			panic(unsupported{"timestamp without stdtime"})
		}
		return fmt.Sprintf("m%d.%s{%s}", f.Num, b01(nullable), timestampSpec)
	case "google.protobuf.Any":
		if f.Repeated {
			panic(unsupported{"repeated Any"})
		}
		return fmt.Sprintf("m%d.%s{%s}", f.Num, b01(nullable), anySpec)
	case "sint32", "sint64", "fixed32", "fixed64", "sfixed32", "sfixed64", "double", "float":
		panic(unsupported{"scalar " + f.Type})
	}
	sub := s.resolve(m, f.Type)
	if sub == nil {
		panic(unsupported{"external message " + f.Type})
	}
	inner := s.specOfMessage(sub, depth+1)
	if f.Repeated {
		return fmt.Sprintf("R%d{%s}", f.Num, inner)
	}
	return fmt.Sprintf("m%d.%s{%s}", f.Num, b01(nullable), inner)
}

func b01(b bool) string {
	if b {
		return "1"
	}
	return "0"
}

// schemaText returns the spec of a message or "" + reason when the message uses something the
// model does not cover (those types are listed in the trace as `noschema` lines).
func (s *protoSet) schemaText(full string) (spec string, why string) {
	m, ok := s.Msgs[full]
	if !ok {
		return "", "unknown message"
	}
	defer func() {
		if r := recover(); r != nil {
			if u, ok := r.(unsupported); ok {
				spec, why = "", u.why
				return
			}
			panic(r)
		}
	}()
	return s.specOfMessage(m, 0), ""
}
