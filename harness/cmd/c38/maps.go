// maps.go: map-bearing messages (nodes.MsgStake, StdTx carrying it, Validator) with several
// delegator entries — upper/mixed-case hex keys, the same address under two spellings, non-address
// keys — encoded once and decoded many times from the SAME bytes.
//
//	mapstab <Type> <proto message> <value> => <distinct decoded values> <distinct sign bytes> <first decoded value> <json-decoded value>
//
// Specification judged by the driver: every decode of the same bytes gives the same value and the
// same sign bytes (Go map iteration order must not leak), and the value is the original one.
package main

import (
	"reflect"

	"github.com/pokt-network/pocket-core/codec"
	authtypes "github.com/pokt-network/pocket-core/x/auth/types"
	nodestypes "github.com/pokt-network/pocket-core/x/nodes/types"
	"verifharness/internal/gen"
)

const mapDecodes = 60

func runMapStability(r *gen.R, t *gen.Trace, cdc *codec.Codec, d *dumper, n int) {
	stakeIdx := -1
	for i, c := range msgCtors {
		if _, ok := c().(*nodestypes.MsgStake); ok {
			stakeIdx = i
		}
	}
	kinds := []struct {
		name string
		mk   func() interface{}
	}{
		{"nodes.MsgStake", func() interface{} { return &nodestypes.MsgStake{} }},
		{"StdTx", func() interface{} { return &authtypes.StdTx{} }},
		{"Validator", func() interface{} { return &nodestypes.Validator{} }},
	}
	for i := 0; i < n; i++ {
		k := kinds[i%len(kinds)]
		f := &filler{r: r, mode: modeRand, msgPick: stakeIdx, multiMap: true}
		px := k.mk()
		f.fill(reflect.ValueOf(px).Elem(), 0)
		full := d.protoNameOf(reflect.TypeOf(px))
		vx := try(func() string { return d.dumpValue(full, reflect.ValueOf(px)) })
		signOf := func(p interface{}) string {
			return try(func() string {
				switch x := p.(type) {
				case *nodestypes.MsgStake:
					return hexs(x.GetSignBytes())
				case *authtypes.StdTx:
					b, err := authtypes.StdSignBytes("mapstab", x.Entropy, x.Fee, x.Msg, x.Memo)
					if err != nil {
						return "ERR"
					}
					return hexs(b)
				default:
					b, err := cdc.MarshalJSON(p)
					if err != nil {
						return "ERR"
					}
					return hexs(b)
				}
			})
		}
		var B []byte
		enc := try(func() string {
			b, err := cdc.ProtoMarshalBinaryBare(px.(codec.ProtoMarshaler))
			if err != nil {
				return "ERR"
			}
			B = b
			return "ok"
		})
		if enc != "ok" {
			t.Line("mapstab/"+k.name, false, "mapstab %s %s %s => ERR 0 0 ERR ERR", k.name, full, vx)
			continue
		}
		dumps, signs := map[string]bool{}, map[string]bool{}
		first := ""
		for j := 0; j < mapDecodes; j++ {
			y := k.mk()
			v := try(func() string {
				if err := cdc.ProtoUnmarshalBinaryBare(B, y.(codec.ProtoMarshaler)); err != nil {
					return "ERR"
				}
				return d.dumpValue(full, reflect.ValueOf(y))
			})
			if j == 0 {
				first = v
			}
			dumps[v] = true
			signs[signOf(y)] = true
		}
		// the amino-JSON codec on the same value (keys must survive verbatim there too)
		vj := try(func() string {
			b, err := cdc.MarshalJSON(px)
			if err != nil {
				return "ERR"
			}
			w := k.mk()
			if err := cdc.UnmarshalJSON(b, w); err != nil {
				return "ERR"
			}
			return d.dumpValue(full, reflect.ValueOf(w))
		})
		t.Line("mapstab/"+k.name, true, "mapstab %s %s %s => %d %d %s %s", k.name, full, vx, len(dumps), len(signs), first, vj)
	}
}
