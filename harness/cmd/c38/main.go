// c38: drives pocket-core's real codecs (protobuf, legacy amino, amino-JSON, the upgrade-height
// switch, sign bytes) on type-directed generated values of every registered message/state type and
// writes the trace consumed by lean/Driver/C38.lean.  Schemas are regenerated from
// <repo>/proto/**/*.proto on every run and emitted as `schema` lines.
package main

import (
	"encoding/hex"
	"flag"
	"fmt"
	"os"
	"reflect"
	"sort"
	"strings"

	"github.com/gogo/protobuf/proto"
	"github.com/pokt-network/pocket-core/app"
	"github.com/pokt-network/pocket-core/codec"
	sdk "github.com/pokt-network/pocket-core/types"
	appstypes "github.com/pokt-network/pocket-core/x/apps/types"
	authtypes "github.com/pokt-network/pocket-core/x/auth/types"
	govtypes "github.com/pokt-network/pocket-core/x/gov/types"
	nodestypes "github.com/pokt-network/pocket-core/x/nodes/types"
	pctypes "github.com/pokt-network/pocket-core/x/pocketcore/types"
	"verifharness/internal/gen"
)

type entry struct {
	name     string             // Go-level type name (used in the PROPFAIL signature)
	mk       func() interface{} // pointer to a zero value
	amino    bool               // legacy amino binary is expected to round-trip this type
	json     bool               // amino-JSON is expected to round-trip this type
	msgPick  int                // for StdTx: which message type goes into Msg (-1 = random)
	variant  string
	noSwitch bool // never stored through the height-switched codec (node-local cache types)
}

func mkOf(proto interface{}) func() interface{} {
	t := reflect.TypeOf(proto)
	return func() interface{} { return reflect.New(t).Interface() }
}

func registry() []entry {
	var es []entry
	for i, c := range msgCtors {
		n := reflect.TypeOf(c()).Elem()
		hasMap := n == reflect.TypeOf(nodestypes.MsgStake{}) // go-amino has no map support
		es = append(es, entry{name: "StdTx", mk: mkOf(authtypes.StdTx{}), amino: !hasMap, json: true, msgPick: i,
			variant: strings.ReplaceAll(n.String(), "types.", pkgShort(n)+".")})
	}
	add := func(name string, v interface{}, amino, json bool) {
		es = append(es, entry{name: name, mk: mkOf(v), amino: amino, json: json, msgPick: -1, variant: "-"})
	}
	add("StdSignature", authtypes.StdSignature{}, true, true)
	add("BaseAccount", authtypes.BaseAccount{}, true, true)
	add("ModuleAccount", authtypes.ModuleAccount{}, true, true)
	add("Supply", authtypes.Supply{}, true, true)
	add("FeeMultiplier", authtypes.FeeMultiplier{}, true, true)
	add("FeeMultipliers", authtypes.FeeMultipliers{}, true, true)
	add("StdSignDoc", authtypes.StdSignDoc{}, true, false)
	add("Validator", nodestypes.Validator{}, false, true)
	add("LegacyValidator", nodestypes.LegacyValidator{}, true, true)
	add("ValidatorSigningInfo", nodestypes.ValidatorSigningInfo{}, true, true)
	add("nodes.MsgSend", nodestypes.MsgSend{}, true, true)
	add("nodes.MsgStake", nodestypes.MsgStake{}, false, true)
	add("nodes.MsgBeginUnstake", nodestypes.MsgBeginUnstake{}, true, true)
	add("nodes.MsgUnjail", nodestypes.MsgUnjail{}, true, true)
	add("nodes.LegacyMsgStake", nodestypes.LegacyMsgStake{}, true, true)
	add("nodes.LegacyMsgBeginUnstake", nodestypes.LegacyMsgBeginUnstake{}, true, true)
	add("nodes.LegacyMsgUnjail", nodestypes.LegacyMsgUnjail{}, true, true)
	add("Application", appstypes.Application{}, true, true)
	add("apps.MsgStake", appstypes.MsgStake{}, true, true)
	add("apps.MsgBeginUnstake", appstypes.MsgBeginUnstake{}, true, true)
	add("apps.MsgUnjail", appstypes.MsgUnjail{}, true, true)
	add("apps.Pool", appstypes.Pool{}, true, true)
	add("MsgClaim", pctypes.MsgClaim{}, true, true)
	add("MsgProof", pctypes.MsgProof{}, true, true)
	add("Evidence", pctypes.Evidence{}, false, false)
	add("ProtoEvidence", pctypes.ProtoEvidence{}, false, false)
	add("SessionHeader", pctypes.SessionHeader{}, true, true)
	add("Session", pctypes.Session{}, true, true)
	add("RelayProof", pctypes.RelayProof{}, true, true)
	add("ChallengeProofInvalidData", pctypes.ChallengeProofInvalidData{}, true, true)
	add("RelayResponse", pctypes.RelayResponse{}, true, true)
	add("AAT", pctypes.AAT{}, true, true)
	add("MerkleProof", pctypes.MerkleProof{}, true, true)
	add("HashRange", pctypes.HashRange{}, true, true)
	add("ProofI", pctypes.ProofI{}, false, false)
	for i := range es {
		switch es[i].name {
		case "ProofI", "Evidence", "ProtoEvidence":
			es[i].noSwitch = true
		}
	}
	add("MsgChangeParam", govtypes.MsgChangeParam{}, true, true)
	add("MsgDAOTransfer", govtypes.MsgDAOTransfer{}, true, true)
	add("MsgUpgrade", govtypes.MsgUpgrade{}, true, true)
	add("Upgrade", govtypes.Upgrade{}, true, true)
	add("ACLPair", govtypes.ACLPair{}, true, true)
	add("Coin", sdk.Coin{}, true, true)
	add("DecCoin", sdk.DecCoin{}, true, true)
	add("ProtoInt64", sdk.ProtoInt64{}, true, true)
	add("ProtoBool", sdk.ProtoBool{}, true, true)
	add("ProtoAddress", sdk.ProtoAddress{}, true, true)
	add("ProtoAddresses", sdk.ProtoAddresses{}, true, true)
	return es
}

func pkgShort(t reflect.Type) string {
	p := t.PkgPath()
	parts := strings.Split(p, "/")
	if len(parts) >= 2 {
		return parts[len(parts)-2]
	}
	return p
}

func try(f func() string) (s string) {
	defer func() {
		if r := recover(); r != nil {
			s = "PANIC"
			if os.Getenv("C38_DEBUG") != "" {
				fmt.Fprintf(os.Stderr, "panic: %v\n", r)
			}
		}
	}()
	return f()
}

func hexOr(b []byte, err error) string {
	if err != nil {
		if os.Getenv("C38_DEBUG") != "" {
			fmt.Fprintf(os.Stderr, "err: %v\n", err)
		}
		return "ERR"
	}
	if len(b) == 0 {
		return "-"
	}
	return hex.EncodeToString(b)
}

var switchHeights = []int64{1, 30023, 30024, 30025, -1, 9000000}

func main() {
	seed := flag.Uint64("seed", 1, "")
	n := flag.Int("n", 2000, "")
	out := flag.String("out", "c38.trace", "")
	repo := flag.String("repo", "/repo", "root of the pocket-core tree whose proto/ directory is parsed")
	mode := flag.String("mode", "rt", "rt | sign | c16")
	corpus := flag.String("corpus", "", "c16: directory to dump concrete examples into")
	notes := flag.String("notes", "", "c16: write the per-class result table to this file")
	flag.Parse()
	r := gen.New(*seed)
	t := gen.NewTrace(*out)

	set, files, err := parseProtoDir(*repo + "/proto")
	if err != nil {
		fmt.Fprintln(os.Stderr, "proto parse:", err)
		os.Exit(2)
	}
	app.MakeCodec()
	cdc := app.Codec()
	codec.TestMode = 0
	d := &dumper{set: set}
	goIntKind = goIntKindOf

	// schemas, regenerated from the .proto files of this run
	names := make([]string, 0, len(set.Msgs))
	for k := range set.Msgs {
		names = append(names, k)
	}
	sort.Strings(names)
	nschema := 0
	for _, k := range names {
		spec, why := set.schemaText(k)
		if why != "" {
			t.Line("noschema", false, "noschema %s %s => -", k, strings.ReplaceAll(why, " ", "_"))
			continue
		}
		if spec == "" {
			spec = "-"
		}
		t.Line("schema", false, "schema %s %s => -", k, spec)
		nschema++
	}
	// the interface registry as data: Any type URL -> schema of the registered message type
	for _, c := range msgCtors {
		m := c()
		t.Line("anyurl", false, "anyurl %s %s => -", hex.EncodeToString([]byte("/"+proto.MessageName(m))), d.protoNameOf(reflect.TypeOf(m)))
	}
	extra := map[string]interface{}{"proto_files": len(files), "schemas": nschema}

	switch *mode {
	case "rt":
		runRoundTrips(r, t, cdc, d, *n)
	case "sign":
		runSign(r, t, cdc, d, *n)
	case "c16":
		runC16(r, t, cdc, d, *n, *corpus, *notes)
	default:
		fmt.Fprintln(os.Stderr, "unknown mode")
		os.Exit(2)
	}
	t.Close(extra)
}

// switchConfig: GetCodecUpgradeHeight / IsAfterCodecUpgrade under generated values of the package
// globals (restored afterwards).
func switchConfig(r *gen.R, t *gen.Trace, cdc *codec.Codec, n int) {
	uh0, ouh0, tm0 := codec.UpgradeHeight, codec.OldUpgradeHeight, codec.TestMode
	defer func() {
		codec.UpgradeHeight, codec.OldUpgradeHeight, codec.TestMode = uh0, ouh0, tm0
		cdc.DisableUpgradeOverride()
	}()
	hs := []int64{0, 1, 49, 50, 51, 99, 100, 101, 30023, 30024, 30025, 45353, -1, -2, 9000000}
	for i := 0; i < n; i++ {
		uh := []int64{uh0, 100, 30024, 30023, 30025, 50, 1, 0}[r.Intn(8)]
		ouh := []int64{0, 50, 100, 101, 30024, 1}[r.Intn(6)]
		ov := []int{-1, -1, -1, 0, 1}[r.Intn(5)]
		tm := int64(0)
		if r.Chance(1, 6) {
			tm = -1
		}
		h := hs[r.Intn(len(hs))]
		codec.UpgradeHeight, codec.OldUpgradeHeight, codec.TestMode = uh, ouh, tm
		switch ov {
		case -1:
			cdc.DisableUpgradeOverride()
		case 0:
			cdc.SetUpgradeOverride(false)
		default:
			cdc.SetUpgradeOverride(true)
		}
		t.Line("isafter", ov == -1 && tm == 0, "isafter %d %d %d %s %d => %d %v", uh, ouh, ov, b01(tm <= -1), h,
			codec.GetCodecUpgradeHeight(), cdc.IsAfterCodecUpgrade(h))
	}
}

func runRoundTrips(r *gen.R, t *gen.Trace, cdc *codec.Codec, d *dumper, n int) {
	switchConfig(r, t, cdc, 80)
	runParams(r, t, cdc, 40+n/12)
	runBigText(r, t, 60+n/10)
	runMapStability(r, t, cdc, d, 36+n/40)
	runCrossHeights(r, t, cdc, d, 72+n/40)
	es := registry()
	for i := 0; i < n; i++ {
		e := es[i%len(es)]
		round := i / len(es)
		mode := round
		if mode > modeRand {
			mode = modeRand
		}
		f := &filler{r: r, mode: mode, msgPick: e.msgPick}
		px := e.mk()
		f.fill(reflect.ValueOf(px).Elem(), 0)
		full := d.protoNameOf(reflect.TypeOf(px))
		if full == "" || d.set.Msgs[full] == nil {
			t.Line("skip", false, "skip %s no-proto-message => -", e.name)
			continue
		}
		vx := try(func() string { return d.dumpValue(full, reflect.ValueOf(px)) })
		dump := func(p interface{}) string { return try(func() string { return d.dumpValue(full, reflect.ValueOf(p)) }) }

		// --- protobuf (current codec) ---
		var B []byte
		pB := try(func() string {
			b, err := cdc.ProtoMarshalBinaryBare(px.(codec.ProtoMarshaler))
			B = b
			return hexOr(b, err)
		})
		vy := "ERR"
		if pB != "ERR" && pB != "PANIC" {
			vy = try(func() string {
				y := e.mk()
				if err := cdc.ProtoUnmarshalBinaryBare(B, y.(codec.ProtoMarshaler)); err != nil {
					return "ERR"
				}
				return dump(y)
			})
		}
		// --- length-prefixed ---
		var L []byte
		pL := try(func() string {
			b, err := cdc.ProtoMarshalBinaryLengthPrefixed(px.(codec.ProtoMarshaler))
			L = b
			return hexOr(b, err)
		})
		vl := "ERR"
		if pL != "ERR" && pL != "PANIC" {
			vl = try(func() string {
				y := e.mk()
				if err := cdc.ProtoUnmarshalBinaryLengthPrefixed(L, y.(codec.ProtoMarshaler)); err != nil {
					return "ERR"
				}
				return dump(y)
			})
		}
		// --- legacy amino binary ---
		var A []byte
		pA := try(func() string {
			b, err := cdc.LegacyMarshalBinaryBare(px)
			A = b
			return hexOr(b, err)
		})
		vz := "ERR"
		if pA != "ERR" && pA != "PANIC" {
			vz = try(func() string {
				z := e.mk()
				if err := cdc.LegacyUnmarshalBinaryBare(A, z); err != nil {
					return "ERR"
				}
				return dump(z)
			})
		}
		// --- amino JSON ---
		var J []byte
		pJ := try(func() string {
			b, err := cdc.MarshalJSON(px)
			J = b
			return hexOr(b, err)
		})
		vw := "ERR"
		if pJ != "ERR" && pJ != "PANIC" {
			vw = try(func() string {
				w := e.mk()
				if err := cdc.UnmarshalJSON(J, w); err != nil {
					if os.Getenv("C38_DEBUG") != "" {
						fmt.Fprintf(os.Stderr, "json unmarshal %s: %v\n", e.name, err)
					}
					return "ERR"
				}
				return dump(w)
			})
		}
		// --- the upgrade-height switch ---
		var hs []string
		for _, h := range switchHeights {
			if e.noSwitch {
				break
			}
			var bz []byte
			c := try(func() string {
				b, err := cdc.MarshalBinaryBare(px, h)
				if err != nil {
					return "E"
				}
				bz = b
				switch {
				case pB != "ERR" && pB != "PANIC" && string(b) == string(B) && !(pA != "ERR" && string(b) == string(A)):
					return "p"
				case pA != "ERR" && pA != "PANIC" && string(b) == string(A) && !(pB != "ERR" && string(b) == string(B)):
					return "a"
				case string(b) == string(B) && string(b) == string(A):
					return "b" // both codecs give the same bytes
				}
				return "?"
			})
			vu := "ERR"
			if c != "E" && c != "PANIC" {
				vu = try(func() string {
					u := e.mk()
					if err := cdc.UnmarshalBinaryBare(bz, u, h); err != nil {
						return "ERR"
					}
					return dump(u)
				})
			}
			hs = append(hs, fmt.Sprintf("%d:%s:%s", h, c, vu))
		}
		mut := "="
		if after := dump(px); after != vx {
			mut = after
		}
		nontriv := vy != "ERR" && vy != "PANIC" && mode >= modeMax
		t.Line("rt/"+e.name, nontriv, "rt %s %s %s %s %s %s => P %s %s L %s %s A %s %s J %s %s H %s M %s",
			e.name, full, e.variant, b01(e.amino), b01(e.json), vx,
			pB, vy, pL, vl, pA, vz, jsonTok(pJ), vw, strings.Join(hs, " "), mut)
	}
}

func jsonTok(s string) string {
	if len(s) > 24 {
		return "ok"
	}
	return s
}
