// sign.go: canonical sign bytes.  Three kinds of lines:
//
//	sortjson <doc>                          => <types.SortJSON(doc) | ERR>
//	sortperm <doc1> <doc2>                  => <out1> <out2>   doc2 = doc1 with object members permuted at every depth
//	signbytes <chain> <entropy> <fee> <msg> <memo> => <StdSignBytes> <StdSignBytes again, maps rebuilt in another order>
//	    fee = fee.MarshalJSON(), msg = msg.GetSignBytes() of the same run (inputs of the sign document)
//	txsign <type> => <sign bytes of the tx> <sign bytes after proto round trip> <after amino round trip | ->
package main

import (
	"encoding/hex"
	"fmt"
	"reflect"
	"sort"
	"strings"

	"github.com/pokt-network/pocket-core/codec"
	sdk "github.com/pokt-network/pocket-core/types"
	authtypes "github.com/pokt-network/pocket-core/x/auth/types"
	nodestypes "github.com/pokt-network/pocket-core/x/nodes/types"
	"verifharness/internal/gen"
)

// ---- random JSON documents (integers only, valid UTF-8) ----

type jnode struct {
	kind string // null true false num str arr obj
	num  int64
	str  string
	arr  []*jnode
	keys []string
	vals []*jnode
}

var jsonStrs = []string{"", "a", "b", "aa", "ab", "chain_id", "fee", "msg", "é", "<&>", "\"q\"", "back\\slash", "\n\t", " ", "😀", "z\x7f", "0"}

func genJSON(r *gen.R, depth int, dup bool) *jnode {
	k := r.Intn(10)
	if depth >= 4 && k >= 6 {
		k = r.Intn(6)
	}
	switch {
	case k == 0:
		return &jnode{kind: "null"}
	case k == 1:
		return &jnode{kind: []string{"true", "false"}[r.Intn(2)]}
	case k <= 3:
		n := int64(r.Intn(2000)) - 1000
		if r.Chance(1, 5) {
			n = int64(r.U64() % (1 << 53))
			if r.Bool() {
				n = -n
			}
		}
		return &jnode{kind: "num", num: n}
	case k <= 5:
		return &jnode{kind: "str", str: r.Pick(jsonStrs)}
	case k <= 7:
		n := r.Intn(4)
		a := &jnode{kind: "arr"}
		for i := 0; i < n; i++ {
			a.arr = append(a.arr, genJSON(r, depth+1, dup))
		}
		return a
	default:
		n := r.Intn(5)
		o := &jnode{kind: "obj"}
		seen := map[string]bool{}
		for i := 0; i < n; i++ {
			key := r.Pick(jsonStrs)
			if seen[key] && !dup {
				continue
			}
			seen[key] = true
			o.keys = append(o.keys, key)
			o.vals = append(o.vals, genJSON(r, depth+1, dup))
		}
		return o
	}
}

func jsonQuote(s string) string {
	var sb strings.Builder
	sb.WriteByte('"')
	for _, c := range []byte(s) {
		switch {
		case c == '"':
			sb.WriteString("\\\"")
		case c == '\\':
			sb.WriteString("\\\\")
		case c == '\n':
			sb.WriteString("\\n")
		case c == '\t':
			sb.WriteString("\\t")
		case c < 0x20:
			fmt.Fprintf(&sb, "\\u%04x", c)
		default:
			sb.WriteByte(c)
		}
	}
	sb.WriteByte('"')
	return sb.String()
}

// render with optional whitespace and optional member permutation
func (j *jnode) text(r *gen.R, ws, perm bool) string {
	sp := func() string {
		if ws && r.Chance(1, 4) {
			return r.Pick([]string{" ", "\n", "\t", "  "})
		}
		return ""
	}
	switch j.kind {
	case "null", "true", "false":
		return j.kind
	case "num":
		return fmt.Sprint(j.num)
	case "str":
		return jsonQuote(j.str)
	case "arr":
		parts := make([]string, len(j.arr))
		for i, e := range j.arr {
			parts[i] = sp() + e.text(r, ws, perm) + sp()
		}
		return "[" + strings.Join(parts, ",") + "]"
	default:
		idx := make([]int, len(j.keys))
		for i := range idx {
			idx[i] = i
		}
		if perm {
			for i := len(idx) - 1; i > 0; i-- {
				k := r.Intn(i + 1)
				idx[i], idx[k] = idx[k], idx[i]
			}
		}
		parts := make([]string, len(idx))
		for n, i := range idx {
			parts[n] = sp() + jsonQuote(j.keys[i]) + sp() + ":" + sp() + j.vals[i].text(r, ws, perm)
		}
		return "{" + strings.Join(parts, ",") + "}"
	}
}

func hexs(b []byte) string {
	if len(b) == 0 {
		return "-"
	}
	return hex.EncodeToString(b)
}

func sortJSONReal(doc string) string {
	return try(func() string {
		out, err := sdk.SortJSON([]byte(doc))
		if err != nil {
			return "ERR"
		}
		return hexs(out)
	})
}

// rebuildMaps copies every map reachable from v into a fresh map filled in reverse key order, so
// that a second computation cannot accidentally share Go's iteration state.
func rebuildMaps(v reflect.Value) {
	switch v.Kind() {
	case reflect.Ptr, reflect.Interface:
		if !v.IsNil() {
			rebuildMaps(v.Elem())
		}
	case reflect.Struct:
		for i := 0; i < v.NumField(); i++ {
			if v.Type().Field(i).PkgPath == "" {
				rebuildMaps(v.Field(i))
			}
		}
	case reflect.Slice:
		for i := 0; i < v.Len(); i++ {
			rebuildMaps(v.Index(i))
		}
	case reflect.Map:
		if v.IsNil() || !v.CanSet() {
			return
		}
		keys := v.MapKeys()
		sort.Slice(keys, func(i, j int) bool { return keys[i].String() > keys[j].String() })
		m := reflect.MakeMapWithSize(v.Type(), v.Len())
		for _, k := range keys {
			m.SetMapIndex(k, v.MapIndex(k))
		}
		v.Set(m)
	}
}

func runSign(r *gen.R, t *gen.Trace, cdc *codec.Codec, d *dumper, n int) {
	chains := []string{"mainnet", "testnet", "", "loc<al>&\"x\"", "é-chain"}
	for i := 0; i < n; i++ {
		switch k := r.Intn(10); {
		case k < 3:
			doc := genJSON(r, 0, r.Chance(1, 4)).text(r, true, false)
			t.Line("sortjson", len(doc) > 8, "sortjson %s => %s", hexs([]byte(doc)), sortJSONReal(doc))
		case k < 5:
			j := genJSON(r, 0, false)
			d1, d2 := j.text(r, true, false), j.text(r, true, true)
			t.Line("sortperm", d1 != d2, "sortperm %s %s => %s %s", hexs([]byte(d1)), hexs([]byte(d2)), sortJSONReal(d1), sortJSONReal(d2))
		default:
			mode := modeRand
			if r.Chance(1, 8) {
				mode = r.Intn(3)
			}
			f := &filler{r: r, mode: mode, msgPick: i % len(msgCtors)}
			var tx authtypes.StdTx
			f.fill(reflect.ValueOf(&tx).Elem(), 0)
			chain := r.Pick(chains)
			var feeJSON, msgJSON []byte
			sb := func() string {
				return try(func() string {
					b, err := authtypes.StdSignBytes(chain, tx.Entropy, tx.Fee, tx.Msg, tx.Memo)
					if err != nil {
						return "ERR"
					}
					return hexs(b)
				})
			}
			pre := try(func() string {
				fj, err := tx.Fee.MarshalJSON()
				if err != nil {
					return "ERR"
				}
				feeJSON = fj
				msgJSON = tx.Msg.GetSignBytes()
				return "ok"
			})
			if pre != "ok" {
				t.Line("signbytes-skip", false, "skip signbytes %s => -", pre)
				continue
			}
			s1 := sb()
			rebuildMaps(reflect.ValueOf(&tx).Elem())
			s2 := sb()
			t.Line("signbytes", mode == modeRand, "signbytes %s %d %s %s %s => %s %s", hexs([]byte(chain)), tx.Entropy, hexs(feeJSON), hexs(msgJSON), hexs([]byte(tx.Memo)), s1, s2)

			// same decoded content -> same sign bytes: after a round trip through either binary codec
			signOf := func(x authtypes.StdTx) string {
				return try(func() string {
					b, err := authtypes.StdSignBytes(chain, x.Entropy, x.Fee, x.Msg, x.Memo)
					if err != nil {
						return "ERR"
					}
					return hexs(b)
				})
			}
			viaProto := try(func() string {
				bz, err := cdc.ProtoMarshalBinaryLengthPrefixed(&tx)
				if err != nil {
					return "ERR"
				}
				var y authtypes.StdTx
				if err := cdc.ProtoUnmarshalBinaryLengthPrefixed(bz, &y); err != nil {
					return "ERR"
				}
				return signOf(y)
			})
			viaAmino := try(func() string {
				bz, err := cdc.LegacyMarshalBinaryLengthPrefixed(&tx)
				if err != nil {
					return "-"
				}
				var y authtypes.StdTx
				if err := cdc.LegacyUnmarshalBinaryLengthPrefixed(bz, &y); err != nil {
					return "ERR"
				}
				return signOf(y)
			})
			if viaAmino == "PANIC" && reflect.TypeOf(tx.Msg) == reflect.TypeOf(&nodestypes.MsgStake{}) {
				viaAmino = "-" // go-amino has no map support (nodes.MsgStake.RewardDelegators)
			}
			t.Line("txsign", true, "txsign %s => %s %s %s", reflect.TypeOf(tx.Msg).Elem().String(), s1, viaProto, viaAmino)
		}
	}
}
