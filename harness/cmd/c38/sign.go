package main

import (
	"github.com/pokt-network/pocket-core/codec"
	"verifharness/internal/gen"
)

func runSign(r *gen.R, t *gen.Trace, cdc *codec.Codec, d *dumper, n int) {}
