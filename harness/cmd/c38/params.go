// params.go: parameter values have no protobuf schema — the params subspace stores every field of a
// module's Params struct on its own as amino-JSON (`cdc.MarshalJSON(value)` / `UnmarshalJSON`).
//
//	jrt <Type.Field> <mode> => <json | ERR> <equal 0|1> <canonical Go value before> <after>
//
// Equality is judged on a reflective rendering of the Go values in which nil and empty slices/maps
// are the same (the identification `normalize` makes for schema types).
package main

import (
	"fmt"
	"reflect"
	"sort"
	"strings"
	"time"

	"github.com/pokt-network/pocket-core/codec"
	sdk "github.com/pokt-network/pocket-core/types"
	appstypes "github.com/pokt-network/pocket-core/x/apps/types"
	authtypes "github.com/pokt-network/pocket-core/x/auth/types"
	govtypes "github.com/pokt-network/pocket-core/x/gov/types"
	nodestypes "github.com/pokt-network/pocket-core/x/nodes/types"
	pctypes "github.com/pokt-network/pocket-core/x/pocketcore/types"
	"verifharness/internal/gen"
)

func canonGo(v reflect.Value) string {
	if !v.IsValid() {
		return "invalid"
	}
	switch v.Type() {
	case tBigInt:
		if v.Field(0).IsNil() {
			return "0"
		}
		return v.Interface().(sdk.BigInt).String()
	case tBigDec:
		if v.Field(0).IsNil() {
			return "0.000000000000000000"
		}
		return v.Interface().(sdk.BigDec).String()
	case tTime:
		t := v.Interface().(time.Time)
		return fmt.Sprintf("t%d.%d", t.Unix(), t.Nanosecond())
	}
	switch v.Kind() {
	case reflect.Bool:
		return fmt.Sprint(v.Bool())
	case reflect.Int, reflect.Int8, reflect.Int16, reflect.Int32, reflect.Int64:
		return fmt.Sprint(v.Int())
	case reflect.Uint, reflect.Uint8, reflect.Uint16, reflect.Uint32, reflect.Uint64:
		return fmt.Sprint(v.Uint())
	case reflect.String:
		return fmt.Sprintf("%q", v.String())
	case reflect.Slice, reflect.Array:
		if v.Kind() == reflect.Slice && v.Type().Elem().Kind() == reflect.Uint8 {
			return fmt.Sprintf("x%x", v.Bytes())
		}
		parts := make([]string, v.Len())
		for i := range parts {
			parts[i] = canonGo(v.Index(i))
		}
		return "[" + strings.Join(parts, ",") + "]"
	case reflect.Map:
		keys := v.MapKeys()
		sort.Slice(keys, func(i, j int) bool { return keys[i].String() < keys[j].String() })
		parts := make([]string, len(keys))
		for i, k := range keys {
			parts[i] = canonGo(k) + ":" + canonGo(v.MapIndex(k))
		}
		return "{" + strings.Join(parts, ",") + "}"
	case reflect.Ptr, reflect.Interface:
		if v.IsNil() {
			return "nil"
		}
		return canonGo(v.Elem())
	case reflect.Struct:
		var parts []string
		for i := 0; i < v.NumField(); i++ {
			if v.Type().Field(i).PkgPath != "" {
				continue
			}
			parts = append(parts, v.Type().Field(i).Name+"="+canonGo(v.Field(i)))
		}
		return "(" + strings.Join(parts, " ") + ")"
	}
	return "?" + v.Type().String()
}

func runParams(r *gen.R, t *gen.Trace, cdc *codec.Codec, n int) {
	structs := []interface{}{&nodestypes.Params{}, &appstypes.Params{}, &pctypes.Params{}, &authtypes.Params{}}
	type item struct {
		name string
		typ  reflect.Type
	}
	var items []item
	for _, s := range structs {
		st := reflect.TypeOf(s).Elem()
		pkg := pkgShort(st)
		for i := 0; i < st.NumField(); i++ {
			items = append(items, item{pkg + ".Params." + st.Field(i).Name, st.Field(i).Type})
		}
	}
	items = append(items, item{"gov.ACL", reflect.TypeOf(govtypes.ACL{})}, item{"gov.Upgrade", reflect.TypeOf(govtypes.Upgrade{})},
		item{"types.Coins", reflect.TypeOf(sdk.Coins{})}, item{"gov.DAOOwner(Address)", reflect.TypeOf(sdk.Address{})})
	for i := 0; i < n; i++ {
		it := items[i%len(items)]
		mode := i / len(items)
		if mode > modeRand {
			mode = modeRand
		}
		f := &filler{r: r, mode: mode, msgPick: -1}
		px := reflect.New(it.typ)
		f.fill(px.Elem(), 0)
		before := canonGo(px.Elem())
		var J []byte
		js := try(func() string {
			b, err := cdc.MarshalJSON(px.Interface())
			if err != nil {
				return "ERR"
			}
			J = b
			return hexs(b)
		})
		after, eq := "-", "0"
		if js != "ERR" && js != "PANIC" {
			after = try(func() string {
				w := reflect.New(it.typ)
				if err := cdc.UnmarshalJSON(J, w.Interface()); err != nil {
					return "ERR"
				}
				return canonGo(w.Elem())
			})
			if after == before {
				eq = "1"
			}
		}
		clip := func(s string) string {
			s = strings.ReplaceAll(s, " ", "_")
			if len(s) > 300 {
				return s[:300] + "…"
			}
			return s
		}
		t.Line("jrt/"+it.name, mode >= modeMax, "jrt %s %d => %s %s %s %s", it.name, mode, js, eq, clip(before), clip(after))
	}
}
