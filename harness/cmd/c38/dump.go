// dump.go: renders a Go value as the schema-directed value text the Lean driver parses.  The dump
// walks the parsed .proto message and reads the Go struct by reflection (generated structs: via the
// `protobuf:"…"` tags; hand-written wrapper types such as StdTx/Validator: via a field-name table),
// so it does not go through any Marshal/ToProto code of the implementation under test.
//
//	int      decimal of the 64-bit word (uint64(x))
//	bytes    ~ (nil) | x<hex>            string: always x<hex>
//	message  ~ (nil pointer) | {v,v,…}   one value per schema field, in schema order
//	repeated ~ (nil) | [v,v,…]
//	oneof    ~ | @<num>:<message>
//	packed   &<schema>:<message>         bytes field holding the encoding of that message (Any.value)
package main

import (
	"encoding/hex"
	"fmt"
	"reflect"
	"sort"
	"strconv"
	"strings"
	"time"

	"github.com/gogo/protobuf/proto"
	cdctypes "github.com/pokt-network/pocket-core/codec/types"
	"github.com/pokt-network/pocket-core/crypto"
	sdk "github.com/pokt-network/pocket-core/types"
	appstypes "github.com/pokt-network/pocket-core/x/apps/types"
	authtypes "github.com/pokt-network/pocket-core/x/auth/types"
	nodestypes "github.com/pokt-network/pocket-core/x/nodes/types"
	pctypes "github.com/pokt-network/pocket-core/x/pocketcore/types"
	"github.com/willf/bloom"
)

type wrapSpec struct {
	proto  string
	fields map[string]int // Go field name -> proto field number
}

var wrappers = map[reflect.Type]wrapSpec{
	reflect.TypeOf(authtypes.StdTx{}):         {"x.auth.ProtoStdTx", map[string]int{"Msg": 1, "Fee": 2, "Signature": 3, "Memo": 4, "Entropy": 5}},
	reflect.TypeOf(authtypes.StdSignature{}):  {"x.auth.ProtoStdSignature", map[string]int{"PublicKey": 1, "Signature": 2}},
	reflect.TypeOf(authtypes.BaseAccount{}):   {"x.auth.ProtoBaseAccount", map[string]int{"Address": 1, "PubKey": 2, "Coins": 3}},
	reflect.TypeOf(authtypes.ModuleAccount{}): {"x.auth.ProtoModuleAccount", map[string]int{"BaseAccount": 1, "Name": 2, "Permissions": 3}},
	reflect.TypeOf(nodestypes.Validator{}): {"x.nodes.ProtoValidator", map[string]int{"Address": 1, "PublicKey": 2, "Jailed": 3, "Status": 4, "Chains": 5,
		"ServiceURL": 6, "StakedTokens": 7, "UnstakingCompletionTime": 8, "OutputAddress": 9, "RewardDelegators": 10}},
	reflect.TypeOf(nodestypes.LegacyValidator{}): {"x.nodes.LegacyProtoValidator", map[string]int{"Address": 1, "PublicKey": 2, "Jailed": 3, "Status": 4, "Chains": 5,
		"ServiceURL": 6, "StakedTokens": 7, "UnstakingCompletionTime": 8}},
	reflect.TypeOf(nodestypes.MsgStake{}):       {"x.nodes.MsgProtoStake", map[string]int{"PublicKey": 1, "Chains": 2, "Value": 3, "ServiceUrl": 4, "Output": 5, "RewardDelegators": 6}},
	reflect.TypeOf(nodestypes.LegacyMsgStake{}): {"x.nodes.LegacyMsgProtoStake", map[string]int{"PublicKey": 1, "Chains": 2, "Value": 3, "ServiceUrl": 4}},
	reflect.TypeOf(appstypes.MsgStake{}):        {"x.apps.MsgProtoStake", map[string]int{"PubKey": 1, "Chains": 2, "Value": 3}},
	reflect.TypeOf(appstypes.Application{}): {"x.apps.ProtoApplication", map[string]int{"Address": 1, "PublicKey": 2, "Jailed": 3, "Status": 4, "Chains": 5,
		"StakedTokens": 6, "MaxRelays": 7, "UnstakingCompletionTime": 8}},
	reflect.TypeOf(pctypes.MsgProof{}): {"x.pocketcore.MsgProtoProof", map[string]int{"MerkleProof": 1, "Leaf": 2, "EvidenceType": 3}},
	reflect.TypeOf(pctypes.Evidence{}): {"x.pocketcore.ProtoEvidence", map[string]int{"Bloom": 1, "SessionHeader": 2, "NumOfProofs": 3, "Proofs": 4, "EvidenceType": 5}},
}

var (
	tBigInt    = reflect.TypeOf(sdk.BigInt{})
	tBigDec    = reflect.TypeOf(sdk.BigDec{})
	tTime      = reflect.TypeOf(time.Time{})
	tBloom     = reflect.TypeOf(bloom.BloomFilter{})
	tAny       = reflect.TypeOf(cdctypes.Any{})
	tPublicKey = reflect.TypeOf((*crypto.PublicKey)(nil)).Elem()
	tMsg       = reflect.TypeOf((*sdk.Msg)(nil)).Elem()
	tProtoMsg  = reflect.TypeOf((*sdk.ProtoMsg)(nil)).Elem()
	tProof     = reflect.TypeOf((*pctypes.Proof)(nil)).Elem()
)

type dumper struct {
	set *protoSet
}

func hx(b []byte) string { return "x" + hex.EncodeToString(b) }

// protoNameOf: the proto message full name a Go value is encoded as (wrapper table, else the
// generated struct of the same name in the .proto file's go_package).
func (d *dumper) protoNameOf(t reflect.Type) string {
	for t.Kind() == reflect.Ptr {
		t = t.Elem()
	}
	if w, ok := wrappers[t]; ok {
		return w.proto
	}
	if m, ok := d.set.ByGo[t.PkgPath()+"."+t.Name()]; ok {
		return m.Full
	}
	return ""
}

// asProtoMessage returns a proto.Message view (pointer) of a message value.
func asProtoMessage(v reflect.Value) proto.Message {
	for v.Kind() == reflect.Interface {
		v = v.Elem()
	}
	if v.Kind() != reflect.Ptr {
		p := reflect.New(v.Type())
		p.Elem().Set(v)
		v = p
	}
	return v.Interface().(proto.Message)
}

func tagIndex(t reflect.Type) (byNum map[int]int, oneofs map[string]int) {
	byNum, oneofs = map[int]int{}, map[string]int{}
	for i := 0; i < t.NumField(); i++ {
		f := t.Field(i)
		if tag, ok := f.Tag.Lookup("protobuf"); ok {
			parts := strings.Split(tag, ",")
			if len(parts) >= 2 {
				if n, err := strconv.Atoi(parts[1]); err == nil {
					byNum[n] = i
				}
			}
		}
		if on, ok := f.Tag.Lookup("protobuf_oneof"); ok {
			oneofs[on] = i
		}
	}
	return
}

// dumpValue dumps a Go message value (struct or pointer to struct) as the proto message `full`.
func (d *dumper) dumpValue(full string, v reflect.Value) string {
	for v.Kind() == reflect.Ptr || v.Kind() == reflect.Interface {
		if v.IsNil() {
			return "~"
		}
		v = v.Elem()
	}
	m := d.set.Msgs[full]
	if m == nil {
		panic("dump: unknown proto message " + full)
	}
	t := v.Type()
	var get func(f *pField) (reflect.Value, bool)
	var oneofField func(name string) (reflect.Value, bool)
	if w, ok := wrappers[t]; ok {
		if w.proto != full {
			panic(fmt.Sprintf("dump: %s is encoded as %s, asked for %s", t, w.proto, full))
		}
		byNum := map[int]string{}
		for n, num := range w.fields {
			byNum[num] = n
		}
		get = func(f *pField) (reflect.Value, bool) {
			n, ok := byNum[f.Num]
			if !ok {
				return reflect.Value{}, false
			}
			fv := v.FieldByName(n)
			return fv, fv.IsValid()
		}
		oneofField = func(string) (reflect.Value, bool) { return reflect.Value{}, false }
	} else {
		byNum, oneofs := tagIndex(t)
		get = func(f *pField) (reflect.Value, bool) {
			i, ok := byNum[f.Num]
			if !ok {
				return reflect.Value{}, false
			}
			return v.Field(i), true
		}
		oneofField = func(name string) (reflect.Value, bool) {
			i, ok := oneofs[name]
			if !ok {
				return reflect.Value{}, false
			}
			return v.Field(i), true
		}
	}
	var parts []string
	i := 0
	for i < len(m.Fields) {
		f := m.Fields[i]
		if f.Oneof != "" {
			j := i
			for j < len(m.Fields) && m.Fields[j].Oneof == f.Oneof {
				j++
			}
			ov, ok := oneofField(f.Oneof)
			if !ok {
				panic(fmt.Sprintf("dump: %s has no oneof field %s", t, f.Oneof))
			}
			parts = append(parts, d.dumpOneof(m, m.Fields[i:j], ov))
			i = j
			continue
		}
		fv, ok := get(f)
		if !ok {
			panic(fmt.Sprintf("dump: %s has no Go field for proto field %s.%s = %d", t, full, f.Name, f.Num))
		}
		parts = append(parts, d.dumpField(m, f, fv))
		i++
	}
	return "{" + strings.Join(parts, ",") + "}"
}

func (d *dumper) dumpOneof(m *pMessage, alts []*pField, ov reflect.Value) string {
	if ov.Kind() == reflect.Interface {
		if ov.IsNil() {
			return "~"
		}
		ov = ov.Elem()
	}
	for ov.Kind() == reflect.Ptr {
		if ov.IsNil() {
			return "~"
		}
		ov = ov.Elem()
	}
	// wrapper struct with exactly one tagged field
	byNum, _ := tagIndex(ov.Type())
	for _, a := range alts {
		if idx, ok := byNum[a.Num]; ok {
			sub := d.set.resolve(m, a.Type)
			return fmt.Sprintf("@%d:%s", a.Num, d.dumpValue(sub.Full, ov.Field(idx)))
		}
	}
	panic("dump: oneof wrapper " + ov.Type().String() + " matches no member")
}

func rawInt(v reflect.Value) string {
	switch v.Kind() {
	case reflect.Bool:
		if v.Bool() {
			return "1"
		}
		return "0"
	case reflect.Int, reflect.Int8, reflect.Int16, reflect.Int32, reflect.Int64:
		return strconv.FormatUint(uint64(v.Int()), 10)
	case reflect.Uint, reflect.Uint8, reflect.Uint16, reflect.Uint32, reflect.Uint64:
		return strconv.FormatUint(v.Uint(), 10)
	}
	panic("dump: not an integer kind: " + v.Type().String())
}

func dumpBig(v reflect.Value) string {
	if v.Field(0).IsNil() { // the unexported *big.Int
		return "~"
	}
	switch x := v.Interface().(type) {
	case sdk.BigInt:
		return hx([]byte(x.BigInt().String()))
	case sdk.BigDec:
		return hx([]byte(x.BigInt().String()))
	}
	panic("dump: big type")
}

func dumpTime(t time.Time) string {
	return fmt.Sprintf("{%d,%d}", uint64(t.Unix()), uint64(int64(int32(t.Nanosecond()))))
}

func (d *dumper) dumpProofI(p reflect.Value) string {
	// pctypes.Proof (RelayProof | ChallengeProofInvalidData, value or pointer) as message ProofI
	for p.Kind() == reflect.Interface || p.Kind() == reflect.Ptr {
		if p.IsNil() {
			return "{~}"
		}
		p = p.Elem()
	}
	switch p.Type() {
	case reflect.TypeOf(pctypes.RelayProof{}):
		return "{@1:" + d.dumpValue("x.pocketcore.RelayProof", p) + "}"
	case reflect.TypeOf(pctypes.ChallengeProofInvalidData{}):
		return "{@2:" + d.dumpValue("x.pocketcore.ChallengeProofInvalidData", p) + "}"
	}
	panic("dump: unknown Proof implementation " + p.Type().String())
}

func (d *dumper) dumpField(m *pMessage, f *pField, v reflect.Value) string {
	t := v.Type()
	// --- Go-type driven special cases (wrapper structs) ---
	if t == tPublicKey || (t.Kind() == reflect.Interface && t.Implements(tPublicKey) && f.Type == "bytes") {
		if v.IsNil() {
			return "~"
		}
		return hx(v.Interface().(crypto.PublicKey).RawBytes())
	}
	if t == tBloom {
		bf := v.Interface().(bloom.BloomFilter)
		b, err := bf.GobEncode()
		if err != nil {
			panic(err)
		}
		return hx(b)
	}
	if (t == tMsg || t == tProtoMsg) && f.Type == "google.protobuf.Any" {
		if v.IsNil() {
			return "{x,~}"
		}
		inner := v.Elem()
		name := d.protoNameOf(inner.Type())
		url := "/" + proto.MessageName(asProtoMessage(inner))
		return "{" + hx([]byte(url)) + ",&" + name + ":" + d.dumpValue(name, inner) + "}"
	}
	if t == tProof {
		return d.dumpProofI(v)
	}
	if t.Kind() == reflect.Slice && t.Elem() == tProof {
		if v.IsNil() {
			return "~"
		}
		var el []string
		for i := 0; i < v.Len(); i++ {
			el = append(el, d.dumpProofI(v.Index(i)))
		}
		return "[" + strings.Join(el, ",") + "]"
	}
	// --- proto-type driven ---
	if f.Type == "map" {
		if v.IsNil() {
			return "~"
		}
		keys := make([]string, 0, v.Len())
		for _, k := range v.MapKeys() {
			keys = append(keys, k.String())
		}
		sort.Strings(keys)
		var el []string
		for _, k := range keys {
			el = append(el, fmt.Sprintf("{%s,%s}", hx([]byte(k)), rawInt(v.MapIndex(reflect.ValueOf(k)))))
		}
		return "[" + strings.Join(el, ",") + "]"
	}
	if _, ok := scalarKinds[f.Type]; ok {
		return rawInt(v)
	}
	one := func(ev reflect.Value) string {
		switch f.Type {
		case "string", "bytes":
			if _, ok := f.Opts["gogoproto.customtype"]; ok {
				return dumpBig(ev)
			}
			if ev.Kind() == reflect.String {
				return hx([]byte(ev.String()))
			}
			if ev.Kind() == reflect.Slice && ev.Type().Elem().Kind() == reflect.Uint8 {
				if ev.IsNil() {
					return "~"
				}
				return hx(ev.Bytes())
			}
			panic("dump: field " + f.Name + " has Go type " + ev.Type().String())
		case "google.protobuf.Timestamp":
			for ev.Kind() == reflect.Ptr {
				if ev.IsNil() {
					return "~"
				}
				ev = ev.Elem()
			}
			return dumpTime(ev.Interface().(time.Time))
		case "google.protobuf.Any":
			for ev.Kind() == reflect.Ptr {
				if ev.IsNil() {
					return "~"
				}
				ev = ev.Elem()
			}
			a := ev.Interface().(cdctypes.Any)
			val := "~"
			if a.Value != nil {
				val = hx(a.Value)
			}
			return "{" + hx([]byte(a.TypeUrl)) + "," + val + "}"
		}
		sub := d.set.resolve(m, f.Type)
		if sub == nil {
			panic("dump: unresolved type " + f.Type)
		}
		return d.dumpValue(sub.Full, ev)
	}
	if f.Repeated {
		if v.IsNil() {
			return "~"
		}
		var el []string
		for i := 0; i < v.Len(); i++ {
			el = append(el, one(v.Index(i)))
		}
		return "[" + strings.Join(el, ",") + "]"
	}
	return one(v)
}

// goIntKindOf looks the generated struct up in gogoproto's type registry and reports the width of
// the Go field carrying proto field `num` ("" when unknown).
func goIntKindOf(full string, num int) string {
	t := proto.MessageType(full)
	if t == nil {
		return ""
	}
	for t.Kind() == reflect.Ptr {
		t = t.Elem()
	}
	byNum, _ := tagIndex(t)
	i, ok := byNum[num]
	if !ok {
		return ""
	}
	switch t.Field(i).Type.Kind() {
	case reflect.Int, reflect.Int64, reflect.Uint, reflect.Uint64:
		return "l"
	case reflect.Int32:
		return "w"
	case reflect.Uint32:
		return "u"
	case reflect.Uint8:
		return "y"
	case reflect.Bool:
		return "b"
	}
	return ""
}
