// xheight.go: the upgrade-height switch across heights.  A value is encoded by
// Codec.MarshalBinaryBare / MarshalBinaryLengthPrefixed at height he and decoded by the matching
// Unmarshal at height hd for every he <= hd in {U-2 .. U+2}, U = GetCodecUpgradeHeight(), under three
// settings of the package globals (restored afterwards):
//
//	main      codec.UpgradeHeight = MaxInt64, TestMode = 0      (main net: U = UpgradeCodecHeight = 30024)
//	moved     codec.UpgradeHeight = 100,      TestMode = 0      (test nets move the upgrade: U = 100)
//	testmode  codec.UpgradeHeight = MaxInt64, TestMode = -1     (protobuf everywhere)
//
//	xh <cfg> <U> <Type> <proto message> <bare|lp> <value> => <proto round trip> <amino round trip> <he>:<hd>:<c>:<r> …
//
// c = which codec's bytes Marshal(he) produced (a amino, p proto, b both identical, ? neither, E error);
// r = y the decoded value equals the plain proto round trip, z the plain amino round trip, X another
// value, E error.
package main

import (
	"fmt"
	"math"
	"reflect"
	"strings"

	"github.com/pokt-network/pocket-core/codec"
	appstypes "github.com/pokt-network/pocket-core/x/apps/types"
	authtypes "github.com/pokt-network/pocket-core/x/auth/types"
	nodestypes "github.com/pokt-network/pocket-core/x/nodes/types"
	pctypes "github.com/pokt-network/pocket-core/x/pocketcore/types"
	"verifharness/internal/gen"
)

func runCrossHeights(r *gen.R, t *gen.Trace, cdc *codec.Codec, d *dumper, n int) {
	uh0, ouh0, tm0 := codec.UpgradeHeight, codec.OldUpgradeHeight, codec.TestMode
	defer func() {
		codec.UpgradeHeight, codec.OldUpgradeHeight, codec.TestMode = uh0, ouh0, tm0
		cdc.DisableUpgradeOverride()
	}()
	cdc.DisableUpgradeOverride()
	type cfg struct {
		name string
		uh   int64
		tm   int64
	}
	cfgs := []cfg{{"main", math.MaxInt64, 0}, {"moved", 100, 0}, {"testmode", math.MaxInt64, -1}}
	type kind struct {
		name    string
		mk      func() interface{}
		msgPick int
	}
	// accounts, validators (the pre-upgrade representation), applications, claims, transactions
	kinds := []kind{
		{"BaseAccount", mkOf(authtypes.BaseAccount{}), -1},
		{"ModuleAccount", mkOf(authtypes.ModuleAccount{}), -1},
		{"Supply", mkOf(authtypes.Supply{}), -1},
		{"LegacyValidator", mkOf(nodestypes.LegacyValidator{}), -1},
		{"ValidatorSigningInfo", mkOf(nodestypes.ValidatorSigningInfo{}), -1},
		{"Application", mkOf(appstypes.Application{}), -1},
		{"MsgClaim", mkOf(pctypes.MsgClaim{}), -1},
		{"StdTx", mkOf(authtypes.StdTx{}), 0},  // MsgSend
		{"StdTx", mkOf(authtypes.StdTx{}), 4},  // LegacyMsgStake
		{"StdTx", mkOf(authtypes.StdTx{}), 7},  // apps.MsgStake
		{"StdTx", mkOf(authtypes.StdTx{}), 10}, // MsgClaim
		{"StdTx", mkOf(authtypes.StdTx{}), 11}, // MsgProof
	}
	for i := 0; i < n; i++ {
		k := kinds[i%len(kinds)]
		c := cfgs[(i/len(kinds))%len(cfgs)]
		lp := (i/(len(kinds)*len(cfgs)))%2 == 1
		mode := modeRand
		if i < len(kinds) {
			mode = modeMax
		}
		f := &filler{r: r, mode: mode, msgPick: k.msgPick}
		px := k.mk()
		f.fill(reflect.ValueOf(px).Elem(), 0)
		full := d.protoNameOf(reflect.TypeOf(px))
		dump := func(p interface{}) string { return try(func() string { return d.dumpValue(full, reflect.ValueOf(p)) }) }
		vx := dump(px)

		codec.UpgradeHeight, codec.OldUpgradeHeight, codec.TestMode = c.uh, 0, c.tm
		U := codec.GetCodecUpgradeHeight()

		// reference bytes and reference round trips of the two codecs
		var A, B []byte
		vy := try(func() string {
			var err error
			if lp {
				B, err = cdc.ProtoMarshalBinaryLengthPrefixed(px.(codec.ProtoMarshaler))
			} else {
				B, err = cdc.ProtoMarshalBinaryBare(px.(codec.ProtoMarshaler))
			}
			if err != nil {
				return "ERR"
			}
			y := k.mk()
			if lp {
				err = cdc.ProtoUnmarshalBinaryLengthPrefixed(B, y.(codec.ProtoMarshaler))
			} else {
				err = cdc.ProtoUnmarshalBinaryBare(B, y.(codec.ProtoMarshaler))
			}
			if err != nil {
				return "ERR"
			}
			return dump(y)
		})
		vz := try(func() string {
			var err error
			if lp {
				A, err = cdc.LegacyMarshalBinaryLengthPrefixed(px)
			} else {
				A, err = cdc.LegacyMarshalBinaryBare(px)
			}
			if err != nil {
				return "ERR"
			}
			z := k.mk()
			if lp {
				err = cdc.LegacyUnmarshalBinaryLengthPrefixed(A, z)
			} else {
				err = cdc.LegacyUnmarshalBinaryBare(A, z)
			}
			if err != nil {
				return "ERR"
			}
			return dump(z)
		})

		var pairs []string
		for he := U - 2; he <= U+2; he++ {
			var bz []byte
			cw := try(func() string {
				var err error
				if lp {
					bz, err = cdc.MarshalBinaryLengthPrefixed(px, he)
				} else {
					bz, err = cdc.MarshalBinaryBare(px, he)
				}
				if err != nil {
					return "E"
				}
				isA, isB := A != nil && string(bz) == string(A), B != nil && string(bz) == string(B)
				switch {
				case isA && isB:
					return "b"
				case isA:
					return "a"
				case isB:
					return "p"
				}
				return "?"
			})
			for hd := he; hd <= U+2; hd++ {
				res := "E"
				if cw != "E" && cw != "PANIC" {
					res = try(func() string {
						u := k.mk()
						var err error
						if lp {
							err = cdc.UnmarshalBinaryLengthPrefixed(bz, u, hd)
						} else {
							err = cdc.UnmarshalBinaryBare(bz, u, hd)
						}
						if err != nil {
							return "E"
						}
						switch du := dump(u); du {
						case vy:
							return "y"
						case vz:
							return "z"
						default:
							return "X"
						}
					})
					if res == "PANIC" {
						res = "E"
					}
				}
				pairs = append(pairs, fmt.Sprintf("%d:%d:%s:%s", he, hd, cw, res))
			}
		}
		kindName := "bare"
		if lp {
			kindName = "lp"
		}
		t.Line("xh/"+c.name+"/"+k.name, true, "xh %s %d %s %s %s %s => %s %s %s", c.name, U, k.name, full, kindName, vx, vy, vz, strings.Join(pairs, " "))
	}
}
