// c34: drives the real relay-evidence code (types.Relay.Validate, GetEvidence, Evidence.AddProof,
// SetEvidence, EvidenceIterator, SealEvidence — the exported sub-steps that keeper.HandleRelay and
// keeper.SendClaimTx perform one after the other) in EVERY schedule the Lean interleaving model
// (lean/PocketModel/Conc/Relay.lean) enumerates for a few relays and the claim sender, and compares
// the final evidence and the order of responses/seal with the model's prediction.
//
// HandleRelay has no seam where a yield point could be added without editing existing lines, so
// no hook is used: one schedule = one sequential execution of the real sub-steps in that order
// (each sub-step is atomic here exactly as far as it holds the CacheStorage lock in the code).
// The free-running mode calls the real keeper.HandleRelay from goroutines (optionally under the
// race detector, in a child process).
package main

import (
	"encoding/hex"
	"errors"
	"flag"
	"fmt"
	"io"
	"net/http"
	"net/http/httptest"
	"os"
	"os/exec"
	"sort"
	"strings"
	"sync"

	"github.com/pokt-network/pocket-core/codec"
	"github.com/pokt-network/pocket-core/crypto"
	"github.com/pokt-network/pocket-core/store"
	sdk "github.com/pokt-network/pocket-core/types"
	appexported "github.com/pokt-network/pocket-core/x/apps/exported"
	appsTypes "github.com/pokt-network/pocket-core/x/apps/types"
	nodesexported "github.com/pokt-network/pocket-core/x/nodes/exported"
	nodesTypes "github.com/pokt-network/pocket-core/x/nodes/types"
	pckeeper "github.com/pokt-network/pocket-core/x/pocketcore/keeper"
	pc "github.com/pokt-network/pocket-core/x/pocketcore/types"
	abci "github.com/tendermint/tendermint/abci/types"
	tmcfg "github.com/tendermint/tendermint/config"
	"github.com/tendermint/tendermint/crypto/ed25519"
	"github.com/tendermint/tendermint/libs/log"
	dbm "github.com/tendermint/tm-db"
	"github.com/willf/bloom"
	"verifharness/internal/gen"
)

// ---------------------------------------------------------------- world + stubs

type world struct {
	apps  map[string]appsTypes.Application // address hex -> app
	vals  []nodesTypes.Validator           // validators (GetValidatorsByChain returns those with the chain)
	count int64                            // SessionNodeCount
}

type env struct {
	height       int64
	bps          int64
	worlds       map[int64]*world // by context height; missing height => PrevCtx fails
	maxChainsApp int64
	maxChainsPos int64
}

func (e *env) w(ctx sdk.Ctx) *world {
	if w, ok := e.worlds[ctx.BlockHeight()]; ok {
		return w
	}
	return &world{apps: map[string]appsTypes.Application{}}
}

// the embedded field must not be called Context (the interface has a method of that name)
type baseCtx = sdk.Context

type hctx struct {
	baseCtx
	e *env
}

func mkCtx(h int64) sdk.Context {
	hash := pc.Hash([]byte(fmt.Sprintf("block-%d", h)))
	return sdk.NewContext(nil, abci.Header{ChainID: "verif", Height: h, LastBlockId: abci.BlockID{Hash: hash}}, false, log.NewNopLogger())
}

func (c hctx) PrevCtx(h int64) (sdk.Context, error) {
	if _, ok := c.e.worlds[h]; !ok {
		return sdk.Context{}, errors.New("block at height not found")
	}
	return mkCtx(h), nil
}

type posStub struct{ e *env }

func (p posStub) CalculateRelayReward(sdk.Ctx, string, sdk.BigInt, sdk.BigInt) (a, b sdk.BigInt) {
	panic("unused")
}
func (p posStub) RewardForRelays(sdk.Ctx, sdk.BigInt, sdk.Address) sdk.BigInt { panic("unused") }
func (p posStub) RewardForRelaysPerChain(sdk.Ctx, string, sdk.BigInt, sdk.Address) sdk.BigInt {
	panic("unused")
}
func (p posStub) GetStakedTokens(sdk.Ctx) sdk.BigInt { panic("unused") }
func (p posStub) Validator(ctx sdk.Ctx, addr sdk.Address) nodesexported.ValidatorI {
	for _, v := range p.e.w(ctx).vals {
		if v.Address.Equals(addr) {
			return v
		}
	}
	return nil
}
func (p posStub) TotalTokens(sdk.Ctx) sdk.BigInt                    { panic("unused") }
func (p posStub) BurnForChallenge(sdk.Ctx, sdk.BigInt, sdk.Address) { panic("unused") }
func (p posStub) JailValidator(sdk.Ctx, sdk.Address)                { panic("unused") }
func (p posStub) AllValidators(sdk.Ctx) []nodesexported.ValidatorI  { panic("unused") }
func (p posStub) GetStakedValidators(sdk.Ctx) []nodesexported.ValidatorI {
	panic("unused")
}
func (p posStub) BlocksPerSession(sdk.Ctx) int64 { return p.e.bps }
func (p posStub) StakeDenom(sdk.Ctx) string      { return "upokt" }
func (p posStub) GetValidatorsByChain(ctx sdk.Ctx, chain string) (out []sdk.Address, total int) {
	for _, v := range p.e.w(ctx).vals {
		for _, c := range v.Chains {
			if c == chain {
				out = append(out, v.Address)
				break
			}
		}
	}
	return out, len(out)
}
func (p posStub) MaxChains(sdk.Ctx) int64          { return p.e.maxChainsPos }
func (p posStub) GetRewardCost(sdk.Ctx) sdk.BigInt { panic("unused") }

type appsStub struct{ e *env }

func (a appsStub) GetStakedTokens(sdk.Ctx) sdk.BigInt { panic("unused") }
func (a appsStub) Application(ctx sdk.Ctx, addr sdk.Address) appexported.ApplicationI {
	if app, ok := a.e.w(ctx).apps[addr.String()]; ok {
		return app
	}
	return nil
}
func (a appsStub) AllApplications(sdk.Ctx) []appexported.ApplicationI { panic("unused") }
func (a appsStub) TotalTokens(sdk.Ctx) sdk.BigInt                     { panic("unused") }
func (a appsStub) JailApplication(sdk.Ctx, sdk.Address)               { panic("unused") }
func (a appsStub) MaxChains(sdk.Ctx) int64                            { return a.e.maxChainsApp }

type pocketStub struct{ e *env }

func (p pocketStub) SessionNodeCount(ctx sdk.Ctx) int64 { return p.e.w(ctx).count }
func (p pocketStub) Codec() *codec.Codec                { return pc.ModuleCdc }

// ---------------------------------------------------------------- keys

func edKey(r *gen.R) crypto.Ed25519PrivateKey {
	return crypto.Ed25519PrivateKey(ed25519.GenPrivKeyFromSecret(r.Bytes(16)))
}

func newStore() *pc.CacheStorage {
	s := &pc.CacheStorage{}
	s.Init("", "", tmcfg.DefaultLevelDBOpts(), 100, true)
	s.SealMap = &sync.Map{}
	return s
}

func hx(s string) string { return gen.Hex([]byte(s)) }

const chainA, chainB, chainC = "0001", "0021", "0040"

func signToken(k crypto.PrivateKey, t *pc.AAT) {
	t.ApplicationSignature = ""
	sig, _ := k.Sign(t.Hash())
	t.ApplicationSignature = hex.EncodeToString(sig)
}
func signProof(k crypto.PrivateKey, p *pc.RelayProof) {
	p.Signature = ""
	sig, _ := k.Sign(p.Hash())
	p.Signature = hex.EncodeToString(sig)
}

func latestSession(h, bps int64) int64 {
	if h%bps == 0 {
		return h - bps + 1
	}
	return (h/bps)*bps + 1
}

// ---------------------------------------------------------------- configuration of one family of schedules

type config struct {
	name    string
	max     int64 // allowance per node and session
	ids     []int // proof id per relay thread (equal ids = identical requests)
	sealer  bool
	respond bool // separate respond step (otherwise the response directly follows the set step)
}

type setup struct {
	appKey, clientKey crypto.Ed25519PrivateKey
	e                 *env
	node              *pc.PocketNode
	hb                *pc.HostedBlockchains
	relays            []pc.Relay
	header            pc.SessionHeader
	max               sdk.BigInt
	byHash            map[string]int // proof hash -> proof id
	sbh               int64
}

func mkSetup(r *gen.R, c config) *setup {
	s := &setup{byHash: map[string]int{}}
	bps := int64(4)
	h := int64(41)
	s.e = &env{height: h, bps: bps, worlds: map[int64]*world{}, maxChainsApp: 15, maxChainsPos: 15}
	nodeKey, appKey, clientKey := edKey(r), edKey(r), edKey(r)
	s.appKey, s.clientKey = appKey, clientKey
	s.node = &pc.PocketNode{PrivateKey: nodeKey, EvidenceStore: newStore(), SessionStore: newStore()}
	s.sbh = latestSession(h, bps)
	w := &world{apps: map[string]appsTypes.Application{}, count: 3}
	app := appsTypes.NewApplication(sdk.Address(appKey.PublicKey().Address()), appKey.PublicKey(), []string{chainA, chainB}, sdk.NewInt(1000000))
	app.MaxRelays = sdk.NewInt(c.max * 6) // 2 chains, 3 nodes
	w.apps[app.Address.String()] = app
	w.vals = append(w.vals, nodesTypes.NewValidator(s.node.GetAddress(), nodeKey.PublicKey(), []string{chainA}, "http://x", sdk.NewInt(15000000000), s.node.GetAddress()))
	for i := 0; i < 2; i++ {
		k := edKey(r)
		w.vals = append(w.vals, nodesTypes.NewValidator(sdk.Address(k.PublicKey().Address()), k.PublicKey(), []string{chainA}, "http://y", sdk.NewInt(15000000000), nil))
	}
	s.e.worlds[s.sbh] = w
	s.e.worlds[h] = w
	s.max = pc.MaxPossibleRelays(app, 3)
	s.hb = &pc.HostedBlockchains{M: map[string]pc.HostedBlockchain{chainA: {ID: chainA, URL: "http://127.0.0.1:1"}}}
	// The bloom filter of an evidence is sized for `max` elements, so for small allowances false
	// positives are likely.  The model treats the bloom test as exact membership; the proofs of a
	// schedule family are therefore chosen (by their entropy) such that no subset of them makes
	// the real filter report another one of them.
	for attempt := 0; ; attempt++ {
		made := map[int]pc.Relay{}
		s.relays, s.byHash = nil, map[string]int{}
		for _, id := range c.ids {
			rel, ok := made[id]
			if !ok {
				rel = pc.Relay{
					Payload: pc.Payload{Data: fmt.Sprintf(`{"id":%d}`, id), Method: "POST"},
					Meta:    pc.RelayMeta{BlockHeight: h},
					Proof: pc.RelayProof{
						Entropy: int64(1000 + id + 100*attempt), SessionBlockHeight: s.sbh, ServicerPubKey: nodeKey.PublicKey().RawString(), Blockchain: chainA,
						Token: pc.AAT{Version: "0.0.1", ApplicationPublicKey: appKey.PublicKey().RawString(), ClientPublicKey: clientKey.PublicKey().RawString()},
					},
				}
				rel.Proof.RequestHash = rel.RequestHashString()
				signToken(appKey, &rel.Proof.Token)
				signProof(clientKey, &rel.Proof)
				made[id] = rel
				s.byHash[rel.Proof.HashString()] = id
			}
			s.relays = append(s.relays, rel)
		}
		if len(c.ids) > 6 || !bloomCollides(s.max.Int64(), made) {
			break
		}
	}
	s.header = s.relays[0].Proof.SessionHeader()
	pc.GlobalPocketConfig.ClientBlockSyncAllowance = 3
	return s
}

// bloomCollides: does some subset of the proofs make the real filter (sized as GetEvidence sizes
// it) report a proof outside the subset?
func bloomCollides(max int64, made map[int]pc.Relay) bool {
	var hs [][]byte
	for _, r := range made {
		hs = append(hs, r.Proof.Hash())
	}
	for mask := 0; mask < 1<<uint(len(hs)); mask++ {
		f := bloom.NewWithEstimates(uint(max), .01)
		for i, h := range hs {
			if mask&(1<<uint(i)) != 0 {
				f.Add(h)
			}
		}
		for i, h := range hs {
			if mask&(1<<uint(i)) == 0 && f.Test(h) {
				return true
			}
		}
	}
	return false
}

// bloomAdmits: with the filter sized as GetEvidence sizes it, is the candidate free of false
// positives against every set of at most `max` chosen hashes, and does it cause none?
func bloomAdmits(max uint, chosen [][]byte, cand []byte) bool {
	n := len(chosen)
	var rec func(start int, set [][]byte) bool
	rec = func(start int, set [][]byte) bool {
		// candidate against this set
		f := bloom.NewWithEstimates(max, .01)
		for _, h := range set {
			f.Add(h)
		}
		if f.Test(cand) {
			return false
		}
		// this set plus the candidate against the others
		if uint(len(set)) < max {
			f.Add(cand)
			for _, h := range chosen {
				in := false
				for _, x := range set {
					if string(x) == string(h) {
						in = true
					}
				}
				if !in && f.Test(h) {
					return false
				}
			}
		}
		if uint(len(set)) >= max {
			return true
		}
		for i := start; i < n; i++ {
			if !rec(i+1, append(set[:len(set):len(set)], chosen[i])) {
				return false
			}
		}
		return true
	}
	return rec(0, nil)
}

// labels: "r<i><v|g|a|s|r>", "c1" (iterator read), "c2" (seal)
func labelsOf(c config) [][]string {
	var seqs [][]string
	for i := range c.ids {
		steps := []string{"v", "g", "a", "s"}
		if c.respond {
			steps = append(steps, "r")
		}
		var q []string
		for _, st := range steps {
			q = append(q, fmt.Sprintf("r%d%s", i, st))
		}
		seqs = append(seqs, q)
	}
	if c.sealer {
		seqs = append(seqs, []string{"c1", "c2"})
	}
	return seqs
}

// interleavings enumerates every merge of the sequences (order inside each sequence kept).
func interleavings(seqs [][]string, f func([]string)) {
	idx := make([]int, len(seqs))
	total := 0
	for _, q := range seqs {
		total += len(q)
	}
	cur := make([]string, 0, total)
	var rec func()
	rec = func() {
		if len(cur) == total {
			f(cur)
			return
		}
		for k := range seqs {
			if idx[k] < len(seqs[k]) {
				cur = append(cur, seqs[k][idx[k]])
				idx[k]++
				rec()
				idx[k]--
				cur = cur[:len(cur)-1]
			}
		}
	}
	rec()
}

var t *gen.Trace

// runSchedule executes one schedule on the real functions with fresh stores.
func (s *setup) runSchedule(c config, sched []string) string {
	s.node.EvidenceStore = newStore()
	store := s.node.EvidenceStore
	n := len(c.ids)
	pcs := make([]string, n) // start, validated, got, added, stored, responded, rejected
	for i := range pcs {
		pcs[i] = "start"
	}
	evs := make([]pc.Evidence, n)
	var snap pc.Evidence
	sealer := "idle"
	var logEv []string
	ctx := hctx{mkCtx(s.e.height), s.e}
	for _, l := range sched {
		if l == "c1" {
			if sealer != "idle" {
				continue
			}
			it := pc.EvidenceIterator(store)
			found := false
			for ; it.Valid(); it.Next() {
				ev := it.Value()
				if ev.SessionHeader.HashString() == s.header.HashString() {
					snap, found = ev, true
				}
			}
			it.Close()
			if found {
				sealer = "read"
			}
			continue
		}
		if l == "c2" {
			if sealer != "read" {
				continue
			}
			already := store.IsSealed(snap)
			pc.SealEvidence(snap, store)
			sealer = "done"
			if !already {
				logEv = append(logEv, "seal")
			}
			continue
		}
		var i int
		var st byte
		fmt.Sscanf(l, "r%d", &i)
		st = l[len(l)-1]
		switch {
		case st == 'v' && pcs[i] == "start":
			rel := s.relays[i]
			_, err := rel.Validate(ctx, posStub{s.e}, appsStub{s.e}, pocketStub{s.e}, s.hb, s.sbh, s.node)
			if err != nil {
				pcs[i] = "rejected:" + fmt.Sprint(err.Code())
			} else {
				pcs[i] = "validated"
			}
		case st == 'g' && pcs[i] == "validated":
			ev, err := pc.GetEvidence(s.header, pc.RelayEvidence, s.max, store)
			if err != nil {
				pcs[i] = "geterr"
				continue
			}
			evs[i] = ev
			pcs[i] = "got"
		case st == 'a' && pcs[i] == "got":
			evs[i].AddProof(s.relays[i].Proof)
			pcs[i] = "added"
		case st == 's' && pcs[i] == "added":
			pc.SetEvidence(evs[i], store)
			pcs[i] = "stored"
			if !c.respond {
				pcs[i] = "responded"
				logEv = append(logEv, fmt.Sprintf("resp%d", i))
			}
		case st == 'r' && pcs[i] == "stored":
			pcs[i] = "responded"
			logEv = append(logEv, fmt.Sprintf("resp%d", i))
		}
	}
	// final observation
	stored, nn, sealed := "-", int64(0), false
	if ev, err := pc.GetEvidence(s.header, pc.RelayEvidence, sdk.ZeroInt(), store); err == nil {
		var ids []string
		for _, p := range ev.Proofs {
			ids = append(ids, fmt.Sprint(s.byHash[p.HashString()]))
		}
		if len(ids) > 0 {
			stored = strings.Join(ids, ",")
		}
		nn = ev.NumOfProofs
		sealed = store.IsSealed(ev)
	}
	lg := "-"
	if len(logEv) > 0 {
		lg = strings.Join(logEv, ",")
	}
	for i := range pcs {
		if strings.HasPrefix(pcs[i], "rejected") {
			pcs[i] = "rejected"
		}
	}
	return fmt.Sprintf("stored=%s n=%d sealed=%v pcs=%s log=%s", stored, nn, sealed, strings.Join(pcs, ","), lg)
}

func idsStr(ids []int) string {
	p := make([]string, len(ids))
	for i, x := range ids {
		p[i] = fmt.Sprint(x)
	}
	return strings.Join(p, ",")
}

func runConfig(r *gen.R, c config, sample int) {
	s := mkSetup(r, c)
	count := 0
	interleavings(labelsOf(c), func(sched []string) {
		count++
		if sample > 1 && (count%sample) != 0 {
			return
		}
		res := s.runSchedule(c, sched)
		t.Line("sched-"+c.name, true, "sched cfg=%s max=%d ids=%s respond=%v steps=%s => %s", c.name, c.max, idsStr(c.ids), c.respond, strings.Join(sched, ","), res)
	})
}

// ---------------------------------------------------------------- serial multi-session scenarios, small cache

// serialCase: relays handled strictly one at a time for several sessions of one servicer whose
// evidence store has a tiny LRU capacity; mixed with the claim loop's iterator (flush) and seals.
// ops: "r<s>.<p>" relay of session s with proof id p (a replay when p was answered before),
//
//	"it" open the evidence iterator and snapshot every evidence (EvidenceIterator: flush),
//	"sl<s>" seal session s with the snapshot of the last "it" (GenerateMerkleRoot -> SealEvidence).
func serialCase(r *gen.R, capEntries, nSessions int, max int64, nOps int) {
	c := config{name: "serial", max: max, ids: []int{0}}
	s := mkSetup(r, c)
	// sessions differ by chain: the application is staked for all of them, the node hosts all
	chains := []string{"0001", "0002", "0003", "0004", "0005"}[:nSessions]
	for _, w := range s.e.worlds {
		for a, app := range w.apps {
			app.Chains = chains
			app.MaxRelays = sdk.NewInt(max * int64(len(chains)) * 3)
			w.apps[a] = app
		}
		for i := range w.vals {
			w.vals[i].Chains = chains
		}
	}
	hb := &pc.HostedBlockchains{M: map[string]pc.HostedBlockchain{}}
	for _, ch := range chains {
		hb.M[ch] = pc.HostedBlockchain{ID: ch, URL: "http://127.0.0.1:1"}
	}
	store := &pc.CacheStorage{}
	store.Init("", "", tmcfg.DefaultLevelDBOpts(), capEntries, true)
	store.SealMap = &sync.Map{}
	s.node.EvidenceStore = store
	appKey, clientKey := s.appKey, s.clientKey
	mkRelayE := func(sess int, entropy int64) pc.Relay {
		rel := s.relays[0]
		rel.Payload.Data = fmt.Sprintf(`{"s":%d}`, sess)
		rel.Proof.Blockchain = chains[sess]
		rel.Proof.Entropy = entropy
		rel.Proof.RequestHash = rel.RequestHashString()
		signToken(appKey, &rel.Proof.Token)
		signProof(clientKey, &rel.Proof)
		return rel
	}
	// The bloom filter of an evidence is sized for `max` elements (1% target), so a FRESH relay is
	// refused as a duplicate with noticeable probability (a real availability effect of the code,
	// harmless for the property).  The model's uniqueness test is exact, so each session gets a pool
	// of proofs none of which is a false positive of any set of at most `max` others.
	const poolSize = 8
	pool := make([][]int64, nSessions) // entropy of proof id i of session s
	idOf := make([]map[int64]int, nSessions)
	for sess := 0; sess < nSessions; sess++ {
		var hs [][]byte
		idOf[sess] = map[int64]int{}
		for e := int64(5000 + 1000*sess); len(pool[sess]) < poolSize; e++ {
			h := mkRelayE(sess, e).Proof.Hash()
			if bloomAdmits(uint(max), hs, h) {
				idOf[sess][e] = len(pool[sess])
				pool[sess] = append(pool[sess], e)
				hs = append(hs, h)
			}
		}
	}
	mkRelay := func(sess, id int) pc.Relay { return mkRelayE(sess, pool[sess][id]) }
	ctx := hctx{mkCtx(s.e.height), s.e}
	next := make([]int, nSessions)       // next fresh proof id per session
	answered := make([][]int, nSessions) // answered ids per session
	snap := map[int]pc.Evidence{}
	var ops, res []string
	headerOf := func(sess int) pc.SessionHeader { return mkRelay(sess, 0).Proof.SessionHeader() }
	maxBig := sdk.NewInt(max)
	for k := 0; k < nOps; k++ {
		switch x := r.Intn(10); {
		case x < 7:
			sess := r.Intn(nSessions)
			id := next[sess]
			if len(answered[sess]) > 0 && (r.Chance(1, 4) || id >= poolSize) {
				id = answered[sess][r.Intn(len(answered[sess]))] // replay
			} else if id < poolSize {
				next[sess]++
			} else {
				id = poolSize - 1
			}
			rel := mkRelay(sess, id)
			out := func() (o string) {
				defer func() {
					if recover() != nil {
						o = "PANIC"
					}
				}()
				m, err := rel.Validate(ctx, posStub{s.e}, appsStub{s.e}, pocketStub{s.e}, hb, s.sbh, s.node)
				if err != nil {
					return fmt.Sprint(err.Code())
				}
				rel.Proof.Store(m, store)
				return "ok"
			}()
			if out == "ok" {
				answered[sess] = append(answered[sess], id)
			}
			ops = append(ops, fmt.Sprintf("r%d.%d", sess, id))
			res = append(res, out)
		case x < 8:
			it := pc.EvidenceIterator(store)
			snap = map[int]pc.Evidence{}
			for ; it.Valid(); it.Next() {
				ev := it.Value()
				for i := 0; i < nSessions; i++ {
					if ev.SessionHeader.HashString() == headerOf(i).HashString() {
						snap[i] = ev
					}
				}
			}
			it.Close()
			ops = append(ops, "it")
			res = append(res, "-")
		default:
			sess := r.Intn(nSessions)
			ev, ok := snap[sess]
			if ok {
				pc.SealEvidence(ev, store)
				res = append(res, "sealed")
			} else {
				res = append(res, "nosnap")
			}
			ops = append(ops, fmt.Sprintf("sl%d", sess))
		}
	}
	// final observation per session
	var fin []string
	for i := 0; i < nSessions; i++ {
		st, nn, sealed := "-", int64(0), false
		if ev, err := pc.GetEvidence(headerOf(i), pc.RelayEvidence, sdk.ZeroInt(), store); err == nil {
			var ids []string
			for _, p := range ev.Proofs {
				var ent int64
				switch rp := p.(type) {
				case pc.RelayProof:
					ent = rp.Entropy
				case *pc.RelayProof:
					ent = rp.Entropy
				}
				ids = append(ids, fmt.Sprint(idOf[i][ent]))
			}
			if len(ids) > 0 {
				st = strings.Join(ids, ".")
			}
			nn = ev.NumOfProofs
			sealed = store.IsSealed(ev)
		}
		fin = append(fin, fmt.Sprintf("%s/%d/%v", st, nn, sealed))
	}
	_ = maxBig
	t.Line("serial", true, "serial cap=%d max=%d sessions=%d ops=%s => res=%s final=%s", capEntries, max, nSessions, strings.Join(ops, ","), strings.Join(res, ","), strings.Join(fin, ";"))
}

// ---------------------------------------------------------------- free-running HandleRelay

type baseCtxMS = sdk.Context
type hctxMS struct {
	baseCtxMS
	e  *env
	ms sdk.MultiStore
}

func mkCtxMS(ms sdk.MultiStore, h int64) sdk.Context {
	hash := pc.Hash([]byte(fmt.Sprintf("block-%d", h)))
	return sdk.NewContext(ms, abci.Header{ChainID: "verif", Height: h, LastBlockId: abci.BlockID{Hash: hash}}, false, log.NewNopLogger())
}
func (c hctxMS) PrevCtx(h int64) (sdk.Context, error) {
	if _, ok := c.e.worlds[h]; !ok {
		return sdk.Context{}, errors.New("block at height not found")
	}
	return mkCtxMS(c.ms, h), nil
}

// hrCase: the keeper-level order of one relay is part of the tie.  The real keeper.HandleRelay is
// called for relay 0 ("outer"); while it executes the request against the hosted chain (a local
// HTTP server), the server's handler performs the interleaved action — deterministically, in the
// same goroutine chain: the nested relays are full HandleRelay calls, the claim sender's read+seal
// is EvidenceIterator+SealEvidence.  In the code as it is the proof is stored BEFORE the execution
// (validate → store → execute → respond), so the schedule the model runs is
//
//	pre…, r_outer v,g,a,s, <nested blocks / c1,c2>, r_outer r
//
// `pre` relays are complete sequential HandleRelay calls made first.
func hrCase(r *gen.R, name string, max int64, ids []int, pre []int, outer int, nested []string) {
	s := mkSetup(r, config{name: name, max: max, ids: ids})
	s.node.EvidenceStore = newStore()
	var k pckeeper.Keeper
	var ctx hctxMS
	pcs := make([]string, len(ids))
	for i := range pcs {
		pcs[i] = "start"
	}
	var logEv []string
	serve := func(i int) {
		resp, err := k.HandleRelay(hctxMS{mkCtxMS(ctx.ms, s.e.height), s.e, ctx.ms}, s.relays[i])
		if err == nil && resp != nil {
			pcs[i] = "responded"
			logEv = append(logEv, fmt.Sprintf("resp%d", i))
		} else {
			pcs[i] = "rejected"
		}
	}
	depth := 0
	srv := httptest.NewServer(http.HandlerFunc(func(w http.ResponseWriter, req *http.Request) {
		b, _ := io.ReadAll(req.Body)
		depth++
		if depth == 1 && len(nested) > 0 && strings.Contains(string(b), fmt.Sprintf(`"id":%d}`, ids[outer])) && pcs[outer] == "start" && markOuter {
			markOuter = false
			for _, act := range nested {
				if act == "seal" {
					it := pc.EvidenceIterator(s.node.EvidenceStore)
					var snap pc.Evidence
					found := false
					for ; it.Valid(); it.Next() {
						ev := it.Value()
						if ev.SessionHeader.HashString() == s.header.HashString() {
							snap, found = ev, true
						}
					}
					it.Close()
					if found {
						already := s.node.EvidenceStore.IsSealed(snap)
						pc.SealEvidence(snap, s.node.EvidenceStore)
						if !already {
							logEv = append(logEv, "seal")
						}
					}
				} else {
					var j int
					fmt.Sscanf(act, "r%d", &j)
					serve(j)
				}
			}
		}
		depth--
		fmt.Fprintf(w, `{"echo":%d}`, len(b))
	}))
	defer srv.Close()
	db := dbm.NewMemDB()
	ms := store.NewCommitMultiStore(db, false, 5000000)
	pocketKey := sdk.NewKVStoreKey(pc.StoreKey)
	ms.MountStoreWithDB(sdk.ParamsKey, sdk.StoreTypeIAVL, db)
	ms.MountStoreWithDB(sdk.ParamsTKey, sdk.StoreTypeTransient, db)
	ms.MountStoreWithDB(pocketKey, sdk.StoreTypeIAVL, db)
	if err := ms.LoadLatestVersion(); err != nil {
		panic(err)
	}
	hb := &pc.HostedBlockchains{M: map[string]pc.HostedBlockchain{chainA: {ID: chainA, URL: srv.URL}}}
	k = pckeeper.NewKeeper(pocketKey, pc.ModuleCdc, nil, posStub{s.e}, appsStub{s.e}, hb, sdk.NewSubspace(pc.DefaultParamspace))
	ctx = hctxMS{mkCtxMS(ms, s.e.height), s.e, ms}
	params := pc.DefaultParams()
	params.SessionNodeCount = 3
	k.SetParams(ctx, params)
	pc.GlobalPocketConfig.ClientSessionSyncAllowance = 0
	pc.GlobalPocketConfig.LeanPocket = false
	delete(codec.UpgradeFeatureMap, codec.EnforceMaxChainsUpdateKey)
	pc.GlobalPocketNodes = map[string]*pc.PocketNode{s.node.GetAddress().String(): s.node}
	// the schedule the model runs
	var steps []string
	block := func(i int) []string {
		return []string{fmt.Sprintf("r%dv", i), fmt.Sprintf("r%dg", i), fmt.Sprintf("r%da", i), fmt.Sprintf("r%ds", i), fmt.Sprintf("r%dr", i)}
	}
	markOuter = false
	for _, i := range pre {
		serve(i)
		steps = append(steps, block(i)...)
	}
	ob := block(outer)
	steps = append(steps, ob[:4]...)
	for _, act := range nested {
		if act == "seal" {
			steps = append(steps, "c1", "c2")
		} else {
			var j int
			fmt.Sscanf(act, "r%d", &j)
			steps = append(steps, block(j)...)
		}
	}
	steps = append(steps, ob[4])
	markOuter = true
	serve(outer)
	// final observation
	stored, nn, sealed := "-", int64(0), false
	if ev, err := pc.GetEvidence(s.header, pc.RelayEvidence, sdk.ZeroInt(), s.node.EvidenceStore); err == nil {
		var l []string
		for _, p := range ev.Proofs {
			l = append(l, fmt.Sprint(s.byHash[p.HashString()]))
		}
		if len(l) > 0 {
			stored = strings.Join(l, ",")
		}
		nn = ev.NumOfProofs
		sealed = s.node.EvidenceStore.IsSealed(ev)
	}
	lg := "-"
	if len(logEv) > 0 {
		lg = strings.Join(logEv, ",")
	}
	t.Line("sched-"+name, true, "sched cfg=%s max=%d ids=%s respond=true steps=%s => stored=%s n=%d sealed=%v pcs=%s log=%s",
		name, max, idsStr(ids), strings.Join(steps, ","), stored, nn, sealed, strings.Join(pcs, ","), lg)
}

var markOuter bool

// hrFamily: the interleavings a hosted-chain round trip makes possible, through the real HandleRelay.
func hrFamily(r *gen.R) {
	// A: the identical request arrives while the first copy is being executed
	hrCase(r, "hr-identical-during-execute", 5, []int{7, 7}, nil, 0, []string{"r1"})
	// A': with an earlier relay already recorded
	hrCase(r, "hr-identical-during-execute-prefilled", 5, []int{1, 7, 7}, []int{0}, 1, []string{"r2"})
	// B: the claim sender reads and seals while a relay is being executed
	hrCase(r, "hr-seal-during-execute", 5, []int{1}, nil, 0, []string{"seal"})
	hrCase(r, "hr-seal-during-execute-prefilled", 5, []int{1, 2}, []int{0}, 1, []string{"seal"})
	// C: distinct relays arrive while the relay that takes the last slot of the allowance is executed
	hrCase(r, "hr-last-slot", 2, []int{1, 2, 3}, []int{0}, 1, []string{"r2"})
	hrCase(r, "hr-last-slot-two", 1, []int{1, 2, 3}, nil, 0, []string{"r1", "r2"})
	// D: a distinct relay during execution with room left (both must be recorded)
	hrCase(r, "hr-distinct-during-execute", 5, []int{1, 2}, nil, 0, []string{"r1"})
	// E: a relay, then the seal, then another relay during the first one's execution
	hrCase(r, "hr-seal-then-relay-during-execute", 5, []int{1, 2}, nil, 0, []string{"seal", "r1"})
}

// freeRun: g goroutines call the real keeper.HandleRelay concurrently (requests drawn from
// `distinct` different relays, so identical requests race too) while one goroutine seals.
// Prints one result line to stdout.
func freeRun(seed uint64, g, distinct int, max int64, seal bool) {
	r := gen.New(seed)
	ids := make([]int, g)
	for i := range ids {
		ids[i] = i % distinct
	}
	s := mkSetup(r, config{name: "free", max: max, ids: ids})
	srv := httptest.NewServer(http.HandlerFunc(func(w http.ResponseWriter, req *http.Request) {
		b, _ := io.ReadAll(req.Body)
		fmt.Fprintf(w, `{"echo":%d}`, len(b))
	}))
	defer srv.Close()
	db := dbm.NewMemDB()
	ms := store.NewCommitMultiStore(db, false, 5000000)
	pocketKey := sdk.NewKVStoreKey(pc.StoreKey)
	ms.MountStoreWithDB(sdk.ParamsKey, sdk.StoreTypeIAVL, db)
	ms.MountStoreWithDB(sdk.ParamsTKey, sdk.StoreTypeTransient, db)
	ms.MountStoreWithDB(pocketKey, sdk.StoreTypeIAVL, db)
	if err := ms.LoadLatestVersion(); err != nil {
		panic(err)
	}
	hb := &pc.HostedBlockchains{M: map[string]pc.HostedBlockchain{chainA: {ID: chainA, URL: srv.URL}}}
	k := pckeeper.NewKeeper(pocketKey, pc.ModuleCdc, nil, posStub{s.e}, appsStub{s.e}, hb, sdk.NewSubspace(pc.DefaultParamspace))
	ctx := hctxMS{mkCtxMS(ms, s.e.height), s.e, ms}
	params := pc.DefaultParams()
	params.SessionNodeCount = 3
	k.SetParams(ctx, params)
	pc.GlobalPocketConfig.ClientSessionSyncAllowance = 0
	pc.GlobalPocketConfig.LeanPocket = false
	delete(codec.UpgradeFeatureMap, codec.EnforceMaxChainsUpdateKey)
	pc.GlobalPocketNodes = map[string]*pc.PocketNode{s.node.GetAddress().String(): s.node}
	// warm the session cache so that the goroutines race on the evidence only
	var wg sync.WaitGroup
	served := make([]bool, g)
	start := make(chan struct{})
	for i := 0; i < g; i++ {
		wg.Add(1)
		go func(i int) {
			defer wg.Done()
			defer func() { recover() }()
			<-start
			// every RPC request has its own context (as in the node)
			resp, err := k.HandleRelay(hctxMS{mkCtxMS(ms, s.e.height), s.e, ms}, s.relays[i])
			served[i] = err == nil && resp != nil
		}(i)
	}
	if seal {
		wg.Add(1)
		go func() {
			defer wg.Done()
			defer func() { recover() }()
			<-start
			it := pc.EvidenceIterator(s.node.EvidenceStore)
			var snap pc.Evidence
			found := false
			for ; it.Valid(); it.Next() {
				snap, found = it.Value(), true
			}
			it.Close()
			if found {
				pc.SealEvidence(snap, s.node.EvidenceStore)
			}
		}()
	}
	close(start)
	wg.Wait()
	nServed := 0
	servedIDs := map[int]bool{}
	for i, b := range served {
		if b {
			nServed++
			servedIDs[ids[i]] = true
		}
	}
	stored, nn, sealed := []int{}, int64(0), false
	if ev, err := pc.GetEvidence(s.header, pc.RelayEvidence, sdk.ZeroInt(), s.node.EvidenceStore); err == nil {
		for _, p := range ev.Proofs {
			stored = append(stored, s.byHash[p.HashString()])
		}
		nn = ev.NumOfProofs
		sealed = s.node.EvidenceStore.IsSealed(ev)
	}
	sort.Ints(stored)
	dups, missing := 0, 0
	seen := map[int]bool{}
	for _, x := range stored {
		if seen[x] {
			dups++
		}
		seen[x] = true
	}
	for id := range servedIDs {
		if !seen[id] {
			missing++
		}
	}
	fmt.Printf("served=%d servedDistinct=%d stored=%d n=%d dups=%d missing=%d sealed=%v\n", nServed, len(servedIDs), len(stored), nn, dups, missing, sealed)
}

func main() {
	seed := flag.Uint64("seed", 1, "")
	n := flag.Int("n", 1, "1 = quick enumeration, 2+ = also three relays exhaustively")
	out := flag.String("out", "c34.trace", "")
	child := flag.Bool("child", false, "free-running child")
	g := flag.Int("g", 16, "")
	distinct := flag.Int("distinct", 8, "")
	max := flag.Int64("max", 4, "")
	seal := flag.Bool("seal", false, "")
	freeRuns := flag.Int("free", 0, "number of free-running rounds (each in a child process)")
	serial := flag.Int("serial", 0, "number of serial multi-session scenarios with a small evidence cache")
	flag.Parse()
	pc.InitGlobalServiceMetric(&pc.HostedBlockchains{M: map[string]pc.HostedBlockchain{}}, log.NewNopLogger(), "0", 10)
	pc.GlobalPocketConfig = sdk.DefaultTestingPocketConfig().PocketConfig
	if *child {
		freeRun(*seed, *g, *distinct, *max, *seal)
		return
	}
	r := gen.New(*seed)
	t = gen.NewTrace(*out)
	// every schedule of two relays (4 steps each, response directly after the set step)
	for _, c := range []config{
		{name: "two-identical", max: 5, ids: []int{7, 7}},
		{name: "two-distinct", max: 5, ids: []int{1, 2}},
		{name: "two-distinct-max1", max: 1, ids: []int{1, 2}},
		{name: "two-distinct-max2", max: 2, ids: []int{1, 2}},
		{name: "two-identical-max1", max: 1, ids: []int{7, 7}},
	} {
		runConfig(r, c, 1)
	}
	// one and two relays racing with the claim sender
	for _, c := range []config{
		{name: "one-seal", max: 5, ids: []int{1}, sealer: true, respond: true},
		{name: "two-distinct-seal", max: 5, ids: []int{1, 2}, sealer: true},
		{name: "two-identical-seal", max: 5, ids: []int{7, 7}, sealer: true},
		{name: "two-distinct-seal-max1", max: 1, ids: []int{1, 2}, sealer: true},
	} {
		runConfig(r, c, 1)
	}
	if *n >= 2 {
		// thorough: three relays exhaustively, and two relays + sealer with a separate respond step
		for _, c := range []config{
			{name: "three-distinct", max: 5, ids: []int{1, 2, 3}},
			{name: "three-two-identical", max: 5, ids: []int{7, 7, 3}},
			{name: "three-distinct-max2", max: 2, ids: []int{1, 2, 3}},
			{name: "two-distinct-seal-respond", max: 5, ids: []int{1, 2}, sealer: true, respond: true},
		} {
			runConfig(r, c, 1)
		}
	} else {
		// quick: a sample (every 40th schedule) of three relays
		runConfig(r, config{name: "three-distinct", max: 5, ids: []int{1, 2, 3}}, 40)
		runConfig(r, config{name: "three-distinct-max2", max: 2, ids: []int{1, 2, 3}}, 40)
	}
	hrFamily(r)
	for i := 0; i < *serial; i++ {
		serialCase(r, 1+i%3, 3+i%2, int64(2+i%3), 10+r.Intn(14))
	}
	// free-running rounds in child processes (the child is this binary; built with -race when the check asks for it)
	for i := 0; i < *freeRuns; i++ {
		gg, dd, mm, sl := 16+8*(i%7), 4+(i%5)*3, int64(3+(i%4)*5), i%3 == 2
		cmd := exec.Command(os.Args[0], "-child", "-seed", fmt.Sprint(r.U64()), "-g", fmt.Sprint(gg), "-distinct", fmt.Sprint(dd), "-max", fmt.Sprint(mm), fmt.Sprintf("-seal=%v", sl))
		var stderr, stdout strings.Builder
		cmd.Stderr, cmd.Stdout = &stderr, &stdout
		err := cmd.Run()
		res := strings.TrimSpace(stdout.String())
		if i := strings.LastIndex(res, "served="); i >= 0 {
			res = res[i:]
		}
		// only races inside the evidence code count (the detector also reports harness-level sharing)
		race := strings.Contains(stderr.String(), "DATA RACE") && strings.Contains(stderr.String(), "Evidence).AddProof")
		if res == "" {
			res = "CRASH"
			if err != nil {
				res = "CRASH " + strings.ReplaceAll(strings.SplitN(strings.TrimSpace(stderr.String()), "\n", 2)[0], " ", "_")
			}
		}
		t.Line("free", true, "free g=%d distinct=%d max=%d seal=%v => race=%v %s", gg, dd, mm, sl, race, res)
	}
	t.Close(nil)
}
