// c06: block histories on a real rootmulti.Store (IAVL substores + transient substores over MemDB).
// Every history is executed by several twin runs that differ only in transient writes, in which
// transient stores are mounted, and in mount order; one more run differs in one persistent write.
// Trace consumed by lean/Driver/C06.lean.
package main

import (
	"flag"
	"fmt"
	"sort"
	"strings"

	"github.com/pokt-network/pocket-core/store/rootmulti"
	"github.com/pokt-network/pocket-core/store/types"
	dbm "github.com/tendermint/tm-db"

	"verifharness/internal/gen"
	"verifharness/internal/msdrive"
)

type write struct {
	store string
	del   bool
	k, v  []byte
	trans bool
}

var pnames = []string{"acc", "pos", "a", "ab", "main", "params", "b0"}
var tnames = []string{"t_params", "tr", "acc_t"}

func pick(r *gen.R, from []string, n int) []string {
	idx := map[int]bool{}
	for len(idx) < n {
		idx[r.Intn(len(from))] = true
	}
	var out []string
	for i, s := range from {
		if idx[i] {
			out = append(out, s)
		}
	}
	return out
}

func genBlock(r *gen.R, ps, ts []string, space int) []write {
	n := r.Intn(9)
	if r.Chance(1, 8) {
		n = 0
	}
	var ws []write
	for i := 0; i < n; i++ {
		if len(ts) > 0 && r.Chance(1, 3) {
			w := write{store: r.Pick(ts), trans: true, k: msdrive.Key(r, space), v: msdrive.Val(r)}
			w.del = r.Chance(1, 5)
			ws = append(ws, w)
			continue
		}
		w := write{store: r.Pick(ps), k: msdrive.Key(r, space), v: msdrive.Val(r)}
		w.del = r.Chance(1, 4)
		ws = append(ws, w)
	}
	return ws
}

type runCfg struct {
	id         int
	persistent []string
	transient  []string
	keepTrans  bool // keep transient writes
	extraTrans bool // add more transient writes
	perturb    int  // block index whose persistent part gets one extra fresh write (-1: none)
}

func reverse(xs []string) []string {
	out := make([]string, len(xs))
	for i, x := range xs {
		out[len(xs)-1-i] = x
	}
	return out
}

func main() {
	seed := flag.Uint64("seed", 1, "")
	n := flag.Int("n", 30, "number of histories")
	out := flag.String("out", "c06.trace", "")
	flag.Parse()
	r := gen.New(*seed)
	t := gen.NewTrace(*out)
	commits := 0
	for h := 0; h < *n; h++ {
		ps := pick(r, pnames, 1+r.Intn(4))
		ts := pick(r, tnames, r.Intn(3))
		space := 6 + r.Intn(12)
		nb := 1 + r.Intn(6)
		blocks := make([][]write, nb)
		for i := range blocks {
			blocks[i] = genBlock(r, ps, ts, space)
		}
		extra := make([][]write, nb) // additional transient noise for run 3
		for i := range extra {
			if len(ts) > 0 {
				for j := r.Intn(4); j > 0; j-- {
					extra[i] = append(extra[i], write{store: r.Pick(ts), trans: true, k: msdrive.Key(r, space), v: msdrive.Val(r)})
				}
			}
		}
		// how the persistent writes of each block travel (fixed per history: it shapes the IAVL trees):
		// 0 direct, 1 through CacheMultiStore()+Write(), 2 through a nested cache wrap
		proute := make([]int, nb)
		for i := range proute {
			proute[i] = r.Intn(3)
		}
		pb := r.Intn(nb)
		pstore := r.Pick(ps)
		cfgs := []runCfg{
			{0, ps, ts, true, false, -1},
			{1, ps, ts, false, false, -1},
			{2, ps, nil, false, false, -1},
			{3, reverse(ps), reverse(ts), true, true, -1},
			{4, ps, ts, true, false, pb},
		}
		t.Line("case", false, "case %d", h)
		for _, c := range cfgs {
			func() {
				defer func() {
					if e := recover(); e != nil {
						t.Line("panic", false, "panic %d => %s", c.id, strings.ReplaceAll(fmt.Sprint(e), " ", "_"))
					}
				}()
				ms, err := msdrive.Open(dbm.NewMemDB(), msdrive.Spec{Persistent: c.persistent, Transient: c.transient}, int64(1+r.Intn(50)))
				if err != nil {
					panic(err)
				}
				tl := "-"
				if len(c.transient) > 0 {
					tl = strings.Join(c.transient, ",")
				}
				t.Line("new", false, "new %d %s %s %d => %s", c.id, strings.Join(c.persistent, ","), tl, c.perturb, msdrive.CID(ms.Store.LastCommitID()))
				for bi, b := range blocks {
					ws := append([]write(nil), b...)
					if c.extraTrans {
						ws = append(ws, extra[bi]...)
					}
					if c.perturb == bi {
						ws = append(ws, write{store: pstore, k: []byte{0xee, byte(bi), 0x01}, v: []byte{0x77}})
					}
					// transient writes travel by a route chosen per run and block
					troute := r.Intn(3)
					var top, inner types.CacheMultiStore
					need := func(rt int) {
						if rt >= 1 && top == nil {
							top = ms.Store.CacheMultiStore()
						}
						if rt == 2 && inner == nil {
							inner = top.CacheMultiStore()
						}
					}
					need(proute[bi])
					need(troute)
					kvFor := func(store string, rt int) types.KVStore {
						switch rt {
						case 1:
							return top.GetKVStore(ms.Keys[store])
						case 2:
							return inner.GetKVStore(ms.Keys[store])
						}
						return ms.KV(store)
					}
					// a cache wrap that is never written back must leave no trace at all
					if r.Chance(1, 3) {
						junk := ms.Store.CacheMultiStore()
						for _, n := range append(append([]string{}, c.persistent...), c.transient...) {
							_ = junk.GetKVStore(ms.Keys[n]).Set(msdrive.Key(r, space), []byte{0xdd})
						}
					}
					type lastOp struct {
						del bool
						v   []byte
					}
					pending := map[string]map[string]lastOp{} // writes buffered in a cache wrap, per store
					touched := map[string]map[string]bool{}   // transient keys written in this block
					for _, w := range ws {
						if w.trans && (!c.keepTrans || len(c.transient) == 0) {
							continue
						}
						rt := proute[bi]
						if w.trans {
							rt = troute
							if touched[w.store] == nil {
								touched[w.store] = map[string]bool{}
							}
							touched[w.store][string(w.k)] = true
						}
						kv := kvFor(w.store, rt)
						if w.del {
							_ = kv.Delete(w.k)
						} else {
							_ = kv.Set(w.k, w.v)
						}
						if rt == 0 {
							if w.del {
								t.Line("write", true, "w %d %s d %s => ok", c.id, w.store, gen.Hex(w.k))
							} else {
								t.Line("write", true, "w %d %s s %s %s => ok", c.id, w.store, gen.Hex(w.k), gen.Hex(w.v))
							}
							if w.trans && r.Chance(1, 3) {
								g, _ := kv.Get(w.k)
								t.Line("tget", true, "tget %d %s %s => %s", c.id, w.store, gen.Hex(w.k), gen.Hex(g))
							}
						} else {
							if pending[w.store] == nil {
								pending[w.store] = map[string]lastOp{}
							}
							pending[w.store][string(w.k)] = lastOp{w.del, w.v}
						}
					}
					if inner != nil {
						inner.Write()
					}
					if top != nil {
						top.Write()
					}
					// the writes as they reach the substores when a cache wrap is flushed: last operation per key, in key order
					var pstores []string
					for st := range pending {
						pstores = append(pstores, st)
					}
					sort.Strings(pstores)
					for _, st := range pstores {
						var keys []string
						for k := range pending[st] {
							keys = append(keys, k)
						}
						sort.Strings(keys)
						for _, k := range keys {
							op := pending[st][k]
							if op.del {
								t.Line("write", true, "w %d %s d %s => ok", c.id, st, gen.Hex([]byte(k)))
							} else {
								t.Line("write", true, "w %d %s s %s %s => ok", c.id, st, gen.Hex([]byte(k)), gen.Hex(op.v))
							}
						}
						if touched[st] != nil { // transient store written through the cache: visible in the block after the flush
							for _, k := range keys {
								g, _ := ms.KV(st).Get([]byte(k))
								t.Line("tget", true, "tget %d %s %s => %s", c.id, st, gen.Hex([]byte(k)), gen.Hex(g))
							}
						}
					}
					id := ms.Store.Commit()
					commits++
					ci, _, ok := msdrive.ReadCommitInfo(ms.DB, id.Version)
					infos := "MISSING"
					if ok {
						infos = fmt.Sprintf("%d/%s", ci.Version, msdrive.RenderInfos(ci))
					}
					var tsz []string
					for _, tn := range c.transient {
						tsz = append(tsz, fmt.Sprintf("%s:%d", tn, msdrive.Count(ms.KV(tn))))
					}
					tz := "-"
					if len(tsz) > 0 {
						tz = strings.Join(tsz, ",")
					}
					t.Line("commit", true, "commit %d => %s %s %s %s", c.id, msdrive.CID(id), msdrive.CID(ms.Store.LastCommitID()), infos, tz)
					// read back after the commit: every transient key written in this block, directly and through a cache wrap
					var tst []string
					for st := range touched {
						tst = append(tst, st)
					}
					sort.Strings(tst)
					for _, st := range tst {
						var keys []string
						for k := range touched[st] {
							keys = append(keys, k)
						}
						sort.Strings(keys)
						for _, k := range keys {
							g, _ := ms.KV(st).Get([]byte(k))
							g2, _ := ms.Store.CacheMultiStore().GetKVStore(ms.Keys[st]).Get([]byte(k))
							t.Line("tgetc", true, "tgetc %d %s %s => %s %s", c.id, st, gen.Hex([]byte(k)), gen.Hex(g), gen.Hex(g2))
						}
					}
					// between this Commit and the next block: historical views (what custom queries / PrevCtx use) at a
					// retained height; reads and writes on TRANSIENT keys through them must never reach the live stores
					if len(c.transient) > 0 && r.Chance(1, 2) {
						hgt := int64(1 + r.Intn(int(id.Version)))
						for _, tn := range c.transient {
							hk := []byte{0xa7, byte(bi)}
							res := func() (out string) {
								defer func() {
									if e := recover(); e != nil {
										out = "panic"
									}
								}()
								lz, err := ms.Store.LoadLazyVersion(hgt)
								if err != nil {
									return "err"
								}
								kv := (*lz).(*rootmulti.Store).GetKVStore(ms.Keys[tn])
								_ = kv.Set(hk, []byte{0x01})
								_ = kv.Delete(msdrive.Key(r, space))
								_, _ = kv.Get(hk)
								return fmt.Sprintf("ok:%d", msdrive.Count(kv))
							}()
							t.Line("hview", true, "hview %d lazy %d %s => %s", c.id, hgt, tn, res)
							res2 := func() (out string) {
								defer func() {
									if e := recover(); e != nil {
										out = "panic"
									}
								}()
								cv, err := ms.Store.CacheMultiStoreWithVersion(hgt)
								if err != nil {
									return "err"
								}
								kv := cv.GetKVStore(ms.Keys[tn])
								_ = kv.Set(append([]byte{0xa8}, hk...), []byte{0x02}) // never written back
								_ = kv.Delete(hk)
								for _, pn := range c.persistent {
									_ = cv.GetKVStore(ms.Keys[pn]).Set([]byte{0xa9}, []byte{0x03})
								}
								return "ok"
							}()
							t.Line("hview", true, "hview %d cache %d %s => %s", c.id, hgt, tn, res2)
						}
					}
					// the state the next block starts with
					for _, tn := range c.transient {
						kv := ms.KV(tn)
						g1, _ := kv.Get([]byte{0xa7, byte(bi)})
						g2, _ := kv.Get([]byte{0xa8, 0xa7, byte(bi)})
						t.Line("tstart", true, "tstart %d %s => %d %s %s", c.id, tn, msdrive.Count(kv), gen.Hex(g1), gen.Hex(g2))
					}
					// an abandoned block: transient writes that are never committed, then the SAME multistore
					// instance is re-loaded at its last committed version (what a node does to drop in-flight
					// work).  The next block must start with empty transient stores.  No PRNG draw.
					if len(c.transient) > 0 && (h+bi+c.id)%3 == 0 {
						for _, tn := range c.transient {
							_ = ms.KV(tn).Set([]byte{0xab, byte(bi)}, []byte{0x05})
						}
						lerr := ms.Store.LoadLatestVersion()
						for _, tn := range c.transient {
							kv := ms.KV(tn)
							g, _ := kv.Get([]byte{0xab, byte(bi)})
							t.Line("reload", true, "reload %d %s => %v %d %s %s", c.id, tn, lerr == nil, msdrive.Count(kv), gen.Hex(g), msdrive.CID(ms.Store.LastCommitID()))
						}
					}
				}
			}()
		}
	}
	t.Close(map[string]interface{}{"histories": *n, "commits": commits})
}
