// facts17: regenerated source fact for C17 — which functions of pocket-core (non-test files) call
// the account/supply writers of the auth keeper.  Standard library only (go/parser, go/ast); no
// type information, so matching is by selector name, which over-approximates (an unrelated method
// with the same name would show up as a new, unclassified writer — the safe direction).
//
// Output (stdout): JSON {"writers": ["<file>:<Recv.Func> -> <callee>", ...]} sorted.
package main

import (
	"encoding/json"
	"flag"
	"fmt"
	"go/ast"
	"go/parser"
	"go/token"
	"os"
	"path/filepath"
	"sort"
	"strings"
)

// Writers of balances / supply: the raw store writers of x/auth/keeper and everything layered on them.
var callees = map[string]bool{
	"SetAccount": true, "SetAccounts": true, "SetModuleAccount": true, "RemoveAccount": true, "SetSupply": true,
	"SetCoins": true, "AddCoins": true, "SubtractCoins": true,
	"MintCoins": true, "BurnCoins": true, "Inflate": true, "Deflate": true, "SetTotal": true,
	// second level: the wrappers through which the other modules reach MintCoins/BurnCoins
	"mint": true, "burnStakedTokens": true,
}

// Identifiers of the auth store keys: every function that mentions one is listed as "rawkey".
var rawKeys = map[string]bool{"AddressStoreKey": true, "AddressStoreKeyPrefix": true, "SupplyKeyPrefix": true}

func recvName(fd *ast.FuncDecl) string {
	if fd.Recv == nil || len(fd.Recv.List) == 0 {
		return fd.Name.Name
	}
	t := fd.Recv.List[0].Type
	if s, ok := t.(*ast.StarExpr); ok {
		t = s.X
	}
	if id, ok := t.(*ast.Ident); ok {
		return id.Name + "." + fd.Name.Name
	}
	return fd.Name.Name
}

func main() {
	root := flag.String("repo", "/repo", "")
	flag.Parse()
	set := map[string]bool{}
	fset := token.NewFileSet()
	filepath.Walk(*root, func(p string, info os.FileInfo, err error) error {
		if err != nil {
			return nil
		}
		if info.IsDir() {
			b := info.Name()
			if b == ".git" || b == "vendor" || b == "node_modules" {
				return filepath.SkipDir
			}
			return nil
		}
		if !strings.HasSuffix(p, ".go") || strings.HasSuffix(p, "_test.go") {
			return nil
		}
		f, err := parser.ParseFile(fset, p, nil, 0)
		if err != nil {
			fmt.Fprintln(os.Stderr, "parse:", err)
			os.Exit(2)
		}
		rel, _ := filepath.Rel(*root, p)
		for _, d := range f.Decls {
			fd, ok := d.(*ast.FuncDecl)
			if !ok || fd.Body == nil {
				continue
			}
			ast.Inspect(fd.Body, func(n ast.Node) bool {
				if se, ok := n.(*ast.SelectorExpr); ok && rawKeys[se.Sel.Name] {
					set[fmt.Sprintf("%s:%s uses %s", rel, recvName(fd), se.Sel.Name)] = true
				}
				if id, ok := n.(*ast.Ident); ok && rawKeys[id.Name] {
					set[fmt.Sprintf("%s:%s uses %s", rel, recvName(fd), id.Name)] = true
				}
				ce, ok := n.(*ast.CallExpr)
				if !ok {
					return true
				}
				if id, ok := ce.Fun.(*ast.Ident); ok && callees[id.Name] {
					set[fmt.Sprintf("%s:%s -> %s", rel, recvName(fd), id.Name)] = true
				}
				if se, ok := ce.Fun.(*ast.SelectorExpr); ok && callees[se.Sel.Name] {
					set[fmt.Sprintf("%s:%s -> %s", rel, recvName(fd), se.Sel.Name)] = true
				}
				return true
			})
		}
		return nil
	})
	out := make([]string, 0, len(set))
	for k := range set {
		out = append(out, k)
	}
	sort.Strings(out)
	b, _ := json.MarshalIndent(map[string]interface{}{"writers": out}, "", " ")
	fmt.Println(string(b))
}
