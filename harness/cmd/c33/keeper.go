// c33 -mode keeper: the session candidates are not constructed by the harness but reached through the
// real x/nodes keeper: every node enters, changes and leaves the by-chain index only through the real
// message handler (stake / edit-stake / begin-unstake / unjail), JailValidator and the real EndBlocker
// (release of waiting validators at session end, forced unstake after MaxJailedBlocks, maturing of
// unstaking nodes). Sessions are then drawn by the real NewSessionNodes against that keeper, and the
// driver judges the selected nodes on their real records (staked for the chain, not jailed).
package main

import (
	"encoding/hex"
	"fmt"
	"strings"
	"time"

	"github.com/pokt-network/pocket-core/codec"
	cdctypes "github.com/pokt-network/pocket-core/codec/types"
	"github.com/pokt-network/pocket-core/crypto"
	"github.com/pokt-network/pocket-core/store"
	sdk "github.com/pokt-network/pocket-core/types"
	"github.com/pokt-network/pocket-core/x/auth"
	"github.com/pokt-network/pocket-core/x/gov"
	"github.com/pokt-network/pocket-core/x/nodes"
	nodeskeeper "github.com/pokt-network/pocket-core/x/nodes/keeper"
	nodestypes "github.com/pokt-network/pocket-core/x/nodes/types"
	pc "github.com/pokt-network/pocket-core/x/pocketcore/types"
	abci "github.com/tendermint/tendermint/abci/types"
	"github.com/tendermint/tendermint/libs/log"
	dbm "github.com/tendermint/tm-db"
	"verifharness/internal/gen"
)

type noCache struct{}

func (noCache) ClearSessionCache() {}

type knode struct {
	priv crypto.PrivateKey
	pub  crypto.PublicKey
	addr sdk.Address
}

type kenv struct {
	ctx     sdk.Context
	ak      auth.Keeper
	nk      nodeskeeper.Keeper
	handler sdk.Handler
	nodes   []knode
	height  int64
	now     time.Time
}

const minStake = 15000000000

func newKenv(r *gen.R, maxChains, maxJailed int64) *kenv {
	sdk.VbCCache = sdk.NewCache(1200) // the production size (app/config.go); a capacity of 1 (keeper tests) disables the cache and hides aliasing of the cached list
	codec.TestMode = 0
	codec.UpgradeFeatureMap = map[string]int64{codec.NonCustodialUpdateKey: 1}
	keyAcc := sdk.NewKVStoreKey(auth.StoreKey)
	keyPOS := sdk.NewKVStoreKey(nodestypes.StoreKey)
	db := dbm.NewMemDB()
	ms := store.NewCommitMultiStore(db, false, 5000000)
	ms.MountStoreWithDB(keyAcc, sdk.StoreTypeIAVL, nil)
	ms.MountStoreWithDB(keyPOS, sdk.StoreTypeIAVL, nil)
	ms.MountStoreWithDB(sdk.ParamsKey, sdk.StoreTypeIAVL, nil)
	ms.MountStoreWithDB(sdk.ParamsTKey, sdk.StoreTypeTransient, nil)
	if err := ms.LoadLatestVersion(); err != nil {
		panic(err)
	}
	e := &kenv{height: 50000, now: time.Unix(1700000000, 0).UTC()}
	e.ctx = sdk.NewContext(ms, abci.Header{ChainID: "verif", Height: e.height, Time: e.now}, false, log.NewNopLogger()).WithAppVersion("0.0.0")
	cdc := codec.NewCodec(cdctypes.NewInterfaceRegistry())
	auth.RegisterCodec(cdc)
	gov.RegisterCodec(cdc)
	sdk.RegisterCodec(cdc)
	crypto.RegisterAmino(cdc.AminoCodec().Amino)
	maccPerms := map[string][]string{
		auth.FeeCollectorName:     nil,
		nodestypes.StakedPoolName: {auth.Burner, auth.Staking, auth.Minter},
		nodestypes.ModuleName:     {auth.Burner, auth.Staking, auth.Minter},
	}
	e.ak = auth.NewKeeper(cdc, keyAcc, sdk.NewSubspace(auth.DefaultParamspace), maccPerms)
	e.nk = nodeskeeper.NewKeeper(cdc, keyPOS, e.ak, sdk.NewSubspace(nodestypes.DefaultParamspace), nodestypes.ModuleName)
	e.nk.PocketKeeper = noCache{}
	p := nodestypes.DefaultParams()
	p.UnstakingTime = 40 * time.Second // a few blocks
	p.MaxJailedBlocks = maxJailed
	p.MaximumChains = maxChains
	p.SessionBlockFrequency = 4
	e.nk.SetParams(e.ctx, p)
	e.handler = nodes.NewHandler(e.nk)
	return e
}

func (e *kenv) cur() sdk.Context {
	return e.ctx.WithBlockHeader(abci.Header{ChainID: "verif", Height: e.height, Time: e.now})
}

func (e *kenv) addNode(r *gen.R) int {
	priv := crypto.Ed25519PrivateKey{}.GenPrivateKey()
	n := knode{priv: priv, pub: priv.PublicKey(), addr: sdk.Address(priv.PublicKey().Address())}
	acc := auth.NewBaseAccountWithAddress(n.addr)
	acc.Coins = sdk.NewCoins(sdk.NewCoin(sdk.DefaultStakeDenom, sdk.NewInt(100*minStake)))
	acc.PubKey = n.pub
	e.ak.SetAccount(e.cur(), &acc)
	e.nodes = append(e.nodes, n)
	return len(e.nodes) - 1
}

func kres(r sdk.Result) string {
	if r.Code == 0 {
		return "ok"
	}
	return fmt.Sprintf("e%d", r.Code)
}

func (e *kenv) tryOp(f func() string) (s string) {
	defer func() {
		if r := recover(); r != nil {
			s = "PANIC"
		}
	}()
	return f()
}

func (e *kenv) stake(i int, chains []string, amount int64) string {
	n := e.nodes[i]
	return e.tryOp(func() string {
		return kres(e.handler(e.cur(), nodestypes.MsgStake{PublicKey: n.pub, Chains: chains, Value: sdk.NewInt(amount),
			ServiceUrl: "https://node.example:443", Output: n.addr}, n.pub))
	})
}
func (e *kenv) unstake(i int) string {
	n := e.nodes[i]
	return e.tryOp(func() string {
		return kres(e.handler(e.cur(), nodestypes.MsgBeginUnstake{Address: n.addr, Signer: n.addr}, n.pub))
	})
}
func (e *kenv) unjail(i int) string {
	n := e.nodes[i]
	return e.tryOp(func() string {
		return kres(e.handler(e.cur(), nodestypes.MsgUnjail{ValidatorAddr: n.addr, Signer: n.addr}, n.pub))
	})
}
func (e *kenv) jail(i int) string {
	return e.tryOp(func() string { e.nk.JailValidator(e.cur(), e.nodes[i].addr); return "ok" })
}
func (e *kenv) endBlock() string {
	res := e.tryOp(func() string { nodeskeeper.EndBlocker(e.cur(), e.nk); return "ok" })
	e.height++
	e.now = e.now.Add(15 * time.Second)
	return res
}

func (e *kenv) staked(i int) (nodestypes.Validator, bool) {
	return e.nk.GetValidator(e.cur(), e.nodes[i].addr)
}

func pickChains(r *gen.R, chain string, with bool, maxChains int64) []string {
	n := r.Intn(int(maxChains))
	cs := otherChains(r, n, chain)
	if with {
		cs = append(cs, chain)
	}
	if len(cs) == 0 {
		cs = []string{otherChains(r, 1, chain)[0]}
	}
	return cs
}

// keeperCase: one generated history on a fresh keeper, then several session draws on the resulting state.
func keeperCase(r *gen.R, t *gen.Trace) {
	chain := chainPool[r.Intn(3)]
	count := 1 + r.Intn(5)
	maxChains := int64(2 + r.Intn(3))
	maxJailed := int64(3 + r.Intn(6))
	e := newKenv(r, maxChains, maxJailed)
	total := count + r.Intn(5) - 1
	if total < 1 {
		total = 1
	}
	var hist []string
	note := func(op string, i int, res string) { hist = append(hist, fmt.Sprintf("%s%d=%s", op, i, res)) }
	for k := 0; k < total; k++ {
		i := e.addNode(r)
		note("stake", i, e.stake(i, pickChains(r, chain, !r.Chance(1, 8), maxChains), minStake+int64(r.Intn(5))))
	}
	hist = append(hist, "end="+e.endBlock())
	// a history of 4-24 steps; a few "scripts" make the interesting multi-step sequences frequent
	steps := 4 + r.Intn(21)
	for s := 0; s < steps; s++ {
		i := r.Intn(len(e.nodes))
		switch c := r.Intn(20); {
		case c < 4:
			note("jail", i, e.jail(i))
		case c < 7:
			note("unjail", i, e.unjail(i))
		case c < 10:
			note("unstake", i, e.unstake(i))
		case c < 12: // edit-stake: move on/off the chain, or just more tokens
			v, ok := e.staked(i)
			amt := int64(minStake + 10 + r.Intn(50))
			if ok {
				amt = v.StakedTokens.Int64() + int64(r.Intn(3))
			}
			note("edit", i, e.stake(i, pickChains(r, chain, r.Chance(2, 3), maxChains), amt))
		case c < 13: // re-stake whatever state the node is in
			note("restake", i, e.stake(i, pickChains(r, chain, true, maxChains), minStake+int64(20+r.Intn(5))))
		case c < 14: // new node joins
			j := e.addNode(r)
			note("stake", j, e.stake(j, pickChains(r, chain, true, maxChains), minStake+int64(r.Intn(5))))
		case c < 15: // script: jail, unstake while jailed, wait for the session end, unjail
			note("jail", i, e.jail(i))
			note("unstake", i, e.unstake(i))
			for b := 0; b < 2+r.Intn(5); b++ { // usually crosses a session end (waiting validators are released there)
				hist = append(hist, "end="+e.endBlock())
			}
			note("unjail", i, e.unjail(i))
		case c < 16: // script: jail and leave in jail beyond MaxJailedBlocks (forced unstake), then unjail
			note("jail", i, e.jail(i))
			for b := int64(0); b < maxJailed+int64(r.Intn(6)); b++ {
				hist = append(hist, "end="+e.endBlock())
			}
			note("unjail", i, e.unjail(i))
		case c < 17: // script: unstake, let it mature, stake again
			note("unstake", i, e.unstake(i))
			for b := 0; b < 4+r.Intn(6); b++ {
				hist = append(hist, "end="+e.endBlock())
			}
			note("restake", i, e.stake(i, pickChains(r, chain, true, maxChains), minStake+int64(30+r.Intn(5))))
		default:
			hist = append(hist, "end="+e.endBlock())
		}
	}
	if r.Bool() {
		hist = append(hist, "end="+e.endBlock())
	}
	history := strings.Join(hist, ",")
	// draws
	ctx := e.cur()
	featH := int64(0)
	if r.Bool() {
		featH = e.height - int64(r.Intn(3))
		codec.UpgradeFeatureMap[codec.EnforceMaxChainsUpdateKey] = featH
	}
	list, _ := e.nk.GetValidatorsByChain(ctx, chain)
	list0 := append([]sdk.Address(nil), list...) // the candidates as first read (the cache now holds `list` itself)
	list = list0
	addrs := "-"
	var recParts []string
	if len(list) > 0 {
		p := make([]string, len(list))
		for i, a := range list {
			p[i] = gen.Hex(a)
			v, found := e.nk.GetValidator(ctx, a)
			if !found {
				recParts = append(recParts, gen.Hex(a)+":~")
				continue
			}
			j := 0
			if v.Jailed {
				j = 1
			}
			cs := "-"
			if len(v.Chains) > 0 {
				cs = strings.Join(v.Chains, "+")
			}
			recParts = append(recParts, fmt.Sprintf("%s:%d:%s:%d", gen.Hex(a), j, cs, int(v.Status)))
		}
		addrs = strings.Join(p, ",")
	}
	recs := "-"
	if len(recParts) > 0 {
		recs = strings.Join(recParts, ",")
	}
	for d := 0; d < 3; d++ {
		cnt := count
		if d == 2 {
			cnt = 1 + r.Intn(len(list)+2)
		}
		appPub := hex.EncodeToString(r.Bytes(32))
		blockHash := hex.EncodeToString(r.Bytes(32))
		key, kerr := pc.NewSessionKey(appPub, chain, blockHash)
		if kerr != nil {
			panic(kerr)
		}
		var keys []string
		if len(list) > 0 {
			seen := map[int64]bool{}
			k := append([]byte(nil), key...)
			for len(keys) < 4000 {
				keys = append(keys, hex.EncodeToString(k[:8]))
				seen[pc.PseudorandomSelection(sdk.NewInt(int64(len(list))), k).Int64()] = true
				k = pc.Hash(k)
				if len(seen) >= len(list) {
					keys = append(keys, hex.EncodeToString(k[:8]))
					break
				}
			}
		}
		ks := "-"
		if len(keys) > 0 {
			ks = strings.Join(keys, ",")
		}
		draw := func(k pc.SessionKey) string {
			return watch(func() string {
				res := "PANIC"
				func() {
					defer func() { recover() }()
					nodes, err := pc.NewSessionNodes(ctx, ctx, e.nk, chain, append(pc.SessionKey(nil), k...), cnt)
					if err != nil {
						if err.Code() == pc.CodeInsufficientNodesError {
							res = "insufficient"
						} else {
							res = fmt.Sprintf("err%d", err.Code())
						}
						return
					}
					parts := make([]string, len(nodes))
					for i, n := range nodes {
						parts[i] = gen.Hex(n)
					}
					res = "ok " + strings.Join(parts, ",")
				}()
				return res
			})
		}
		// this app's session, then the sessions of two other apps on the same (height, chain) - they share
		// the cached candidate list - then this app's session again
		r1 := draw(key)
		mut, same := "intact", "same"
		if now, _ := e.nk.GetValidatorsByChain(ctx, chain); !sameList(list0, now) {
			mut = "mutated"
		}
		if r1 != "TIMEOUT" {
			for o := 0; o < 2 && !stuck; o++ {
				ok, _ := pc.NewSessionKey(hex.EncodeToString(r.Bytes(32)), chain, blockHash)
				if draw(ok) == "TIMEOUT" {
					same = "differs:TIMEOUT(other-app)"
				}
			}
			if !stuck {
				if r2 := draw(key); r1 != r2 {
					same = "differs:" + strings.ReplaceAll(r2, " ", "_")
				}
			}
			if now, _ := e.nk.GetValidatorsByChain(ctx, chain); !sameList(list0, now) {
				mut = "mutated"
			}
		}
		// the last word is the keeper history that produced this population (a failing line is self-contained)
		t.Line("sess", strings.HasPrefix(r1, "ok"), "sess %d %d %d %d %s %s %s %s hist:%s => %s %s %s",
			cnt, featH, e.height, e.nk.MaxChains(ctx), chain, addrs, recs, ks, history, r1, same, mut)
		finishIfStuck(t)
	}
}
