// c33: drives the real x/pocketcore/types.NewSessionNodes (+ NewSessionKey, Hash,
// PseudorandomSelection) with a stub PosKeeper over generated node populations; the trace is
// consumed by lean/Driver/C33.lean.
package main

import (
	"os"
	"time"
	"encoding/hex"
	"flag"
	"fmt"
	"strings"

	"github.com/pokt-network/pocket-core/codec"
	sdk "github.com/pokt-network/pocket-core/types"
	nodesexported "github.com/pokt-network/pocket-core/x/nodes/exported"
	nodestypes "github.com/pokt-network/pocket-core/x/nodes/types"
	pc "github.com/pokt-network/pocket-core/x/pocketcore/types"
	abci "github.com/tendermint/tendermint/abci/types"
	"github.com/tendermint/tendermint/libs/log"
	"verifharness/internal/gen"
)

// world is what the stub keeper answers at one block height.
type world struct {
	list      []sdk.Address                  // GetValidatorsByChain
	recs      map[string]*nodestypes.Validator // Validator (absent = nil)
	maxChains int64
}

// stub implements pc.PosKeeper; only the three methods NewSessionNodes uses answer, and they answer
// from the world of the height of the context they are called with (session start vs reference).
type stub struct {
	worlds map[int64]*world
	chain  string
	calls  []string
}

func (s *stub) w(ctx sdk.Ctx) *world {
	w, ok := s.worlds[ctx.BlockHeight()]
	if !ok {
		panic(fmt.Sprintf("stub keeper called with unexpected height %d", ctx.BlockHeight()))
	}
	return w
}
func (s *stub) GetValidatorsByChain(ctx sdk.Ctx, networkID string) ([]sdk.Address, int) {
	if networkID != s.chain {
		return nil, 0
	}
	w := s.w(ctx)
	return w.list, len(w.list)
}
func (s *stub) MaxChains(ctx sdk.Ctx) int64 { return s.w(ctx).maxChains }
func (s *stub) Validator(ctx sdk.Ctx, addr sdk.Address) nodesexported.ValidatorI {
	v, ok := s.w(ctx).recs[addr.String()]
	if !ok || v == nil {
		return nil
	}
	return *v
}
func (s *stub) CalculateRelayReward(sdk.Ctx, string, sdk.BigInt, sdk.BigInt) (sdk.BigInt, sdk.BigInt) {
	panic("unused")
}
func (s *stub) RewardForRelays(sdk.Ctx, sdk.BigInt, sdk.Address) sdk.BigInt { panic("unused") }
func (s *stub) RewardForRelaysPerChain(sdk.Ctx, string, sdk.BigInt, sdk.Address) sdk.BigInt {
	panic("unused")
}
func (s *stub) GetStakedTokens(sdk.Ctx) sdk.BigInt                    { panic("unused") }
func (s *stub) TotalTokens(sdk.Ctx) sdk.BigInt                        { panic("unused") }
func (s *stub) BurnForChallenge(sdk.Ctx, sdk.BigInt, sdk.Address)     { panic("unused") }
func (s *stub) JailValidator(sdk.Ctx, sdk.Address)                    { panic("unused") }
func (s *stub) AllValidators(sdk.Ctx) []nodesexported.ValidatorI       { panic("unused") }
func (s *stub) GetStakedValidators(sdk.Ctx) []nodesexported.ValidatorI { panic("unused") }
func (s *stub) BlocksPerSession(sdk.Ctx) int64                        { panic("unused") }
func (s *stub) StakeDenom(sdk.Ctx) string                             { panic("unused") }
func (s *stub) GetRewardCost(sdk.Ctx) sdk.BigInt                      { panic("unused") }

var _ pc.PosKeeper = &stub{}

func ctxAt(h int64) sdk.Ctx {
	return sdk.NewContext(nil, abci.Header{Height: h, ChainID: "verif"}, false, log.NewNopLogger())
}

var chainPool = []string{"0001", "0021", "0040", "03df", "0002", "0003", "0004", "0005"}

func otherChains(r *gen.R, n int, exclude string) []string {
	var out []string
	for _, c := range chainPool {
		if c != exclude && len(out) < n {
			out = append(out, c)
		}
	}
	return out
}

// watch runs one real session generation under a watchdog: NewSessionNodes has no iteration bound, and a
// generation that does not return within the limit is reported as TIMEOUT. The stuck goroutine cannot be
// stopped, so the caller flushes the trace and ends the process after emitting the line.
const genLimit = 5 * time.Second

var stuck bool

func watch(f func() string) string {
	ch := make(chan string, 1)
	go func() { ch <- f() }()
	select {
	case s := <-ch:
		return s
	case <-time.After(genLimit):
		stuck = true
		return "TIMEOUT"
	}
}

func sameList(a, b []sdk.Address) bool {
	if len(a) != len(b) {
		return false
	}
	for i := range a {
		if (a[i] == nil) != (b[i] == nil) || !a[i].Equals(b[i]) {
			return false
		}
	}
	return true
}

func finishIfStuck(t *gen.Trace) {
	if stuck {
		t.Close(map[string]interface{}{"stopped": "a session generation did not terminate"})
		os.Exit(0)
	}
}

func run(st *stub, sessionH, refH int64, chain string, key pc.SessionKey, count int) string {
	defer func() { recover() }()
	res := "PANIC"
	func() {
		defer func() {
			if r := recover(); r != nil {
				res = "PANIC"
			}
		}()
		k := append(pc.SessionKey(nil), key...)
		nodes, err := pc.NewSessionNodes(ctxAt(sessionH), ctxAt(refH), st, chain, k, count)
		if err != nil {
			if err.Code() == pc.CodeInsufficientNodesError {
				res = "insufficient"
			} else {
				res = fmt.Sprintf("err%d", err.Code())
			}
			return
		}
		parts := make([]string, len(nodes))
		for i, n := range nodes {
			parts[i] = gen.Hex(n)
		}
		if len(parts) == 0 {
			res = "ok -"
		} else {
			res = "ok " + strings.Join(parts, ",")
		}
	}()
	return res
}

func main() {
	seed := flag.Uint64("seed", 1, "")
	n := flag.Int("n", 2000, "")
	out := flag.String("out", "c33.trace", "")
	mode := flag.String("mode", "stub", "stub: generated populations behind a stub PosKeeper; keeper: populations reached through the real x/nodes keeper")
	flag.Parse()
	r := gen.New(*seed)
	t := gen.NewTrace(*out)
	codec.TestMode = 0
	if *mode == "keeper" {
		for t.Lines < *n {
			keeperCase(r, t)
		}
		t.Close(map[string]interface{}{"mode": "keeper"})
		return
	}
	for i := 0; i < *n; i++ {
		one(r, t)
	}
	t.Close(nil)
}

func one(r *gen.R, t *gen.Trace) {
	chain := chainPool[r.Intn(3)]
	count := 1 + r.Intn(6)
	if r.Chance(1, 25) {
		count = 0
	}
	if r.Chance(1, 15) {
		count = 24 // mainnet's session node count
	}
	total := count + r.Intn(7) - 2
	if r.Chance(1, 6) {
		total = count + r.Intn(20)
	}
	if total < 0 {
		total = 0
	}
	maxChains := int64(1 + r.Intn(4))
	// feature activation height for MAXCH and the reference height around it
	featH := int64(0)
	if r.Chance(2, 3) {
		featH = 50
	}
	refH := int64(48 + r.Intn(5))
	sessionH := refH - int64(1+r.Intn(4))
	codec.UpgradeFeatureMap = map[string]int64{}
	if featH != 0 {
		codec.UpgradeFeatureMap[codec.EnforceMaxChainsUpdateKey] = featH
	}
	// population
	sess := &world{recs: map[string]*nodestypes.Validator{}, maxChains: maxChains}
	ref := &world{recs: map[string]*nodestypes.Validator{}, maxChains: maxChains + 7}
	var recParts []string
	badWeight := r.Intn(4) // 0: all eligible … 3: many ineligible
	for k := 0; k < total; k++ {
		a := sdk.Address(r.Bytes(20))
		sess.list = append(sess.list, a)
		// at session start everybody looks perfect; only the reference world decides eligibility
		sess.recs[a.String()] = &nodestypes.Validator{Address: a, Chains: []string{chain}}
		v := &nodestypes.Validator{Address: a, Chains: []string{chain}}
		if r.Intn(3) < 2 {
			v.Chains = append(otherChains(r, r.Intn(3), chain), chain)
		}
		kind := "ok"
		if r.Intn(8) < badWeight*2 {
			switch r.Intn(4) {
			case 0:
				v.Jailed = true
				kind = "jailed"
			case 1:
				v.Chains = append(otherChains(r, int(maxChains)+r.Intn(2), chain), chain) // over (or exactly at) the limit
				kind = "overchained"
			case 2:
				v.Chains = otherChains(r, 1+r.Intn(2), chain)
				kind = "nochain"
			default:
				v = nil
				kind = "missing"
			}
		}
		_ = kind
		if v == nil {
			recParts = append(recParts, gen.Hex(a)+":~")
		} else {
			ref.recs[a.String()] = v
			j := 0
			if v.Jailed {
				j = 1
			}
			cs := "-"
			if len(v.Chains) > 0 {
				cs = strings.Join(v.Chains, "+")
			}
			recParts = append(recParts, fmt.Sprintf("%s:%d:%s", gen.Hex(a), j, cs))
		}
	}
	// the reference world lists the nodes in another order (must not be used for the list)
	for k := len(sess.list) - 1; k >= 0; k-- {
		ref.list = append(ref.list, sess.list[k])
	}
	if len(ref.list) > 1 {
		ref.list = ref.list[1:]
	}
	mk := func() *stub {
		return &stub{worlds: map[int64]*world{sessionH: sess, refH: ref}, chain: chain}
	}
	// the session key and the successive re-hashes the loop will use
	appPub := hex.EncodeToString(r.Bytes(32))
	blockHash := hex.EncodeToString(r.Bytes(32))
	key, kerr := pc.NewSessionKey(appPub, chain, blockHash)
	if kerr != nil {
		panic(kerr)
	}
	var keys []string
	if total > 0 {
		seen := map[int64]bool{}
		k := append([]byte(nil), key...)
		for len(keys) < 4000 {
			keys = append(keys, hex.EncodeToString(k[:8]))
			seen[pc.PseudorandomSelection(sdk.NewInt(int64(total)), k).Int64()] = true
			k = pc.Hash(k)
			if len(seen) >= total {
				keys = append(keys, hex.EncodeToString(k[:8])) // one spare
				break
			}
		}
	}
	// the candidate list handed to the generation is the keeper's own slice (in production: the slice held by
	// the validators-by-chain cache); it must come back unchanged, and a second generation on it must agree
	before := append([]sdk.Address(nil), sess.list...)
	r1 := watch(func() string { return run(mk(), sessionH, refH, chain, key, count) })
	mut := "intact"
	if !sameList(before, sess.list) {
		mut = "mutated"
	}
	same := "same"
	if r1 != "TIMEOUT" {
		r2 := watch(func() string { return run(mk(), sessionH, refH, chain, key, count) })
		if r1 != r2 {
			same = "differs:" + strings.ReplaceAll(r2, " ", "_")
		}
	}
	addrs := "-"
	if len(before) > 0 {
		p := make([]string, len(before))
		for i, a := range before {
			p[i] = gen.Hex(a)
		}
		addrs = strings.Join(p, ",")
	}
	recs := "-"
	if len(recParts) > 0 {
		recs = strings.Join(recParts, ",")
	}
	ks := "-"
	if len(keys) > 0 {
		ks = strings.Join(keys, ",")
	}
	t.Line("sess", strings.HasPrefix(r1, "ok") && badWeight > 0, "sess %d %d %d %d %s %s %s %s => %s %s %s",
		count, featH, refH, maxChains, chain, addrs, recs, ks, r1, same, mut)
	finishIfStuck(t)
}
