// c36: correspondence harness for C36 (only the designated owner changes parameters / moves DAO
// funds).  Signed MsgChangeParam / MsgDAOTransfer / MsgUpgrade transactions go through the real
// DeliverTx of the real app whose genesis ACL spreads the parameter keys over three owners; after
// every DeliverTx the governance-relevant state is dumped:
//
//	G = S=<supply> A=<accounts> ACL=<key>=<addr>,… DO=<dao owner> P=<aclkey>=<digest of raw stored value>,…
//
//	init <modules> => G
//	sync <what> => G
//	param <signer> <key> <wellformed> <registered> <undecodable | plain:<digest> | acl:<digest>:<k=a,…> | owner:<digest>:<addr>> <fee> => <code> <codespace> G
//	dao <signer> <to> <amount> <burn> <fee> => <code> <codespace> G
//	upgrade <signer> <fee> => <code> <codespace> G
//	kparam <signer> <key> <wellformed> <registered> <value…> <height> <splitActive> => <code|panic> <codespace> G
//	       (-mode heights: the real gov handler called with ctx.WithBlockHeight(height); no ante, no fee)
package main

import (
	"crypto/sha256"
	"encoding/hex"
	"flag"
	"fmt"
	"math"
	"regexp"
	"sort"
	"strconv"
	"strings"
	"time"

	"github.com/pokt-network/pocket-core/app"
	"github.com/pokt-network/pocket-core/codec"
	sdk "github.com/pokt-network/pocket-core/types"
	appsTypes "github.com/pokt-network/pocket-core/x/apps/types"
	authTypes "github.com/pokt-network/pocket-core/x/auth/types"
	"github.com/pokt-network/pocket-core/x/gov"
	govTypes "github.com/pokt-network/pocket-core/x/gov/types"
	nodesTypes "github.com/pokt-network/pocket-core/x/nodes/types"
	dbm "github.com/tendermint/tm-db"
	"verifharness/internal/bankdrv"
	"verifharness/internal/chain"
	"verifharness/internal/gen"
)

var modNames = []string{authTypes.FeeCollectorName, nodesTypes.StakedPoolName, appsTypes.StakedPoolName, govTypes.DAOAccountName, nodesTypes.ModuleName, appsTypes.ModuleName}

func digest(b []byte) string {
	h := sha256.Sum256(b)
	return hex.EncodeToString(h[:6])
}

func aclStr(a govTypes.ACL) string {
	if len(a) == 0 {
		return "-"
	}
	ps := make([]string, len(a))
	for i, p := range a {
		ad := p.Addr.String()
		if len(p.Addr) == 0 {
			ad = "-"
		}
		ps[i] = p.Key + "=" + ad
	}
	return strings.Join(ps, ",")
}

func dumpGov(n *chain.Node, ctx sdk.Ctx) string {
	gk := n.App.VerifGovKeeper()
	do := gk.GetDAOOwner(ctx).String()
	if do == "" {
		do = "-"
	}
	pv := gk.GetAllParamNameValue(ctx)
	ks := make([]string, 0, len(pv))
	for k := range pv {
		ks = append(ks, k)
	}
	sort.Strings(ks)
	ps := make([]string, len(ks))
	for i, k := range ks {
		ps[i] = k + "=" + digest([]byte(pv[k]))
	}
	return fmt.Sprintf("%s ACL=%s DO=%s P=%s", bankdrv.DumpBank(n, ctx), aclStr(gk.GetACL(ctx)), do, strings.Join(ps, ","))
}

var numStr = regexp.MustCompile(`^"(-?\d+)"$`)

func main() {
	seed := flag.Uint64("seed", 1, "")
	nn := flag.Int("n", 500, "")
	out := flag.String("out", "c36.trace", "")
	mode := flag.String("mode", "txs", "txs | heights")
	flag.Parse()
	t := gen.NewTrace(*out)
	r := gen.New(*seed)
	chain.ModernGlobals()
	w, o := chain.DefaultWorld("verif", 3, 1, 1, 3)
	owners := []chain.Key{w.Owner, chain.KeyN(1001), chain.KeyN(1002)}
	o.Accounts = append(o.Accounts, owners[1], owners[2])
	o.Mutate = func(g *chain.Genesis) {
		acl := govTypes.ACL{}
		for i, k := range chain.ACLKeys {
			acl.SetOwner(k, owners[i%3].Addr)
		}
		g.Gov.Params.ACL = acl
		g.Gov.Params.DAOOwner = owners[1].Addr
	}
	g := chain.BuildGenesis(o)
	n := chain.NewNode(g, "verif", o.GenesisTime, dbm.NewMemDB(), dbm.NewMemDB(), dbm.NewMemDB(), false)
	n.InitChain()
	s := bankdrv.NewStepper(n)
	ak := n.App.VerifAccountKeeper()
	gk := n.App.VerifGovKeeper()
	cdc := app.Codec()
	mods := ""
	for i, m := range modNames {
		a, _ := ak.GetModuleAddressAndPermissions(m)
		if i > 0 {
			mods += ";"
		}
		mods += fmt.Sprintf("%s:%s:true:true", m, a.String())
	}
	now := o.GenesisTime
	for n.Height+1 < chain.FirstModernHeight {
		now = now.Add(time.Minute)
		s.Begin(chain.Block{Time: now, Proposer: w.Vals[0].Addr})
		s.End()
		s.Commit()
	}
	signers := append(append([]chain.Key{}, owners...), w.Accts[0], w.Accts[1], w.Vals[0], w.Fresh[0])
	if *mode == "heights" {
		for n.Height < chain.FirstModernHeight { // the feature-activation hook has added its ACL entries
			now = now.Add(time.Minute)
			s.Begin(chain.Block{Time: now, Proposer: w.Vals[0].Addr})
			s.End()
			s.Commit()
		}
		t.Line("init", false, "init %s => %s", mods, dumpGov(n, n.Ctx()))
		runHeights(t, r, n, owners, signers, *nn)
		return
	}
	t.Line("init", false, "init %s => %s", mods, dumpGov(n, n.Ctx()))
	rcpts := []sdk.Address{w.Accts[0].Addr, w.Accts[2].Addr, owners[0].Addr, owners[1].Addr, w.Fresh[1].Addr, w.Fresh[2].Addr,
		ak.GetModuleAddress(govTypes.DAOAccountName), ak.GetModuleAddress(authTypes.FeeCollectorName), w.Vals[1].Addr}
	// (no key with an unknown subspace: for its ACL owner ModifyParam calls os.Exit)
	// DAO transfer recipients of length != 20 (ValidateBasic only rejects a nil recipient)
	rcpts = append(rcpts, append(append(sdk.Address{}, w.Accts[0].Addr...), 0x00), append(sdk.Address{}, w.Accts[2].Addr[:19]...),
		append(append(sdk.Address{}, ak.GetModuleAddress(govTypes.DAOAccountName)...), 0x01), sdk.Address{0x01})
	bogusKeys := []string{"pos/Bogus", "nokey", "pos/RelaysToTokensMultiplie", "pos/MaxValidator", "pos/MaxValidatorss", "gov/ACL", ""}
	entropy := int64(1)
	lines := 0
	type planned struct {
		head string
		kind string
	}
	for lines < *nn {
		now = now.Add(time.Minute)
		ctx := n.Ctx()
		acl := gk.GetACL(ctx)
		names := gk.GetAllParamNames(ctx)
		vals := gk.GetAllParamNameValue(ctx)
		daoBal := gk.GetDAOTokens(ctx)
		ntx := 1 + r.Intn(3)
		var ps []planned
		var txs [][]byte
		// 1 block in 4: an ownership hand-over and its consequences inside ONE block.  The owner of
		// gov/acl moves key X from owner A to owner B; then A and B both act on X in the same block (each
		// transaction is judged against the ACL in the state left by the transaction before it).
		if r.Chance(1, 4) && len(acl) > 0 {
			ntx = 0
			fee := int64(chain.DefaultFee)
			add := func(signer chain.Key, msg sdk.ProtoMsg, head, kind string) {
				txs = append(txs, chain.SignTx("verif", signer, msg, fee, entropy, ""))
				entropy++
				ps = append(ps, planned{head, kind + "-sameblock"})
			}
			keyOf := func(a sdk.Address) (chain.Key, bool) {
				for _, c := range owners {
					if c.Addr.Equals(a) {
						return c, true
					}
				}
				return chain.Key{}, false
			}
			paramTx := func(signer chain.Key, key string, raw []byte, val string) {
				_, reg := names[key]
				add(signer, &govTypes.MsgChangeParam{FromAddress: signer.Addr, ParamKey: key, ParamVal: raw},
					fmt.Sprintf("param %s %s %v %v %s %d", signer.Addr, key, strings.Contains(key, "/"), reg, val, fee), "param")
			}
			aclTx := func(signer chain.Key, na govTypes.ACL) {
				raw, _ := cdc.MarshalJSON(na)
				paramTx(signer, "gov/acl", raw, fmt.Sprintf("acl:%s:%s", digest(sdk.MustSortJSON(raw)), aclStr(na)))
			}
			// X: a numeric parameter, gov/upgrade, gov/daoOwner, or gov/acl itself
			var numeric []string
			for _, p := range acl {
				if numStr.MatchString(vals[p.Key]) {
					numeric = append(numeric, p.Key)
				}
			}
			x := []string{"gov/upgrade", "gov/daoOwner", "gov/acl", "gov/acl"}[r.Intn(4)]
			if len(numeric) > 0 && r.Chance(1, 2) {
				x = numeric[r.Intn(len(numeric))]
			}
			aclOwner, ok1 := keyOf(acl.GetOwner("gov/acl"))
			a, ok2 := keyOf(acl.GetOwner(x))
			if ok1 && ok2 {
				b := owners[r.Intn(3)]
				for b.Addr.Equals(a.Addr) {
					b = owners[r.Intn(3)]
				}
				if r.Bool() { // some gov message first (the hand-over itself is also one)
					paramTx(w.Accts[0], "pos/MaxValidators", []byte(`"7"`), "plain:"+digest([]byte(`"7"`)))
				}
				na := append(govTypes.ACL{}, acl...)
				// the ACL is a list and nothing rejects two pairs for one key: the FIRST pair names the
				// owner (ACL.GetOwner, and the pair SetOwner rewrites).  One hand-over in three installs a
				// trailing duplicate (A stays the owner, B is a decoy), one in three a leading duplicate
				// (B shadows A); chosen from the tx counter so the PRNG stream of older runs is unchanged
				switch entropy % 3 {
				case 1:
					na = append(na, govTypes.ACLPair{Key: x, Addr: b.Addr})
				case 2:
					na = append(govTypes.ACL{{Key: x, Addr: b.Addr}}, na...)
				default:
					na.SetOwner(x, b.Addr)
				}
				aclTx(aclOwner, na)
				actors := []chain.Key{a, b}
				if r.Bool() {
					actors = []chain.Key{b, a}
				}
				if r.Chance(1, 3) {
					actors = append(actors, actors[0])
				}
				for _, who := range actors {
					switch {
					case x == "gov/upgrade":
						u := govTypes.Upgrade{Height: 1, Version: "FEATURE", Features: []string{fmt.Sprintf("ZTEST%d:%d", r.Intn(3), 900000+r.Intn(1000))}}
						add(who, chain.MsgUpgrade(who.Addr, u), fmt.Sprintf("upgrade %s %d", who.Addr, fee), "upgrade")
					case x == "gov/daoOwner":
						nd := owners[r.Intn(3)].Addr
						raw, _ := cdc.MarshalJSON(nd)
						paramTx(who, x, raw, fmt.Sprintf("owner:%s:%s", digest(sdk.MustSortJSON(raw)), nd.String()))
						// and the DAO funds right after: by this actor and by the DAO owner of the block start
						to := rcpts[r.Intn(len(rcpts))]
						amt := int64(1 + r.Intn(100000))
						burn := r.Chance(1, 3)
						for _, d := range []chain.Key{who, owners[1]} {
							add(d, chain.MsgDAO(d.Addr, to, amt, burn), fmt.Sprintf("dao %s %s %d %v %d", d.Addr, to, amt, burn, fee), "dao")
						}
					case x == "gov/acl":
						// a second hand-over by the old / the new owner of gov/acl (of some other key, to itself)
						y := acl[r.Intn(len(acl))].Key
						nb := append(govTypes.ACL{}, na...)
						nb.SetOwner(y, who.Addr)
						aclTx(who, nb)
					default:
						v, _ := strconv.ParseInt(numStr.FindStringSubmatch(vals[x])[1], 10, 64)
						if v%2 == 0 {
							v++
						} else {
							v--
						}
						raw := []byte(fmt.Sprintf(`"%d"`, v))
						paramTx(who, x, raw, "plain:"+digest(sdk.MustSortJSON(raw)))
					}
				}
			}
		}
		for i := 0; i < ntx; i++ {
			signer := signers[r.Intn(len(signers))]
			fee := int64(chain.DefaultFee)
			var msg sdk.ProtoMsg
			var head, kind string
			switch k := r.Intn(10); {
			case k < 6: // change param
				var key string
				if r.Chance(1, 7) || len(acl) == 0 {
					key = bogusKeys[r.Intn(len(bogusKeys))]
				} else if r.Chance(1, 4) {
					key = []string{"gov/acl", "gov/acl", "gov/daoOwner", "pos/RelaysToTokensMultiplier", "pos/ServicerStakeFloorMultiplier"}[r.Intn(5)]
				} else {
					key = acl[r.Intn(len(acl))].Key
				}
				// signer: the owner of this key (1/2), else anybody
				if r.Bool() {
					ow := acl.GetOwner(key)
					for _, c := range signers {
						if c.Addr.Equals(ow) {
							signer = c
						}
					}
				}
				_, reg := names[key]
				wf := strings.Contains(key, "/")
				cur := vals[key]
				var raw []byte
				val := "undecodable"
				switch v := r.Intn(10); {
				case v < 3: // undecodable for every registered type
					raw = [][]byte{[]byte(`{"x":`), []byte(`[1,`), []byte(`}`)}[r.Intn(3)]
					if m := numStr.FindStringSubmatch(cur); m != nil && r.Bool() {
						raw = []byte(`"12abc"`)
						if m[1] == strconv.FormatInt(math.MaxInt64, 10) && r.Bool() {
							raw = []byte(`"9223372036854775808"`) // out of int64 range
						}
					}
				case key == "gov/acl":
					na := append(govTypes.ACL{}, acl...)
					switch r.Intn(5) {
					case 4: // same owners, other order (lookup must not depend on it: keys that are prefixes of other keys)
						for i, j := 0, len(na)-1; i < j; i, j = i+1, j-1 {
							na[i], na[j] = na[j], na[i]
						}
					case 0: // hand one key to another owner
						na.SetOwner(na[r.Intn(len(na))].Key, owners[r.Intn(3)].Addr)
					case 1: // hand gov/acl or gov/daoOwner to another owner
						na.SetOwner([]string{"gov/acl", "gov/daoOwner", "gov/upgrade"}[r.Intn(3)], owners[r.Intn(3)].Addr)
					case 2: // add an entry for a parameter that does not exist / a malformed key
						na.SetOwner([]string{"pos/Bogus", "nokey"}[r.Intn(2)], owners[r.Intn(3)].Addr)
					default: // same ACL
					}
					raw, _ = cdc.MarshalJSON(na)
					val = fmt.Sprintf("acl:%s:%s", digest(sdk.MustSortJSON(raw)), aclStr(na))
				case key == "gov/daoOwner":
					a := owners[r.Intn(3)].Addr
					raw, _ = cdc.MarshalJSON(a)
					val = fmt.Sprintf("owner:%s:%s", digest(sdk.MustSortJSON(raw)), a.String())
				default:
					raw = []byte(cur)
					if m := numStr.FindStringSubmatch(cur); m != nil {
						v, _ := strconv.ParseInt(m[1], 10, 64)
						if v%2 == 0 {
							v++
						} else {
							v--
						}
						raw = []byte(fmt.Sprintf(`"%d"`, v))
					} else if cur == "true" {
						raw = []byte("false")
					} else if cur == "false" {
						raw = []byte("true")
					}
					if len(raw) == 0 { // unknown key: any syntactically fine value
						raw = []byte(`"1"`)
					}
					val = "plain:" + digest(sdk.MustSortJSON(raw))
				}
				msg = &govTypes.MsgChangeParam{FromAddress: signer.Addr, ParamKey: key, ParamVal: raw}
				kk := key
				if kk == "" {
					kk = "~"
				}
				head = fmt.Sprintf("param %s %s %v %v %s %d", signer.Addr, kk, wf, reg, val, fee)
				kind = "param"
			case k < 9: // DAO transfer / burn
				do := gk.GetDAOOwner(ctx)
				if r.Chance(3, 5) {
					for _, c := range signers {
						if c.Addr.Equals(do) {
							signer = c
						}
					}
				}
				b := int64(0)
				if daoBal.IsInt64() {
					b = daoBal.Int64()
				}
				amt := []int64{1, 2, b / 3, b - 1, b, b + 1, 2 * b, math.MaxInt64, -1, -b, int64(1 + r.Intn(1000000)), 0}[r.Intn(12)]
				burn := r.Chance(2, 5)
				to := rcpts[r.Intn(len(rcpts))]
				msg = chain.MsgDAO(signer.Addr, to, amt, burn)
				head = fmt.Sprintf("dao %s %s %d %v %d", signer.Addr, to, amt, burn, fee)
				kind = "dao"
			default: // feature-only upgrade (harmless key far in the future)
				ow := acl.GetOwner("gov/upgrade")
				if r.Bool() {
					for _, c := range signers {
						if c.Addr.Equals(ow) {
							signer = c
						}
					}
				}
				u := govTypes.Upgrade{Height: 1, Version: "FEATURE", Features: []string{fmt.Sprintf("ZTEST%d:%d", r.Intn(3), 900000+r.Intn(1000))}}
				msg = chain.MsgUpgrade(signer.Addr, u)
				head = fmt.Sprintf("upgrade %s %d", signer.Addr, fee)
				kind = "upgrade"
			}
			txs = append(txs, chain.SignTx("verif", signer, msg, fee, entropy, ""))
			entropy++
			ps = append(ps, planned{head, kind})
		}
		s.Begin(chain.Block{Time: now, Proposer: w.Vals[r.Intn(len(w.Vals))].Addr, Txs: txs})
		t.Line("sync", false, "sync begin => %s", dumpGov(n, s.MidCtx()))
		lines++
		for _, p := range ps {
			res := s.Deliver()
			cs := res.Codespace
			if cs == "" {
				cs = "-"
			}
			t.Line(fmt.Sprintf("%s/%s%d", p.kind, res.Codespace, res.Code), res.Code == 0, "%s => %d %s %s", p.head, res.Code, cs, dumpGov(n, s.MidCtx()))
			lines++
		}
		s.End()
		s.Commit()
	}
	t.Close(nil)
}

// runHeights: every ACL key x signer {owner, owner of another key, stranger} at the block heights the
// handler hard-codes (the pos/MaxValidators freeze from 40000 until the validator split at 45353), by
// calling the real gov handler with ctx.WithBlockHeight(h) on the real app's store.  Half of the calls
// run with the upgrade globals of a chain that never stored a version upgrade (validator split active
// only from 45353: the frozen window exists), half with the harness chain's own (split active).
func runHeights(t *gen.Trace, r *gen.R, n *chain.Node, owners, signers []chain.Key, lines int) {
	gk := n.App.VerifGovKeeper()
	cdc := app.Codec()
	handler := gov.NewHandler(gk)
	heights := []int64{2, 39999, 40000, 40001, 45352, 45353, 45354, 100000}
	special := []string{"pos/MaxValidators", "pos/MaxValidators", "gov/acl", "gov/upgrade", "gov/daoOwner", "pos/RelaysToTokensMultiplierMap", "pos/RelaysToTokensMultiplier"}
	for i := 0; i < lines; i++ {
		ctx := n.Ctx()
		acl := gk.GetACL(ctx)
		names := gk.GetAllParamNames(ctx)
		vals := gk.GetAllParamNameValue(ctx)
		key := acl[r.Intn(len(acl))].Key
		if r.Chance(1, 3) {
			key = special[r.Intn(len(special))]
		}
		signer := signers[r.Intn(len(signers))]
		if r.Chance(2, 5) {
			ow := acl.GetOwner(key)
			for _, c := range signers {
				if c.Addr.Equals(ow) {
					signer = c
				}
			}
		}
		cur := vals[key]
		var raw []byte
		val := "undecodable"
		switch {
		case r.Chance(1, 6):
			raw = []byte(`{"x":`)
		case key == "gov/acl":
			na := append(govTypes.ACL{}, acl...)
			if r.Bool() {
				na.SetOwner(na[r.Intn(len(na))].Key, owners[r.Intn(3)].Addr)
			}
			raw, _ = cdc.MarshalJSON(na)
			val = fmt.Sprintf("acl:%s:%s", digest(sdk.MustSortJSON(raw)), aclStr(na))
		case key == "gov/daoOwner":
			a := owners[r.Intn(3)].Addr
			raw, _ = cdc.MarshalJSON(a)
			val = fmt.Sprintf("owner:%s:%s", digest(sdk.MustSortJSON(raw)), a.String())
		default:
			raw = []byte(cur)
			if m := numStr.FindStringSubmatch(cur); m != nil {
				v, _ := strconv.ParseInt(m[1], 10, 64)
				if v%2 == 0 {
					v++
				} else {
					v--
				}
				raw = []byte(fmt.Sprintf(`"%d"`, v))
			}
			val = "plain:" + digest(sdk.MustSortJSON(raw))
		}
		h := heights[r.Intn(len(heights))]
		// globals of a chain without a stored version upgrade, for this call only
		uh, ouh := codec.UpgradeHeight, codec.OldUpgradeHeight
		legacy := r.Bool() && h >= 30024
		if legacy {
			codec.UpgradeHeight, codec.OldUpgradeHeight = math.MaxInt64, 0
		}
		split := n.App.VerifCodec().IsAfterValidatorSplitUpgrade(h)
		_, reg := names[key]
		code, cs := "panic", "-"
		func() {
			defer func() { recover() }()
			res := handler(ctx.WithBlockHeight(h), govTypes.MsgChangeParam{FromAddress: signer.Addr, ParamKey: key, ParamVal: raw}, nil)
			code, cs = fmt.Sprint(uint32(res.Code)), string(res.Codespace)
			if cs == "" {
				cs = "-"
			}
		}()
		codec.UpgradeHeight, codec.OldUpgradeHeight = uh, ouh
		t.Line(fmt.Sprintf("kparam/h%d/%s%s", h, cs, code), code == "0", "kparam %s %s %v %v %s %d %v => %s %s %s",
			signer.Addr, key, strings.Contains(key, "/"), reg, val, h, split, code, cs, dumpGov(n, n.Ctx()))
	}
	t.Close(nil)
}
