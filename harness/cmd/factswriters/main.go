// factswriters: regenerated source fact for the ledger properties — every store write site
// (store.Set / store.Delete on a KVStore obtained from the context) in the module keepers, with the
// enclosing function and the key expression. The committed expectation classifies who may write
// which key family; a new or moved write site is a broken tie for the properties that model those
// records (a writer the models do not know about).
package main

import (
	"bytes"
	"flag"
	"fmt"
	"go/ast"
	"go/parser"
	"go/printer"
	"go/token"
	"os"
	"path/filepath"
	"sort"
	"strings"
)

func main() {
	repo := flag.String("repo", "/repo", "")
	flag.Parse()
	dirs := []string{"x/auth/keeper", "x/nodes/keeper", "x/apps/keeper", "x/pocketcore/keeper", "x/gov/keeper", "x/nodes", "x/apps", "x/pocketcore", "x/gov", "x/auth"}
	var out []string
	for _, d := range dirs {
		fset := token.NewFileSet()
		pkgs, err := parser.ParseDir(fset, filepath.Join(*repo, d), func(fi os.FileInfo) bool {
			return !strings.HasSuffix(fi.Name(), "_test.go") && !strings.HasSuffix(fi.Name(), "_verif.go") && !strings.HasSuffix(fi.Name(), ".pb.go")
		}, 0)
		if err != nil {
			fmt.Fprintln(os.Stderr, err)
			os.Exit(2)
		}
		for _, p := range pkgs {
			for _, f := range p.Files {
				for _, decl := range f.Decls {
					fd, ok := decl.(*ast.FuncDecl)
					if !ok || fd.Body == nil {
						continue
					}
					name := fd.Name.Name
					if fd.Recv != nil && len(fd.Recv.List) > 0 {
						var b bytes.Buffer
						printer.Fprint(&b, fset, fd.Recv.List[0].Type)
						name = strings.TrimPrefix(b.String(), "*") + "." + name
					}
					ast.Inspect(fd.Body, func(n ast.Node) bool {
						ce, ok := n.(*ast.CallExpr)
						if !ok {
							return true
						}
						se, ok := ce.Fun.(*ast.SelectorExpr)
						if !ok || (se.Sel.Name != "Set" && se.Sel.Name != "Delete") || len(ce.Args) == 0 {
							return true
						}
						var rb bytes.Buffer
						printer.Fprint(&rb, fset, se.X)
						recv := rb.String()
						lr := strings.ToLower(recv)
						if !(strings.Contains(lr, "store") || strings.Contains(lr, "kvstore")) {
							return true
						}
						var kb bytes.Buffer
						printer.Fprint(&kb, fset, ce.Args[0])
						key := strings.Join(strings.Fields(kb.String()), " ")
						out = append(out, fmt.Sprintf("%s %s %s %s", d, name, se.Sel.Name, key))
						return true
					})
				}
			}
		}
	}
	sort.Strings(out)
	for _, l := range out {
		fmt.Println(l)
	}
}
