// c37: (a) the pure feature-map functions of codec/codec.go on generated feature strings,
// (b) sequences of upgrade messages through the real gov keeper (HandleUpgrade) on a MemDB multistore
// laid out like the application's, followed by a restart = a real app.NewPocketCoreApp on the same
// database in a process whose codec globals were reset to their start-up values.
// The trace is consumed by lean/Driver/C37.lean.
package main

import (
	"flag"
	"fmt"
	"math"
	"sort"
	"strings"

	"github.com/pokt-network/pocket-core/app"
	bam "github.com/pokt-network/pocket-core/baseapp"
	"github.com/pokt-network/pocket-core/codec"
	"github.com/pokt-network/pocket-core/store"
	sdk "github.com/pokt-network/pocket-core/types"
	appstypes "github.com/pokt-network/pocket-core/x/apps/types"
	"github.com/pokt-network/pocket-core/x/auth"
	"github.com/pokt-network/pocket-core/x/gov"
	govkeeper "github.com/pokt-network/pocket-core/x/gov/keeper"
	govtypes "github.com/pokt-network/pocket-core/x/gov/types"
	nodestypes "github.com/pokt-network/pocket-core/x/nodes/types"
	pc "github.com/pokt-network/pocket-core/x/pocketcore/types"
	abci "github.com/tendermint/tendermint/abci/types"
	"github.com/tendermint/tendermint/libs/log"
	dbm "github.com/tendermint/tm-db"
	"verifharness/internal/gen"
)

// start-up values of the codec globals, recorded before anything touches them
var initUpgradeHeight, initOldUpgradeHeight = codec.UpgradeHeight, codec.OldUpgradeHeight
var initMapLen = len(codec.UpgradeFeatureMap)

func resetGlobals() {
	codec.UpgradeHeight = initUpgradeHeight
	codec.OldUpgradeHeight = initOldUpgradeHeight
	codec.UpgradeFeatureMap = make(map[string]int64)
	codec.TestMode = 0
}

func hexs(s string) string { return gen.Hex([]byte(s)) }

func renderStrs(xs []string) string {
	if len(xs) == 0 {
		return "-"
	}
	p := make([]string, len(xs))
	for i, x := range xs {
		p[i] = hexs(x)
	}
	return strings.Join(p, ",")
}

func renderMap(m map[string]int64) string {
	if len(m) == 0 {
		return "-"
	}
	keys := make([]string, 0, len(m))
	for k := range m {
		keys = append(keys, k)
	}
	sort.Strings(keys)
	p := make([]string, len(keys))
	for i, k := range keys {
		p[i] = fmt.Sprintf("%s=%d", hexs(k), m[k])
	}
	return strings.Join(p, ",")
}

func renderGlobals() string {
	return fmt.Sprintf("G:%d:%d:%s", codec.UpgradeHeight, codec.OldUpgradeHeight, renderMap(codec.UpgradeFeatureMap))
}

func renderUpgrade(u govtypes.Upgrade) string {
	return fmt.Sprintf("S:%d:%s:%d:%s", u.Height, hexs(u.Version), u.OldUpgradeHeight, renderStrs(u.Features))
}

func try(f func() string) (s string) {
	defer func() {
		if r := recover(); r != nil {
			s = "PANIC"
		}
	}()
	return f()
}

var keyPool = []string{"MAXCH", "REDUP", "MREL", "REPBR", "NCUST", "RSCAL", "A", "A1", "AB", "", "x y"}

func genValue(r *gen.R) string {
	switch r.Intn(14) {
	case 0:
		return "0"
	case 1:
		return fmt.Sprint(int64(math.MaxInt64) - int64(r.Intn(2)))
	case 2:
		return "9223372036854775808" // range error -> MaxInt64
	case 3:
		return "-" + fmt.Sprint(r.Intn(50))
	case 4:
		return r.Pick([]string{"", "abc", "12x", "+7", " 5", "1_0", "-", "+", "007", "-9223372036854775809", "99999999999999999999999"})
	default:
		return fmt.Sprint(1 + r.Intn(60))
	}
}

// genFeatures: mostly well formed KEY:height; duplicates and re-scheduling are frequent (small key
// pool); malformed = no colon / two colons.
func genFeatures(r *gen.R, malformed bool) []string {
	n := r.Intn(5)
	var out []string
	for i := 0; i < n; i++ {
		k := keyPool[r.Intn(len(keyPool)-2)]
		if r.Chance(1, 12) {
			k = keyPool[len(keyPool)-2+r.Intn(2)]
		}
		out = append(out, k+":"+genValue(r))
	}
	if malformed && n > 0 {
		switch r.Intn(3) {
		case 0:
			out[r.Intn(n)] = "NOCOLON"
		case 1:
			out[r.Intn(n)] = "K:3:9"
		default:
			out = append(out, "")
		}
	}
	if r.Chance(1, 6) && len(out) > 0 {
		out = append(out, out[r.Intn(len(out))]) // exact duplicate
	}
	return out
}

func pure(r *gen.R, t *gen.Trace) {
	mal := r.Chance(1, 8)
	fs := genFeatures(r, mal)
	switch r.Intn(4) {
	case 0:
		res := try(func() string { return renderStrs(codec.CleanUpgradeFeatureSlice(fs)) })
		t.Line("clean", len(fs) > 1 && res != "PANIC", "clean %s => %s", renderStrs(fs), res)
	case 1:
		res := try(func() string { return renderMap(codec.SliceToMap(fs)) })
		t.Line("s2m", len(fs) > 1 && res != "PANIC", "s2m %s => %s", renderStrs(fs), res)
	case 2:
		base := map[string]int64{}
		for i := r.Intn(4); i > 0; i-- {
			base[keyPool[r.Intn(len(keyPool))]] = int64(r.Intn(40))
		}
		before := renderMap(base)
		res := try(func() string { return renderMap(codec.SliceToExistingMap(fs, base)) })
		if renderMap(base) != before {
			res = "MUTATED-INPUT"
		}
		t.Line("s2em", len(fs) > 0 && res != "PANIC", "s2em %s %s => %s", renderStrs(fs), before, res)
	default:
		// clean of the output of MapToSlice in the (random) iteration order Go happens to use
		m := map[string]int64{}
		for i := r.Intn(6); i > 0; i-- {
			m[keyPool[r.Intn(len(keyPool))]] = int64(r.Intn(100)) - 10
		}
		sl := codec.MapToSlice(m)
		res := try(func() string { return renderStrs(codec.CleanUpgradeFeatureSlice(sl)) })
		t.Line("m2s", len(m) > 1, "m2s %s => %s", renderMap(m), res)
	}
}

// ---------------------------------------------------------------- keeper sessions

type env struct {
	db    dbm.DB
	ms    sdk.CommitMultiStore
	k     govkeeper.Keeper
	owner sdk.Address
	base  sdk.Context
}

var storeNames = []string{bam.MainStoreKey, auth.StoreKey, nodestypes.StoreKey, appstypes.StoreKey, gov.StoreKey, pc.StoreKey}

func newEnv(preset govtypes.Upgrade) *env {
	resetGlobals()
	db := dbm.NewMemDB()
	ms := store.NewCommitMultiStore(db, false, 5000000)
	keys := map[string]*sdk.KVStoreKey{}
	for _, n := range storeNames {
		keys[n] = sdk.NewKVStoreKey(n)
		ms.MountStoreWithDB(keys[n], sdk.StoreTypeIAVL, nil)
	}
	ms.MountStoreWithDB(sdk.ParamsKey, sdk.StoreTypeIAVL, nil)
	ms.MountStoreWithDB(sdk.ParamsTKey, sdk.StoreTypeTransient, nil)
	tkey := sdk.NewTransientStoreKey(pc.TStoreKey)
	ms.MountStoreWithDB(tkey, sdk.StoreTypeTransient, nil)
	if err := ms.LoadLatestVersion(); err != nil {
		panic(err)
	}
	ctx := sdk.NewContext(ms, abci.Header{ChainID: "verif", Height: 1}, false, log.NewNopLogger())
	cdc := app.Codec()
	maccPerms := map[string][]string{auth.FeeCollectorName: nil, govtypes.DAOAccountName: {"burner", "staking", "minter"}}
	akSub := sdk.NewSubspace(auth.DefaultParamspace)
	ak := auth.NewKeeper(cdc, keys[auth.StoreKey], akSub, maccPerms)
	// the application gives the gov keeper the pocketcore store key (app/app.go)
	k := govkeeper.NewKeeper(cdc, keys[pc.StoreKey], tkey, govtypes.DefaultCodespace, ak, akSub)
	owner := sdk.Address([]byte("upgrade-owner-address"))[:20]
	acl := govtypes.ACL(make([]govtypes.ACLPair, 0))
	acl.SetOwner("gov/upgrade", owner)
	acl.SetOwner("gov/acl", owner)
	acl.SetOwner("gov/daoOwner", owner)
	k.SetParams(ctx, govtypes.Params{ACL: acl, DAOOwner: owner, Upgrade: preset})
	return &env{db: db, ms: ms, k: k, owner: owner, base: ctx}
}

func (e *env) ctxAt(h int64) sdk.Context {
	return e.base.WithBlockHeader(abci.Header{ChainID: "verif", Height: h})
}

func (e *env) state() string {
	return renderUpgrade(e.k.GetUpgrade(e.base)) + " " + renderGlobals()
}

// restart: commit the working state, bring the codec globals back to process start-up values and let
// the real NewPocketCoreApp load the same database.
func (e *env) restart() string {
	e.ms.Commit()
	resetGlobals()
	return try(func() string {
		hb := pc.HostedBlockchains{M: map[string]pc.HostedBlockchain{}}
		_ = app.NewPocketCoreApp(nil, nil, nil, &hb, log.NewNopLogger(), e.db, false, 5000000)
		return renderGlobals()
	})
}

func probeMode() string {
	// feature-only upgrade on a chain whose stored upgrade height is 0, then restart
	e := newEnv(govtypes.Upgrade{})
	e.k.HandleUpgrade(e.ctxAt(40000), "gov/upgrade", govtypes.Upgrade{Height: 1, Version: "FEATURE", Features: []string{"MAXCH:7"}}, e.owner)
	live := renderGlobals()
	after := e.restart()
	switch {
	case live != "G:0:0:"+hexs("MAXCH")+"=7":
		return "neither:live=" + live
	case after == fmt.Sprintf("G:%d:0:-", int64(math.MaxInt64)):
		return "asis"
	case after == fmt.Sprintf("G:%d:0:%s=7", int64(math.MaxInt64), hexs("MAXCH")):
		return "fixed"
	}
	return "neither:" + after
}

func session(r *gen.R, t *gen.Trace, limit int) {
	preset := govtypes.Upgrade{}
	switch r.Intn(4) {
	case 0: // a chain that had a version upgrade already
		preset = govtypes.Upgrade{Height: int64(2 + r.Intn(60000)), Version: "0.9." + fmt.Sprint(r.Intn(9))}
		if r.Bool() {
			preset.Features = codec.CleanUpgradeFeatureSlice(genFeatures(r, false))
		}
	case 1:
		preset = govtypes.Upgrade{Height: 0, Version: ""}
	}
	e := newEnv(preset)
	// a running node has the globals of its stored parameter (set at boot or by earlier handlers)
	if preset.Height != 0 {
		codec.UpgradeHeight = preset.Height
		codec.OldUpgradeHeight = preset.OldUpgradeHeight
		codec.UpgradeFeatureMap = codec.SliceToExistingMap(preset.Features, codec.UpgradeFeatureMap)
	}
	t.Line("new", false, "new => %s", e.state())
	blockH := int64(30020 + r.Intn(8))
	if r.Chance(1, 3) {
		blockH = int64(1 + r.Intn(200))
	}
	if r.Chance(1, 3) {
		blockH = int64(45000 + r.Intn(100000))
	}
	ops := 3 + r.Intn(8)
	for i := 0; i < ops && t.Lines < limit+20; i++ {
		blockH += int64(r.Intn(4))
		switch c := r.Intn(12); {
		case c < 7:
			var u govtypes.Upgrade
			switch r.Intn(5) {
			case 0, 1: // feature-only
				u = govtypes.Upgrade{Height: 1, Version: "FEATURE", Features: genFeatures(r, r.Chance(1, 10))}
				if r.Chance(1, 5) {
					u.Height = int64(2 + r.Intn(100)) // FEATURE with another height: still the feature branch
				}
			case 2: // height 1 with a version string: also the feature branch
				u = govtypes.Upgrade{Height: 1, Version: "1.0.0", Features: genFeatures(r, false)}
			default: // version upgrade, possibly carrying features
				u = govtypes.Upgrade{Height: blockH + int64(r.Intn(50)) - 5, Version: fmt.Sprintf("0.%d.%d", 10+r.Intn(3), r.Intn(5))}
				if r.Bool() {
					u.Features = genFeatures(r, r.Chance(1, 10))
				}
			}
			signer := e.owner
			if r.Chance(1, 10) {
				signer = sdk.Address([]byte("somebody-else-address"))[:20]
			}
			res := try(func() string {
				// a DeliverTx runs on a cache-wrapped store and is only written when the handler succeeds
				cctx, write := e.ctxAt(blockH).CacheContext()
				rr := e.k.HandleUpgrade(cctx, "gov/upgrade", u, signer)
				if rr.Code != 0 {
					return fmt.Sprintf("fail%d", rr.Code)
				}
				write()
				return "ok"
			})
			own := 1
			if !signer.Equals(e.owner) {
				own = 0
			}
			t.Line("up", res == "ok", "up %d %d %d %s %s => %s %s", blockH, own, u.Height, hexs(u.Version), renderStrs(u.Features), res, e.state())
		case c < 10:
			key := keyPool[r.Intn(len(keyPool))]
			h := int64(r.Intn(70))
			if r.Chance(1, 4) {
				h = codec.UpgradeFeatureMap[key] + int64(r.Intn(5)) - 2
			}
			tol := int64(r.Intn(4))
			res := try(func() string {
				c := app.Codec()
				return fmt.Sprintf("%v %v %v %v", c.IsAfterNamedFeatureActivationHeight(h, key), c.IsOnNamedFeatureActivationHeight(h, key),
					c.IsOnNamedFeatureActivationHeightWithTolerance(h, key, tol), key == "MAXCH" && c.IsAfterEnforceMaxChainsUpgrade(h) || key != "MAXCH" && c.IsAfterNamedFeatureActivationHeight(h, key))
			})
			t.Line("pred", codec.UpgradeFeatureMap[key] != 0, "pred %s %d %d => %s", hexs(key), h, tol, res)
		default:
			rr := e.restart()
			t.Line("restart", true, "restart => %s", rr)
			if rr == "PANIC" {
				// NewPocketCoreApp panicked: this node cannot boot any more; the half-initialised
				// globals of the failed boot are not a state of any running node, so the session ends
				return
			}
		}
	}
	// every session ends with a restart
	t.Line("restart", true, "restart => %s", e.restart())
}

func main() {
	seed := flag.Uint64("seed", 1, "")
	n := flag.Int("n", 3000, "")
	out := flag.String("out", "c37.trace", "")
	flag.Parse()
	r := gen.New(*seed)
	t := gen.NewTrace(*out)
	if initUpgradeHeight != math.MaxInt64 || initOldUpgradeHeight != 0 || initMapLen != 0 {
		t.Line("mode", false, "mode neither:startup-globals=%d:%d:%d => ok", initUpgradeHeight, initOldUpgradeHeight, initMapLen)
	} else {
		t.Line("mode", false, "mode %s => ok", probeMode())
	}
	for t.Lines < *n/2 {
		pure(r, t)
	}
	for t.Lines < *n {
		session(r, t, *n)
	}
	resetGlobals()
	t.Close(nil)
}
