// c03: drives the real iavl.MutableTree (over MemDB) with generated histories of
// Set / Remove / SaveVersion / DeleteVersion / Rollback / LazyLoadVersion and reads (Get, Has,
// GetByIndex, GetVersioned, IterateRange, IterateRangeInclusive, stopped iterations, Size/Height)
// on the working tree, on freshly obtained GetImmutable trees and on lazily loaded views that are
// kept open across later writes.  Periodically the concrete shape of a tree is dumped through
// the verif hook (store/iavl/export_verif.go).  One trace line per call carries the
// implementation's answer; lean/Driver/C03.lean replays the history on the Lean model and on the
// per-version map specification.
//
// Target tokens: w = working tree, i<v> = GetImmutable(v) obtained now, z<v> = the view returned
// by an earlier LazyLoadVersion(v) (still held).
package main

import (
	"flag"
	"fmt"
	"sort"
	"strings"

	dbm "github.com/tendermint/tm-db"

	"github.com/pokt-network/pocket-core/store/iavl"
	"verifharness/internal/gen"
)

type H struct {
	r     *gen.R
	t     *gen.Trace
	tree  *iavl.MutableTree
	keys  [][]byte // key space
	extra [][]byte // bounds / probes outside the key space
	small bool

	present  map[string]bool // harness-side bookkeeping only to steer the generator
	saved    []int64         // retained versions, ascending
	lazy     map[int64]*iavl.MutableTree
	maxKeep  int
	panics   int
	rotHint  int
	nSaves   int
	nEmptySv int
	nDel     int
	maxSize  int
	emptied  int
}

func hx(b []byte) string { return gen.Hex(b) }

// key renders a key: keys are never nil in a result that found something.
func keyHex(b []byte) string {
	if len(b) == 0 {
		return "-"
	}
	return gen.Hex(b)
}

func opt(b []byte) string { return gen.Hex(b) } // nil -> "~", empty -> "-"

func try(f func() string) (s string) {
	defer func() {
		if r := recover(); r != nil {
			msg := fmt.Sprint(r)
			msg = strings.Map(func(c rune) rune {
				if c == ' ' || c == '\n' || c == '\t' {
					return '_'
				}
				return c
			}, msg)
			if len(msg) > 80 {
				msg = msg[:80]
			}
			s = "PANIC " + msg
		}
	}()
	return f()
}

func smallKeys() [][]byte {
	return [][]byte{{}, {0x00}, {0x00, 0x00}, {0x01}, {0x7f}, {0xff}, {0xff, 0x00}, {0xff, 0xff}}
}

func largeKeys(n int) [][]byte {
	ks := make([][]byte, 0, n)
	for i := 0; i < n; i++ {
		k := []byte{byte(i >> 4), byte(i<<4) | byte(i%3)}
		switch i % 7 {
		case 3:
			k = append(k, 0x00)
		case 5:
			k = append(k, 0xff, 0xff)
		}
		ks = append(ks, k)
	}
	return ks
}

func (h *H) randKey() []byte { return h.keys[h.r.Intn(len(h.keys))] }

// presentKey picks (deterministically, given the PRNG) a key that the harness believes present.
func (h *H) presentKey() []byte {
	ks := make([]string, 0, len(h.present))
	for pk := range h.present {
		ks = append(ks, pk)
	}
	sort.Strings(ks)
	return []byte(ks[h.r.Intn(len(ks))])
}

// probe: a key for reads — mostly from the key space, sometimes a non-member neighbour.
func (h *H) probe() []byte {
	if h.r.Chance(1, 6) {
		return h.extra[h.r.Intn(len(h.extra))]
	}
	k := h.randKey()
	if h.r.Chance(1, 8) {
		k = append(append([]byte{}, k...), 0x00)
	}
	return k
}

func (h *H) bound() []byte {
	switch h.r.Intn(7) {
	case 0:
		return nil
	case 1:
		if h.r.Chance(1, 3) {
			return []byte{}
		}
		return nil
	default:
		return h.probe()
	}
}

func (h *H) value() []byte {
	if h.r.Chance(1, 40) {
		return []byte{}
	}
	return h.r.Bytes(1 + h.r.Intn(3))
}

// ---------------------------------------------------------------- targets

type target struct {
	tok  string
	it   *iavl.ImmutableTree // nil if the version does not exist
	ver  int64
	skip bool // obtaining the view panicked (already reported on its own trace line)
}

func (h *H) working() target {
	return target{tok: "w", it: h.tree.WorkingTree(), ver: h.tree.Version()}
}

func (h *H) immutable(v int64) (tg target) {
	tok := fmt.Sprintf("i%d", v)
	res := try(func() string {
		it, err := h.tree.GetImmutable(v)
		if err != nil {
			tg = target{tok: tok}
			return ""
		}
		tg = target{tok: tok, it: it, ver: v}
		return ""
	})
	if res != "" {
		// GetImmutable itself panicked (e.g. the root node is gone from the node DB)
		h.t.Line("getimm", true, "getimm %d => %s", v, res)
		return target{tok: tok, skip: true}
	}
	return tg
}

func (h *H) lazyView(v int64) target {
	m := h.lazy[v]
	return target{tok: fmt.Sprintf("z%d", v), it: m.WorkingTree(), ver: v}
}

// pickTarget: working tree half of the time, else a retained version (fresh immutable or held lazy
// view), rarely a version that does not exist.
func (h *H) pickTarget() target {
	if h.r.Bool() || len(h.saved) == 0 {
		if len(h.saved) == 0 && h.r.Chance(1, 10) {
			return h.immutable(int64(1 + h.r.Intn(3)))
		}
		return h.working()
	}
	if h.r.Chance(1, 12) {
		return h.immutable(h.tree.Version() + int64(h.r.Intn(3)) - 1 + int64(h.r.Intn(2))*5)
	}
	if len(h.lazy) > 0 && h.r.Chance(1, 3) {
		vs := make([]int64, 0, len(h.lazy))
		for v := range h.lazy {
			vs = append(vs, v)
		}
		sort.Slice(vs, func(i, j int) bool { return vs[i] < vs[j] })
		return h.lazyView(vs[h.r.Intn(len(vs))])
	}
	return h.immutable(h.saved[h.r.Intn(len(h.saved))])
}

// ---------------------------------------------------------------- reads

func (h *H) readGet(tg target, k []byte) {
	if tg.skip {
		return
	}
	res := "novers"
	if tg.it != nil {
		res = try(func() string {
			i, v := tg.it.Get(k)
			return fmt.Sprintf("%d %s", i, opt(v))
		})
	}
	h.t.Line("get", tg.it != nil, "get %s %s => %s", tg.tok, keyHex(k), res)
}

func (h *H) readHas(tg target, k []byte) {
	if tg.skip {
		return
	}
	res := "novers"
	if tg.it != nil {
		res = try(func() string { return fmt.Sprint(tg.it.Has(k)) })
	}
	h.t.Line("has", tg.it != nil, "has %s %s => %s", tg.tok, keyHex(k), res)
}

func (h *H) readIdx(tg target, i int64) {
	if tg.skip {
		return
	}
	res := "novers"
	if tg.it != nil {
		res = try(func() string {
			k, v := tg.it.GetByIndex(i)
			if v == nil && k == nil {
				return "~ ~"
			}
			return fmt.Sprintf("%s %s", keyHex(k), opt(v))
		})
	}
	h.t.Line("idx", tg.it != nil, "idx %s %d => %s", tg.tok, i, res)
}

func renderKVs(ks, vs [][]byte) string {
	if len(ks) == 0 {
		return "-"
	}
	var sb strings.Builder
	for i := range ks {
		if i > 0 {
			sb.WriteByte(',')
		}
		sb.WriteString(keyHex(ks[i]))
		sb.WriteByte(':')
		sb.WriteString(opt(vs[i]))
	}
	return sb.String()
}

// readIter: limit < 0 = drain; otherwise the callback stops after `limit` entries.
func (h *H) readIter(tg target, s, e []byte, asc, incl bool, limit int) {
	if tg.skip {
		return
	}
	res := "novers"
	if tg.it != nil {
		res = try(func() string {
			var ks, vs [][]byte
			stoppedWant := false
			fn := func(k, v []byte) bool {
				ks = append(ks, k)
				vs = append(vs, v)
				if limit >= 0 && len(ks) >= limit {
					stoppedWant = true
					return true
				}
				return false
			}
			var stopped bool
			if incl {
				stopped = tg.it.IterateRangeInclusive(s, e, asc, func(k, v []byte, _ int64) bool { return fn(k, v) })
			} else {
				stopped = tg.it.IterateRange(s, e, asc, fn)
			}
			_ = stoppedWant
			return fmt.Sprintf("%v %s", stopped, renderKVs(ks, vs))
		})
	}
	b := func(x bool) int {
		if x {
			return 1
		}
		return 0
	}
	h.t.Line("iter", tg.it != nil, "iter %s %s %s %d %d %d => %s", tg.tok, opt(s), opt(e), b(asc), b(incl), limit, res)
}

func (h *H) readMeta(tg target) {
	if tg.skip {
		return
	}
	res := "novers"
	if tg.it != nil {
		res = try(func() string { return fmt.Sprintf("%d %d %d", tg.it.Size(), tg.it.Height(), tg.it.Version()) })
	}
	h.t.Line("meta", tg.it != nil, "meta %s => %s", tg.tok, res)
}

func (h *H) readShape(tg target) {
	if tg.skip {
		return
	}
	res := "novers"
	if tg.it != nil {
		res = try(func() string {
			ns := tg.it.DumpShape()
			if len(ns) == 0 {
				return "-"
			}
			var sb strings.Builder
			for i, n := range ns {
				if i > 0 {
					sb.WriteByte(',')
				}
				if n.Height == 0 {
					fmt.Fprintf(&sb, "L:%s:%s:%d:%d", keyHex(n.Key), opt(n.Value), n.Size, n.Version)
				} else {
					fmt.Fprintf(&sb, "I:%s:%d:%d:%d", keyHex(n.Key), n.Height, n.Size, n.Version)
				}
			}
			return sb.String()
		})
	}
	h.t.Line("shape", tg.it != nil, "shape %s => %s", tg.tok, res)
}

func (h *H) randomRead(tg target) {
	switch h.r.Intn(10) {
	case 0, 1, 2:
		h.readGet(tg, h.probe())
	case 3, 4:
		h.readHas(tg, h.probe())
	case 5:
		sz := int64(0)
		if tg.it != nil {
			sz = tg.it.Size()
		}
		h.readIdx(tg, int64(h.r.Intn(int(sz)+3))-1)
	case 6:
		h.readMeta(tg)
	default:
		s, e := h.bound(), h.bound()
		if !h.small && s != nil && e == nil && h.r.Bool() {
			// keep most large-tree ranges short: end a little after start
			e = append(append([]byte{}, s...), byte(h.r.Intn(256)))
		}
		limit := -1
		if h.r.Chance(1, 4) {
			limit = 1 + h.r.Intn(3)
		}
		if !h.small && s == nil && e == nil {
			limit = 1 + h.r.Intn(20)
		}
		h.readIter(tg, s, e, h.r.Bool(), h.r.Chance(1, 3), limit)
	}
}

// fullCheck: everything observable about one target (small key spaces: every key, every index).
func (h *H) fullCheck(tg target) {
	h.readMeta(tg)
	h.readIter(tg, nil, nil, true, false, -1)
	h.readIter(tg, nil, nil, false, true, -1)
	if h.small {
		for _, k := range h.keys {
			h.readGet(tg, k)
			h.readHas(tg, k)
		}
		for _, k := range h.extra {
			h.readGet(tg, k)
			h.readHas(tg, k)
		}
		sz := int64(0)
		if tg.it != nil {
			sz = tg.it.Size()
		}
		for i := int64(-1); i <= sz; i++ {
			h.readIdx(tg, i)
		}
	} else {
		for j := 0; j < 6; j++ {
			h.randomRead(tg)
		}
	}
}

func (h *H) checkAllVersions() {
	h.fullCheck(h.working())
	for _, v := range h.saved {
		h.fullCheck(h.immutable(v))
	}
	vs := make([]int64, 0, len(h.lazy))
	for v := range h.lazy {
		vs = append(vs, v)
	}
	sort.Slice(vs, func(i, j int) bool { return vs[i] < vs[j] })
	for _, v := range vs {
		h.fullCheck(h.lazyView(v))
	}
	res := try(func() string {
		av := h.tree.AvailableVersions()
		if len(av) == 0 {
			return "-"
		}
		parts := make([]string, len(av))
		for i, v := range av {
			parts[i] = fmt.Sprint(v)
		}
		return strings.Join(parts, ",")
	})
	h.t.Line("vers", true, "vers => %s", res)
}

// ---------------------------------------------------------------- writes

func (h *H) doSet(k, v []byte) {
	res := try(func() string { return fmt.Sprint(h.tree.Set(k, v)) })
	h.present[string(k)] = true
	if len(h.present) > h.maxSize {
		h.maxSize = len(h.present)
	}
	h.t.Line("set", true, "set %s %s => %s", keyHex(k), opt(v), res)
}

func (h *H) doRemove(k []byte) {
	res := try(func() string {
		v, ok := h.tree.Remove(k)
		return fmt.Sprintf("%s %v", opt(v), ok)
	})
	was := h.present[string(k)]
	delete(h.present, string(k))
	if was && len(h.present) == 0 {
		h.emptied++
	}
	h.t.Line("rm", was, "rm %s => %s", keyHex(k), res)
}

func errKind(err error) string {
	if err == nil {
		return "ok"
	}
	m := err.Error()
	switch {
	case strings.Contains(m, "version must be greater than 0"):
		return "errzero"
	case strings.Contains(m, "cannot delete latest saved version"):
		return "errlatest"
	case strings.Contains(m, "version does not exist"):
		return "errmissing"
	case strings.Contains(m, "wanted to load target"):
		return "errtoonew"
	}
	return "err:" + strings.ReplaceAll(m, " ", "_")
}

func (h *H) doSave() {
	empty := len(h.present) == 0
	res := try(func() string {
		_, v, err := h.tree.SaveVersion()
		if err != nil {
			return errKind(err)
		}
		h.saved = append(h.saved, v)
		return fmt.Sprint(v)
	})
	h.nSaves++
	if empty {
		h.nEmptySv++
	}
	h.t.Line("save", true, "save => %s", res)
}

func (h *H) doDelete(v int64) {
	res := try(func() string { return errKind(h.tree.DeleteVersion(v)) })
	if res == "ok" {
		h.nDel++
		for i, s := range h.saved {
			if s == v {
				h.saved = append(h.saved[:i:i], h.saved[i+1:]...)
				break
			}
		}
		delete(h.lazy, v)
	}
	h.t.Line("del", res == "ok", "del %d => %s", v, res)
}

func (h *H) doRollback() {
	res := try(func() string { h.tree.Rollback(); return "ok" })
	// re-derive the steering set from the tree itself
	h.present = map[string]bool{}
	_ = try(func() string {
		h.tree.Iterate(func(k, _ []byte) bool { h.present[string(k)] = true; return false })
		return ""
	})
	h.t.Line("rollback", true, "rollback => %s", res)
}

func (h *H) doLazy(target int64) {
	res := try(func() string {
		m, err := h.tree.LazyLoadVersion(target)
		if err != nil {
			return errKind(err)
		}
		if m == nil {
			return "nil"
		}
		h.lazy[m.Version()] = m
		return fmt.Sprintf("view %d", m.Version())
	})
	h.t.Line("lazy", strings.HasPrefix(res, "view"), "lazy %d => %s", target, res)
}

func (h *H) doGetVersioned(v int64, k []byte) {
	res := try(func() string {
		i, val := h.tree.GetVersioned(k, v)
		return fmt.Sprintf("%d %s", i, opt(val))
	})
	h.t.Line("getv", true, "getv %d %s => %s", v, keyHex(k), res)
}

// sweep removes every present key (ascending, descending or shuffled) with a shape dump every few
// removals: exercises all rebalancing cases of recursiveRemove including the tie-break ones.
func (h *H) sweep() {
	ks := make([][]byte, 0, len(h.present))
	for k := range h.present {
		ks = append(ks, []byte(k))
	}
	sort.Slice(ks, func(i, j int) bool { return string(ks[i]) < string(ks[j]) })
	switch h.r.Intn(3) {
	case 0:
	case 1:
		for i, j := 0, len(ks)-1; i < j; i, j = i+1, j-1 {
			ks[i], ks[j] = ks[j], ks[i]
		}
	default:
		for i := len(ks) - 1; i > 0; i-- {
			j := h.r.Intn(i + 1)
			ks[i], ks[j] = ks[j], ks[i]
		}
	}
	every := 1
	if !h.small {
		every = 1 + len(ks)/12
	}
	for i, k := range ks {
		left := len(ks) - i
		if left == 4 || left == 2 {
			// tail of a remove-everything run: make the remaining nodes persisted, then keep
			// removing without saving and read the latest saved version after each removal
			h.doSave()
		}
		h.doRemove(k)
		if left <= 4 {
			h.latestReads(k)
		}
		if i%every == 0 || left <= 4 {
			h.readShape(h.working())
			h.randomRead(h.working())
		}
		if left > 4 && h.r.Chance(1, 40) {
			h.doSave()
		}
	}
	h.readShape(h.working())
	h.fullCheck(h.working())
}

// latestReads reads the latest *saved* version (fresh GetImmutable, GetVersioned) while the working
// tree may carry unsaved changes: the saved version must not see them.
func (h *H) latestReads(k []byte) {
	v := h.tree.Version()
	if v <= 0 {
		return
	}
	tg := h.immutable(v)
	h.readMeta(tg)
	h.readGet(tg, k)
	h.readHas(tg, k)
	h.doGetVersioned(v, k)
	h.readIter(tg, nil, nil, true, false, 8)
	h.readIter(tg, nil, nil, false, true, 8)
	h.readIdx(tg, 0)
	if h.small || len(h.present) <= 8 {
		h.readShape(tg)
	}
}

// tinyScenario (scripted, same in every run): trees of 1-3 keys, saved, then an unsaved Remove of
// each key in turn followed by reads of the latest saved version, undone by Rollback; finally every
// key is removed without saving in between, reading the latest saved version after each removal.
func (h *H) tinyScenario() {
	ks := [][]byte{h.keys[1], h.keys[len(h.keys)/2], h.keys[len(h.keys)-1]}
	for n := 1; n <= 3; n++ {
		h.doSet(ks[n-1], h.value())
		h.doSave()
		for j := 0; j < n; j++ {
			h.doRemove(ks[j])
			h.latestReads(ks[j])
			h.readShape(h.working())
			h.doRollback()
			h.latestReads(ks[j])
		}
		// a pending Set next to a pending Remove
		h.doRemove(ks[0])
		h.doSet(ks[0], h.value())
		h.latestReads(ks[0])
		h.doSave()
	}
	for j := 0; j < 3; j++ {
		h.doRemove(ks[(j+1)%3])
		h.latestReads(ks[(j+1)%3])
		h.randomRead(h.working())
	}
	h.doSave()
	h.latestReads(ks[0])
}

// partialSweep removes a run of adjacent present keys, ascending or descending (large key spaces).
func (h *H) partialSweep() {
	ks := make([]string, 0, len(h.present))
	for k := range h.present {
		ks = append(ks, k)
	}
	if len(ks) == 0 {
		return
	}
	sort.Strings(ks)
	cnt := 30 + h.r.Intn(120)
	start := h.r.Intn(len(ks))
	if start+cnt > len(ks) {
		cnt = len(ks) - start
	}
	run := ks[start : start+cnt]
	desc := h.r.Bool()
	for i := range run {
		k := run[i]
		if desc {
			k = run[len(run)-1-i]
		}
		h.doRemove([]byte(k))
		if i%16 == 0 {
			h.randomRead(h.working())
		}
	}
	h.readShape(h.working())
}

// bulk loads cnt random keys (large key spaces) so that the main loop works on a deep tree.
func (h *H) bulk(cnt int) {
	for i := 0; i < cnt; i++ {
		h.doSet(h.randKey(), h.value())
		if i%20 == 0 {
			h.randomRead(h.working())
		}
		if i%500 == 499 {
			h.doSave()
			h.readShape(h.working())
		}
	}
	h.readShape(h.working())
	h.fullCheck(h.working())
}

func main() {
	seed := flag.Uint64("seed", 1, "")
	n := flag.Int("n", 2000, "number of mutating operations")
	out := flag.String("out", "c03.trace", "")
	nkeys := flag.Int("keys", 8, "key space: 8 (fixed colliding set) or any larger number")
	cache := flag.Int("cache", 0, "iavl node cache size")
	keep := flag.Int("keep", 5, "retained versions before an old one is deleted")
	flag.Parse()

	tree, err := iavl.NewMutableTree(dbm.NewMemDB(), *cache)
	if err != nil {
		panic(err)
	}
	h := &H{r: gen.New(*seed), t: gen.NewTrace(*out), tree: tree, present: map[string]bool{},
		lazy: map[int64]*iavl.MutableTree{}, maxKeep: *keep}
	if *nkeys <= 8 {
		h.keys = smallKeys()
		h.small = true
		h.extra = [][]byte{{0x00, 0x01}, {0x02}, {0x7f, 0xff}, {0xfe}, {0xff, 0xff, 0x00}, {0x00, 0x00, 0x00}}
	} else {
		h.keys = largeKeys(*nkeys)
		h.extra = [][]byte{{}, {0x00}, {0xff, 0xff, 0xff}, {0x80}, {0x7f, 0xff, 0xff, 0x01}, {0x10, 0x05}}
	}
	dumpEvery := 1
	fullEvery := 40
	if !h.small {
		dumpEvery = 150
		fullEvery = 400
	}
	phaseLen := *n / 6
	if phaseLen < 1 {
		phaseLen = 1
	}
	h.tinyScenario()
	if !h.small {
		h.bulk(len(h.keys) * 6 / 10)
	}
	for i := 0; i < *n; i++ {
		// phases: grow, churn, shrink, (sweep), regrow ...
		phase := (i / phaseLen) % 3
		wSet, wRm := 45, 45
		switch phase {
		case 0:
			wSet, wRm = 75, 12
		case 2:
			wSet, wRm = 20, 70
		}
		if h.small {
			wSet, wRm = 46, 44
			if phase == 2 {
				wSet, wRm = 30, 60
			}
		}
		x := h.r.Intn(100)
		switch {
		case x < wSet:
			k := h.randKey()
			if !h.small && h.r.Chance(1, 5) && len(h.present) > 0 {
				// overwrite an existing key: exercises the `updated` early return
				k = h.presentKey()
			}
			h.doSet(k, h.value())
		case x < wSet+wRm:
			k := h.randKey()
			if !h.small && len(h.present) > 0 && h.r.Chance(3, 4) {
				k = h.presentKey()
			}
			h.doRemove(k)
			if len(h.present) <= 3 {
				h.latestReads(k)
			}
		default:
			switch y := h.r.Intn(20); {
			case y < 9:
				h.doSave()
				if len(h.saved) > 0 {
					v := h.saved[len(h.saved)-1]
					if h.small || h.r.Chance(1, 3) {
						h.readShape(h.immutable(v))
					}
				}
				for len(h.saved) > h.maxKeep {
					// delete a random retained version that is not the latest
					h.doDelete(h.saved[h.r.Intn(len(h.saved)-1)])
				}
			case y < 11:
				// deletes that must fail, and sometimes a legal one
				cands := []int64{0, h.tree.Version(), h.tree.Version() + 1, int64(h.r.Intn(int(h.tree.Version()) + 2))}
				h.doDelete(cands[h.r.Intn(len(cands))])
			case y < 13:
				h.doRollback()
				h.readShape(h.working())
			case y < 16:
				h.doLazy(int64(h.r.Intn(int(h.tree.Version())+3)) - 1)
			case y < 18:
				h.doGetVersioned(int64(h.r.Intn(int(h.tree.Version())+2)), h.probe())
			default:
				if h.small {
					h.sweep()
				} else {
					h.partialSweep()
				}
			}
		}
		// reads after every operation: working tree and some retained version
		h.randomRead(h.working())
		h.randomRead(h.pickTarget())
		if h.small || i%dumpEvery == 0 {
			h.readShape(h.working())
		}
		if i%fullEvery == fullEvery-1 {
			h.checkAllVersions()
		}
	}
	h.sweep()
	h.doSave()
	h.checkAllVersions()
	// re-insertion after removal of every key
	for i := 0; i < 60; i++ {
		h.doSet(h.randKey(), h.value())
		h.randomRead(h.working())
	}
	h.readShape(h.working())
	h.doSave()
	h.checkAllVersions()
	h.t.Close(map[string]interface{}{
		"keyspace": len(h.keys), "cache": *cache, "saves": h.nSaves, "saves_of_empty_tree": h.nEmptySv,
		"deletes": h.nDel, "max_keys_present": h.maxSize, "times_emptied": h.emptied,
	})
}
