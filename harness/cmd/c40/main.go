// c40: drives the real crypto/keys Keybase (in-memory DB) and crypto/keys/mintkey (armor +
// scrypt/AES-GCM encryption) on generated keys, passphrases, armor mutations and operation
// sequences, and writes the trace consumed by lean/Driver/C40.lean.
//
// All strings are hex of their bytes ("-" = empty).  The key-derivation/AEAD primitive is handed to
// the Lean driver as an oracle: for every decryption attempt the harness recomputes scrypt +
// AES-GCM-open with the Go libraries directly (not through mintkey) and passes the verdict; the
// driver evaluates mintkey's own decision logic (check order, error classes) and the keybase logic.
// scrypt (N=32768, r=8) costs ~50-100 ms per evaluation, so op counts are small in the quick tier.
package main

import (
	"crypto/aes"
	"crypto/cipher"
	"crypto/sha256"
	"encoding/base64"
	"encoding/hex"
	"encoding/json"
	"flag"
	"fmt"
	"os"
	"runtime"
	"sort"
	"strings"
	"sync"
	"unicode"

	"golang.org/x/text/unicode/norm"

	"github.com/pokt-network/pocket-core/crypto"
	"github.com/pokt-network/pocket-core/crypto/keys"
	"github.com/pokt-network/pocket-core/crypto/keys/mintkey"
	sdk "github.com/pokt-network/pocket-core/types"
	"github.com/tendermint/tendermint/crypto/ed25519"
	"github.com/tendermint/tendermint/crypto/secp256k1"
	"golang.org/x/crypto/scrypt"
	"verifharness/internal/gen"
)

var out *gen.Trace

// lines are buffered per case so that cases can run on all cores (scrypt dominates the cost)
// and still be emitted in a deterministic order.
type line struct {
	kind    string
	nontriv bool
	text    string
}
type buf struct{ ls []line }

func (b *buf) Line(kind string, nontriv bool, format string, a ...interface{}) {
	b.ls = append(b.ls, line{kind, nontriv, fmt.Sprintf(format, a...)})
}

func hx(s string) string { return gen.Hex([]byte(s)) }

func errClass(err error) string {
	if err == nil {
		return "OK"
	}
	m := err.Error()
	switch {
	case strings.Contains(m, "not found"):
		return "ERR:notfound"
	case strings.Contains(m, "message authentication failed"):
		return "ERR:auth"
	case strings.Contains(m, "Cannot overwrite"):
		return "ERR:exists"
	case strings.Contains(m, "private key not available"):
		return "ERR:nopriv"
	case strings.Contains(m, "0 keypairs"):
		return "ERR:empty"
	case strings.Contains(m, "Unrecognized KDF"):
		return "ERR:kdf"
	case strings.Contains(m, "Missing salt"):
		return "ERR:nosalt"
	case strings.Contains(m, "Error decoding salt"):
		return "ERR:salthex"
	case strings.Contains(m, "Error decoding ciphertext"):
		return "ERR:b64"
	case strings.Contains(m, "unsupported private key type"):
		return "ERR:keytype"
	case strings.Contains(m, "invalid character") || strings.Contains(m, "unexpected end of JSON") || strings.Contains(m, "cannot unmarshal") || strings.Contains(m, "JSON"):
		return "ERR:json"
	default:
		return "ERR:other"
	}
}

func try(f func() string) (s string) {
	defer func() {
		if r := recover(); r != nil {
			s = "PANIC"
		}
	}()
	return f()
}

// aeadOracle recomputes scrypt + AES-GCM open with the libraries directly.
func aeadOracle(pass string, salt, ct []byte) string {
	key, err := scrypt.Key([]byte(pass), salt, 32768, 8, 1, 32)
	if err != nil {
		return "KDFERR"
	}
	blk, err := aes.NewCipher(key)
	if err != nil {
		return "FAIL"
	}
	g, err := cipher.NewGCM(blk)
	if err != nil {
		return "FAIL"
	}
	pt, err := g.Open(nil, key[:12], ct, nil)
	if err != nil {
		return "FAIL"
	}
	return gen.Hex(pt)
}

type pw struct {
	s     string
	class string
}

func passPool() []pw {
	long := strings.Repeat("correct horse battery staple ", 3) // 87 bytes > 64
	h := sha256.Sum256([]byte(long))
	return []pw{
		{"", "empty"},
		{"a", "ascii"},
		{"a\x00", "nulpad"}, // HMAC pads keys with zero bytes: equivalent to "a"
		{"pässwörd✓日本", "unicode"},
		{long, "long"},
		{string(h[:]), "hashlong"}, // HMAC hashes keys longer than the block size: equivalent to long
		{"b", "ascii"},
		{"A", "ascii"},
	}
}

type key struct {
	priv crypto.PrivateKey
	addr string
}

func newKey(r *gen.R, secp bool) key {
	var p crypto.PrivateKey
	if secp {
		p = crypto.Secp256k1PrivateKey(secp256k1.GenPrivKeySecp256k1(r.Bytes(16)))
	} else {
		p = crypto.Ed25519PrivateKey(ed25519.GenPrivKeyFromSecret(r.Bytes(16)))
	}
	return key{p, hex.EncodeToString(p.PublicKey().Address())}
}

func privHex(p crypto.PrivateKey) string {
	if p == nil {
		return "~"
	}
	return p.RawString()
}

// unarmLine: one UnarmorDecryptPrivKey call; fields of the armor as Go's encoding/json sees them,
// hex/base64 decodings and the AEAD verdict are oracle data.
func unarmLine(t *buf, kind, class string, k key, armor, encPass, decPass string) {
	var aj mintkey.ArmoredJson
	jerr := json.Unmarshal([]byte(armor), &aj)
	jsonOK := "1"
	saltD, ctD, oracle := "ERR", "ERR", "-"
	if jerr != nil {
		jsonOK = "0"
	} else {
		sb, e1 := hex.DecodeString(aj.Salt)
		cb, e2 := base64.StdEncoding.DecodeString(aj.Ciphertext)
		if e1 == nil {
			saltD = gen.Hex(sb)
		}
		if e2 == nil {
			ctD = gen.Hex(cb)
		}
		if e1 == nil && e2 == nil && aj.Kdf == "scrypt" && aj.Salt != "" {
			oracle = aeadOracle(decPass, sb, cb)
		}
	}
	res := try(func() string {
		p, err := mintkey.UnarmorDecryptPrivKey(armor, decPass)
		if err != nil {
			return errClass(err)
		}
		return "OK " + privHex(p)
	})
	t.Line(kind, strings.HasPrefix(res, "OK"), "unarm %s %s %s %s %s %s %s %s %s %s => %s", class, privHex(k.priv), hx(encPass), hx(decPass), jsonOK, hx(aj.Kdf), hx(aj.Salt), saltD, ctD, oracle, res)
}

// variants: passphrases that differ from p but are "near" it.  Every one of them must be refused
// (the trailing-NUL one is the recorded HMAC equivalence, matched by its own signature).
func variants(p string) []string {
	swap := strings.Map(func(c rune) rune {
		switch {
		case unicode.IsUpper(c):
			return unicode.ToLower(c)
		case unicode.IsLower(c):
			return unicode.ToUpper(c)
		}
		return c
	}, p)
	trunc := p
	if len(p) > 0 {
		rs := []rune(p)
		trunc = string(rs[:len(rs)-1])
	}
	cand := []string{
		p + "\n", " " + p, p + "\r\n", p + "\u00a0", "\u3000" + p, "\t" + p + " ", p + " ", "\n" + p, p + "\u2003",
		swap, strings.ToUpper(p), norm.NFD.String(p), norm.NFC.String(p), norm.NFKC.String(p),
		p + "x", "x" + p, trunc, p + p, "", p + "\x00",
	}
	seen := map[string]bool{p: true}
	var out []string
	for _, c := range cand {
		if !seen[c] {
			seen[c] = true
			out = append(out, c)
		}
	}
	return out
}

func mintkeyCase(t *buf, r *gen.R, pool []pw) {
	k := newKey(r, r.Chance(1, 4))
	pi := r.Intn(len(pool))
	p := pool[pi]
	armor, err := mintkey.EncryptArmorPrivKey(k.priv, p.s, "hint")
	if err != nil {
		t.Line("encrypt-err", false, "encrypt %s %s => %s", privHex(k.priv), hx(p.s), errClass(err))
		return
	}
	var aj mintkey.ArmoredJson
	_ = json.Unmarshal([]byte(armor), &aj)
	t.Line("encrypt", true, "encrypt %s %s => OK %s %s %d", privHex(k.priv), hx(p.s), hx(aj.Kdf), hx(aj.SecParam), len(aj.Salt))
	unarmLine(t, "unarm-same", "same", k, armor, p.s, p.s)
	// other passphrases: every other pool member for a third of the cases, else two random ones
	others := []int{}
	if r.Chance(1, 3) {
		for i := range pool {
			if i != pi {
				others = append(others, i)
			}
		}
	} else {
		for len(others) < 2 {
			i := r.Intn(len(pool))
			if i != pi {
				others = append(others, i)
			}
		}
	}
	for _, i := range others {
		unarmLine(t, "unarm-otherpass", "otherpass", k, armor, p.s, pool[i].s)
	}
	// wrong passphrases derived from the right one: surrounding whitespace (ASCII and Unicode),
	// case, NFC/NFD, prefix/suffix/truncation, doubled, empty, trailing NUL.  The whitespace
	// family is always present; of the rest all for a quarter of the cases, else three.
	vs := variants(p.s)
	var ws, rest []string
	for _, v := range vs {
		if strings.TrimSpace(v) == strings.TrimSpace(p.s) && v != p.s {
			ws = append(ws, v)
		} else {
			rest = append(rest, v)
		}
	}
	if !r.Chance(1, 4) {
		for i := len(ws) - 1; i > 0; i-- {
			j := r.Intn(i + 1)
			ws[i], ws[j] = ws[j], ws[i]
		}
		if len(ws) > 3 {
			ws = ws[:3]
		}
		for i := len(rest) - 1; i > 0; i-- {
			j := r.Intn(i + 1)
			rest[i], rest[j] = rest[j], rest[i]
		}
		if len(rest) > 3 {
			rest = rest[:3]
		}
	}
	for _, v := range append(ws, rest...) {
		unarmLine(t, "unarm-nearpass", "otherpass", k, armor, p.s, v)
	}
	// armor mutations, decrypted with the right passphrase
	mut := func(f func(a *mintkey.ArmoredJson)) string {
		b := aj
		f(&b)
		js, _ := json.Marshal(b)
		return string(js)
	}
	flipHex := func(s string) string {
		if len(s) == 0 {
			return "00"
		}
		i := r.Intn(len(s))
		c := s[i]
		repl := byte('0')
		if c == '0' {
			repl = '1'
		}
		return s[:i] + string(repl) + s[i+1:]
	}
	flipB64 := func(s string) string {
		if len(s) < 2 {
			return "AAAA"
		}
		i := r.Intn(len(s) - 2)
		c := s[i]
		repl := byte('A')
		if c == 'A' {
			repl = 'B'
		}
		return s[:i] + string(repl) + s[i+1:]
	}
	ms := []struct {
		name string
		a    string
	}{
		{"kdf", mut(func(a *mintkey.ArmoredJson) { a.Kdf = "bcrypt" })},
		{"kdf-empty", mut(func(a *mintkey.ArmoredJson) { a.Kdf = "" })},
		{"salt-flip", mut(func(a *mintkey.ArmoredJson) { a.Salt = flipHex(a.Salt) })},
		{"salt-empty", mut(func(a *mintkey.ArmoredJson) { a.Salt = "" })},
		{"salt-nonhex", mut(func(a *mintkey.ArmoredJson) { a.Salt = "zz" + a.Salt[2:] })},
		{"salt-odd", mut(func(a *mintkey.ArmoredJson) { a.Salt = a.Salt[1:] })},
		{"salt-lower", mut(func(a *mintkey.ArmoredJson) { a.Salt = strings.ToLower(a.Salt) })},
		{"salt-trunc", mut(func(a *mintkey.ArmoredJson) { a.Salt = a.Salt[:len(a.Salt)-2] })},
		{"ct-flip", mut(func(a *mintkey.ArmoredJson) { a.Ciphertext = flipB64(a.Ciphertext) })},
		{"ct-trunc", mut(func(a *mintkey.ArmoredJson) { a.Ciphertext = a.Ciphertext[:4*(len(a.Ciphertext)/8)] })},
		{"ct-badb64", mut(func(a *mintkey.ArmoredJson) { a.Ciphertext = "*" + a.Ciphertext[1:] })},
		{"ct-empty", mut(func(a *mintkey.ArmoredJson) { a.Ciphertext = "" })},
		{"ct-newline", mut(func(a *mintkey.ArmoredJson) { a.Ciphertext = a.Ciphertext[:8] + "\n" + a.Ciphertext[8:] })},
		{"secparam", mut(func(a *mintkey.ArmoredJson) { a.SecParam = "4" })},
		{"hint", mut(func(a *mintkey.ArmoredJson) { a.Hint = "other" })},
		{"json-trunc", armor[:r.Intn(len(armor))]},
		{"json-extra", strings.Replace(armor, "{", `{"x":1,`, 1)},
		{"json-dupkdf", strings.Replace(armor, "{", `{"kdf":"bcrypt",`, 1)},
		{"json-upper", strings.Replace(armor, `"kdf"`, `"KDF"`, 1)},
	}
	// the full list for a quarter of the cases, otherwise five of them (scrypt is slow)
	if !r.Chance(1, 4) {
		for i := len(ms) - 1; i > 0; i-- {
			j := r.Intn(i + 1)
			ms[i], ms[j] = ms[j], ms[i]
		}
		ms = ms[:5]
	}
	for _, m := range ms {
		unarmLine(t, "unarm-mut-"+m.name, "mut-"+m.name, k, m.a, p.s, p.s)
	}
	// raw single byte mutation of the JSON text
	{
		b := []byte(armor)
		i := r.Intn(len(b))
		b[i] ^= byte(1 << uint(r.Intn(7)))
		unarmLine(t, "unarm-mut-byte", "mut-byte", k, string(b), p.s, p.s)
	}
}

// ---------------------------------------------------------------- keybase sequences

type kbHarness struct {
	t     *buf
	kb    keys.Keybase
	pool  []key
	pws   []pw
	r     *gen.R
	known map[string]string // addr -> privhex for keys made by Create
	cur   map[string]string // addr -> passphrase currently protecting the key (as far as the harness knows)
}

func (h *kbHarness) addrs() []string {
	var out []string
	for _, k := range h.pool {
		out = append(out, k.addr)
	}
	for a := range h.known {
		out = append(out, a)
	}
	sort.Strings(out)
	return out
}

func (h *kbHarness) pickAddr() string {
	if !h.r.Chance(1, 5) {
		if kps, err := h.kb.List(); err == nil && len(kps) > 0 {
			return hex.EncodeToString(kps[h.r.Intn(len(kps))].GetAddress())
		}
	}
	as := h.addrs()
	return as[h.r.Intn(len(as))]
}

func addrOf(s string) sdk.Address {
	b, _ := hex.DecodeString(s)
	return sdk.Address(b)
}

func (h *kbHarness) listLine() {
	t := h.t
	res := try(func() string {
		kps, err := h.kb.List()
		if err != nil {
			return errClass(err)
		}
		var as []string
		for _, kp := range kps {
			as = append(as, hex.EncodeToString(kp.GetAddress()))
		}
		if len(as) == 0 {
			return "OK -"
		}
		return "OK " + strings.Join(as, ",")
	})
	t.Line("list", res != "OK -", "list => %s", res)
}

func (h *kbHarness) exportObjLine(a, p string) {
	res := try(func() string {
		priv, err := h.kb.ExportPrivateKeyObject(addrOf(a), p)
		if err != nil {
			return errClass(err)
		}
		return "OK " + privHex(priv)
	})
	h.t.Line("exportobj", strings.HasPrefix(res, "OK"), "exportobj %s %s => %s", a, hx(p), res)
}

func (h *kbHarness) step() {
	r := h.r
	t := h.t
	pass := func() pw { return h.pws[r.Intn(len(h.pws))] }
	if h.cur == nil {
		h.cur = map[string]string{}
	}
	// the passphrase handed to an operation on address a: a pool passphrase, or (one time in three)
	// a near variant of the one protecting the key
	given := func(a string) pw {
		if c, ok := h.cur[a]; ok && r.Chance(1, 3) {
			vs := variants(c)
			return pw{vs[r.Intn(len(vs))], "near"}
		}
		return pass()
	}
	switch k := r.Intn(20); {
	case k < 4: // import raw object
		key := h.pool[r.Intn(len(h.pool))]
		p := pass()
		if _, ok := key.priv.(crypto.Ed25519PrivateKey); !ok {
			key = h.pool[0]
		}
		res := try(func() string {
			var raw [64]byte
			copy(raw[:], key.priv.RawBytes())
			kp, err := h.kb.ImportPrivateKeyObject(raw, p.s)
			if err != nil {
				return errClass(err)
			}
			return "OK " + hex.EncodeToString(kp.GetAddress())
		})
		t.Line("import", strings.HasPrefix(res, "OK"), "import %s %s %s => %s", privHex(key.priv), key.addr, hx(p.s), res)
		if strings.HasPrefix(res, "OK") {
			h.cur[key.addr] = p.s
		}
	case k < 5: // create
		p := pass()
		res := try(func() string {
			kp, err := h.kb.Create(p.s)
			if err != nil {
				return errClass(err)
			}
			a := hex.EncodeToString(kp.GetAddress())
			priv, err := h.kb.ExportPrivateKeyObject(kp.GetAddress(), p.s)
			if err != nil {
				return "OK " + a + " ~"
			}
			h.known[a] = privHex(priv)
			h.cur[a] = p.s
			return "OK " + a + " " + privHex(priv)
		})
		t.Line("create", strings.HasPrefix(res, "OK"), "create %s => %s", hx(p.s), res)
	case k < 7: // import armor (made by mintkey directly under armPass)
		key := h.pool[r.Intn(len(h.pool))]
		armPass, decPass, encPass := pass(), pass(), pass()
		if r.Chance(2, 3) {
			decPass = armPass
		} else if r.Chance(1, 2) {
			vs := variants(armPass.s)
			decPass = pw{vs[r.Intn(len(vs))], "near"}
		}
		armor, _ := mintkey.EncryptArmorPrivKey(key.priv, armPass.s, "")
		res := try(func() string {
			kp, err := h.kb.ImportPrivKey(armor, decPass.s, encPass.s)
			if err != nil {
				return errClass(err)
			}
			return "OK " + hex.EncodeToString(kp.GetAddress())
		})
		t.Line("imparm", strings.HasPrefix(res, "OK"), "imparm %s %s %s %s %s => %s", privHex(key.priv), key.addr, hx(armPass.s), hx(decPass.s), hx(encPass.s), res)
		if strings.HasPrefix(res, "OK") {
			h.cur[key.addr] = encPass.s
		}
	case k < 9: // export armor, then open it with the new passphrase (and with another one)
		a := h.pickAddr()
		dec, enc := given(a), pass()
		res := try(func() string {
			armor, err := h.kb.ExportPrivKeyEncryptedArmor(addrOf(a), dec.s, enc.s, "h")
			if err != nil {
				return errClass(err)
			}
			p, err := mintkey.UnarmorDecryptPrivKey(armor, enc.s)
			if err != nil {
				return "OK UNREADABLE"
			}
			return "OK " + privHex(p)
		})
		t.Line("export", strings.HasPrefix(res, "OK"), "export %s %s %s => %s", a, hx(dec.s), hx(enc.s), res)
	case k < 11:
		a := h.pickAddr()
		p := given(a)
		res := try(func() string {
			priv, err := h.kb.ExportPrivateKeyObject(addrOf(a), p.s)
			if err != nil {
				return errClass(err)
			}
			return "OK " + privHex(priv)
		})
		t.Line("exportobj", strings.HasPrefix(res, "OK"), "exportobj %s %s => %s", a, hx(p.s), res)
	case k < 13:
		a := h.pickAddr()
		p := given(a)
		res := try(func() string { return errClass(h.kb.Delete(addrOf(a), p.s)) })
		t.Line("delete", res == "OK", "delete %s %s => %s", a, hx(p.s), res)
		if res == "OK" {
			delete(h.cur, a)
		}
	case k < 14:
		if !r.Chance(1, 3) {
			h.listLine()
			return
		}
		a := h.pickAddr()
		res := try(func() string { return errClass(h.kb.UnsafeDelete(addrOf(a))) })
		t.Line("unsafedelete", res == "OK", "unsafedelete %s => %s", a, res)
	case k < 15:
		a := h.pickAddr()
		o, n := given(a), pass()
		res := try(func() string { return errClass(h.kb.Update(addrOf(a), o.s, n.s)) })
		t.Line("update", res == "OK", "update %s %s %s => %s", a, hx(o.s), hx(n.s), res)
		if res == "OK" {
			h.cur[a] = n.s
			// the key must now open with the new passphrase and (unless equivalent) not with the old one
			h.exportObjLine(a, n.s)
			h.exportObjLine(a, o.s)
		}
	case k < 16:
		a := h.pickAddr()
		p := given(a)
		msg := r.Bytes(1 + r.Intn(16))
		res := try(func() string {
			sig, pub, err := h.kb.Sign(addrOf(a), p.s, msg)
			if err != nil {
				return errClass(err)
			}
			return fmt.Sprintf("OK %v %s", pub.VerifyBytes(msg, sig), hex.EncodeToString(pub.Address()))
		})
		t.Line("sign", strings.HasPrefix(res, "OK"), "sign %s %s => %s", a, hx(p.s), res)
	case k < 17:
		a := h.pickAddr()
		res := try(func() string {
			kp, err := h.kb.Get(addrOf(a))
			if err != nil {
				return errClass(err)
			}
			return "OK " + hex.EncodeToString(kp.GetAddress())
		})
		t.Line("get", strings.HasPrefix(res, "OK"), "get %s => %s", a, res)
	case k < 18:
		res := try(func() string {
			kp, err := h.kb.GetCoinbase()
			if err != nil {
				return errClass(err)
			}
			return "OK " + hex.EncodeToString(kp.GetAddress())
		})
		t.Line("getcoinbase", strings.HasPrefix(res, "OK"), "getcoinbase => %s", res)
	case k < 19:
		a := h.pickAddr()
		res := try(func() string { return errClass(h.kb.SetCoinbase(addrOf(a))) })
		t.Line("setcoinbase", res == "OK", "setcoinbase %s => %s", a, res)
	default:
		h.listLine()
	}
}

// kbScenario: fixed short histories that every run contains (independent of the seed):
// coinbase cache across Delete and Update, delete-then-get/list, export -> import elsewhere.
func kbScenario(t *buf, r *gen.R, pool []pw) {
	h := &kbHarness{t: t, kb: keys.NewInMemory(), r: r, pws: []pw{pool[1], pool[6], pool[3]}, known: map[string]string{}}
	for j := 0; j < 2; j++ {
		h.pool = append(h.pool, newKey(r, false))
	}
	k0, k1 := h.pool[0], h.pool[1]
	t.Line("newkb", true, "newkb => OK")
	imp := func(k key, p string) {
		res := try(func() string {
			var raw [64]byte
			copy(raw[:], k.priv.RawBytes())
			kp, err := h.kb.ImportPrivateKeyObject(raw, p)
			if err != nil {
				return errClass(err)
			}
			return "OK " + hex.EncodeToString(kp.GetAddress())
		})
		t.Line("import", strings.HasPrefix(res, "OK"), "import %s %s %s => %s", privHex(k.priv), k.addr, hx(p), res)
	}
	setcb := func(a string) {
		res := try(func() string { return errClass(h.kb.SetCoinbase(addrOf(a))) })
		t.Line("setcoinbase", res == "OK", "setcoinbase %s => %s", a, res)
	}
	getcb := func() {
		res := try(func() string {
			kp, err := h.kb.GetCoinbase()
			if err != nil {
				return errClass(err)
			}
			return "OK " + hex.EncodeToString(kp.GetAddress())
		})
		t.Line("getcoinbase", strings.HasPrefix(res, "OK"), "getcoinbase => %s", res)
	}
	del := func(a, p string) {
		res := try(func() string { return errClass(h.kb.Delete(addrOf(a), p)) })
		t.Line("delete", res == "OK", "delete %s %s => %s", a, hx(p), res)
	}
	get := func(a string) {
		res := try(func() string {
			kp, err := h.kb.Get(addrOf(a))
			if err != nil {
				return errClass(err)
			}
			return "OK " + hex.EncodeToString(kp.GetAddress())
		})
		t.Line("get", strings.HasPrefix(res, "OK"), "get %s => %s", a, res)
	}
	imp(k0, "a")
	imp(k1, "b")
	h.listLine()
	{
		res := try(func() string { return errClass(h.kb.Update(addrOf(k1.addr), "b", "pässwörd✓日本")) })
		t.Line("update", res == "OK", "update %s %s %s => %s", k1.addr, hx("b"), hx("pässwörd✓日本"), res)
		h.exportObjLine(k1.addr, "pässwörd✓日本")
		h.exportObjLine(k1.addr, "b")
		res = try(func() string { return errClass(h.kb.Update(addrOf(k1.addr), "pässwörd✓日本", "b")) })
		t.Line("update", res == "OK", "update %s %s %s => %s", k1.addr, hx("pässwörd✓日本"), hx("b"), res)
	}
	// the right passphrase with surrounding whitespace must be refused by every operation
	for _, wsp := range []string{"a\n", " a", "a\r\n", "a\u00a0", "\u3000a", "A", "aa", "a "} {
		h.exportObjLine(k0.addr, wsp)
	}
	{
		res := try(func() string { return errClass(h.kb.Update(addrOf(k0.addr), "a\n", "zzz")) })
		t.Line("update", res == "OK", "update %s %s %s => %s", k0.addr, hx("a\n"), hx("zzz"), res)
		res = try(func() string {
			_, _, err := h.kb.Sign(addrOf(k0.addr), " a", []byte{1})
			return errClass(err)
		})
		t.Line("sign", res == "OK", "sign %s %s => %s", k0.addr, hx(" a"), res)
		res = try(func() string {
			_, err := h.kb.ExportPrivKeyEncryptedArmor(addrOf(k0.addr), "a\t", "n", "h")
			return errClass(err)
		})
		t.Line("export", res == "OK", "export %s %s %s => %s", k0.addr, hx("a\t"), hx("n"), res)
	}
	setcb(k0.addr)
	getcb()
	del(k0.addr, "a\n") // right passphrase plus a newline
	del(k0.addr, "b")   // wrong passphrase
	del(k0.addr, "a")
	get(k0.addr)
	h.listLine()
	getcb() // the cached coinbase key was deleted
	del(k1.addr, "b")
	h.listLine()
	getcb()
}

// kbLazyCoinbaseScenario: the LevelDB-backed keybase (keys.New) keeps the coinbase key pair in memory
// (SetCoinbase / GetCoinbase).  That copy must never answer for the database: after Update the old
// passphrase must be dead for export and sign, after Delete the key must be gone for every passphrase,
// also when the address is the cached coinbase and no GetCoinbase refreshed the copy in between.
func kbLazyCoinbaseScenario(t *buf, r *gen.R) {
	dir, err := os.MkdirTemp(".", "c40-lazycb-")
	if err != nil {
		return
	}
	defer os.RemoveAll(dir)
	kb := keys.New("verif-keys", dir)
	h := &kbHarness{t: t, kb: kb, r: r, known: map[string]string{}, cur: map[string]string{}}
	k0, k1 := newKey(r, false), newKey(r, false)
	h.pool = []key{k0, k1}
	t.Line("newkb", true, "newkb => OK")
	imp := func(k key, p string) {
		res := try(func() string {
			var raw [64]byte
			copy(raw[:], k.priv.RawBytes())
			kp, err := kb.ImportPrivateKeyObject(raw, p)
			if err != nil {
				return errClass(err)
			}
			return "OK " + hex.EncodeToString(kp.GetAddress())
		})
		t.Line("import", strings.HasPrefix(res, "OK"), "import %s %s %s => %s", privHex(k.priv), k.addr, hx(p), res)
	}
	setcb := func(a string) {
		res := try(func() string { return errClass(kb.SetCoinbase(addrOf(a))) })
		t.Line("setcoinbase", res == "OK", "setcoinbase %s => %s", a, res)
	}
	getcb := func() {
		res := try(func() string {
			kp, err := kb.GetCoinbase()
			if err != nil {
				return errClass(err)
			}
			return "OK " + hex.EncodeToString(kp.GetAddress())
		})
		t.Line("getcoinbase", strings.HasPrefix(res, "OK"), "getcoinbase => %s", res)
	}
	sign := func(a, p string) {
		res := try(func() string {
			sig, pub, err := kb.Sign(addrOf(a), p, []byte{9})
			if err != nil {
				return errClass(err)
			}
			return fmt.Sprintf("OK %v %s", pub.VerifyBytes([]byte{9}, sig), hex.EncodeToString(pub.Address()))
		})
		t.Line("sign", strings.HasPrefix(res, "OK"), "sign %s %s => %s", a, hx(p), res)
	}
	upd := func(a, o, n string) {
		res := try(func() string { return errClass(kb.Update(addrOf(a), o, n)) })
		t.Line("update", res == "OK", "update %s %s %s => %s", a, hx(o), hx(n), res)
	}
	del := func(a, p string) {
		res := try(func() string { return errClass(kb.Delete(addrOf(a), p)) })
		t.Line("delete", res == "OK", "delete %s %s => %s", a, hx(p), res)
	}
	get := func(a string) {
		res := try(func() string {
			kp, err := kb.Get(addrOf(a))
			if err != nil {
				return errClass(err)
			}
			return "OK " + hex.EncodeToString(kp.GetAddress())
		})
		t.Line("get", strings.HasPrefix(res, "OK"), "get %s => %s", a, res)
	}
	imp(k0, "a")
	imp(k1, "b")
	setcb(k0.addr) // the in-memory coinbase copy is filled by SetCoinbase ...
	sign(k0.addr, "a")
	upd(k0.addr, "a", "c")
	h.exportObjLine(k0.addr, "a") // the old passphrase is dead
	sign(k0.addr, "a")
	h.exportObjLine(k0.addr, "c")
	sign(k0.addr, "c")
	del(k0.addr, "a")
	del(k0.addr, "c")
	h.exportObjLine(k0.addr, "a") // the key is gone, for the cached and for the current passphrase
	h.exportObjLine(k0.addr, "c")
	sign(k0.addr, "a")
	sign(k0.addr, "c")
	get(k0.addr)
	setcb(k1.addr)
	getcb() // ... or by GetCoinbase
	upd(k1.addr, "b", "d")
	h.exportObjLine(k1.addr, "b")
	sign(k1.addr, "b")
	h.exportObjLine(k1.addr, "d")
	del(k1.addr, "d")
	h.exportObjLine(k1.addr, "b")
	h.exportObjLine(k1.addr, "d")
	sign(k1.addr, "d")
	get(k1.addr)
	h.listLine()
}

// kbGuardScenario: one key protected by a NON-EMPTY passphrase; every passphrase-taking operation
// is tried with every near variant of it (whitespace, case, NFC/NFD, prefix/suffix, doubled, the
// EMPTY passphrase, trailing NUL); each must be refused AND leave the key in place (Get after
// every attempt, List at the end).  lazy = the LevelDB-backed keybase (keys.New) in a scratch dir.
func kbGuardScenario(t *buf, r *gen.R, lazy bool) {
	var kb keys.Keybase
	if lazy {
		dir, err := os.MkdirTemp(".", "c40-lazy-")
		if err != nil {
			return
		}
		defer os.RemoveAll(dir)
		kb = keys.New("verif-keys", dir)
	} else {
		kb = keys.NewInMemory()
	}
	h := &kbHarness{t: t, kb: kb, r: r, known: map[string]string{}, cur: map[string]string{}}
	k0 := newKey(r, false)
	h.pool = []key{k0}
	right := "pass-Wörd1"
	t.Line("newkb", true, "newkb => OK")
	res := try(func() string {
		var raw [64]byte
		copy(raw[:], k0.priv.RawBytes())
		kp, err := kb.ImportPrivateKeyObject(raw, right)
		if err != nil {
			return errClass(err)
		}
		return "OK " + hex.EncodeToString(kp.GetAddress())
	})
	t.Line("import", strings.HasPrefix(res, "OK"), "import %s %s %s => %s", privHex(k0.priv), k0.addr, hx(right), res)
	get := func() {
		res := try(func() string {
			kp, err := kb.Get(addrOf(k0.addr))
			if err != nil {
				return errClass(err)
			}
			return "OK " + hex.EncodeToString(kp.GetAddress())
		})
		t.Line("get", strings.HasPrefix(res, "OK"), "get %s => %s", k0.addr, res)
	}
	vs := variants(right)
	for i, v := range vs {
		v := v
		res := try(func() string { return errClass(kb.Delete(addrOf(k0.addr), v)) })
		t.Line("delete", res == "OK", "delete %s %s => %s", k0.addr, hx(v), res)
		get()
		// the other operations: all of them for the empty passphrase and the whitespace family,
		// otherwise one, round robin (each attempt costs one scrypt evaluation)
		all := v == "" || v == right+"\n" || v == " "+right || v == right+"\u00a0"
		if lazy {
			all = v == ""
			if !all && i%2 == 1 {
				continue // the LevelDB keybase re-opens the database per call: Delete for every variant, the rest for half
			}
		}
		if all || i%4 == 0 {
			res = try(func() string { return errClass(kb.Update(addrOf(k0.addr), v, "other")) })
			t.Line("update", res == "OK", "update %s %s %s => %s", k0.addr, hx(v), hx("other"), res)
			if res == "OK" {
				h.exportObjLine(k0.addr, "other")
			}
		}
		if all || i%4 == 1 {
			h.exportObjLine(k0.addr, v)
		}
		if all || i%4 == 2 {
			res = try(func() string {
				sig, pub, err := kb.Sign(addrOf(k0.addr), v, []byte{7})
				if err != nil {
					return errClass(err)
				}
				return fmt.Sprintf("OK %v %s", pub.VerifyBytes([]byte{7}, sig), hex.EncodeToString(pub.Address()))
			})
			t.Line("sign", strings.HasPrefix(res, "OK"), "sign %s %s => %s", k0.addr, hx(v), res)
		}
		if all || i%4 == 3 {
			res = try(func() string {
				armor, err := kb.ExportPrivKeyEncryptedArmor(addrOf(k0.addr), v, "n", "h")
				if err != nil {
					return errClass(err)
				}
				p, err := mintkey.UnarmorDecryptPrivKey(armor, "n")
				if err != nil {
					return "OK UNREADABLE"
				}
				return "OK " + privHex(p)
			})
			t.Line("export", strings.HasPrefix(res, "OK"), "export %s %s %s => %s", k0.addr, hx(v), hx("n"), res)
		}
	}
	h.listLine()
	// and the right passphrase still works
	h.exportObjLine(k0.addr, right)
	res = try(func() string { return errClass(kb.Delete(addrOf(k0.addr), right)) })
	t.Line("delete", res == "OK", "delete %s %s => %s", k0.addr, hx(right), res)
	get()
	h.listLine()
}

func kbCase(t *buf, r *gen.R, pool []pw, ops int) {
	h := &kbHarness{t: t, kb: keys.NewInMemory(), r: r, pws: []pw{pool[r.Intn(len(pool))], pool[r.Intn(len(pool))], pool[r.Intn(len(pool))]}, known: map[string]string{}}
	// make nul-padded / hashed twins meet regularly
	if r.Chance(1, 4) {
		h.pws = []pw{pool[1], pool[2], pool[6]}
	} else if r.Chance(1, 6) {
		h.pws = []pw{pool[4], pool[5], pool[0]}
	}
	for j := 0; j < 3; j++ {
		h.pool = append(h.pool, newKey(r, false))
	}
	h.pool = append(h.pool, newKey(r, true))
	t.Line("newkb", true, "newkb => OK")
	for j := 0; j < ops; j++ {
		h.step()
	}
	h.listLine()
}

func main() {
	seed := flag.Uint64("seed", 1, "")
	n := flag.Int("n", 40, "")
	outp := flag.String("out", "c40.trace", "")
	ops := flag.Int("ops", 14, "operations per keybase sequence")
	flag.Parse()
	master := gen.New(*seed)
	out = gen.NewTrace(*outp)
	pool := passPool()
	// passphrase table: bytes and sha256 (the driver needs the digest of long passphrases to
	// evaluate HMAC's key normalisation)
	for _, p := range pool {
		h := sha256.Sum256([]byte(p.s))
		out.Line("pass", true, "pass %s %s %s => OK", p.class, hx(p.s), gen.Hex(h[:]))
	}
	// n cases: one third mintkey cases, the rest keybase sequences on a fresh keybase; each case
	// has its own PRNG derived from the master so that cases can run concurrently
	bufs := make([]*buf, *n)
	seeds := make([]uint64, *n)
	for i := range seeds {
		seeds[i] = master.U64()
	}
	var wg sync.WaitGroup
	sem := make(chan struct{}, runtime.NumCPU())
	for i := 0; i < *n; i++ {
		wg.Add(1)
		go func(i int) {
			defer wg.Done()
			sem <- struct{}{}
			defer func() { <-sem }()
			b := &buf{}
			r := gen.New(seeds[i])
			if i == 1 {
				kbScenario(b, r, pool)
			} else if i == 2 {
				kbGuardScenario(b, r, false)
			} else if i == 4 {
				kbGuardScenario(b, r, true)
			} else if i == 5 {
				kbLazyCoinbaseScenario(b, r)
			} else if i%3 == 0 {
				mintkeyCase(b, r, pool)
			} else {
				kbCase(b, r, pool, *ops)
			}
			bufs[i] = b
		}(i)
	}
	wg.Wait()
	for _, b := range bufs {
		for _, l := range b.ls {
			out.Line(l.kind, l.nontriv, "%s", l.text)
		}
	}
	out.Close(nil)
}
