// c01: histories weighted towards cachekv wraps (nesting 0-3, writes/discards, iterators held
// open across writes); consumed by lean/Driver/C01.lean.  See internal/kvh.
package main

import (
	"flag"

	"verifharness/internal/kvh"
)

func main() {
	seed := flag.Uint64("seed", 1, "")
	n := flag.Int("n", 5000, "")
	out := flag.String("out", "c01.trace", "")
	depth := flag.Int("depth", 3, "maximal number of wraps")
	pfx := flag.Int("pwrap", 1, "weight of prefix wraps (cache wraps have weight 6)")
	flag.Parse()
	kvh.Run(kvh.Config{
		Seed: *seed, N: *n, Out: *out, MaxDepth: *depth,
		WWrap: 6, WPwrap: *pfx, WPop: 4, WWrite: 6,
		WGet: 14, WHas: 5, WSet: 24, WDel: 11, WIter: 8, WOpen: 5, WNext: 6, WDrain: 4, WDump: 2, WNil: 1, WPend: 0, WBelow: 3,
		EpochSets: 48,
	})
}
