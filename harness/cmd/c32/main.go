// c32: claim/proof life-cycle histories on the real PocketCoreApp (DESIGN.md §5 C32).
//
// Every history is a fresh chain (7 staked nodes, 5 per session, 2 applications, BlocksPerSession 4,
// ClaimSubmissionWindow 2, ClaimExpiration 3 by default) on which generated MsgClaim / MsgProof
// transactions carrying REAL evidence (AAT signed by the application key, relay proofs signed by
// the client key, merkle-sum-index trees from the real GenerateRoot/GenerateProofs) are delivered.
// One trace line per BeginBlock, DeliverTx and Commit with the claims store, all balances, node
// stakes and supply read through the real keepers; a tx line also carries the oracle inputs of the
// Lean transition (every fact ValidateClaim / ValidateProof look at, evaluated with the real
// functions on the state right before the DeliverTx).
package main

import (
	"flag"
	"fmt"
	"os"
	"sort"

	"verifharness/internal/gen"
)

func main() {
	seed := flag.Uint64("seed", 1, "")
	n := flag.Int("n", 4, "number of histories")
	out := flag.String("out", "", "trace file")
	blocks := flag.Int("blocks", 44, "blocks per history")
	verbose := flag.Bool("v", false, "print the result-code distribution")
	demo := flag.Bool("demo", false, "scripted history reproducing the known findings")
	flag.Parse()
	if *out == "" {
		fmt.Fprintln(os.Stderr, "-out required")
		os.Exit(2)
	}
	r := gen.New(*seed)
	t := gen.NewTrace(*out)
	stats := map[string]int{}
	if *demo {
		s := newSim(*seed, r, t, 4, 2, 3)
		s.demo()
		*n = 0
	}
	for i := 0; i < *n; i++ {
		B, W, E := int64(4), int64(2), int64(3)
		switch r.Intn(4) {
		case 1:
			B, W, E = 3, 2, 2
		case 2:
			B, W, E = 5, 3, 4
		}
		s := newSim(*seed, r, t, B, W, E)
		s.history(*blocks)
		for k, v := range s.stats {
			stats[k] += v
		}
	}
	t.Close(map[string]interface{}{"result_codes": stats})
	if *verbose {
		ks := make([]string, 0, len(stats))
		for k := range stats {
			ks = append(ks, k)
		}
		sort.Strings(ks)
		for _, k := range ks {
			fmt.Printf("%5d %s\n", stats[k], k)
		}
	}
}
