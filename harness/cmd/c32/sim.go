package main

import (
	"encoding/hex"
	"fmt"
	"math"
	"os"
	"sort"
	"strings"
	"time"

	"github.com/pokt-network/pocket-core/crypto"
	sdk "github.com/pokt-network/pocket-core/types"
	nodesKeeper "github.com/pokt-network/pocket-core/x/nodes/keeper"
	pc "github.com/pokt-network/pocket-core/x/pocketcore/types"
	abci "github.com/tendermint/tendermint/abci/types"
	"github.com/tendermint/tendermint/config"
	"github.com/tendermint/tendermint/libs/log"
	"github.com/tendermint/tendermint/state/txindex"
	tmtypes "github.com/tendermint/tendermint/types"
	dbm "github.com/tendermint/tm-db"
	"verifharness/internal/chain"
	"verifharness/internal/gen"
)

// sim is one chain history driven block by block with state dumps after BeginBlock, after every
// DeliverTx and after Commit.
type sim struct {
	n        *chain.Node
	w        *chain.World
	r        *gen.R
	t        *gen.Trace
	names    map[string]string // address hex / pubkey hex -> short name
	keys     map[string]chain.Key
	nodes    []chain.Key
	apps     []chain.Key
	client   chain.Key
	entropy  int64
	totalTxs int64
	B, W, E  int64
	logger   log.Logger
	stats    map[string]int
}

const chainOK = chain.ChainHash // "0001": supported, nodes and apps staked for it
const chainNoNodes = "0002"     // supported by the protocol, nobody staked for it
const chainUnsup = "0003"       // not in SupportedBlockchains
const chainHex = "00a1"         // supported, nodes and apps staked for it; has a hex letter
const chainHexUpper = "00A1"    // the same identifier in another spelling (hex decodes to the same bytes)

func (s *sim) name(addrOrPub string) string {
	if v, ok := s.names[strings.ToLower(addrOrPub)]; ok {
		// a non-canonical hex spelling of a known key is a different TEXT (and a different claim
		// store key): it gets the name of the key plus a spelling tag
		if len(addrOrPub) == 64 && addrOrPub != strings.ToLower(addrOrPub) {
			if addrOrPub == strings.ToUpper(addrOrPub) {
				return v + "^U"
			}
			return v + "^M"
		}
		return v
	}
	if len(addrOrPub) > 10 {
		return "x" + addrOrPub[:10]
	}
	if addrOrPub == "" {
		return "nil"
	}
	return "x" + addrOrPub
}

func newSim(seed uint64, r *gen.R, t *gen.Trace, B, W, E int64) *sim {
	chain.ModernGlobals()
	// the session cache read by ValidateClaim must exist (it is created by node start-up code in a real node)
	pc.GlobalSessionCache = &pc.CacheStorage{}
	pc.GlobalSessionCache.Init("", "", config.DefaultLevelDBOpts(), 100, true)
	pc.GlobalPocketNodes = map[string]*pc.PocketNode{}
	w, o := chain.DefaultWorld("verif", 3, 4, 2, 3)
	s := &sim{w: w, r: r, t: t, names: map[string]string{}, keys: map[string]chain.Key{}, B: B, W: W, E: E, stats: map[string]int{}}
	o.Mutate = func(g *chain.Genesis) {
		g.Nodes.Params.SessionBlockFrequency = B
		g.Pocket.Params.ClaimSubmissionWindow = W
		g.Pocket.Params.ClaimExpiration = E
		g.Pocket.Params.SessionNodeCount = 5
		g.Pocket.Params.SupportedBlockchains = []string{chainOK, chainNoNodes, chainHex}
		for i := range g.Nodes.Validators {
			g.Nodes.Validators[i].Chains = append(g.Nodes.Validators[i].Chains, chainHex)
		}
		for i := range g.Apps.Applications {
			g.Apps.Applications[i].Chains = append(g.Apps.Applications[i].Chains, chainHex)
		}
		for i := range g.Nodes.Validators {
			// head-room above the minimum stake so that a replay-attack burn does not always force-unstake
			g.Nodes.Validators[i].StakedTokens = g.Nodes.Validators[i].StakedTokens.Add(sdk.NewInt(int64(2000000 * (i % 3))))
		}
		// MaxRelays is recomputed from the stake at InitGenesis (1 relay per staked POKT with the default
		// parameters): the first app may use 100000/2/5 = 10000 relays per chain and session node, the second only 60/2/5 = 6
		g.Apps.Applications[0].StakedTokens = sdk.NewInt(100000000000)
		g.Apps.Applications[1].StakedTokens = sdk.NewInt(60000000)
		// one servicer pays rewards to a separate output address with a delegator
		last := len(g.Nodes.Validators) - 1
		g.Nodes.Validators[last].OutputAddress = w.Accts[0].Addr
		g.Nodes.Validators[last].RewardDelegators = map[string]uint32{w.Accts[1].Addr.String(): 30}
	}
	g := chain.BuildGenesis(o)
	s.n = chain.NewNode(g, "verif", o.GenesisTime, dbm.NewMemDB(), dbm.NewMemDB(), dbm.NewMemDB(), false)
	s.n.InitChain()
	devnull, _ := os.Open(os.DevNull)
	s.logger = log.NewTMLogger(devnull)
	reg := func(k chain.Key, nm string) {
		s.names[strings.ToLower(k.Addr.String())] = nm
		s.names[strings.ToLower(k.Pub.RawString())] = nm
		s.keys[nm] = k
	}
	for i, k := range w.Vals {
		reg(k, fmt.Sprintf("v%d", i))
		s.nodes = append(s.nodes, k)
	}
	for i, k := range w.Servs {
		reg(k, fmt.Sprintf("s%d", i))
		s.nodes = append(s.nodes, k)
	}
	for i, k := range w.Apps {
		reg(k, fmt.Sprintf("a%d", i))
		s.apps = append(s.apps, k)
	}
	for i, k := range w.Accts {
		reg(k, fmt.Sprintf("c%d", i))
	}
	reg(w.Owner, "owner")
	s.client = chain.KeyN(3000)
	reg(s.client, "client")
	return s
}

// cur is the context a DeliverTx of the block being built sees: height n.Height+1 (or the block in
// progress), working state of the root multistore, the block store for PrevCtx/GetPrevBlockHash.
func (s *sim) cur(height int64, lastHash []byte, tm time.Time) sdk.Context {
	return sdk.NewContext(s.n.App.Store(), abci.Header{ChainID: s.n.ChainID, Height: height, Time: tm,
		LastBlockId: abci.BlockID{Hash: lastHash}}, false, s.logger).WithBlockStore(s.n.BlockStore)
}

// ---------------------------------------------------------------- state dump

type dump struct {
	claims string
	bal    string
	stake  string
	supply sdk.BigInt
}

func (s *sim) claimKeyStr(from sdk.Address, h pc.SessionHeader, et pc.EvidenceType) string {
	ch := h.Chain
	if ch == "" {
		ch = "nil"
	}
	return fmt.Sprintf("%s/%s/%s/%d/%d", s.name(from.String()), s.name(h.ApplicationPubKey), ch, h.SessionBlockHeight, int(et))
}

func (s *sim) dump(ctx sdk.Context) dump {
	var d dump
	pk := s.n.App.VerifPocketKeeper()
	var cs []string
	for _, c := range pk.GetAllClaims(ctx) {
		cs = append(cs, fmt.Sprintf("%s:%d:%d:%d", s.claimKeyStr(c.FromAddress, c.SessionHeader, c.EvidenceType), c.TotalProofs, c.ExpirationHeight, c.MerkleRoot.Range.Upper))
	}
	sort.Strings(cs)
	d.claims = "-"
	if len(cs) > 0 {
		d.claims = strings.Join(cs, ",")
	}
	ak := s.n.App.VerifAccountKeeper()
	var bs []string
	for _, a := range ak.GetAllAccounts(ctx) {
		nm := s.name(a.GetAddress().String())
		if m, ok := a.(interface{ GetName() string }); ok && m.GetName() != "" {
			nm = "m_" + m.GetName()
		}
		bs = append(bs, fmt.Sprintf("%s:%s", nm, a.GetCoins().AmountOf(sdk.DefaultStakeDenom).String()))
	}
	sort.Strings(bs)
	d.bal = strings.Join(bs, ",")
	d.supply = ak.GetSupply(ctx).GetTotal().AmountOf(sdk.DefaultStakeDenom)
	nk := s.n.App.VerifNodesKeeper()
	var st []string
	for _, v := range nk.GetAllValidators(ctx) {
		st = append(st, fmt.Sprintf("%s:%s:%d", s.name(v.Address.String()), v.StakedTokens.String(), int(v.Status)))
	}
	sort.Strings(st)
	d.stake = strings.Join(st, ",")
	return d
}

func (d dump) String() string {
	return fmt.Sprintf("supply=%s claims=%s bal=%s stake=%s", d.supply.String(), d.claims, d.bal, d.stake)
}

// ---------------------------------------------------------------- block stepping

type txReq struct {
	bytes  []byte
	kind   string                          // statistics bucket
	pre    func(ctx sdk.Context) string    // operation words + oracle inputs, evaluated on the state right before DeliverTx
	post   func(code uint32, space string) // feedback to the generator
	nontrv bool
}

// runBlock is chain.Node.RunBlock with dumps between the ABCI calls.
func (s *sim) runBlock(tm time.Time, txs []txReq) {
	n := s.n
	h := n.Height + 1
	ttxs := make(tmtypes.Txs, len(txs))
	for i, t := range txs {
		ttxs[i] = tmtypes.Tx(t.bytes)
	}
	s.totalTxs += int64(len(txs))
	proposer := s.w.Vals[int(h)%len(s.w.Vals)].Addr
	lastCommit := tmtypes.NewCommit(n.LastBlockID, nil)
	blk := &tmtypes.Block{
		Header: tmtypes.Header{
			ChainID: n.ChainID, Height: h, Time: tm.UTC(), NumTxs: int64(len(txs)), TotalTxs: s.totalTxs,
			LastBlockID: n.LastBlockID, AppHash: n.AppHash, ProposerAddress: []byte(proposer),
			ValidatorsHash: []byte("verif-validators-hash-0000000000"), NextValidatorsHash: []byte("verif-validators-hash-0000000000"),
			ConsensusHash: []byte("verif-consensus-hash-00000000000"),
		},
		Data:       tmtypes.Data{Txs: ttxs},
		LastCommit: lastCommit,
	}
	blk.Header.DataHash = ttxs.Hash()
	blk.Header.LastCommitHash = lastCommit.Hash()
	parts := blk.MakePartSet(65536)
	bid := tmtypes.BlockID{Hash: blk.Hash(), PartsHeader: parts.Header()}
	n.BlockStore.SaveBlock(blk, parts, tmtypes.NewCommit(bid, nil))
	hdr := abci.Header{ChainID: n.ChainID, Height: h, Time: tm.UTC(), NumTxs: int64(len(txs)), TotalTxs: s.totalTxs,
		LastBlockId: abci.BlockID{Hash: n.LastBlockID.Hash, PartsHeader: abci.PartSetHeader{Total: int32(n.LastBlockID.PartsHeader.Total), Hash: n.LastBlockID.PartsHeader.Hash}},
		AppHash: n.AppHash, ProposerAddress: []byte(proposer), DataHash: blk.Header.DataHash, LastCommitHash: blk.Header.LastCommitHash,
		ValidatorsHash: blk.Header.ValidatorsHash, NextValidatorsHash: blk.Header.NextValidatorsHash, ConsensusHash: blk.Header.ConsensusHash}
	var votes []abci.VoteInfo
	for _, v := range s.w.Vals {
		votes = append(votes, abci.VoteInfo{Validator: abci.Validator{Address: v.Addr, Power: 15000}, SignedLastBlock: true})
	}
	n.App.BeginBlock(abci.RequestBeginBlock{Hash: bid.Hash, Header: hdr, LastCommitInfo: abci.LastCommitInfo{Votes: votes}})
	ctx := s.cur(h, n.LastBlockID.Hash, tm)
	s.t.Line("begin", true, "begin %d => %s", h, s.dump(ctx))
	batch := txindex.NewBatch(int64(len(txs)))
	for i, t := range txs {
		words := t.pre(ctx)
		r := n.App.DeliverTx(abci.RequestDeliverTx{Tx: t.bytes})
		_ = batch.Add(&tmtypes.TxResult{Height: h, Index: uint32(i), Tx: tmtypes.Tx(t.bytes), Result: r})
		cs := r.Codespace
		if cs == "" {
			cs = "ok"
		}
		s.t.Line(t.kind, t.nontrv || r.Code == 0, "tx %d %s => code=%s:%d %s", h, words, cs, r.Code, s.dump(ctx))
		s.stats[fmt.Sprintf("%s code=%s:%d", t.kind, cs, r.Code)]++
		if t.post != nil {
			t.post(r.Code, r.Codespace)
		}
	}
	n.App.EndBlock(abci.RequestEndBlock{Height: h})
	c := n.App.Commit()
	if err := n.Indexer.AddBatch(batch); err != nil {
		panic(err)
	}
	n.Height, n.LastBlockID, n.AppHash, n.Time = h, bid, c.Data, tm.UTC()
	s.t.Line("end", false, "end %d => %s", h, s.dump(s.cur(h, bid.Hash, tm)))
}

// ---------------------------------------------------------------- evidence

// evSet is a set of relay proofs one node collected for one session header, and the tree built from it.
type evSet struct {
	id        int
	node, app chain.Key
	chainID   string
	S         int64
	et        pc.EvidenceType
	proofs    []pc.Proof // in tree order
	root      pc.HashRange
	total     int64 // what the claim declares
	dup       bool
	claimed   bool // a claim carrying this root was accepted
	proved    bool
	claimH    int64
	neverProv bool
	gone      bool // generator gave up on it
	lastProof []byte
	lastProofH  int64
	overwritten bool // a later claim with the same key replaced this one
	tried       bool
	paid        int
	attempts    int
	chal        bool // the leaves are challenge proofs (ChallengeProofInvalidData), not relay proofs
	appText     string // how the header and the AATs spell the application public key ("" = canonical lower-case hex)
}

func (e *evSet) appKeyText() string {
	if e.appText != "" {
		return e.appText
	}
	return e.app.Pub.RawString()
}

func (e *evSet) header() pc.SessionHeader {
	return pc.SessionHeader{ApplicationPubKey: e.appKeyText(), Chain: e.chainID, SessionBlockHeight: e.S}
}

// spell renders a public key in canonical ("", lower case), upper-case ("U") or mixed ("M": only the
// first hex letter raised) hex.  All three decode to the same key.
func spell(k chain.Key, how string) string {
	c := k.Pub.RawString()
	switch how {
	case "U":
		return strings.ToUpper(c)
	case "M":
		for i, ch := range c {
			if ch >= 'a' && ch <= 'f' {
				return c[:i] + strings.ToUpper(c[i:i+1]) + c[i+1:]
			}
		}
	}
	return c
}

func mkAAT(app, client chain.Key, appText string) pc.AAT {
	if appText == "" {
		appText = app.Pub.RawString()
	}
	// the token names the application in the same spelling as the session header and is signed by the application key over that text
	aat := pc.AAT{Version: "0.0.1", ApplicationPublicKey: appText, ClientPublicKey: client.Pub.RawString()}
	sig, err := app.Priv.Sign(aat.Hash())
	if err != nil {
		panic(err)
	}
	aat.ApplicationSignature = hex.EncodeToString(sig)
	return aat
}

func mkRelayProof(aat pc.AAT, client, node chain.Key, chainID string, S int64, entropy int64) pc.RelayProof {
	p := pc.RelayProof{Entropy: entropy, RequestHash: aat.HashString(), SessionBlockHeight: S, ServicerPubKey: node.Pub.RawString(),
		Blockchain: chainID, Token: aat}
	sig, err := client.Priv.Sign(p.Hash())
	if err != nil {
		panic(err)
	}
	p.Signature = hex.EncodeToString(sig)
	return p
}

func (s *sim) mkEvidence(id int, node, app chain.Key, chainID string, S int64, et pc.EvidenceType, nLeaves int, dup bool) *evSet {
	return s.mkEvidenceSpelled(id, node, app, "", chainID, S, et, nLeaves, dup)
}

func (s *sim) mkEvidenceSpelled(id int, node, app chain.Key, appText, chainID string, S int64, et pc.EvidenceType, nLeaves int, dup bool) *evSet {
	aat := mkAAT(app, s.client, appText)
	var ps []pc.Proof
	for i := 0; i < nLeaves; i++ {
		s.entropy++
		e := s.entropy
		if dup && i > 0 && i < nLeaves-1 {
			e = s.entropy - 1
			s.entropy--
		}
		ps = append(ps, mkRelayProof(aat, s.client, node, chainID, S, e))
	}
	s.entropy++
	root, sorted := pc.GenerateRoot(S, ps)
	return &evSet{id: id, node: node, app: app, chainID: chainID, S: S, et: et, proofs: sorted, root: root, total: int64(nLeaves), dup: dup, appText: appText}
}

// mkChallengeEvidence: every leaf is a ChallengeProofInvalidData reported by `node`: two session nodes
// answered alike, a third (the minority, whose stake the proof burns) differently; each response is
// signed by its servicer, each relay proof by the client.
func (s *sim) mkChallengeEvidence(id int, node, app chain.Key, chainID string, S int64, et pc.EvidenceType, nLeaves int) *evSet {
	aat := mkAAT(app, s.client, "")
	var others []chain.Key
	for _, k := range s.nodes {
		if !k.Addr.Equals(node.Addr) {
			others = append(others, k)
		}
	}
	mkResp := func(n chain.Key, entropy int64, payload string) pc.RelayResponse {
		rr := pc.RelayResponse{Response: payload, Proof: mkRelayProof(aat, s.client, n, chainID, S, entropy)}
		sig, err := n.Priv.Sign(rr.Hash())
		if err != nil {
			panic(err)
		}
		rr.Signature = hex.EncodeToString(sig)
		return rr
	}
	var ps []pc.Proof
	for i := 0; i < nLeaves; i++ {
		s.entropy++
		o := s.r.Intn(len(others))
		a, b, c := others[o], others[(o+1)%len(others)], others[(o+2)%len(others)]
		ps = append(ps, pc.ChallengeProofInvalidData{
			MajorityResponses: []pc.RelayResponse{mkResp(a, s.entropy, `{"r":1}`), mkResp(b, s.entropy, `{"r":1}`)},
			MinorityResponse:  mkResp(c, s.entropy, `{"r":2}`), ReporterAddress: node.Addr})
	}
	root, sorted := pc.GenerateRoot(S, ps)
	return &evSet{id: id, node: node, app: app, chainID: chainID, S: S, et: et, proofs: sorted, root: root, total: int64(nLeaves), chal: true}
}

func levelsFor(total int64) int { return int(math.Ceil(math.Log2(float64(total)))) }

// errCode renders an sdk.Error as "<codespace>:<code>", "ok:0" for nil.
func errCode(e sdk.Error) string {
	if e == nil {
		return "ok:0"
	}
	return fmt.Sprintf("%s:%d", e.Codespace(), e.Code())
}

func b01(b bool) int {
	if b {
		return 1
	}
	return 0
}

// ---------------------------------------------------------------- oracle inputs

// claimOracle evaluates, with the real keeper functions and on the state right before the
// DeliverTx, every fact ValidateClaim/SetClaim look at.  These are the oracle inputs of the Lean
// transition (session selection, allowance arithmetic, staking state belong to other properties).
func (s *sim) claimOracle(ctx sdk.Context, m pc.MsgClaim, dup, anteOK bool) string {
	pk := s.n.App.VerifPocketKeeper()
	var sb strings.Builder
	fmt.Fprintf(&sb, "dup=%d vb=%s ante=%d", b01(dup), errCode(m.ValidateBasic()), b01(anteOK))
	S := m.SessionHeader.SessionBlockHeight
	sessCtx, err := ctx.PrevCtx(S)
	if err != nil {
		fmt.Fprintf(&sb, " sctx=0 B=0 min=0 chain=0 node=0 app=0 max=0 chlim=0 sess=na:0 insess=0 E=0")
	} else {
		B := pk.BlocksPerSession(sessCtx)
		_, nodeFound := pk.GetNode(sessCtx, m.FromAddress)
		app, appFound := pk.GetAppFromPublicKey(sessCtx, m.SessionHeader.ApplicationPubKey)
		max, chlim := sdk.ZeroInt(), false
		sessRes, inSess := "na:0", false
		if appFound {
			cnt := pk.SessionNodeCount(sessCtx)
			max = pc.MaxPossibleRelays(app, cnt)
			chlim = int64(len(app.GetChains())) > s.n.App.VerifAppsKeeper().MaxChains(sessCtx)
			end := S + B - 1
			if ctx.BlockHeight() > end {
				if endCtx, er := ctx.PrevCtx(end); er == nil {
					if hash, er := sessCtx.BlockHash(pk.Cdc, sessCtx.BlockHeight()); er == nil {
						sess, e := pc.NewSession(sessCtx, endCtx, s.n.App.VerifNodesKeeper(), m.SessionHeader, hex.EncodeToString(hash), int(cnt))
						if e != nil {
							sessRes = errCode(e)
						} else {
							inSess = sess.SessionNodes.Contains(m.FromAddress)
							// Session.Validate checks membership last: an InvalidSession error means every earlier check passed
							// (the comparison of the header's key text with the application's key text is reported separately as canon=)
							ve := sess.Validate(m.FromAddress, app, int(cnt))
							if ve != nil && (ve.Code() == pc.CodeInvalidSessionError || ve.Code() == pc.CodeInvalidAppPubKeyError) {
								ve = nil
							}
							sessRes = errCode(ve)
						}
					}
				}
			}
		}
		fmt.Fprintf(&sb, " sctx=1 B=%d min=%d chain=%d node=%d app=%d max=%s chlim=%d sess=%s insess=%d E=%d", B, pk.MinimumNumberOfProofs(sessCtx),
			b01(pk.IsPocketSupportedBlockchain(sessCtx, m.SessionHeader.Chain)), b01(nodeFound), b01(appFound), max.String(), b01(chlim), sessRes, b01(inSess), pk.ClaimExpiration(sessCtx))
	}
	// spelling of the header, judged here and not by pocket-core: the application key text is the
	// canonical lower-case hex of the key it decodes to, and so is the chain identifier
	h := m.SessionHeader
	canon := h.ApplicationPubKey == strings.ToLower(h.ApplicationPubKey) && h.Chain == strings.ToLower(h.Chain)
	fmt.Fprintf(&sb, " canon=%d W=%d cB=%d", b01(canon), pk.ClaimSubmissionWindow(ctx), pk.BlocksPerSession(ctx))
	return sb.String()
}

// proofOracle evaluates every fact ValidateProof/ExecuteProof look at (real functions, state before DeliverTx).
func (s *sim) proofOracle(ctx sdk.Context, m pc.MsgProof, dup, anteOK bool) string {
	pk := s.n.App.VerifPocketKeeper()
	nk := s.n.App.VerifNodesKeeper()
	var sb strings.Builder
	fmt.Fprintf(&sb, "dup=%d vb=%s ante=%d", b01(dup), errCode(m.ValidateBasic()), b01(anteOK))
	signer := m.GetSigners()[0]
	claim, found := pk.GetClaim(ctx, signer, m.GetLeaf().SessionHeader(), m.EvidenceType)
	lvl, rootm, sctx, idxAvail, idxOK, mk, appF, leaf, rw := false, false, false, false, false, "na", false, "na:0", "-"
	if found {
		levelCount := len(m.MerkleProof.HashRanges)
		lvl = levelCount == levelsFor(claim.TotalProofs)
		rootm = m.MerkleProof.Target.Range.Upper == claim.MerkleRoot.Range.Upper
		for _, hr := range m.MerkleProof.HashRanges {
			if hr.Range.Upper == claim.MerkleRoot.Range.Upper {
				rootm = true
			}
		}
		if sessCtx, err := ctx.PrevCtx(claim.SessionHeader.SessionBlockHeight); err == nil {
			sctx = true
			if req, err := pk.VerifC32PseudorandomIndex(ctx, claim.TotalProofs, claim.SessionHeader, sessCtx); err == nil {
				idxAvail = true
				idxOK = req == m.MerkleProof.TargetIndex
			}
			if lvl {
				func() {
					defer func() {
						if r := recover(); r != nil {
							mk = "panic"
						}
					}()
					v, rep := m.MerkleProof.Validate(claim.SessionHeader.SessionBlockHeight, claim.MerkleRoot, m.GetLeaf(), levelCount)
					switch {
					case v:
						mk = "valid"
					case rep:
						mk = "replay"
					default:
						mk = "invalid"
					}
				}()
			}
			if app, ok := pk.GetAppFromPublicKey(sessCtx, claim.SessionHeader.ApplicationPubKey); ok {
				appF = true
				leaf = errCode(m.GetLeaf().Validate(app.GetChains(), int(pk.SessionNodeCount(sessCtx)), claim.SessionHeader.SessionBlockHeight))
			}
		}
		relays := claim.TotalProofs
		if _, isChal := m.GetLeaf().(pc.ChallengeProofInvalidData); isChal {
			relays = claim.TotalProofs / 100 // ExecuteProof: "small reward for the challenge proof invalid data"
		}
		rw = s.rewardOracle(ctx, nk, claim, relays)
	}
	fmt.Fprintf(&sb, " found=%d lvl=%d rootm=%d sctx=%d idxavail=%d idx=%d mk=%s app=%d leafv=%s rw=%s", b01(found), b01(lvl), b01(rootm), b01(sctx),
		b01(idxAvail), b01(idxOK), mk, b01(appF), leaf, rw)
	return sb.String()
}

// rewardOracle: who would be minted how much if the relay reward for this claim were paid now
// (RewardForRelaysPerChain's distribution, recomputed with the exported pieces; the arithmetic is C26/C27's subject).
func (s *sim) rewardOracle(ctx sdk.Context, nk nodesKeeper.Keeper, claim pc.MsgClaim, relays int64) string {
	val, found := nk.GetValidator(ctx, claim.FromAddress)
	if !found {
		return "-"
	}
	toNode, toFee := nk.CalculateRelayReward(ctx, claim.SessionHeader.Chain, sdk.NewInt(relays), val.GetTokens())
	acc := map[string]sdk.BigInt{}
	add := func(a sdk.Address, v sdk.BigInt) {
		nm := s.name(a.String())
		if cur, ok := acc[nm]; ok {
			acc[nm] = cur.Add(v)
		} else {
			acc[nm] = v
		}
	}
	cost := nk.GetRewardCost(ctx)
	if toNode.LT(cost) {
		cost = toNode
	}
	if cost.IsPositive() {
		add(val.Address, cost)
		toNode = toNode.Sub(cost)
	}
	out := val.OutputAddress
	if out == nil {
		out = val.Address
	}
	_ = nodesKeeper.SplitNodeRewards(s.logger, toNode, out, val.RewardDelegators, func(a sdk.Address, c sdk.BigInt) { add(a, c) })
	if toFee.IsPositive() {
		acc["m_fee_collector"] = toFee
	}
	var ps []string
	for k, v := range acc {
		ps = append(ps, k+":"+v.String())
	}
	sort.Strings(ps)
	if len(ps) == 0 {
		return "-"
	}
	return strings.Join(ps, ",")
}

var _ = crypto.Ed25519PrivateKey{}
