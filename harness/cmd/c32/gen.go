package main

import (
	"fmt"
	"time"

	sdk "github.com/pokt-network/pocket-core/types"
	pc "github.com/pokt-network/pocket-core/x/pocketcore/types"
	"verifharness/internal/chain"
)

const fee = 10000

func (s *sim) nextEntropy() int64 { s.entropy++; return s.entropy }

// stranger returns a funded key other than k.
func (s *sim) stranger(k chain.Key) chain.Key {
	if s.w.Accts[2].Addr.Equals(k.Addr) {
		return s.w.Accts[1]
	}
	return s.w.Accts[2]
}

// claimTx builds a MsgClaim transaction for an evidence set.  variant:
//
//	ok | wrongsigner | inflate (declares more relays than the tree has) | badroot (lower != 0 -> ValidateBasic) | exp (non-zero expiration -> ValidateBasic)
func (s *sim) claimTx(e *evSet, variant string, pool *[]*evSet) txReq {
	m := pc.MsgClaim{SessionHeader: e.header(), MerkleRoot: e.root, TotalProofs: e.total, FromAddress: e.node.Addr, EvidenceType: e.et}
	signer := e.node
	anteOK := true
	dup := false
	switch variant {
	case "wrongsigner":
		signer = s.stranger(e.node)
		anteOK = false
	case "badroot":
		m.MerkleRoot.Range.Lower = 1
	case "exp":
		m.ExpirationHeight = 1000
	case "few":
		m.TotalProofs = 4
	}
	bz := chain.SignTx(s.n.ChainID, signer, &m, fee, s.nextEntropy(), "")
	key := s.claimKeyStr(m.FromAddress, m.SessionHeader, m.EvidenceType)
	return txReq{bytes: bz, kind: "claim-" + variant, nontrv: false,
		pre: func(ctx sdk.Context) string {
			return fmt.Sprintf("claim %s total=%d rootu=%d exp=%d signer=%s | %s", key, m.TotalProofs, m.MerkleRoot.Range.Upper, m.ExpirationHeight, s.name(signer.Addr.String()), s.claimOracle(ctx, m, dup, anteOK))
		},
		post: func(code uint32, _ string) {
			if code == 0 {
				for _, o := range *pool {
					if o != e && o.claimed && s.claimKeyStr(o.node.Addr, o.header(), o.et) == key {
						o.claimed = false
						o.overwritten = true
					}
				}
				e.claimed, e.claimH, e.proved = true, s.n.Height+1, false
			}
		}}
}

// proofTx builds a MsgProof transaction.  reqIdx is the index the chain will require (-1: not computable yet).
func (s *sim) proofTx(e *evSet, variant string, reqIdx int64) txReq {
	n := int64(len(e.proofs))
	idx := reqIdx
	if idx < 0 || idx >= n {
		idx = int64(s.r.Intn(int(n)))
	}
	et := e.et
	signer := e.node
	anteOK := true
	dup := false
	build := func(i int64) (pc.MerkleProof, pc.Proof) {
		cp := make([]pc.Proof, len(e.proofs))
		copy(cp, e.proofs)
		return pc.GenerateProofs(e.S, cp, int(i))
	}
	mp, leaf := build(idx)
	switch variant {
	case "wrongidx":
		mp, leaf = build((idx + 1 + int64(s.r.Intn(int(n-1)))) % n)
	case "wrongleaf":
		_, leaf = build((idx + 1 + int64(s.r.Intn(int(n-1)))) % n)
	case "mutsib":
		j := s.r.Intn(len(mp.HashRanges))
		h := append([]byte(nil), mp.HashRanges[j].Hash...)
		h[s.r.Intn(len(h))] ^= 0x40
		mp.HashRanges[j].Hash = h
	case "mutrange":
		j := s.r.Intn(len(mp.HashRanges))
		switch s.r.Intn(3) {
		case 0:
			mp.HashRanges[j].Range.Upper++
		case 1:
			mp.HashRanges[j].Range.Lower = mp.HashRanges[j].Range.Upper
		default:
			mp.Target.Range.Lower++
		}
	case "mutindex": // right leaf and siblings, lying about the index
		mp.TargetIndex = (idx + 1) % n
	case "levels":
		if s.r.Bool() || len(mp.HashRanges) <= 3 {
			mp.HashRanges = append(mp.HashRanges, mp.HashRanges[len(mp.HashRanges)-1])
		} else {
			mp.HashRanges = mp.HashRanges[:len(mp.HashRanges)-1]
		}
	case "mutleaf": // changes the signed relay -> client signature no longer verifies (ValidateBasic)
		switch l := leaf.(type) {
		case pc.RelayProof:
			l.Entropy += 1000000
			leaf = l
		case pc.ChallengeProofInvalidData:
			l.MinorityResponse.Proof.Entropy += 1000000
			leaf = l
		}
	case "wronget":
		if et == pc.RelayEvidence {
			et = pc.ChallengeEvidence
		} else {
			et = pc.RelayEvidence
		}
	case "wrongsigner":
		signer = s.stranger(e.node)
		anteOK = false
	}
	m := pc.MsgProof{MerkleProof: mp, Leaf: leaf, EvidenceType: et}
	var bz []byte
	if variant == "samebytes" && e.lastProof != nil {
		// the very same bytes again (same block or a later one): baseapp's transaction cache / the tx indexer reject it
		bz = e.lastProof
		dup = true
	} else {
		bz = chain.SignTx(s.n.ChainID, signer, &m, fee, s.nextEntropy(), "")
		if anteOK {
			e.lastProof, e.lastProofH = bz, s.n.Height+1
		}
	}
	key := s.claimKeyStr(leaf.GetSigner(), leaf.SessionHeader(), et)
	leafKind, kindPfx := "relay", "proof-"
	if e.chal {
		leafKind, kindPfx = "chal", "cproof-"
	}
	e.attempts++
	return txReq{bytes: bz, kind: kindPfx + variant,
		pre: func(ctx sdk.Context) string {
			return fmt.Sprintf("proof %s leaf=%s tidx=%d signer=%s | %s", key, leafKind, mp.TargetIndex, s.name(signer.Addr.String()), s.proofOracle(ctx, m, dup, anteOK))
		},
		post: func(code uint32, _ string) {
			if code == 0 {
				e.proved = true
				e.paid++
			}
		}}
}

// requiredIndex asks the real keeper which leaf a proof for (header, total) must open when delivered in the next block.
func (s *sim) requiredIndex(ctx sdk.Context, e *evSet, total int64) int64 {
	sessCtx, err := ctx.PrevCtx(e.S)
	if err != nil {
		return -1
	}
	i, err := s.n.App.VerifPocketKeeper().VerifC32PseudorandomIndex(ctx, total, e.header(), sessCtx)
	if err != nil {
		return -1
	}
	return i
}

func (s *sim) sessionStart(h int64) int64 {
	if h < 1 {
		return 1
	}
	return ((h-1)/s.B)*s.B + 1
}

// newEvidence draws an evidence set for a session chosen relative to the block height about to be built.
func (s *sim) newEvidence(id int, H int64) *evSet {
	r := s.r
	node := s.nodes[r.Intn(len(s.nodes))]
	app := s.apps[0]
	chainID := chainOK
	et := pc.RelayEvidence
	if r.Chance(1, 4) {
		et = pc.ChallengeEvidence
	}
	nLeaves := []int{5, 5, 6, 7, 8, 9, 12, 17, 33}[r.Intn(9)]
	// the last ended session most of the time; sometimes the running one (early), an older one (late), an off-boundary or future height
	S := s.sessionStart(H) - s.B
	switch r.Intn(12) {
	case 0:
		S = s.sessionStart(H) // running
	case 1:
		S -= s.B
	case 2:
		S -= 2 * s.B
	case 3:
		S += int64(1 + r.Intn(int(s.B)-1)) // not a session start
	case 4:
		S = H + int64(r.Intn(3)) // this block or the future
	}
	if S < 1 {
		S = 1
	}
	switch r.Intn(16) {
	case 0:
		node = s.w.Accts[2] // not a node
	case 1:
		app = s.w.Accts[2] // not an application
	case 2:
		chainID = chainNoNodes
	case 3:
		chainID = chainUnsup
	case 6, 7:
		chainID = chainHex
	case 8:
		chainID = chainHexUpper // same identifier, other spelling: not a supported chain text
	case 4, 5:
		app = s.apps[1] // tiny allowance (6 per node and session)
		if r.Bool() {
			nLeaves = []int{5, 6}[r.Intn(2)]
		}
	}
	var e *evSet
	if r.Chance(1, 6) {
		// challenge proofs as leaves, filed under either evidence type; 100+ leaves earn the reporter a (1%) reward
		if r.Chance(1, 3) {
			nLeaves = []int{100, 130}[r.Intn(2)]
		}
		if r.Chance(2, 3) {
			et = pc.ChallengeEvidence
		}
		e = s.mkChallengeEvidence(id, node, app, chainID, S, et, nLeaves)
	} else {
		appText := ""
		if r.Chance(1, 8) {
			appText = spell(app, []string{"U", "U", "M"}[r.Intn(3)])
		}
		e = s.mkEvidenceSpelled(id, node, app, appText, chainID, S, et, nLeaves, r.Chance(1, 9))
	}
	if r.Chance(1, 10) { // declare more relays than the tree holds
		e.total += int64(1 + r.Intn(3))
	}
	e.neverProv = r.Chance(1, 5)
	return e
}

// history drives one chain for the given number of blocks.
func (s *sim) history(blocks int) {
	r := s.r
	tm := s.n.GenTime
	var pool []*evSet
	id := 0
	s.t.Line("init", false, "init B=%d W=%d E=%d => %s", s.B, s.W, s.E, s.dump(s.cur(0, nil, tm)))
	for b := 0; b < blocks; b++ {
		H := s.n.Height + 1
		tm = tm.Add(time.Minute)
		ctx := s.cur(H, s.n.LastBlockID.Hash, tm)
		var txs []txReq
		if r.Chance(3, 5) {
			id++
			e := s.newEvidence(id, H)
			pool = append(pool, e)
			if !e.chal && e.appText == "" && r.Chance(1, 5) {
				// the same node, application, chain, session and evidence type with the application key spelled differently in
				// the header and the tokens (signed by the application key): the same session under another store key
				id++
				pool = append(pool, s.mkEvidenceSpelled(id, e.node, e.app, spell(e.app, []string{"U", "M"}[r.Intn(2)]), e.chainID, e.S, e.et, len(e.proofs), false))
			} else if r.Chance(1, 6) {
				// the same node and session under the other evidence type as well
				id++
				et2 := pc.RelayEvidence
				if e.et == pc.RelayEvidence {
					et2 = pc.ChallengeEvidence
				}
				pool = append(pool, s.mkEvidence(id, e.node, e.app, e.chainID, e.S, et2, []int{5, 7, 9}[r.Intn(3)], false))
			}
		}
		for _, e := range pool {
			if e.gone || len(txs) >= 4 {
				continue
			}
			winOpen := H > e.S+s.B-1 && H <= e.S+s.W*s.B
			provable := H >= e.S+s.W*s.B
			switch {
			case !e.claimed && !e.overwritten && !e.tried && winOpen && r.Chance(3, 5):
				v := "ok"
				if r.Chance(1, 8) {
					v = []string{"wrongsigner", "badroot", "exp", "few"}[r.Intn(4)]
				}
				if v == "ok" {
					e.tried = true
				}
				txs = append(txs, s.claimTx(e, v, &pool))
				if v == "ok" && provable && r.Chance(1, 2) && len(txs) < 4 {
					// claim and proof in the same block (possible at the last height of the window)
					txs = append(txs, s.proofTx(e, "ok", s.requiredIndex(ctx, e, e.total)))
					if !e.chal && r.Chance(1, 2) && len(txs) < 3 {
						// ... and the same session claimed and proved once more in that block
						id++
						n2 := s.mkEvidenceSpelled(id, e.node, e.app, e.appText, e.chainID, e.S, e.et, []int{5, 6, 9}[r.Intn(3)], false)
						n2.tried = true
						pool = append(pool, n2)
						txs = append(txs, s.claimTx(n2, "ok", &pool), s.proofTx(n2, "ok", s.requiredIndex(ctx, n2, n2.total)))
					}
				}
			case !e.claimed && !e.overwritten && !winOpen && r.Chance(1, 6):
				txs = append(txs, s.claimTx(e, "ok", &pool)) // early or late
				if H > e.S+s.W*s.B {
					e.gone = r.Chance(1, 2)
				}
			case e.claimed && winOpen && r.Chance(1, 7):
				// a second claim under the same key with a different tree (overwrites the first)
				id++
				n2 := s.mkEvidenceSpelled(id, e.node, e.app, e.appText, e.chainID, e.S, e.et, []int{5, 6, 9, 17}[r.Intn(4)], false)
				n2.neverProv = r.Chance(1, 4)
				pool = append(pool, n2)
				txs = append(txs, s.claimTx(n2, "ok", &pool))
				n2.tried = true
			case e.claimed && !e.proved && provable && !e.neverProv && r.Chance(2, 3):
				v := "ok"
				if r.Chance(2, 5) {
					v = []string{"wrongidx", "wrongleaf", "mutsib", "mutrange", "mutindex", "levels", "mutleaf", "wronget", "wrongsigner"}[r.Intn(9)]
				}
				txs = append(txs, s.proofTx(e, v, s.requiredIndex(ctx, e, e.total)))
				if v == "ok" && r.Chance(1, 4) && len(txs) < 4 {
					// the same proof twice in one block: identical bytes or a re-signed copy
					txs = append(txs, s.proofTx(e, []string{"samebytes", "ok"}[r.Intn(2)], s.requiredIndex(ctx, e, e.total)))
				}
			case e.claimed && !provable && r.Chance(1, 8):
				txs = append(txs, s.proofTx(e, "ok", s.requiredIndex(ctx, e, e.total))) // too early
			case e.proved && r.Chance(1, 3):
				// proof again in a later block
				txs = append(txs, s.proofTx(e, []string{"samebytes", "ok", "ok"}[r.Intn(3)], s.requiredIndex(ctx, e, e.total)))
				if e.paid < 2 || r.Chance(1, 3) {
					e.gone = r.Chance(1, 2)
				}
			case e.overwritten && provable && r.Chance(1, 3):
				txs = append(txs, s.proofTx(e, "ok", s.requiredIndex(ctx, e, e.total))) // proof for the overwritten tree
				e.gone = r.Chance(1, 2)
			case e.claimed && e.neverProv && H >= e.claimH+s.E*s.B && r.Chance(1, 2):
				txs = append(txs, s.proofTx(e, "ok", s.requiredIndex(ctx, e, e.total))) // after expiry
				e.gone = true
			case !e.claimed && !e.overwritten && H > e.S+(s.W+1)*s.B && r.Chance(1, 10):
				txs = append(txs, s.proofTx(e, "ok", s.requiredIndex(ctx, e, e.total))) // never claimed
				e.gone = true
			}
			if H > e.S+(s.W+s.E+3)*s.B || e.attempts >= 4+e.paid {
				e.gone = true
			}
		}
		s.runBlock(tm, txs)
	}
}

// demo is a scripted history reproducing the findings on the unchanged tree (B=4, W=2, E=3):
// a node files the same relay-proof tree under evidence type 2 and a second tree under type 1
// (same session), proves the type-2 claim three times with re-signed copies of one MsgProof, and
// also gets a claim for the pseudo-session starting at height 6 accepted.
func (s *sim) demo() {
	tm := s.n.GenTime
	s.t.Line("init", false, "init B=%d W=%d E=%d => %s", s.B, s.W, s.E, s.dump(s.cur(0, nil, tm)))
	var pool []*evSet
	var node chain.Key
	var e2, e1, off *evSet
	step := func(txs ...txReq) {
		tm = tm.Add(time.Minute)
		s.runBlock(tm, txs)
	}
	for s.n.Height < 4 {
		step()
	}
	// pick a node that is in session (app a0, chain 0001, height 1): try all until a claim is accepted
	for _, k := range s.nodes {
		node = k
		e2 = s.mkEvidence(1, node, s.apps[0], chainOK, 1, pc.ChallengeEvidence, 5, false)
		pool = append(pool, e2)
		step(s.claimTx(e2, "ok", &pool))
		if e2.claimed {
			break
		}
	}
	e1 = s.mkEvidence(2, node, s.apps[0], chainOK, 1, pc.RelayEvidence, 7, false)
	pool = append(pool, e1)
	step(s.claimTx(e1, "ok", &pool))
	for s.n.Height < 8 {
		step()
	}
	for i := 0; i < 3; i++ {
		ctx := s.cur(s.n.Height+1, s.n.LastBlockID.Hash, tm.Add(time.Minute))
		step(s.proofTx(e2, "ok", s.requiredIndex(ctx, e2, e2.total)))
	}
	for _, k := range s.nodes {
		off = s.mkEvidence(3, k, s.apps[0], chainOK, 6, pc.RelayEvidence, 5, false)
		pool = append(pool, off)
		step(s.claimTx(off, "ok", &pool))
		if off.claimed {
			break
		}
	}
	// window edge (see C31): at height S + W*B a claim is still accepted and a proof is already
	// possible, so claim / proof / claim / proof for ONE session fit into one block
	var edge *chain.Key
	for i := range s.nodes {
		if s.n.Height+1 > 16 {
			break
		}
		for s.n.Height+1 < 13 {
			step()
		}
		sc := s.mkEvidence(10+i, s.nodes[i], s.apps[0], chainOK, 9, pc.RelayEvidence, 5, false)
		pool = append(pool, sc)
		step(s.claimTx(sc, "ok", &pool))
		if sc.claimed {
			edge = &s.nodes[i]
			break
		}
	}
	for s.n.Height < 16 {
		step()
	}
	if edge != nil {
		a := s.mkEvidence(4, *edge, s.apps[0], chainOK, 9, pc.RelayEvidence, 5, false)
		b := s.mkEvidence(5, *edge, s.apps[0], chainOK, 9, pc.RelayEvidence, 6, false)
		pool = append(pool, a, b)
		ctx := s.cur(s.n.Height+1, s.n.LastBlockID.Hash, tm.Add(time.Minute))
		step(s.claimTx(a, "ok", &pool), s.proofTx(a, "ok", s.requiredIndex(ctx, a, a.total)),
			s.claimTx(b, "ok", &pool), s.proofTx(b, "ok", s.requiredIndex(ctx, b, b.total)))
	}
}
