// c08: histories on a real rootmulti.Store, then for EVERY rollback target below the latest height:
// copy the DB, RollbackVersion(h) on a fresh store object, reopen, load every version (≤ h must be
// unchanged, > h must fail), replay the same blocks and compare the commit ids with the originals.
// All atomic DB writes (commits and rollbacks) are recorded.  Trace consumed by lean/Driver/C08.lean.
package main

import (
	"flag"
	"fmt"
	"strings"

	"github.com/pokt-network/pocket-core/store/rootmulti"
	dbm "github.com/tendermint/tm-db"

	"verifharness/internal/faultdb"
	"verifharness/internal/gen"
	"verifharness/internal/msdrive"
)

func commitLine(t *gen.Trace, db *faultdb.DB, ms *msdrive.MS, bi int, o msdrive.Oracle) {
	db.Start()
	id := ms.Store.Commit()
	evs := db.Stop()
	t.Line("commit", true, "commit %d => %s %s", bi, msdrive.CID(id), msdrive.RenderEvents(evs))
	msdrive.StoreStates(t, "state", fmt.Sprint(id.Version), ms, o)
}

func main() {
	seed := flag.Uint64("seed", 1, "")
	n := flag.Int("n", 8, "number of histories")
	out := flag.String("out", "c08.trace", "")
	flag.Parse()
	r := gen.New(*seed)
	t := gen.NewTrace(*out)
	rollbacks := 0
	for h := 0; h < *n; h++ {
		ps := msdrive.PickNames(r, 1+r.Intn(3))
		space := 4 + r.Intn(10)
		maxw := 7
		if r.Chance(1, 4) {
			space, maxw = 30+r.Intn(40), 20
		}
		nb := 2 + r.Intn(5)
		blocks := msdrive.GenBlocks(r, ps, nb, space, maxw)
		// substores that hold NO key at the tip: one that is never written and/or one that is drained
		// (every key it ever received is deleted again in a block before the tip)
		if len(ps) >= 2 && r.Chance(2, 3) {
			never := ps[r.Intn(len(ps))]
			for i := range blocks {
				var keep []msdrive.Write
				for _, w := range blocks[i] {
					if w.Store != never {
						keep = append(keep, w)
					}
				}
				blocks[i] = keep
			}
		}
		if r.Chance(2, 3) {
			drained := ps[r.Intn(len(ps))]
			at := r.Intn(nb) // block in which the store is emptied; later blocks do not touch it
			seen := map[string]bool{}
			for i := 0; i < nb; i++ {
				var keep []msdrive.Write
				for _, w := range blocks[i] {
					if w.Store == drained {
						if i > at {
							continue
						}
						seen[string(w.K)] = true
					}
					keep = append(keep, w)
				}
				blocks[i] = keep
			}
			for k := range seen {
				blocks[at] = append(blocks[at], msdrive.Write{Store: drained, Del: true, K: []byte(k)})
			}
		}
		spec := msdrive.Spec{Persistent: ps}
		t.Line("hist", false, "hist %d %s", h, strings.Join(ps, ","))
		func() {
			defer func() {
				if e := recover(); e != nil {
					t.Line("panic", false, "panic main => %s", msdrive.ErrStr(e))
				}
			}()
			inner := dbm.NewMemDB()
			db := faultdb.Wrap(inner)
			ms, err := msdrive.Open(db, spec, int64(1+r.Intn(30)))
			if err != nil {
				panic(err)
			}
			t.Line("open", false, "open => %s", msdrive.CID(ms.Store.LastCommitID()))
			o := msdrive.NewOracle(ps)
			snaps := []msdrive.Oracle{o.Clone()}
			for bi, b := range blocks {
				ms.ApplyWritesRoute(b, msdrive.RouteOf(bi, b))
				o.Apply(b)
				commitLine(t, db, ms, bi, o)
				snaps = append(snaps, o.Clone())
			}
			t.Line("base", false, "base => ok")
			latest := int64(nb)
			// every target below latest, plus the two illegal ones (latest, latest+1)
			for target := int64(1); target <= latest+1; target++ {
				func() {
					defer func() {
						if e := recover(); e != nil {
							t.Line("panic", false, "panic rollback%d => %s", target, msdrive.ErrStr(e))
						}
					}()
					cp := faultdb.Wrap(msdrive.CopyMemDB(inner))
					t.Line("target", false, "target %d => ok", target)
					fresh := msdrive.New(cp, spec, int64(1+r.Intn(30)))
					cp.Start()
					var rerr error
					func() {
						defer func() {
							if e := recover(); e != nil {
								rerr = fmt.Errorf("PANIC %v", e)
							}
						}()
						rerr = fresh.Store.RollbackVersion(target)
					}()
					evs := cp.Stop()
					rollbacks++
					if rerr != nil {
						// the writes that reached the DB before the failure are reported too; the reload below still runs
						t.Line("rollback", true, "rollback %d => ERR %s %s", target, msdrive.ErrStr(rerr), msdrive.RenderEvents(evs))
						if target >= latest {
							return
						}
					} else {
						t.Line("rollback", true, "rollback %d => OK %s", target, msdrive.RenderEvents(evs))
					}
					ms2, err := msdrive.Open(cp, spec, int64(1+r.Intn(30)))
					if err != nil {
						t.Line("reopen", true, "reopen latest => ERR %s", msdrive.ErrStr(err))
						return
					}
					t.Line("reopen", true, "reopen latest => %s", msdrive.CID(ms2.Store.LastCommitID()))
					msdrive.StoreStates(t, "rstate", "latest", ms2, nil)
					for v := int64(1); v <= latest; v++ {
						func() {
							defer func() {
								if e := recover(); e != nil {
									t.Line("reopen", true, "reopen %d => PANIC %s", v, msdrive.ErrStr(e))
								}
							}()
							m3, err := msdrive.OpenAt(cp, spec, int64(1+r.Intn(30)), v)
							if err != nil {
								t.Line("reopen", true, "reopen %d => ERR %s", v, msdrive.ErrStr(err))
								return
							}
							t.Line("reopen", true, "reopen %d => %s", v, msdrive.CID(m3.Store.LastCommitID()))
							msdrive.StoreStates(t, "rstate", fmt.Sprint(v), m3, nil)
						}()
						func() {
							defer func() {
								if e := recover(); e != nil {
									t.Line("lazy", true, "lazy %d => PANIC %s", v, msdrive.ErrStr(e))
								}
							}()
							lz, err := ms2.Store.LoadLazyVersion(v)
							if err != nil {
								t.Line("lazy", true, "lazy %d => ERR %s", v, msdrive.ErrStr(err))
								return
							}
							rs := (*lz).(*rootmulti.Store)
							var parts []string
							for _, p := range ps {
								parts = append(parts, p+"="+msdrive.DumpKV(rs.GetKVStore(ms2.Keys[p])))
							}
							t.Line("lazy", true, "lazy %d => %s", v, strings.Join(parts, " "))
						}()
					}
					// replay the same blocks on the reopened store
					o2 := snaps[target].Clone()
					for bi := int(target); bi < nb; bi++ {
						ms2.ApplyWritesRoute(blocks[bi], msdrive.RouteOf(bi, blocks[bi]))
						o2.Apply(blocks[bi])
						commitLine(t, cp, ms2, bi, o2)
					}
				}()
			}
		}()
	}
	t.Close(map[string]interface{}{"histories": *n, "rollbacks": rollbacks})
}
