// facts12: E-FACTS extractor for C12/C13 (stdlib only: go/parser, go/ast, go/types with the "source"
// importer).  For the packages on the consensus path of /repo it lists, canonically,
//
//	range-map   every `range` over an expression of map type
//	wall-clock  every read of / wait on the local clock: time.Now, Since, Until, After, Tick, NewTimer,
//	            NewTicker, AfterFunc, Sleep
//	go-stmt     every `go` statement
//	rand        every use of math/rand or crypto/rand
//	select      every `select` statement
//	new-context every call of sdk.NewContext / types.NewContext           (C13: which context an entry point builds)
//	set-prev    every call of .SetPrevCtx(...)                            (C13)
//
// one JSON object per line: {"pkg","file","func","kind","expr","n"} where n numbers equal
// (file, func, kind, expr) tuples in source order.  Line numbers are deliberately not part of a
// fact: a site that moves to another function, or a new site, changes the list; reformatting does not.
// When type-checking of a package fails the tool falls back to a syntactic classification of the
// ranged expression (map-typed locals/params/fields/results declared in the same package) and says so
// on stderr and in the "mode" field of the header line.
package main

import (
	"encoding/json"
	"flag"
	"fmt"
	"go/ast"
	"go/build"
	"go/importer"
	"go/parser"
	"go/printer"
	"go/token"
	"go/types"
	"os"
	"path/filepath"
	"sort"
	"strings"
)

type Fact struct {
	Pkg  string `json:"pkg"`
	File string `json:"file"`
	Func string `json:"func"`
	Kind string `json:"kind"`
	Expr string `json:"expr"`
	N    int    `json:"n"`
	// Sorted (range-map only): the enclosing function calls sort.* / sortkeys.* after the range
	// statement starts — the syntactic footprint of "keys are collected, then sorted before use".
	Sorted bool `json:"sorted"`
}

// sortsAfter reports whether body contains a call into package sort (or gogoproto sortkeys) at or
// after pos.
func sortsAfter(body *ast.BlockStmt, pos token.Pos) bool {
	found := false
	ast.Inspect(body, func(n ast.Node) bool {
		if ce, ok := n.(*ast.CallExpr); ok && ce.Pos() >= pos {
			if se, ok := ce.Fun.(*ast.SelectorExpr); ok {
				if id, ok := se.X.(*ast.Ident); ok && (id.Name == "sort" || strings.HasSuffix(id.Name, "sortkeys")) {
					found = true
				}
			}
		}
		return !found
	})
	return found
}

// wallClock: the functions of package time that read or wait on the local clock (everything that
// is not a pure constructor / conversion such as time.Unix, time.Date, time.Duration, time.Parse).
var wallClock = map[string]bool{"Now": true, "Since": true, "Until": true, "After": true, "Tick": true,
	"NewTimer": true, "NewTicker": true, "AfterFunc": true, "Sleep": true}

func exprString(fset *token.FileSet, e ast.Node) string {
	var sb strings.Builder
	printer.Fprint(&sb, fset, e)
	s := strings.Join(strings.Fields(sb.String()), " ")
	if len(s) > 80 {
		s = s[:80]
	}
	return s
}

func funcName(fd *ast.FuncDecl) string {
	if fd.Recv != nil && len(fd.Recv.List) > 0 {
		t := fd.Recv.List[0].Type
		if st, ok := t.(*ast.StarExpr); ok {
			t = st.X
		}
		if id, ok := t.(*ast.Ident); ok {
			return id.Name + "." + fd.Name.Name
		}
	}
	return fd.Name.Name
}

// consensusDirs lists the package directories (relative to the repo root) on the consensus path.
func consensusDirs(root string) []string {
	var dirs []string
	add := func(rel string) {
		filepath.Walk(filepath.Join(root, rel), func(p string, info os.FileInfo, err error) error {
			if err != nil || !info.IsDir() {
				return nil
			}
			r, _ := filepath.Rel(root, p)
			base := filepath.Base(p)
			if base == "cli" || base == "rest" || base == "client" || base == "testdata" || base == "simulation" || strings.HasPrefix(base, ".") {
				return filepath.SkipDir
			}
			ms, _ := filepath.Glob(filepath.Join(p, "*.go"))
			for _, m := range ms {
				if !strings.HasSuffix(m, "_test.go") {
					dirs = append(dirs, r)
					break
				}
			}
			return nil
		})
	}
	for _, d := range []string{"baseapp", "types", "store", "x", "codec"} {
		add(d)
	}
	sort.Strings(dirs)
	return dirs
}

func main() {
	root := flag.String("repo", "/repo", "repository root")
	noTypes := flag.Bool("syntactic", false, "skip go/types (syntactic classification only)")
	flag.Parse()
	build.Default.Dir = *root
	os.Chdir(*root)
	fset := token.NewFileSet()
	var imp types.Importer
	if !*noTypes {
		imp = importer.ForCompiler(fset, "source", nil)
	}
	var facts []Fact
	mode := "types"
	if imp == nil {
		mode = "syntactic"
	}
	dirs := consensusDirs(*root)
	parsed := map[string]map[string]*ast.Package{}
	var allFiles []*ast.File
	for _, dir := range dirs {
		pkgs, err := parser.ParseDir(fset, filepath.Join(*root, dir), func(fi os.FileInfo) bool {
			return !strings.HasSuffix(fi.Name(), "_test.go") && !strings.HasSuffix(fi.Name(), "_verif.go")
		}, 0)
		if err != nil {
			fmt.Fprintln(os.Stderr, "parse", dir, err)
			os.Exit(2)
		}
		parsed[dir] = pkgs
		for _, pkg := range pkgs {
			for _, f := range pkg.Files {
				allFiles = append(allFiles, f)
			}
		}
	}
	// one symbol table for the whole repository (names only: an over-approximation across packages)
	syn := newSyntactic(allFiles)
	for _, dir := range dirs {
		pkgNames := make([]string, 0)
		for n := range parsed[dir] {
			pkgNames = append(pkgNames, n)
		}
		sort.Strings(pkgNames)
		for _, pn := range pkgNames {
			pkg := parsed[dir][pn]
			var files []*ast.File
			var names []string
			for n := range pkg.Files {
				names = append(names, n)
			}
			sort.Strings(names)
			for _, n := range names {
				files = append(files, pkg.Files[n])
			}
			info := &types.Info{Types: map[ast.Expr]types.TypeAndValue{}, Uses: map[*ast.Ident]types.Object{}}
			typed := false
			if imp != nil {
				conf := types.Config{Importer: imp, Error: func(error) {}}
				_, _ = conf.Check("github.com/pokt-network/pocket-core/"+dir, fset, files, info)
				typed = len(info.Types) > 0
			}
			for i, f := range files {
				rel, _ := filepath.Rel(*root, names[i])
				for _, d := range f.Decls {
					fd, ok := d.(*ast.FuncDecl)
					if !ok || fd.Body == nil {
						continue
					}
					fn := funcName(fd)
					locals := syn.localMaps(fd)
					ast.Inspect(fd.Body, func(n ast.Node) bool {
						switch x := n.(type) {
						case *ast.RangeStmt:
							isMap, known := false, false
							if typed {
								if tv, ok := info.Types[x.X]; ok && tv.Type != nil {
									known = true
									_, isMap = tv.Type.Underlying().(*types.Map)
								}
							}
							if !known {
								if mode == "types" {
									mode = "mixed"
								}
								isMap = syn.isMapExpr(x.X, locals)
							}
							if isMap {
								facts = append(facts, Fact{Pkg: dir, File: rel, Func: fn, Kind: "range-map", Expr: exprString(fset, x.X), Sorted: sortsAfter(fd.Body, x.Pos())})
							}
						case *ast.GoStmt:
							facts = append(facts, Fact{Pkg: dir, File: rel, Func: fn, Kind: "go-stmt", Expr: exprString(fset, x.Call.Fun)})
						case *ast.SelectStmt:
							facts = append(facts, Fact{Pkg: dir, File: rel, Func: fn, Kind: "select", Expr: "select"})
						case *ast.CallExpr:
							if se, ok := x.Fun.(*ast.SelectorExpr); ok {
								if id, ok := se.X.(*ast.Ident); ok {
									switch {
									case id.Name == "time" && wallClock[se.Sel.Name]:
										facts = append(facts, Fact{Pkg: dir, File: rel, Func: fn, Kind: "wall-clock", Expr: "time." + se.Sel.Name})
									case (id.Name == "sdk" || id.Name == "types") && se.Sel.Name == "NewContext":
										facts = append(facts, Fact{Pkg: dir, File: rel, Func: fn, Kind: "new-context", Expr: id.Name + ".NewContext"})
									}
								}
								if se.Sel.Name == "SetPrevCtx" {
									facts = append(facts, Fact{Pkg: dir, File: rel, Func: fn, Kind: "set-prev", Expr: exprString(fset, x.Args[0])})
								}
							}
							if id, ok := x.Fun.(*ast.Ident); ok && id.Name == "NewContext" && dir == "types" {
								facts = append(facts, Fact{Pkg: dir, File: rel, Func: fn, Kind: "new-context", Expr: "NewContext"})
							}
						case *ast.SelectorExpr:
							if id, ok := x.X.(*ast.Ident); ok && id.Name == "rand" {
								facts = append(facts, Fact{Pkg: dir, File: rel, Func: fn, Kind: "rand", Expr: "rand." + x.Sel.Name})
							}
						}
						return true
					})
				}
			}
		}
	}
	sort.SliceStable(facts, func(i, j int) bool {
		a, b := facts[i], facts[j]
		if a.File != b.File {
			return a.File < b.File
		}
		if a.Func != b.Func {
			return a.Func < b.Func
		}
		if a.Kind != b.Kind {
			return a.Kind < b.Kind
		}
		return a.Expr < b.Expr
	})
	cnt := map[string]int{}
	fmt.Printf("{\"mode\":%q,\"facts\":%d}\n", mode, len(facts))
	for _, f := range facts {
		k := f.File + "|" + f.Func + "|" + f.Kind + "|" + f.Expr
		cnt[k]++
		f.N = cnt[k]
		b, _ := json.Marshal(f)
		fmt.Println(string(b))
	}
}

// ---- syntactic fallback ----

type syntactic struct {
	mapFields  map[string]bool // struct field names declared with a map type in this package
	mapFuncs   map[string]bool // functions/methods of this package whose first result is a map
	mapGlobals map[string]bool
	mapTypes   map[string]bool // named types whose underlying type is a map
}

func newSyntactic(files []*ast.File) *syntactic {
	s := &syntactic{map[string]bool{}, map[string]bool{}, map[string]bool{}, map[string]bool{}}
	for _, f := range files {
		for _, d := range f.Decls {
			if gd, ok := d.(*ast.GenDecl); ok {
				for _, sp := range gd.Specs {
					if ts, ok := sp.(*ast.TypeSpec); ok {
						if _, ok := ts.Type.(*ast.MapType); ok {
							s.mapTypes[ts.Name.Name] = true
						}
					}
				}
			}
		}
	}
	for _, f := range files {
		for _, d := range f.Decls {
			switch x := d.(type) {
			case *ast.GenDecl:
				for _, sp := range x.Specs {
					switch t := sp.(type) {
					case *ast.TypeSpec:
						if st, ok := t.Type.(*ast.StructType); ok {
							for _, fl := range st.Fields.List {
								if s.isMapType(fl.Type) {
									for _, n := range fl.Names {
										s.mapFields[n.Name] = true
									}
								}
							}
						}
					case *ast.ValueSpec:
						if t.Type != nil && s.isMapType(t.Type) {
							for _, n := range t.Names {
								s.mapGlobals[n.Name] = true
							}
						}
						for i, v := range t.Values {
							if s.isMapValue(v) && i < len(t.Names) {
								s.mapGlobals[t.Names[i].Name] = true
							}
						}
					}
				}
			case *ast.FuncDecl:
				if x.Type.Results != nil && len(x.Type.Results.List) > 0 && s.isMapType(x.Type.Results.List[0].Type) {
					s.mapFuncs[x.Name.Name] = true
				}
			}
		}
	}
	return s
}

func (s *syntactic) isMapType(t ast.Expr) bool {
	switch x := t.(type) {
	case *ast.MapType:
		return true
	case *ast.Ident:
		return s.mapTypes[x.Name]
	case *ast.SelectorExpr:
		return s.mapTypes[x.Sel.Name]
	case *ast.StarExpr:
		return s.isMapType(x.X)
	}
	return false
}

func (s *syntactic) isMapValue(v ast.Expr) bool {
	switch x := v.(type) {
	case *ast.CompositeLit:
		return x.Type != nil && s.isMapType(x.Type)
	case *ast.CallExpr:
		if id, ok := x.Fun.(*ast.Ident); ok && id.Name == "make" && len(x.Args) > 0 {
			return s.isMapType(x.Args[0])
		}
		if id, ok := x.Fun.(*ast.Ident); ok {
			return s.mapFuncs[id.Name]
		}
		if se, ok := x.Fun.(*ast.SelectorExpr); ok {
			return s.mapFuncs[se.Sel.Name]
		}
	}
	return false
}

func (s *syntactic) localMaps(fd *ast.FuncDecl) map[string]bool {
	m := map[string]bool{}
	if fd.Recv != nil {
		for _, p := range fd.Recv.List {
			if s.isMapType(p.Type) {
				for _, n := range p.Names {
					m[n.Name] = true
				}
			}
		}
	}
	if fd.Type.Params != nil {
		for _, p := range fd.Type.Params.List {
			if s.isMapType(p.Type) {
				for _, n := range p.Names {
					m[n.Name] = true
				}
			}
		}
	}
	ast.Inspect(fd.Body, func(n ast.Node) bool {
		switch x := n.(type) {
		case *ast.AssignStmt:
			for i, r := range x.Rhs {
				if s.isMapValue(r) && i < len(x.Lhs) {
					if id, ok := x.Lhs[i].(*ast.Ident); ok {
						m[id.Name] = true
					}
				}
			}
		case *ast.DeclStmt:
			if gd, ok := x.Decl.(*ast.GenDecl); ok {
				for _, sp := range gd.Specs {
					if vs, ok := sp.(*ast.ValueSpec); ok {
						if vs.Type != nil && s.isMapType(vs.Type) {
							for _, n := range vs.Names {
								m[n.Name] = true
							}
						}
						for i, v := range vs.Values {
							if s.isMapValue(v) && i < len(vs.Names) {
								m[vs.Names[i].Name] = true
							}
						}
					}
				}
			}
		}
		return true
	})
	return m
}

func (s *syntactic) isMapExpr(e ast.Expr, locals map[string]bool) bool {
	switch x := e.(type) {
	case *ast.Ident:
		return locals[x.Name] || s.mapGlobals[x.Name]
	case *ast.SelectorExpr:
		return s.mapFields[x.Sel.Name] || s.mapGlobals[x.Sel.Name]
	case *ast.CallExpr, *ast.CompositeLit:
		return s.isMapValue(e)
	case *ast.ParenExpr:
		return s.isMapExpr(x.X, locals)
	}
	return false
}
