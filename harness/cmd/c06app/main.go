// c06app: C06 at application level.  A real PocketCoreApp is driven through ABCI (no Tendermint) on generated
// block histories.  Between the Commit of one block and the BeginBlock of the next, off-chain traffic is
// issued: Query app/simulate and CheckTx of transactions whose handlers write a TRANSIENT substore (gov
// parameter changes mark "modified" in the transient params store), plus ordinary ones.  Before every
// BeginBlock every transient substore of the root multistore is read back (must be empty), and the app hashes
// are compared with a twin run of the same blocks without any off-chain traffic.
// Trace consumed by lean/Driver/C06app.lean.
package main

import (
	"flag"
	"fmt"
	"strings"

	abci "github.com/tendermint/tendermint/abci/types"
	dbm "github.com/tendermint/tm-db"

	"verifharness/internal/chain"
	"verifharness/internal/gen"
)

const chainID = "verif-c06"

func boot() (*chain.Node, *chain.World) {
	chain.ModernGlobals()
	w, o := chain.DefaultWorld(chainID, 3, 2, 2, 4)
	g := chain.BuildGenesis(o)
	n := chain.NewNode(g, chainID, o.GenesisTime, dbm.NewMemDB(), dbm.NewMemDB(), dbm.NewMemDB(), false)
	n.InitChain()
	return n, w
}

// transientDump: "name:count,…" over all transient substores of the root multistore, sorted by name.
func transientDump(n *chain.Node) (string, int) {
	var parts []string
	total := 0
	for _, name := range chain.SortedKeys(n.App.Tkeys) {
		kv := n.App.Store().GetKVStore(n.App.Tkeys[name])
		it, err := kv.Iterator(nil, nil)
		c := 0
		if err == nil {
			for ; it.Valid(); it.Next() {
				c++
			}
			it.Close()
		}
		total += c
		parts = append(parts, fmt.Sprintf("%s:%d", name, c))
	}
	return strings.Join(parts, ","), total
}

func simulate(n *chain.Node, bz []byte) string {
	defer func() { recover() }()
	res := n.App.Query(abci.RequestQuery{Path: "app/simulate", Data: bz, Height: n.Height})
	return fmt.Sprint(res.Code)
}

type paramChange struct {
	key string
	val interface{}
}

var params = []paramChange{
	{"pos/MaxValidators", int64(4)}, {"pos/MaxValidators", int64(7)}, {"application/MaxApplications", int64(3)},
	{"pos/DowntimeJailDuration", int64(3600000000000)}, {"pocketcore/ClaimExpiration", int64(30)},
	{"application/BaseRelaysPerPOKT", int64(150)}, {"pos/MinSignedPerWindow", "0.500000000000000000"},
}

func main() {
	seed := flag.Uint64("seed", 1, "")
	nblocks := flag.Int("n", 14, "blocks per run")
	out := flag.String("out", "c06app.trace", "")
	flag.Parse()
	t := gen.NewTrace(*out)
	sims, simOK := 0, 0
	hashes := map[int][]string{}
	for run := 0; run < 2; run++ { // run 0: with off-chain traffic; run 1: the twin without
		func() {
			defer func() {
				if e := recover(); e != nil {
					t.Line("panic", false, "panic %d => %s", run, strings.ReplaceAll(fmt.Sprint(e), " ", "_"))
				}
			}()
			n, w := boot()
			rb := gen.New(*seed)          // block generator (same in both runs)
			ra := gen.New(*seed*31 + 977) // off-chain traffic
			ent := int64(700000000)
			prev := n.GenTime
			for b := 0; b < *nblocks; b++ {
				// what the block starts with
				d, _ := transientDump(n)
				if n.Height == 0 {
					// after InitChain (no Commit yet) the genesis parameter writes are still marked: not a block boundary
					t.Line("tinit", false, "tinit %d => %s", run, d)
				} else {
					t.Line("tstart", true, "tstart %d %d => %s", run, n.Height+1, d)
				}
				blk, _ := w.GenBlock(rb, prev, n.Height+1, 4)
				prev = blk.Time
				res := n.RunBlock(blk)
				t.Line("commit", true, "commit %d %d => %d %s", run, b, n.App.LastBlockHeight(), chain.Hex(res.AppHash))
				hashes[b] = append(hashes[b], chain.Hex(res.AppHash))
				if run == 1 || n.Height < chain.FirstModernHeight {
					continue
				}
				// between Commit and the next BeginBlock
				for k := ra.Intn(4); k > 0; k-- {
					ent++
					var bz []byte
					desc := ""
					switch ra.Intn(5) {
					case 0, 1, 2:
						p := params[ra.Intn(len(params))]
						bz = chain.SignTx(chainID, w.Owner, chain.MsgChangeParam(w.Owner.Addr, p.key, p.val), chain.DefaultFee, ent, "")
						desc = "param:" + p.key
					case 3:
						bz = chain.SignTx(chainID, w.Accts[0], chain.MsgSend(w.Accts[0].Addr, w.Accts[1].Addr, int64(1+ra.Intn(50))), chain.DefaultFee, ent, "")
						desc = "send"
					default:
						bz = chain.SignTx(chainID, w.Owner, chain.MsgDAO(w.Owner.Addr, w.Accts[2].Addr, 1, false), chain.DefaultFee, ent, "")
						desc = "dao"
					}
					if ra.Chance(2, 3) {
						code := simulate(n, bz)
						sims++
						if code == "0" {
							simOK++
						}
						t.Line("sim", true, "sim %d %d %s => %s", run, n.Height, desc, code)
					} else {
						r := n.App.CheckTx(abci.RequestCheckTx{Tx: bz})
						t.Line("check", true, "check %d %d %s => %d", run, n.Height, desc, r.Code)
					}
				}
			}
			d, _ := transientDump(n)
			t.Line("tstart", true, "tstart %d %d => %s", run, n.Height+1, d)
		}()
	}
	for b := 0; b < *nblocks; b++ {
		hs := hashes[b]
		for len(hs) < 2 {
			hs = append(hs, "MISSING")
		}
		t.Line("apphash", true, "apphash %d => %s %s", b+1, hs[0], hs[1])
	}
	t.Close(map[string]interface{}{"blocks": *nblocks, "simulations": sims, "simulations_ok": simOK})
}
