// c27: drives the real BigDec.ApproxRoot / FracPow and the real x/nodes keeper
// (CalculateRelayReward -> calculateRewardRewardPip22, BurnForChallenge) and writes the trace consumed
// by lean/Driver/C27.lean.  Every call runs under recover() and a wall-clock timeout (termination).
//
// Lines (all numbers decimal; decimals are raw 10^18-scaled integers):
//
//	root D R            => V | ERR | TIMEOUT          BigDec{D}.ApproxRoot(R)
//	fp D E              => V | PANIC | TIMEOUT        BigDec{D}.FracPow(BigDec{E}, 100)
//	fprow B             => v0 … v100                  NewDec(B).FracPow(k/100, 100) for k = 0..100
//	rew F C W E M R S1 S2 => c1 c2                    coins (node+fees) of CalculateRelayReward at stakes S1 ≤ S2
//	rewr F C W E M R1 R2 S => c1 c2                   same, relay counts R1 ≤ R2
//	burn F C W E M CH S1 S2 => b1 b2                  tokens removed by BurnForChallenge at stakes S1 ≤ S2
package main

import (
	"flag"
	"fmt"
	"math/big"
	"runtime"
	"strings"
	"time"

	"github.com/pokt-network/pocket-core/codec"
	"github.com/pokt-network/pocket-core/crypto"
	sdk "github.com/pokt-network/pocket-core/types"
	"github.com/pokt-network/pocket-core/x/nodes/types"
	"verifharness/internal/gen"
	"verifharness/internal/poskeeper"
)

var (
	timeout  = 20 * time.Second
	timeouts = 0
	maxTimeouts = 3
	stop     = false
	trace    *gen.Trace
	env      *poskeeper.Env
	P        = new(big.Int).Exp(big.NewInt(10), big.NewInt(18), nil)
)

// call runs f under recover() with a wall-clock limit.
func call(f func() string) string {
	ch := make(chan string, 1)
	go func() {
		defer func() {
			if r := recover(); r != nil {
				ch <- "PANIC"
			}
		}()
		ch <- f()
	}()
	select {
	case s := <-ch:
		return s
	case <-time.After(timeout):
		timeouts++
		env = nil // the stuck goroutine may still hold the keeper
		if timeouts >= maxTimeouts && trace != nil {
			// enough evidence of non-termination: stop here instead of leaking more spinning goroutines
			trace.Line("timeout", false, "# stopped after %d timeouts", timeouts)
			stop = true
		}
		return "TIMEOUT"
	}
}

func dec(raw *big.Int) sdk.BigDec { return sdk.NewDecFromBigIntWithPrec(new(big.Int).Set(raw), 18) }
func raw(d sdk.BigDec) string      { return d.BigInt().String() }

func doRoot(d *big.Int, root uint64) string {
	return call(func() string {
		g, err := dec(d).ApproxRoot(root)
		if err != nil {
			return "ERR"
		}
		return raw(g)
	})
}

func doFracPow(d, e *big.Int) string {
	return call(func() string { return raw(dec(d).FracPow(dec(e), 100)) })
}

type params struct {
	floor, ceiling int64
	wm, exp        *big.Int
	mult           int64
}

func (p params) String() string {
	return fmt.Sprintf("%d %d %s %s %d", p.floor, p.ceiling, p.wm, p.exp, p.mult)
}

func getEnv() *poskeeper.Env {
	if env == nil {
		env = poskeeper.New()
		env.Ctx = env.Ctx.WithBlockHeight(10)
		// staked pool needs coins for burnStakedTokens
		pool := sdk.NewCoins(sdk.NewCoin(sdk.DefaultStakeDenom, sdk.NewIntFromBigInt(new(big.Int).Lsh(big.NewInt(1), 200))))
		if err := env.AK.MintCoins(env.Ctx, types.StakedPoolName, pool); err != nil {
			panic(err)
		}
	}
	return env
}

func setParams(e *poskeeper.Env, p params) {
	np := e.K.GetParams(e.Ctx)
	np.ServicerStakeFloorMultiplier = p.floor
	np.ServicerStakeWeightCeiling = p.ceiling
	np.ServicerStakeWeightMultiplier = dec(p.wm)
	np.ServicerStakeFloorMultiplierExponent = dec(p.exp)
	np.RelaysToTokensMultiplier = p.mult
	np.StakeMinimum = 0 // BurnForChallenge: never force-unstake, so the burned amount stays observable
	e.K.SetParams(e.Ctx, np)
}

// reward = nodeReward + feesCollected of the exported CalculateRelayReward (RSCAL active), which is
// exactly the value returned by the unexported calculateRewardRewardPip22 (splitRewards subtracts).
func doReward(p params, relays, stake *big.Int) string {
	return call(func() string {
		e := getEnv()
		setParams(e, p)
		node, fees := e.K.CalculateRelayReward(e.Ctx, "", sdk.NewIntFromBigInt(new(big.Int).Set(relays)), sdk.NewIntFromBigInt(new(big.Int).Set(stake)))
		return node.Add(fees).String()
	})
}

var burnSeq = 0

// burn: fresh staked validator with `stake` tokens, BurnForChallenge, report tokens removed.
func doBurn(p params, challenges, stake *big.Int) string {
	return call(func() string {
		e := getEnv()
		setParams(e, p)
		burnSeq++
		var pub crypto.Ed25519PublicKey
		copy(pub[:], []byte(fmt.Sprintf("burn-validator-%020d", burnSeq)))
		v := poskeeper.Validator(pub, sdk.NewIntFromBigInt(new(big.Int).Set(stake)), nil, nil)
		e.K.SetValidator(e.Ctx, v)
		e.K.BurnForChallenge(e.Ctx, sdk.NewIntFromBigInt(new(big.Int).Set(challenges)), v.Address)
		after, found := e.K.GetValidator(e.Ctx, v.Address)
		if !found {
			return "GONE"
		}
		return stake.String() + "-" + after.StakedTokens.String()
	})
}

func burnDelta(s string) string {
	if i := strings.Index(s, "-"); i > 0 {
		a, _ := new(big.Int).SetString(s[:i], 10)
		b, _ := new(big.Int).SetString(s[i+1:], 10)
		return new(big.Int).Sub(a, b).String()
	}
	return s
}

func bi(x int64) *big.Int { return big.NewInt(x) }

func mulP(x int64, num, den int64) *big.Int {
	r := new(big.Int).Mul(big.NewInt(x), P)
	r.Mul(r, big.NewInt(num))
	return r.Quo(r, big.NewInt(den))
}

func expRaw(k int64) *big.Int { return mulP(k, 1, 100) }

func genParams(r *gen.R) (params, int64) {
	floors := []int64{1, 2, 3, 7, 15, 1000, 15000000000, 15000000000, int64(1 + r.Intn(50))}
	floor := floors[r.Intn(len(floors))]
	var maxBin int64
	switch r.Intn(12) {
	case 0:
		maxBin = 1
	case 1, 2, 3:
		maxBin = 4
	case 4:
		maxBin = int64(1 + r.Intn(20))
	case 5:
		maxBin = int64(1 + r.Intn(496))
	case 6:
		maxBin = []int64{495, 496, 497, 498, 499, 500, 501}[r.Intn(7)]
	case 7:
		maxBin = int64(497 + r.Intn(1504))
	default:
		maxBin = int64(1 + r.Intn(60))
	}
	ceiling := floor * maxBin
	if floor > 1 && r.Chance(1, 3) {
		ceiling += int64(r.Intn(int(min64(floor, 1<<30))))
	}
	wms := []*big.Int{mulP(1, 1, 1), mulP(1, 1, 1), mulP(1, 1, 2), mulP(2, 1, 1), mulP(3, 1, 2), mulP(1, 1, 100), mulP(7, 1, 3), big.NewInt(1), mulP(1000, 1, 1)}
	wm := wms[r.Intn(len(wms))]
	var k int64
	switch r.Intn(8) {
	case 0, 1, 2:
		k = 100
	case 3:
		k = 50
	case 4:
		k = []int64{0, 1, 99, 2, 98}[r.Intn(5)]
	default:
		k = int64(r.Intn(101))
	}
	mults := []int64{1, 1000, 10000, int64(1 + r.Intn(1000000)), 0}
	return params{floor: floor, ceiling: ceiling, wm: wm, exp: expRaw(k), mult: mults[r.Intn(len(mults))]}, k
}

func min64(a, b int64) int64 {
	if a < b {
		return a
	}
	return b
}

func genCount(r *gen.R) *big.Int {
	switch r.Intn(6) {
	case 0:
		return bi(0)
	case 1:
		return bi(1)
	case 2:
		return bi(int64(r.Intn(100)))
	case 3:
		return bi(int64(r.Intn(10000000)))
	default:
		return bi(int64(1 + r.Intn(5000)))
	}
}

// stake pairs s1 ≤ s2 around bin boundaries and the ceiling
func genStakes(r *gen.R, p params) (*big.Int, *big.Int) {
	f, c := big.NewInt(p.floor), big.NewInt(p.ceiling)
	maxBin := p.ceiling / p.floor
	var s1 *big.Int
	switch r.Intn(8) {
	case 0: // at / around the ceiling
		s1 = new(big.Int).Add(c, bi(int64(r.Intn(3))-1))
	case 1: // above the ceiling
		s1 = new(big.Int).Add(c, new(big.Int).Mul(f, bi(int64(r.Intn(5)))))
		s1.Add(s1, bi(int64(r.Intn(int(min64(p.floor, 1<<30))))))
	case 2: // top bin boundary
		s1 = new(big.Int).Mul(f, bi(maxBin))
		s1.Sub(s1, bi(int64(r.Intn(2))))
	default:
		b := int64(r.Intn(int(maxBin + 2)))
		s1 = new(big.Int).Mul(f, bi(b))
		if r.Bool() {
			s1.Add(s1, bi(int64(r.Intn(int(min64(p.floor, 1<<30))))))
		} else if r.Chance(1, 3) {
			s1.Sub(s1, bi(1))
		}
	}
	if s1.Sign() < 0 {
		s1 = bi(0)
	}
	var d *big.Int
	switch r.Intn(7) {
	case 0:
		d = bi(0)
	case 1:
		d = bi(1)
	case 2:
		d = new(big.Int).Sub(f, bi(1))
	case 3:
		d = new(big.Int).Set(f)
	case 4:
		d = new(big.Int).Mul(f, bi(int64(1+r.Intn(int(maxBin+1)))))
	case 5:
		d = new(big.Int).Mul(c, bi(int64(1+r.Intn(3))))
	default:
		d = bi(int64(r.Intn(int(min64(3*p.floor, 1<<30)))))
	}
	return s1, new(big.Int).Add(s1, d)
}

func isNum(s string) bool { return s != "PANIC" && s != "TIMEOUT" && s != "ERR" && s != "GONE" }

func main() {
	seed := flag.Uint64("seed", 1, "")
	n := flag.Int("n", 2000, "")
	out := flag.String("out", "c27.trace", "")
	mode := flag.String("mode", "gen", "gen | rows | bins | witness")
	lo := flag.Int64("lo", 0, "first bin (rows/bins)")
	hi := flag.Int64("hi", 2000, "last bin (rows/bins)")
	step := flag.Int64("step", 1, "bin step (rows)")
	tmo := flag.Int("timeout", 20, "wall-clock seconds per call")
	flag.Parse()
	runtime.GOMAXPROCS(2) // other builders share the machine
	timeout = time.Duration(*tmo) * time.Second
	codec.UpgradeFeatureMap[codec.RSCALKey] = 1
	r := gen.New(*seed)
	t := gen.NewTrace(*out)
	trace = t

	emitRew := func(p params, relays, s1, s2 *big.Int) {
		c1, c2 := doReward(p, relays, s1), doReward(p, relays, s2)
		t.Line("rew", isNum(c1) && isNum(c2) && c2 != "0", "rew %s %s %s %s => %s %s", p, relays, s1, s2, c1, c2)
	}
	emitBurn := func(p params, ch, s1, s2 *big.Int) {
		b1, b2 := burnDelta(doBurn(p, ch, s1)), burnDelta(doBurn(p, ch, s2))
		t.Line("burn", isNum(b1) && isNum(b2) && b2 != "0", "burn %s %s %s %s => %s %s", p, ch, s1, s2, b1, b2)
	}

	switch *mode {
	case "witness":
		// the two suspected defects of DESIGN.md §6 rows 12, 13 on the real code
		p := params{floor: 15, ceiling: 60, wm: mulP(1, 1, 1), exp: expRaw(100), mult: 1000}
		pb := p
		pb.mult = 1
		emitBurn(pb, bi(10), bi(60), bi(61))
		emitBurn(pb, bi(10), bi(60), bi(75))
		emitBurn(params{floor: 15000000000, ceiling: 60000000000, wm: mulP(1, 1, 1), exp: expRaw(100), mult: 1000}, bi(1000), bi(60000000000), bi(60000000001))
		emitRew(p, bi(10), bi(60), bi(61))
		q := params{floor: 1, ceiling: 600, wm: mulP(1, 1, 1), exp: expRaw(100), mult: 1000}
		emitRew(q, bi(10), bi(498), bi(499))
		emitRew(q, bi(10), bi(496), bi(497))
		qb := q
		qb.mult = 1
		emitBurn(qb, bi(1), bi(498), bi(499))
		t.Line("fp", true, "fp %s %s => %s", mulP(498, 1, 1), expRaw(100), doFracPow(mulP(498, 1, 1), expRaw(100)))
		t.Line("fp", true, "fp %s %s => %s", mulP(499, 1, 1), expRaw(100), doFracPow(mulP(499, 1, 1), expRaw(100)))
		t.Line("root", true, "root %s 100 => %s", mulP(499, 1, 1), doRoot(mulP(499, 1, 1), 100))
	case "rows":
		// exhaustive: every exponent of the 1/100 grid for bins lo..hi
		for b := *lo; b <= *hi && !stop; b += *step {
			vs := make([]string, 101)
			ok := true
			for k := int64(0); k <= 100; k++ {
				vs[k] = doFracPow(mulP(b, 1, 1), expRaw(k))
				ok = ok && isNum(vs[k])
				if stop {
					break
				}
			}
			if stop {
				break // incomplete row: not emitted
			}
			t.Line("fprow", ok, "fprow %d => %s", b, strings.Join(vs, " "))
		}
	case "bins":
		// every bin lo..hi: root, FracPow at exponent 1.00 and one more, reward pair (bin, bin+1)
		for b := *lo; b <= *hi && !stop; b++ {
			d := mulP(b, 1, 1)
			t.Line("root", true, "root %s 100 => %s", d, doRoot(d, 100))
			for _, k := range []int64{100, int64(1 + r.Intn(99))} {
				v := doFracPow(d, expRaw(k))
				t.Line("fp", isNum(v), "fp %s %s => %s", d, expRaw(k), v)
			}
			floor := []int64{1, 15, 15000000000}[b%3]
			p := params{floor: floor, ceiling: floor * (*hi + 1), wm: mulP(1, 1, 1), exp: expRaw([]int64{100, 50, 100, int64(r.Intn(101))}[r.Intn(4)]), mult: 1000}
			s1 := new(big.Int).Mul(bi(floor), bi(b))
			s2 := new(big.Int).Mul(bi(floor), bi(b+1))
			emitRew(p, bi(int64(1+r.Intn(1000))), s1, s2)
		}
	default:
		for i := 0; i < *n && !stop; i++ {
			switch k := r.Intn(20); {
			case k < 7:
				p, _ := genParams(r)
				s1, s2 := genStakes(r, p)
				emitRew(p, genCount(r), s1, s2)
			case k < 9:
				p, _ := genParams(r)
				s1, _ := genStakes(r, p)
				r1 := genCount(r)
				r2 := new(big.Int).Add(r1, genCount(r))
				c1, c2 := doReward(p, r1, s1), doReward(p, r2, s1)
				t.Line("rewr", isNum(c1) && isNum(c2) && c2 != "0", "rewr %s %s %s %s => %s %s", p, r1, r2, s1, c1, c2)
			case k < 14:
				p, _ := genParams(r)
				s1, s2 := genStakes(r, p)
				emitBurn(p, genCount(r), s1, s2)
			case k < 16:
				// ApproxRoot on arbitrary decimals and small roots
				// (decimals below 0.1 are left out: ApproxRoot loops forever on e.g. 10^-18 — see
				// design-notes/C27.md; the reward code only ever passes non-negative integers)
				var d *big.Int
				switch r.Intn(5) {
				case 0:
					d = mulP(int64(r.Intn(600)), 1, 1)
				case 1:
					d = new(big.Int).Add(mulP(1, 1, 10), new(big.Int).SetBytes(r.Bytes(1+r.Intn(12))))
				case 2:
					d = new(big.Int).Add(mulP(1, 1, 10), mulP(int64(1+r.Intn(100000)), 1, int64(1+r.Intn(1000))))
				case 3:
					d = new(big.Int).Neg(mulP(int64(r.Intn(50)), 1, int64(1+r.Intn(7))))
				default:
					d = new(big.Int).Add(P, big.NewInt(int64(r.Intn(5))-2))
					if r.Chance(1, 4) {
						d = big.NewInt(0)
					}
				}
				root := []uint64{0, 1, 2, 2, 3, 4, 5, 7, 10, 100, 100}[r.Intn(11)]
				v := doRoot(d, root)
				t.Line("root", isNum(v), "root %s %d => %s", d, root, v)
			default:
				// FracPow on integers and non-integers, exponents on and off the grid
				var d, e *big.Int
				if r.Chance(2, 3) {
					d = mulP(int64(r.Intn(700)), 1, 1)
				} else {
					d = new(big.Int).Add(mulP(1, 1, 10), mulP(int64(r.Intn(5000)), 1, int64(1+r.Intn(50))))
				}
				if r.Chance(3, 4) {
					e = expRaw(int64(r.Intn(101)))
				} else {
					e = mulP(int64(r.Intn(2000)), 1, 1999)
				}
				v := doFracPow(d, e)
				t.Line("fp", isNum(v), "fp %s %s => %s", d, e, v)
			}
		}
	}
	t.Close(map[string]interface{}{"timeouts": timeouts})
}
