// c14: drives the real PocketCoreApp one DeliverTx at a time over the signer matrix (message type ×
// signer relation {declared signer, output address, application transfer, unrelated funded key,
// key without account, multisig in / out of order / too deep} × signature {good, flipped byte, other
// chain id, empty, public key omitted}) and writes the trace consumed by lean/Driver/C14.lean.
// Part `halt` runs the real ante handler with a context at codec.CodecChainHaltHeight; part
// `haltchain` (`-only haltchain`, thorough tier) runs a real chain up to that height.  See harness/internal/antelab.
package main

import "verifharness/internal/antelab"

func main() {
	antelab.Run("c14", []antelab.Part{
		{Name: "modern", Share: 60},
		{Name: "noapptr", Share: 20, NoAppTr: true},
		{Name: "halt", Share: 20, HaltProbe: true},
		{Name: "haltchain", Share: 0, HaltChain: true}, // -only haltchain (thorough tier)
	})
}
