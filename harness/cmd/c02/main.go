// c02: histories weighted towards prefix stores (prefixes empty / short / ending in FF / all-FF,
// over the root and over cachekv wraps, ranges in both directions) plus direct PrefixEndBytes
// cases; consumed by lean/Driver/C02.lean.  See internal/kvh.
package main

import (
	"flag"

	"verifharness/internal/kvh"
)

func main() {
	seed := flag.Uint64("seed", 1, "")
	n := flag.Int("n", 3000, "")
	out := flag.String("out", "c02.trace", "")
	depth := flag.Int("depth", 3, "maximal number of wraps")
	flag.Parse()
	kvh.Run(kvh.Config{
		Seed: *seed, N: *n, Out: *out, MaxDepth: *depth,
		WWrap: 3, WPwrap: 9, WPop: 7, WWrite: 3,
		WGet: 12, WHas: 5, WSet: 24, WDel: 8, WIter: 12, WOpen: 3, WNext: 4, WDrain: 3, WDump: 5, WNil: 1, WPend: 6, WBelow: 1,
		EpochSets: 48,
	})
}
