// c10: twin stores (height cache on / off) fed the same block history; every read is performed on
// both twins and written as one trace line `<read> => <cache-on result> <cache-off result>`.
// lean/Driver/C10.lean replays the history on the model of the cache, compares both results with the
// model and judges the implementation's own answers (on == off).
//
// Two levels:
//   multi  real rootmulti.Store (NewStore(db, cache=true|false)), two mounted IAVL stores,
//          capacity = rootmulti.MemoryCacheCapacity; historical reads through LoadLazyVersion(h)
//          (what Context.PrevCtx and baseapp queries use) and CacheMultiStoreWithVersion(h) (cachekv).
//   iavl   real iavl.Store from iavl.LoadStore with heightcache.NewMemoryCache(cap), cap in 1..4,
//          vs heightcache.InvalidCache; historical reads through Store.LazyLoadStore(h, cache).
package main

import (
	"flag"
	"fmt"
	"io"
	"log"
	"sort"
	"strings"

	"github.com/pokt-network/pocket-core/store/cachekv"
	"github.com/pokt-network/pocket-core/store/iavl"
	"github.com/pokt-network/pocket-core/store/rootmulti"
	"github.com/pokt-network/pocket-core/store/rootmulti/heightcache"
	"github.com/pokt-network/pocket-core/store/types"
	dbm "github.com/tendermint/tm-db"
	"verifharness/internal/gen"
)

// ---------------------------------------------------------------- worlds

// side is one twin: a set of named stores with a working state, commit, reopen and historical views.
type side interface {
	names() []string
	working(name string) types.KVStore
	commit() int64
	reopen() int64
	at(name string, h int64) types.KVStore        // direct historical store
	atWrapped(name string, h int64) types.KVStore // the same behind a cachekv wrapper
}

type multiSide struct {
	db    dbm.DB
	cache bool
	rs    *rootmulti.Store
	keys  map[string]*types.KVStoreKey
	order []string
}

func newMultiSide(cache bool, order []string) *multiSide {
	m := &multiSide{db: dbm.NewMemDB(), cache: cache, order: order, keys: map[string]*types.KVStoreKey{}}
	for _, n := range order {
		m.keys[n] = types.NewKVStoreKey(n)
	}
	m.open()
	return m
}

func (m *multiSide) open() {
	m.rs = rootmulti.NewStore(m.db, m.cache, 1000)
	for _, n := range m.order {
		m.rs.MountStoreWithDB(m.keys[n], types.StoreTypeIAVL, nil)
	}
	if err := m.rs.LoadLatestVersion(); err != nil {
		panic(err)
	}
}
func (m *multiSide) names() []string                { return m.order }
func (m *multiSide) working(n string) types.KVStore { return m.rs.GetKVStore(m.keys[n]) }
func (m *multiSide) commit() int64                  { return m.rs.Commit().Version }
func (m *multiSide) reopen() int64                  { m.open(); return m.rs.LastCommitID().Version }
func (m *multiSide) at(n string, h int64) types.KVStore {
	s, err := m.rs.LoadLazyVersion(h)
	if err != nil {
		panic(err)
	}
	return (*s).(*rootmulti.Store).GetKVStore(m.keys[n])
}
func (m *multiSide) atWrapped(n string, h int64) types.KVStore {
	c, err := m.rs.CacheMultiStoreWithVersion(h)
	if err != nil {
		panic(err)
	}
	return c.GetKVStore(m.keys[n])
}

type iavlSide struct {
	db    dbm.DB
	cap   int64 // 0: cache off
	cache types.SingleStoreCache
	st    *iavl.Store
	id    types.CommitID
}

func newIavlSide(cap int64) *iavlSide {
	s := &iavlSide{db: dbm.NewMemDB(), cap: cap}
	s.open()
	return s
}

func (s *iavlSide) open() {
	if s.cap > 0 {
		// what MultiStoreMemoryCache.GetSingleStoreCache does for a store it has not seen yet
		mc := heightcache.NewMemoryCache(s.cap)
		_ = mc.InitializeStoreCache(-1)
		s.cache = mc
	} else {
		s.cache = heightcache.InvalidCache{}
	}
	cs, err := iavl.LoadStore(s.db, s.id, types.PruneNothing, false, s.cache, 1000)
	if err != nil {
		panic(err)
	}
	s.st = cs.(*iavl.Store)
}
func (s *iavlSide) names() []string              { return []string{"t"} }
func (s *iavlSide) working(string) types.KVStore { return s.st }
func (s *iavlSide) commit() int64                { s.id = s.st.Commit(); return s.id.Version }
func (s *iavlSide) reopen() int64                { s.open(); return s.st.LastCommitID().Version }
func (s *iavlSide) at(_ string, h int64) types.KVStore {
	l, err := s.st.LazyLoadStore(h, s.cache)
	if err != nil {
		panic(err)
	}
	return l
}
func (s *iavlSide) atWrapped(n string, h int64) types.KVStore { return cachekv.NewStore(s.at(n, h)) }

// ---------------------------------------------------------------- reads under recover()

func getR(s types.KVStore, k []byte) (out string) {
	defer func() {
		if r := recover(); r != nil {
			out = "PANIC"
		}
	}()
	v, err := s.Get(k)
	if err != nil {
		return "ERR"
	}
	return gen.Hex(v)
}

func hasR(s types.KVStore, k []byte) (out string) {
	defer func() {
		if r := recover(); r != nil {
			out = "PANIC"
		}
	}()
	v, err := s.Has(k)
	if err != nil {
		return "ERR"
	}
	return fmt.Sprint(v)
}

// iterR drains an iterator the way every caller in pocket-core does:
// for ; it.Valid(); it.Next() { it.Key(); it.Value() }; it.Close().   At most 400 items are read.
func iterR(s types.KVStore, start, end []byte, asc bool) (list string, status string) {
	var items []string
	status = "ok"
	defer func() {
		if r := recover(); r != nil {
			status = "panic"
		}
		if len(items) == 0 {
			list = "."
		} else {
			list = strings.Join(items, ";")
		}
	}()
	var it types.Iterator
	var err error
	if asc {
		it, err = s.Iterator(start, end)
	} else {
		it, err = s.ReverseIterator(start, end)
	}
	if err != nil {
		status = "err"
		return
	}
	defer func() {
		defer func() { _ = recover() }()
		it.Close()
	}()
	for n := 0; it.Valid(); it.Next() {
		items = append(items, gen.Hex(it.Key())+"="+gen.Hex(it.Value()))
		if n++; n > 400 {
			status = "runaway"
			return
		}
	}
	return
}

// ---------------------------------------------------------------- probe: which heightcache is this?

// probe performs a fixed script on a bare MemoryCache(2) and returns its answers.  The driver runs
// the same script on the model selected by `mode` and reports a DIFF when they disagree, so a code
// base that is neither the as-is nor the fixed one cannot pass.
func probe() string {
	var out []string
	rec := func(f func() string) {
		out = append(out, func() (s string) {
			defer func() {
				if r := recover(); r != nil {
					s = "PANIC"
				}
			}()
			return f()
		}())
	}
	mc := heightcache.NewMemoryCache(2)
	_ = mc.InitializeStoreCache(-1)
	mc.Initialize(map[string]string{}, 0)
	mc.Set([]byte("b"), []byte("1"))
	mc.Set([]byte("d"), []byte("2"))
	mc.Commit(1)
	mc.Commit(2)
	drain := func(it types.Iterator, err error) string {
		if err != nil {
			return "err"
		}
		var ks []string
		for ; it.Valid(); it.Next() {
			ks = append(ks, gen.Hex(it.Key()))
		}
		if len(ks) == 0 {
			return "."
		}
		return strings.Join(ks, ";")
	}
	rec(func() string { v, _ := mc.Get(1, []byte("x")); return gen.Hex(v) })
	rec(func() string { return drain(mc.Iterator(1, nil, nil)) })
	rec(func() string { return drain(mc.ReverseIterator(1, []byte("a"), []byte("d"))) })
	rec(func() string { return drain(mc.Iterator(1, []byte("c"), nil)) })
	rec(func() string { return drain(mc.ReverseIterator(1, nil, []byte("e"))) })
	rec(func() string { return drain(mc.Iterator(1, nil, []byte{})) })
	return strings.Join(out, " ")
}

const probeAsIs = "- -;-;62;64 . -;-;62 PANIC -;-;62;64"
const probeFixed = "~ 62;64 62 64 64;62 ."

// ---------------------------------------------------------------- generation

var keyU = [][]byte{[]byte("a"), []byte("b"), []byte("c"), []byte("d"), []byte("ab"), {'b', 0}, {0}, {0xff}, {'c', 0xff}, {}}
var smallU = [][]byte{[]byte("a"), []byte("b"), []byte("c"), {'b', 0}, {0xff}}
var valU = [][]byte{[]byte("1"), []byte("22"), {}, {0}, []byte("v3"), {0xff, 0xff}}

func boundsOf(keys [][]byte) [][]byte {
	b := [][]byte{nil, {}}
	b = append(b, keys...)
	b = append(b, []byte("aa"), []byte("e"))
	return b
}

type twin struct {
	on, off side
	t       *gen.Trace
	live    map[string]map[string]bool // name -> keys present in the working state
}

func (w *twin) write(r *gen.R, keys [][]byte) {
	n := w.on.names()[r.Intn(len(w.on.names()))]
	k := keys[r.Intn(len(keys))]
	if r.Chance(1, 3) && len(w.live[n]) > 0 {
		// delete: mostly a live key
		if r.Chance(3, 4) {
			ks := make([]string, 0, len(w.live[n]))
			for x := range w.live[n] {
				ks = append(ks, x)
			}
			sort.Strings(ks)
			k = []byte(ks[r.Intn(len(ks))])
		}
		_ = w.on.working(n).Delete(k)
		_ = w.off.working(n).Delete(k)
		delete(w.live[n], string(k))
		w.t.Line("del", true, "del %s %s => -", n, gen.Hex(k))
		return
	}
	v := valU[r.Intn(len(valU))]
	_ = w.on.working(n).Set(k, v)
	_ = w.off.working(n).Set(k, v)
	w.live[n][string(k)] = true
	w.t.Line("set", true, "set %s %s %s => -", n, gen.Hex(k), gen.Hex(v))
}

// stores for height h; h == 0 is the working (uncommitted) store.
func (w *twin) stores(n string, h int64, wrapped bool) (a, b types.KVStore) {
	if h == 0 {
		if wrapped {
			return cachekv.NewStore(w.on.working(n)), cachekv.NewStore(w.off.working(n))
		}
		return w.on.working(n), w.off.working(n)
	}
	if wrapped {
		return w.on.atWrapped(n, h), w.off.atWrapped(n, h)
	}
	return w.on.at(n, h), w.off.at(n, h)
}

func (w *twin) point(n string, h int64, k []byte, wrapped bool) {
	a, b := w.stores(n, h, wrapped)
	sfx := ""
	if wrapped {
		sfx = "w"
	}
	ga, gb := getR(a, k), getR(b, k)
	w.t.Line("get"+sfx, gb != "~", "get%s %s %d %s => %s %s", sfx, n, h, gen.Hex(k), ga, gb)
	// fresh wrappers for has: a cachekv wrapper memoises the first read
	a, b = w.stores(n, h, wrapped)
	ha, hb := hasR(a, k), hasR(b, k)
	w.t.Line("has"+sfx, hb == "true", "has%s %s %d %s => %s %s", sfx, n, h, gen.Hex(k), ha, hb)
}

func (w *twin) rng(n string, h int64, s, e []byte, asc, wrapped bool) {
	a, b := w.stores(n, h, wrapped)
	op := "iter"
	if !asc {
		op = "riter"
	}
	if wrapped {
		op += "w"
	}
	la, sa := iterR(a, s, e, asc)
	lb, sb := iterR(b, s, e, asc)
	w.t.Line(op, lb != ".", "%s %s %d %s %s => %s %s %s %s", op, n, h, gen.Hex(s), gen.Hex(e), la, sa, lb, sb)
}

// sweep: every point read of the universe and every range over the bounds universe, both directions,
// direct and through cachekv, at height h.
func (w *twin) sweep(n string, h int64, keys [][]byte) {
	for _, k := range keys {
		w.point(n, h, k, false)
		w.point(n, h, k, true)
	}
	bs := boundsOf(keys)
	for _, s := range bs {
		for _, e := range bs {
			for _, asc := range []bool{true, false} {
				w.rng(n, h, s, e, asc, false)
				w.rng(n, h, s, e, asc, true)
			}
		}
	}
}

func (w *twin) sample(r *gen.R, n string, h int64, keys [][]byte, points, ranges int) {
	bs := boundsOf(keys)
	for i := 0; i < points; i++ {
		w.point(n, h, keys[r.Intn(len(keys))], r.Chance(1, 3))
	}
	for i := 0; i < ranges; i++ {
		s, e := bs[r.Intn(len(bs))], bs[r.Intn(len(bs))]
		if r.Chance(1, 4) {
			s = nil
		}
		if r.Chance(1, 4) {
			e = nil
		}
		w.rng(n, h, s, e, r.Bool(), r.Chance(1, 3))
	}
}

func (w *twin) commit() int64 {
	va, vb := w.on.commit(), w.off.commit()
	w.t.Line("commit", true, "commit => %d %d", va, vb)
	return va
}

func (w *twin) reopen() {
	va, vb := w.on.reopen(), w.off.reopen()
	w.t.Line("reopen", true, "reopen => %d %d", va, vb)
}

// ringHistory: a fixed-shape history that wraps the ring of cached heights several times with a
// constant key count (each block deletes one live key and inserts one that is not live), and after
// every commit reads every served height back: Get of all keys of the alphabet (recently deleted ones
// in particular), Has through cachekv, and a full iteration in both directions.
func ringHistory(r *gen.R, t *gen.Trace, multi bool) {
	var w *twin
	var capacity int64
	if multi {
		order := []string{"s0", "s1"}
		w = &twin{on: newMultiSide(true, order), off: newMultiSide(false, order), t: t}
		capacity = rootmulti.MemoryCacheCapacity
	} else {
		capacity = 3
		w = &twin{on: newIavlSide(capacity), off: newIavlSide(0), t: t}
	}
	w.live = map[string]map[string]bool{}
	for _, n := range w.on.names() {
		w.live[n] = map[string]bool{}
		t.Line("open", true, "open %s %d => -", n, capacity)
	}
	n := w.on.names()[0]
	alpha := [][]byte{[]byte("k1"), []byte("k2"), []byte("k3"), []byte("k4"), []byte("k5"), []byte("k6"), []byte("k7")}
	set := func(k []byte, v []byte) {
		_ = w.on.working(n).Set(k, v)
		_ = w.off.working(n).Set(k, v)
		w.live[n][string(k)] = true
		t.Line("set", true, "set %s %s %s => -", n, gen.Hex(k), gen.Hex(v))
	}
	del := func(k []byte) {
		_ = w.on.working(n).Delete(k)
		_ = w.off.working(n).Delete(k)
		delete(w.live[n], string(k))
		t.Line("del", true, "del %s %s => -", n, gen.Hex(k))
	}
	for i := 0; i < 4; i++ {
		set(alpha[i], []byte{'v', byte('0' + i)})
	}
	for b := int64(1); b <= 2*capacity+8; b++ {
		if b > 1 {
			// delete one live key, insert one that is not live: the key count stays 4
			var liveKs, deadKs [][]byte
			for _, k := range alpha {
				if w.live[n][string(k)] {
					liveKs = append(liveKs, k)
				} else {
					deadKs = append(deadKs, k)
				}
			}
			del(liveKs[r.Intn(len(liveKs))])
			set(deadKs[r.Intn(len(deadKs))], []byte{'w', byte('0' + b%10)})
		}
		latest := w.commit()
		for h := latest - capacity + 1; h < latest; h++ {
			if h < 1 {
				continue
			}
			for _, k := range alpha {
				a, bb := w.stores(n, h, false)
				ga, gb := getR(a, k), getR(bb, k)
				t.Line("get", gb != "~", "get %s %d %s => %s %s", n, h, gen.Hex(k), ga, gb)
			}
			k := alpha[r.Intn(len(alpha))]
			a, bb := w.stores(n, h, true)
			ha, hb := hasR(a, k), hasR(bb, k)
			t.Line("hasw", hb == "true", "hasw %s %d %s => %s %s", n, h, gen.Hex(k), ha, hb)
			w.rng(n, h, nil, nil, true, false)
			w.rng(n, h, nil, nil, false, false)
		}
	}
	t.Line("end", false, "end => -")
}

func history(r *gen.R, t *gen.Trace, budget int) {
	start := t.Lines
	var w *twin
	var keys [][]byte
	var capacity int64
	multi := r.Chance(1, 3)
	if multi {
		order := []string{"s0", "s1"}
		w = &twin{on: newMultiSide(true, order), off: newMultiSide(false, order), t: t}
		capacity = rootmulti.MemoryCacheCapacity
		keys = keyU
		if r.Bool() {
			keys = smallU
		}
	} else {
		capacity = int64(2 + r.Intn(3))
		if r.Chance(1, 8) {
			capacity = 1 // nothing is ever served
		}
		w = &twin{on: newIavlSide(capacity), off: newIavlSide(0), t: t}
		keys = smallU
		if r.Chance(1, 3) {
			keys = keyU
		}
	}
	w.live = map[string]map[string]bool{}
	for _, n := range w.on.names() {
		w.live[n] = map[string]bool{}
		t.Line("open", true, "open %s %d => -", n, capacity)
	}
	blocks := 2 + r.Intn(int(capacity)+4)
	var latest int64
	for b := 0; b < blocks && t.Lines-start < budget; b++ {
		nw := r.Intn(5)
		if b == 0 {
			nw = 2 + r.Intn(4)
		}
		if r.Chance(1, 8) {
			nw = 0 // empty block
		}
		for i := 0; i < nw; i++ {
			w.write(r, keys)
		}
		// reads on the working store with uncommitted writes pending
		if latest > 0 && r.Chance(1, 3) {
			w.sample(r, w.on.names()[r.Intn(len(w.on.names()))], 0, keys, 2, 2)
		}
		latest = w.commit()
		if r.Chance(1, 12) {
			w.reopen()
		}
		// sampled reads at a height in or just outside the window
		for q := 0; q < 2; q++ {
			lo, hi := latest-capacity-2, latest
			if r.Chance(3, 4) && capacity > 1 {
				lo, hi = latest-capacity+1, latest-1 // the heights served from the cache
			}
			if lo < 1 {
				lo = 1
			}
			if hi < lo {
				hi = lo
			}
			h := lo + int64(r.Intn(int(hi-lo+1)))
			w.sample(r, w.on.names()[r.Intn(len(w.on.names()))], h, keys, 4, 6)
		}
	}
	// exhaustive sweep over the small universe at every height of (and just outside) the window
	if len(keys) == len(smallU) && t.Lines-start < budget {
		lo := latest - capacity - 1
		if lo < 1 {
			lo = 1
		}
		hs := []int64{}
		for h := lo; h <= latest; h++ {
			hs = append(hs, h)
		}
		// at most three heights per history, chosen at random, to bound the trace
		for len(hs) > 3 {
			i := r.Intn(len(hs))
			if r.Bool() {
				i = []int{0, len(hs) - 1}[r.Intn(2)] // prefer to keep the served heights in the middle
			}
			hs = append(hs[:i], hs[i+1:]...)
		}
		for _, h := range hs {
			w.sweep(w.on.names()[r.Intn(len(w.on.names()))], h, keys)
		}
	}
	t.Line("end", false, "end => -")
}

func main() {
	seed := flag.Uint64("seed", 1, "seed")
	n := flag.Int("n", 3000, "approximate number of trace lines")
	out := flag.String("out", "c10.trace", "trace file")
	mode := flag.String("mode", "auto", "auto | asis | fixed: which model the driver must use (auto: decided by the probe)")
	flag.Parse()
	log.SetOutput(io.Discard) // LoadStore logs "Cache warmed."
	r := gen.New(*seed)
	t := gen.NewTrace(*out)
	p := probe()
	m := *mode
	if m == "auto" {
		switch p {
		case probeAsIs:
			m = "asis"
		case probeFixed:
			m = "fixed"
		default:
			m = "neither"
		}
	}
	t.Line("mode", false, "mode %s => %s", m, p)
	// two fixed-shape histories first: the ring of cached heights wraps with a constant key count
	ringHistory(r, t, false)
	ringHistory(r, t, true)
	for t.Lines < *n {
		history(r, t, *n/3+200)
	}
	t.Close(map[string]interface{}{"mode": m, "probe": p})
}
