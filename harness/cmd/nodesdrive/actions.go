package main

import (
	"fmt"
	"sort"
	"strings"
	"time"

	sdk "github.com/pokt-network/pocket-core/types"
	govTypes "github.com/pokt-network/pocket-core/x/gov/types"
	nodesTypes "github.com/pokt-network/pocket-core/x/nodes/types"
	abci "github.com/tendermint/tendermint/abci/types"
	"verifharness/internal/chain"
)

const fee = chain.DefaultFee

func codeStr(r abci.ResponseDeliverTx) string { return fmt.Sprintf("%d/%s", r.Code, r.Codespace) }

// deliver runs one DeliverTx and reports whether the fee was charged.
func (h *Hist) deliver(height int64, bt time.Time, bz []byte, txs *[][]byte, results *[]abci.ResponseDeliverTx) (abci.ResponseDeliverTx, int) {
	before := h.snap.FeeColl
	res := h.n.App.DeliverTx(abci.RequestDeliverTx{Tx: bz})
	*txs = append(*txs, bz)
	*results = append(*results, res)
	h.snap = dump(h.n, height, bt)
	taken := 0
	if h.snap.FeeColl.Sub(before).Equal(sdk.NewInt(fee)) {
		taken = 1
	}
	return res, taken
}

func (h *Hist) valsWhere(f func(v nodesTypes.Validator) bool) []nodesTypes.Validator {
	var out []nodesTypes.Validator
	for _, a := range h.snap.Order {
		if v := h.snap.Vals[a]; f(v) {
			out = append(out, v)
		}
	}
	return out
}

func (h *Hist) freeNodeKeys() []chain.Key {
	var out []chain.Key
	for _, k := range h.nodes {
		if _, ok := h.snap.Vals[k.Addr.String()]; !ok {
			out = append(out, k)
		}
	}
	return out
}

func outKeyOf(h *Hist, v nodesTypes.Validator) (chain.Key, bool) {
	if v.OutputAddress == nil {
		return chain.Key{}, false
	}
	k, ok := h.keyOf[v.OutputAddress.String()]
	return k, ok
}

func distinct(cs []string) int {
	m := map[string]bool{}
	for _, c := range cs {
		m[strings.ToLower(c)] = true
	}
	return len(m)
}

func delStr(d map[string]uint32) string {
	if len(d) == 0 {
		return "-"
	}
	var ps []string
	for _, k := range chain.SortedKeys(d) {
		ps = append(ps, fmt.Sprintf("%s:%d", strings.ToLower(k), d[k]))
	}
	return strings.Join(ps, ";")
}

func (h *Hist) genDelegators(cur map[string]uint32) map[string]uint32 {
	r := h.r
	lo := func(k chain.Key) string { return strings.ToLower(k.Addr.String()) }
	switch r.Intn(9) {
	case 0, 1, 6, 7:
		return cur
	case 2:
		return nil
	case 3:
		return map[string]uint32{lo(h.outs[2]): uint32(1 + r.Intn(60))}
	case 4:
		return map[string]uint32{lo(h.outs[2]): 50, lo(h.outs[3]): uint32(1 + r.Intn(50))}
	default:
		return map[string]uint32{lo(h.outs[2]): 60, lo(h.outs[3]): 50} // > 100: rejected by ValidateBasic
	}
}

// lookupChains: the network identifiers queried through the real GetValidatorsByChain after every block: a fixed
// base, every identifier declared by a record of the end-of-block state, and for every record declaring a 1-byte
// identifier c the 2-byte identifier c||address[0] (the index key 0x22||c||address is also a key under the prefix
// 0x22||c||address[0]).  At most 14 per block.
func (h *Hist) lookupChains() []string {
	set := map[string]bool{"0001": true, "0021": true, "00": true}
	if h.mode == "c21" || h.mode == "all" {
		set["21"] = true
	}
	var dyn []string
	for _, k := range h.snap.Order {
		v := h.snap.Vals[k]
		for _, c := range v.Chains {
			c = strings.ToLower(c)
			if !set[c] {
				set[c] = true
				dyn = append(dyn, c)
			}
			if len(c) == 2 && len(v.Address) > 0 {
				q := c + fmt.Sprintf("%02x", v.Address[0])
				if !set[q] {
					set[q] = true
					dyn = append(dyn, q)
				}
			}
		}
	}
	sort.Strings(dyn)
	out := []string{"0001", "0021", "00"}
	if set["21"] {
		out = append(out, "21")
	}
	for _, c := range dyn {
		if len(out) >= 14 {
			break
		}
		if c != "21" {
			out = append(out, c)
		}
	}
	return out
}

// deriveDelegators: a reward-delegator map derived from the stored one: same keys with other shares, one share
// changed, shares swapped between keys, a key added / removed / replaced, nil (= empty on the wire), an identical copy.
func (h *Hist) deriveDelegators(cur map[string]uint32, sameKeys bool) map[string]uint32 {
	r := h.r
	lo := func(k chain.Key) string { return strings.ToLower(k.Addr.String()) }
	fresh := func() string { // a delegator address that is not a key of cur
		for i := 0; i < 8; i++ {
			a := lo(h.outs[r.Intn(len(h.outs))])
			if _, ok := cur[a]; !ok {
				return a
			}
		}
		return lo(h.nodes[0])
	}
	if len(cur) == 0 {
		switch r.Intn(5) {
		case 0:
			return nil
		case 1:
			return nil // (an empty map is nil on the wire; signing over the empty form cannot verify)
		case 2:
			return map[string]uint32{fresh(): uint32(1 + r.Intn(100))}
		default:
			return map[string]uint32{lo(h.outs[2]): uint32(1 + r.Intn(50)), lo(h.outs[3]): uint32(1 + r.Intn(50))}
		}
	}
	keys := chain.SortedKeys(cur)
	out := map[string]uint32{}
	for k, v := range cur {
		out[k] = v
	}
	other := func(v uint32) uint32 { // a share different from v, total kept small
		w := uint32(1 + r.Intn(40))
		if w == v {
			w++
		}
		return w
	}
	variant := r.Intn(10)
	if sameKeys && r.Chance(1, 2) {
		variant = r.Intn(3)
	}
	switch variant {
	case 0: // same keys, every share different
		for _, k := range keys {
			out[k] = other(cur[k])
		}
	case 1, 2: // same keys, one share different
		k := keys[r.Intn(len(keys))]
		out[k] = other(cur[k])
		if r.Chance(1, 3) {
			out[k] = []uint32{1, 100, cur[k] + 1}[r.Intn(3)]
			if out[k] == cur[k] {
				out[k] = cur[k] + 1
			}
		}
	case 3: // shares swapped between two keys (one key: the key replaced, share kept)
		if len(keys) >= 2 && cur[keys[0]] != cur[keys[1]] {
			out[keys[0]], out[keys[1]] = cur[keys[1]], cur[keys[0]]
		} else {
			delete(out, keys[0])
			out[fresh()] = cur[keys[0]]
		}
	case 4: // key added
		out[fresh()] = uint32(1 + r.Intn(10))
	case 5: // key removed
		delete(out, keys[r.Intn(len(keys))])
	case 6: // key replaced, share kept
		k := keys[r.Intn(len(keys))]
		delete(out, k)
		out[fresh()] = cur[k]
	case 7:
		return nil
	case 8:
		return nil
	default: // identical copy
	}
	if len(out) == 0 {
		// the wire format has no empty map: it decodes as nil, and sign bytes made from the empty form do not verify
		return nil
	}
	return out
}

func (h *Hist) genChains(cur []string) []string {
	r := h.r
	if len(cur) >= 1 && r.Chance(h.w(1, "c21", 2), 4) {
		return h.deriveChains(cur)
	}
	return h.freshChains(cur)
}

// deriveChains: a chain list derived from the current one: same length with a repeated chain (dropping another),
// permutation, superset, subset, one chain replaced, duplicate of everything
func (h *Hist) deriveChains(cur []string) []string {
	r := h.r
	{
		extra := []string{"0003", "0021", "0040", "0001"}[r.Intn(4)]
		switch r.Intn(6) {
		case 0: // repeat one chain in place of another (same length, one chain dropped)
			if len(cur) >= 2 {
				out := append([]string{}, cur...)
				i := r.Intn(len(out))
				j := (i + 1 + r.Intn(len(out)-1)) % len(out)
				out[i] = out[j]
				return out
			}
			return []string{cur[0], cur[0]}
		case 1: // permutation
			out := append([]string{}, cur...)
			for i, j := 0, len(out)-1; i < j; i, j = i+1, j-1 {
				out[i], out[j] = out[j], out[i]
			}
			return out
		case 2: // superset
			return append(append([]string{}, cur...), extra)
		case 3: // subset
			if len(cur) >= 2 {
				return append([]string{}, cur[:len(cur)-1]...)
			}
			return []string{extra}
		case 4: // same length, one chain replaced by a new one
			out := append([]string{}, cur...)
			out[r.Intn(len(out))] = extra
			return out
		default: // every chain twice
			return append(append([]string{}, cur...), cur...)
		}
	}
}

func (h *Hist) freshChains(cur []string) []string {
	r := h.r
	switch h.r.Intn(12) {
	case 0, 1, 2, 8, 9, 10:
		if len(cur) > 0 {
			return cur
		}
		return []string{"0001"}
	case 3:
		return []string{"0001", "0021"}
	case 4:
		return []string{"0021"}
	case 5:
		return []string{"0001", "0003", "0021"}
	case 6:
		return []string{"0040", "0001"}
	case 7:
		if h.mode == "c21" || h.mode == "all" {
			// 1-byte network identifiers (accepted by ValidateNetworkIdentifier) next to 2-byte identifiers that
			// start with the same byte: the keys 0x22||id||address of the two lengths share prefixes
			return [][]string{{"00", "0021"}, {"21", "0001"}, {"2100"}, {"21ff", "0021"}, {"21", "2100"}, {"00", "21", "21ff"}}[r.Intn(6)]
		}
		return []string{"0001"}
	default:
		var cs []string
		for i := 0; i < 16; i++ {
			cs = append(cs, fmt.Sprintf("00%02x", 0x30+i))
		}
		return cs
	}
}

func (h *Hist) stakeLine(height int64, signer chain.Key, k chain.Key, amt int64, chains []string, url string, out sdk.Address, del map[string]uint32) string {
	var cs []string
	for _, c := range chains {
		cs = append(cs, strings.ToLower(c))
	}
	return fmt.Sprintf("tx stake %d %s %s %s %d %s %s %s %s %d", height, hx(signer.Addr), hx(k.Addr), hx(k.Pub.RawBytes()), amt, joinOr(cs), hx([]byte(url)), hx(out), delStr(del), fee)
}

// setup: the owner sets the stake-weight parameters (PIP-22) through governance.
func (h *Hist) setup(height int64, bt time.Time, codes map[string]int, txs *[][]byte, results *[]abci.ResponseDeliverTx) {
	ceiling := int64(15000000000)
	if h.r.Chance(1, 4) {
		ceiling = 60000000000
	}
	acl := govTypes.ACL{}
	for _, k := range append(append([]string{}, chain.ACLKeys...), "pos/ServicerStakeFloorMultiplier", "pos/ServicerStakeWeightMultiplier", "pos/ServicerStakeWeightCeiling", "pos/ServicerStakeFloorMultiplierExponent") {
		acl.SetOwner(k, h.owner.Addr)
	}
	for _, kv := range []struct {
		k string
		v interface{}
	}{{"gov/acl", acl}, {"pos/ServicerStakeFloorMultiplier", int64(15000000000)}, {"pos/ServicerStakeWeightMultiplier", sdk.NewDec(1)},
		{"pos/ServicerStakeFloorMultiplierExponent", sdk.NewDec(1)}, {"pos/ServicerStakeWeightCeiling", ceiling}} {
		bz := chain.SignTx(chainID, h.owner, chain.MsgChangeParam(h.owner.Addr, kv.k, kv.v), fee, h.nextEntropy(), "")
		line := fmt.Sprintf("tx param %d %s %v %s %d", height, kv.k, toInt(kv.v), hx(h.owner.Addr), fee)
		res, taken := h.deliver(height, bt, bz, txs, results)
		codes["param "+codeStr(res)]++
		h.tr.Line("param", res.Code == 0, "%s => %s %d %s", line, codeStr(res), taken, h.snap)
	}
}

// scripted delivers one action of a directed scenario.
func (h *Hist) scripted(act string, height int64, bt time.Time, codes map[string]int, txs *[][]byte, results *[]abci.ResponseDeliverTx) {
	var kind string
	var i int
	fmt.Sscanf(strings.Replace(act, ":", " ", 1), "%s %d", &kind, &i)
	k := h.nodes[i]
	switch kind {
	case "unstake":
		bz := chain.SignTx(chainID, k, chain.MsgNodeUnstake(k.Addr, k.Addr), fee, h.nextEntropy(), "")
		line := fmt.Sprintf("tx unstake %d %s %s %d", height, hx(k.Addr), hx(k.Addr), fee)
		res, taken := h.deliver(height, bt, bz, txs, results)
		codes["unstake "+codeStr(res)]++
		h.tr.Line("unstake", res.Code == 0, "%s => %s %d %s", line, codeStr(res), taken, h.snap)
	case "unjail":
		bz := chain.SignTx(chainID, k, chain.MsgNodeUnjail(k.Addr, k.Addr), fee, h.nextEntropy(), "")
		now := time.Now()
		line := fmt.Sprintf("tx unjail %d %s %d %s %s %d", height, nanos(bt), now.UnixNano(), hx(k.Addr), hx(k.Addr), fee)
		res, taken := h.deliver(height, bt, bz, txs, results)
		codes["unjail "+codeStr(res)]++
		h.tr.Line("unjail", res.Code == 0, "%s => %s %d %s", line, codeStr(res), taken, h.snap)
	case "edit":
		// an edit-stake by the operator that changes nothing (same amount, chains, url, output, delegators)
		v, ok := h.snap.Vals[k.Addr.String()]
		if !ok {
			return
		}
		out := v.OutputAddress
		if out == nil {
			out = k.Addr
		}
		bz := chain.SignTx(chainID, k, chain.MsgNodeStake(k, v.StakedTokens.Int64(), v.Chains, v.ServiceURL, out, v.RewardDelegators), fee, h.nextEntropy(), "")
		line := h.stakeLine(height, k, k, v.StakedTokens.Int64(), v.Chains, v.ServiceURL, out, v.RewardDelegators)
		res, taken := h.deliver(height, bt, bz, txs, results)
		codes["stake "+codeStr(res)]++
		h.tr.Line("stake", res.Code == 0, "%s => %s %d %s", line, codeStr(res), taken, h.snap)
	case "stake":
		amt := h.snap.Params.StakeMinimum + 1000000
		chains, url := []string{"0001"}, "https://again.example:443"
		bz := chain.SignTx(chainID, k, chain.MsgNodeStake(k, amt, chains, url, k.Addr, nil), fee, h.nextEntropy(), "")
		line := h.stakeLine(height, k, k, amt, chains, url, k.Addr, nil)
		res, taken := h.deliver(height, bt, bz, txs, results)
		codes["stake "+codeStr(res)]++
		h.tr.Line("stake", res.Code == 0, "%s => %s %d %s", line, codeStr(res), taken, h.snap)
	}
}

// action draws one transaction or keeper call from the current state and emits its trace line.
func (h *Hist) action(height int64, bt time.Time, codes map[string]int, txs *[][]byte, results *[]abci.ResponseDeliverTx) {
	r, n := h.r, h.n
	staked := h.valsWhere(func(v nodesTypes.Validator) bool { return v.Status == sdk.Staked })
	jailed := h.valsWhere(func(v nodesTypes.Validator) bool { return v.Jailed })
	anyv := h.valsWhere(func(v nodesTypes.Validator) bool { return true })
	free := h.freeNodeKeys()
	min := h.snap.Params.StakeMinimum
	type choice struct {
		w    int
		kind string
	}
	menu := []choice{
		{h.w(14, "c23", 6), "stakenew"}, {h.w(h.w(5, "c19", 12), "c24", 12), "restake"}, {h.w(16, "c23", 40), "edit"}, {h.w(12, "c24", 22), "unstake"}, {h.w(10, "c25", 18), "unjail"},
		{h.w(7, "c22", 14), "param"}, {h.w(8, "c25", 18), "slash"}, {4, "burnchal"}, {4, "reward"}, {h.w(2, "c19", 5), "send"}, {h.w(2, "c21", 12), "chainedit"}, {h.w(2, "c23", 30), "deledit"}, {h.w(1, "c23", 14), "takeover"},
	}
	if height < 3 {
		// transactions of block h are decoded with the rules of height h-1: the modern node messages exist from block 3
		menu = []choice{{8, "slash"}, {4, "burnchal"}, {4, "reward"}}
	}
	tot := 0
	for _, c := range menu {
		tot += c.w
	}
	x := r.Intn(tot)
	kind := ""
	for _, c := range menu {
		if x < c.w {
			kind = c.kind
			break
		}
		x -= c.w
	}
	record := func(line string, res abci.ResponseDeliverTx, taken int) {
		codes[strings.Fields(line)[1]+" "+codeStr(res)]++
		h.tr.Line(strings.Fields(line)[1], res.Code == 0, "%s => %s %d %s", line, codeStr(res), taken, h.snap)
	}
	switch kind {
	case "stakenew":
		var k chain.Key
		if len(free) > 0 && !r.Chance(1, 8) {
			k = free[r.Intn(len(free))]
		} else {
			k = h.nodes[r.Intn(len(h.nodes))] // existing record: unstaking -> status error, staked -> edit
		}
		amt := min + int64([]int{-1, 0, 0, 1, 700000, 1000000, 1999999, 2300000, 15000000000, 30000000000, 45000700001, 300000000000}[r.Intn(12)])
		out := sdk.Address(k.Addr)
		signer := k
		switch r.Intn(6) {
		case 0:
			out = h.outs[r.Intn(2)].Addr
		case 1:
			out = h.outs[r.Intn(2)].Addr
			signer = h.keyOf[out.String()]
		case 2:
			out = nil
		case 3:
			signer = h.outs[3] // a stranger: not among the message's signers
		}
		chains := h.genChains(nil)
		del := h.genDelegators(nil)
		url := "https://node.example:443"
		bz := chain.SignTx(chainID, signer, chain.MsgNodeStake(k, amt, chains, url, out, del), fee, h.nextEntropy(), "")
		line := h.stakeLine(height, signer, k, amt, chains, url, out, del)
		res, taken := h.deliver(height, bt, bz, txs, results)
		record(line, res, taken)
	case "restake":
		// a well-formed MsgStake, signed by the operator, for a node that is unstaking (jailed or not), waiting to
		// unstake, jailed, or has just been paid out: only the last one is a fresh stake
		cands := h.valsWhere(func(v nodesTypes.Validator) bool {
			return v.Status == sdk.Unstaking || h.snap.Waiting[v.Address.String()] || v.Jailed
		})
		var k chain.Key
		if len(cands) > 0 && !r.Chance(1, 6) {
			un := h.valsWhere(func(v nodesTypes.Validator) bool { return v.Status == sdk.Unstaking })
			if len(un) > 0 && r.Chance(2, 3) {
				cands = un
			}
			k = h.keyOf[cands[r.Intn(len(cands))].Address.String()]
		} else if len(free) > 0 {
			k = free[r.Intn(len(free))] // (possibly a node that fully unstaked earlier)
		} else {
			return
		}
		amt := min + int64([]int{0, 1000000, 2300000, 15000000000}[r.Intn(4)])
		if v, ok := h.snap.Vals[k.Addr.String()]; ok && v.Status == sdk.Staked {
			amt = v.StakedTokens.Int64() + 15000000000
		}
		chains, url := []string{"0001"}, "https://re.example:443"
		bz := chain.SignTx(chainID, k, chain.MsgNodeStake(k, amt, chains, url, k.Addr, nil), fee, h.nextEntropy(), "")
		line := h.stakeLine(height, k, k, amt, chains, url, k.Addr, nil)
		res, taken := h.deliver(height, bt, bz, txs, results)
		record(line, res, taken)
	case "edit":
		if len(staked) == 0 {
			return
		}
		v := staked[r.Intn(len(staked))]
		k := h.keyOf[v.Address.String()]
		cur := v.StakedTokens.Int64()
		floor := int64(15000000000)
		amt := cur + int64([]int{-1000000, -1, 0, 0, 1, 1000000, 2000001}[r.Intn(7)])
		switch r.Intn(7) {
		case 3, 4:
			amt = cur + int64(r.Intn(3))*1000000
		case 0:
			amt = (cur/floor + 1) * floor // next bin exactly
		case 1:
			amt = (cur/floor+1)*floor - 1 // just below the next bin
		case 2:
			amt = cur + floor + int64(r.Intn(3))
		}
		if r.Chance(h.w(1, "c21", 2), 4) {
			// a bump below one unit of consensus power (< 1 POKT): the power-rank key moves iff a whole-POKT boundary is crossed
			rem := cur % 1000000
			switch r.Intn(4) {
			case 0: // cross the boundary with the smallest possible bump
				amt = cur + (1000000 - rem)
				if rem == 0 {
					amt = cur + 999999 // (no boundary within reach: stay inside)
				}
			case 1: // cross it by a fractional amount, e.g. x.7 -> (x+1).2 POKT
				amt = cur + (1000000 - rem) + int64(1+r.Intn(300000))
				if amt-cur >= 1000000 {
					amt = cur + 999999
				}
			case 2: // stay just below the boundary
				amt = cur + (1000000 - rem) - 1
				if amt <= cur {
					amt = cur + 400000
				}
			default:
				amt = cur + int64([]int{1, 400000, 700000, 999999}[r.Intn(4)])
			}
		}
		out := v.OutputAddress
		if out == nil && !r.Chance(1, 8) { // custodial genesis record: the operator sets an output address
			out = k.Addr
			if r.Chance(1, 3) {
				out = h.outs[r.Intn(2)].Addr
			}
		}
		signer := k
		okey, hasOut := outKeyOf(h, v)
		switch r.Intn(9) {
		case 0: // operator tries to move the output address
			out = h.outs[r.Intn(3)].Addr
		case 1: // current output signs and moves the output address
			if hasOut {
				signer = okey
			}
			out = h.outs[r.Intn(3)].Addr
		case 2: // current output signs, nothing about the output changes
			if hasOut {
				signer = okey
			}
		case 3: // the new output address signs
			nk := h.outs[r.Intn(3)]
			out, signer = nk.Addr, nk
		case 4: // a stranger
			signer = h.outs[3]
		case 5:
			out = nil
		}
		chains := h.genChains(v.Chains)
		del := v.RewardDelegators
		if r.Chance(1, 2) {
			del = h.genDelegators(v.RewardDelegators)
			if r.Chance(1, 2) {
				del = h.deriveDelegators(v.RewardDelegators, false)
			}
		}
		url := v.ServiceURL
		if r.Chance(1, 4) {
			url = fmt.Sprintf("https://n%d.example:443", r.Intn(3))
		}
		bz := chain.SignTx(chainID, signer, chain.MsgNodeStake(k, amt, chains, url, out, del), fee, h.nextEntropy(), "")
		line := h.stakeLine(height, signer, k, amt, chains, url, out, del)
		res, taken := h.deliver(height, bt, bz, txs, results)
		record(line, res, taken)
	case "chainedit":
		// an edit-stake that changes nothing but the chain list (same amount, output, delegators and url, signed by
		// the operator), so that it is accepted; nodes declaring several distinct chains are preferred
		if len(staked) == 0 {
			return
		}
		v := staked[r.Intn(len(staked))]
		for i := 0; i < 3 && distinct(v.Chains) < 2; i++ {
			v = staked[r.Intn(len(staked))]
		}
		k := h.keyOf[v.Address.String()]
		out := v.OutputAddress
		if out == nil {
			out = k.Addr
		}
		var chains []string
		if distinct(v.Chains) < 2 {
			chains = append(append([]string{}, v.Chains...), []string{"0003", "0021", "0040", "0001", "21", "2100"}[r.Intn(6)])
		} else {
			chains = h.deriveChains(v.Chains)
		}
		bz := chain.SignTx(chainID, k, chain.MsgNodeStake(k, v.StakedTokens.Int64(), chains, v.ServiceURL, out, v.RewardDelegators), fee, h.nextEntropy(), "")
		line := h.stakeLine(height, k, k, v.StakedTokens.Int64(), chains, v.ServiceURL, out, v.RewardDelegators)
		res, taken := h.deliver(height, bt, bz, txs, results)
		record(line, res, taken)
	case "takeover":
		// an otherwise acceptable edit-stake (same chains, url and delegators, amount = current stake or a bump the
		// signer can pay) of a staked node, signed by a third party (neither operator nor current output address) that
		// names itself as the output address; custodial records (stored output address nil) are preferred
		if len(staked) == 0 {
			return
		}
		v := staked[r.Intn(len(staked))]
		for i := 0; i < 6 && v.OutputAddress != nil; i++ {
			v = staked[r.Intn(len(staked))]
		}
		k := h.keyOf[v.Address.String()]
		var signer chain.Key
		found := false
		for i := 0; i < 8 && !found; i++ {
			signer = h.outs[r.Intn(len(h.outs))]
			found = !signer.Addr.Equals(v.Address) && (v.OutputAddress == nil || !signer.Addr.Equals(v.OutputAddress))
		}
		if !found {
			return
		}
		amt := v.StakedTokens.Int64() + []int64{0, 0, 1, 1000000, 15000000000}[r.Intn(5)]
		bz := chain.SignTx(chainID, signer, chain.MsgNodeStake(k, amt, v.Chains, v.ServiceURL, signer.Addr, v.RewardDelegators), fee, h.nextEntropy(), "")
		line := h.stakeLine(height, signer, k, amt, v.Chains, v.ServiceURL, signer.Addr, v.RewardDelegators)
		res, taken := h.deliver(height, bt, bz, txs, results)
		record(line, res, taken)
	case "deledit":
		// an edit-stake that changes nothing but the reward delegators (derived from the stored map), signed by the
		// operator or by the output address; nodes with a separate output address and stored delegators are preferred
		if len(staked) == 0 {
			return
		}
		v := staked[r.Intn(len(staked))]
		for i := 0; i < 6; i++ {
			if ok, has := outKeyOf(h, v); has && !ok.Addr.Equals(v.Address) && (len(v.RewardDelegators) > 0 || i >= 3) {
				break
			}
			v = staked[r.Intn(len(staked))]
		}
		k := h.keyOf[v.Address.String()]
		out := v.OutputAddress
		if out == nil { // custodial record: the operator may set the output address (once)
			out = k.Addr
			if r.Chance(1, 2) {
				out = h.outs[r.Intn(2)].Addr
			}
		}
		signer := k
		if okey, has := outKeyOf(h, v); has && len(v.RewardDelegators) > 0 && r.Chance(3, 5) {
			signer = okey
		}
		del := h.deriveDelegators(v.RewardDelegators, true)
		bz := chain.SignTx(chainID, signer, chain.MsgNodeStake(k, v.StakedTokens.Int64(), v.Chains, v.ServiceURL, out, del), fee, h.nextEntropy(), "")
		line := h.stakeLine(height, signer, k, v.StakedTokens.Int64(), v.Chains, v.ServiceURL, out, del)
		res, taken := h.deliver(height, bt, bz, txs, results)
		record(line, res, taken)
	case "unstake":
		cands := staked
		if r.Chance(1, 5) {
			cands = anyv
		}
		var addr sdk.Address
		if len(cands) == 0 || r.Chance(1, 12) {
			addr = h.nodes[r.Intn(len(h.nodes))].Addr
		} else {
			addr = cands[r.Intn(len(cands))].Address
		}
		signer := h.keyOf[addr.String()]
		if v, ok := h.snap.Vals[addr.String()]; ok {
			if ok2, has := outKeyOf(h, v); has && r.Chance(1, 3) {
				signer = ok2
			}
		}
		if r.Chance(1, 8) {
			signer = h.outs[3]
		}
		bz := chain.SignTx(chainID, signer, chain.MsgNodeUnstake(addr, signer.Addr), fee, h.nextEntropy(), "")
		line := fmt.Sprintf("tx unstake %d %s %s %d", height, hx(addr), hx(signer.Addr), fee)
		res, taken := h.deliver(height, bt, bz, txs, results)
		record(line, res, taken)
	case "unjail":
		cands := jailed
		if r.Chance(1, 5) {
			cands = anyv
		}
		if len(cands) == 0 {
			return
		}
		v := cands[r.Intn(len(cands))]
		for i := 0; i < 3 && v.StakedTokens.LT(sdk.NewInt(min)); i++ { // prefer nodes that could be unjailed
			v = cands[r.Intn(len(cands))]
		}
		signer := h.keyOf[v.Address.String()]
		if ok2, has := outKeyOf(h, v); has && r.Chance(1, 3) {
			signer = ok2
		}
		if r.Chance(1, 8) {
			signer = h.outs[3]
		}
		bz := chain.SignTx(chainID, signer, chain.MsgNodeUnjail(v.Address, signer.Addr), fee, h.nextEntropy(), "")
		now := time.Now()
		line := fmt.Sprintf("tx unjail %d %s %d %s %s %d", height, nanos(bt), now.UnixNano(), hx(v.Address), hx(signer.Addr), fee)
		res, taken := h.deliver(height, bt, bz, txs, results)
		record(line, res, taken)
	case "param":
		key, val := "pos/MaxValidators", interface{}(int64(1+r.Intn(6)))
		switch r.Intn(8) {
		case 6:
			key, val = "pos/SignedBlocksWindow", int64([]int{3, 4, 6, 10}[r.Intn(4)])
		case 1:
			key, val = "pos/StakeMinimum", int64(h.minStake+int64(r.Intn(3))*1000000-int64(r.Intn(2))*500000)
		case 2:
			key, val = "pos/UnstakingTime", time.Duration([]time.Duration{0, time.Minute, 4 * time.Minute, 2 * time.Hour}[r.Intn(4)])
		case 3:
			key, val = "pos/BlocksPerSession", int64(1+r.Intn(5))
		case 4:
			key, val = "pos/MaxJailedBlocks", int64([]int{1, 3, 8, 1000}[r.Intn(4)])
		case 5:
			key, val = "pos/MaxValidators", int64([]int{0, 1, 2, 8}[r.Intn(4)])
		}
		bz := chain.SignTx(chainID, h.owner, chain.MsgChangeParam(h.owner.Addr, key, val), fee, h.nextEntropy(), "")
		line := fmt.Sprintf("tx param %d %s %v %s %d", height, key, toInt(val), hx(h.owner.Addr), fee)
		res, taken := h.deliver(height, bt, bz, txs, results)
		record(line, res, taken)
	case "send":
		from := h.outs[r.Intn(len(h.outs))]
		to := h.nodes[r.Intn(len(h.nodes))].Addr
		if h.mode == "c19" || r.Chance(1, 4) {
			to = h.poolAddr // a plain transfer to the staking pool's module-account address
		}
		amt := int64(1 + r.Intn(5000000))
		bz := chain.SignTx(chainID, from, chain.MsgSend(from.Addr, to, amt), fee, h.nextEntropy(), "")
		line := fmt.Sprintf("tx send %d %s %s %d %d", height, hx(from.Addr), hx(to), amt, fee)
		res, taken := h.deliver(height, bt, bz, txs, results)
		record(line, res, taken)
	case "slash":
		var addr sdk.Address
		tokens := int64(0)
		if len(anyv) > 0 && !r.Chance(1, 10) {
			v := anyv[r.Intn(len(anyv))]
			addr, tokens = v.Address, v.StakedTokens.Int64()
		} else {
			addr = h.nodes[r.Intn(len(h.nodes))].Addr
		}
		amt := []int64{1, 999999, 1000000, tokens - min, tokens - min + 1, tokens - 1, tokens, tokens + 1, 3 * tokens, 0, -5}[r.Intn(11)]
		ctx := ctxAt(n, height, bt)
		n.App.VerifNodesKeeper().VerifSimpleSlash(ctx, addr, sdk.NewInt(amt))
		h.snap = dump(n, height, bt)
		h.tr.Line("slash", amt > 0, "inj slash %d %s %d => %s", height, hx(addr), amt, h.snap)
	case "burnchal":
		if len(anyv) == 0 || h.snap.Params.ServicerStakeFloorMultiplier == 0 {
			return // (BurnForChallenge divides by the floor multiplier)
		}
		v := anyv[r.Intn(len(anyv))]
		ch := int64(1 + r.Intn(2000000))
		ctx := ctxAt(n, height, bt)
		n.App.VerifNodesKeeper().BurnForChallenge(ctx, sdk.NewInt(ch), v.Address)
		h.snap = dump(n, height, bt)
		h.tr.Line("burnchal", true, "inj burnchal %d %s %d => %s", height, hx(v.Address), ch, h.snap)
	case "reward":
		if len(anyv) == 0 {
			return
		}
		v := anyv[r.Intn(len(anyv))]
		relays := int64(1 + r.Intn(100000))
		ctx := ctxAt(n, height, bt)
		n.App.VerifNodesKeeper().RewardForRelays(ctx, sdk.NewInt(relays), v.Address)
		h.snap = dump(n, height, bt)
		h.tr.Line("reward", true, "inj reward %d %s %d => %s", height, hx(v.Address), relays, h.snap)
	}
}

func toInt(v interface{}) int64 {
	switch x := v.(type) {
	case int64:
		return x
	case time.Duration:
		return int64(x)
	}
	return 0
}

var _ = sort.Strings
