// nodesdrive: drives the real PocketCoreApp through generated node life-cycle histories (stake, edit-stake,
// begin-unstake, unjail, slashing by missed votes / double-sign evidence / challenge burns, governance
// parameter changes, block-time jumps) and dumps the x/nodes state after every phase of every block
// (BeginBlock, every DeliverTx / keeper call, EndBlock) for the Lean driver (Driver/C19..C25).
package main

import (
	"flag"
	"fmt"
	"os"
	"sort"
	"strings"
	"time"

	sdk "github.com/pokt-network/pocket-core/types"
	nodesTypes "github.com/pokt-network/pocket-core/x/nodes/types"
	abci "github.com/tendermint/tendermint/abci/types"
	"github.com/tendermint/tendermint/state/txindex"
	tmtypes "github.com/tendermint/tendermint/types"
	dbm "github.com/tendermint/tm-db"
	"verifharness/internal/chain"
	"verifharness/internal/gen"
)

const chainID = "verif-nodes"

type Hist struct {
	id       int
	mode     string
	n        *chain.Node
	r        *gen.R
	tr       *gen.Trace
	nodes    []chain.Key
	outs     []chain.Key
	owner    chain.Key
	keyOf    map[string]chain.Key // address (upper hex) -> key
	snap     *Snap
	tm       map[string]int64  // consensus validator set as accumulated from the updates: address -> power
	pkAddr   map[string]string // pubkey hex -> address
	flaky    map[string]int
	entropy  int64
	t        time.Time
	totalTxs int64
	poolAddr sdk.Address
	minStake int64
	recent   []string // addresses that recently left the consensus set
	script   *Script  // a directed scenario instead of random actions (nil = random)
	silent   bool     // block 1 (codec upgrade + state conversion, pre-modern rules) is run but not traced
	genUpd   []abci.ValidatorUpdate
}

// Script is a directed scenario: per height the nodes that miss their vote and the actions to deliver.
type Script struct {
	miss    map[int64][]int    // height -> indexes of node keys that do not sign
	actions map[int64][]string // height -> "unstake:<i>" | "stake:<i>"
	step    time.Duration
	window  int64
	// optional overrides of the scripted parameters (0 = the defaults 2 / 1 minute / 1000)
	bps       int64
	unstaking time.Duration
	maxJailed int64
	// height -> indexes of node keys that are still reported in LastCommitInfo although they already left the
	// consensus set (Tendermint applies a validator update two blocks later)
	linger map[int64][]int
}

func (h *Hist) nextEntropy() int64 { h.entropy++; return h.entropy }

func main() {
	seed := flag.Uint64("seed", 1, "")
	nBlocks := flag.Int("n", 200, "total number of blocks over all histories")
	out := flag.String("out", "trace.txt", "")
	mode := flag.String("mode", "all", "generator bias: all|c19|c21|c22|c23|c24|c25")
	perHist := flag.Int("blocks", 36, "blocks per history")
	flag.Parse()
	tr := gen.NewTrace(*out)
	r := gen.New(*seed)
	codes := map[string]int{}
	done := 0
	for id := 0; done < *nBlocks; id++ {
		nb := *perHist
		if *nBlocks-done < nb {
			nb = *nBlocks - done
		}
		h := newHist(id, *mode, r, tr)
		for i := 0; i < nb; i++ {
			h.block(codes)
		}
		done += nb
	}
	extra := map[string]interface{}{"codes": codes}
	tr.Close(extra)
	fmt.Fprintf(os.Stderr, "nodesdrive: %d lines\n", tr.Lines)
}

func newHist(id int, mode string, r *gen.R, tr *gen.Trace) *Hist {
	// the chain library's modern schedule: amino genesis at height 0, codec upgrade + state conversion in
	// block 1, every feature and the validator split from block 2 (chain.FirstModernHeight)
	chain.ModernGlobals()
	h := &Hist{id: id, mode: mode, r: r, tr: tr, keyOf: map[string]chain.Key{}, tm: map[string]int64{}, pkAddr: map[string]string{}, flaky: map[string]int{}}
	for i := 0; i < 8; i++ {
		h.nodes = append(h.nodes, chain.KeyN(uint64(100+i)))
	}
	for i := 0; i < 4; i++ {
		h.outs = append(h.outs, chain.KeyN(uint64(200+i)))
	}
	h.owner = chain.KeyN(1000)
	all := append(append([]chain.Key{}, h.nodes...), h.outs...)
	all = append(all, h.owner)
	for _, k := range all {
		h.keyOf[k.Addr.String()] = k
		h.pkAddr[hx(k.Pub.RawBytes())] = k.Addr.String()
	}
	h.minStake = 15000000000
	gt := time.Date(2024, 1, 1, 0, 0, 0, 0, time.UTC).Add(time.Duration(r.Intn(1000)) * time.Hour)
	if r.Chance(1, 12) || ((mode == "c25" || mode == "all") && id%5 == 4) {
		// block time far ahead of the local clock (also the scripted jail / unjail-timing history): JailedUntil then lies
		// after time.Now(), so an implementation that consults the wall clock refuses every unjail
		gt = time.Date(2100, 1, 1, 0, 0, 0, 0, time.UTC)
	}
	o := chain.GenesisOpts{ChainID: chainID, GenesisTime: gt, Accounts: all, Owner: h.owner, MinStake: h.minStake,
		Balance: 200000000000}
	nGen := 3 + r.Intn(4)
	if (mode == "c25" || mode == "all") && id%5 == 3 {
		// stale missed-block bits: node 0 misses blocks 4-5, unstakes, is paid out, stakes again and signs
		h.script = &Script{miss: map[int64][]int{4: {0}, 5: {0}}, actions: map[int64][]string{5: {"unstake:0"}, 9: {"stake:0"}}, step: 2 * time.Minute, window: 100}
		nGen = 3
	}
	if (mode == "c25" || mode == "all") && id%5 == 4 {
		// downtime jail and unjail timing: node 1 misses blocks 3-8 (window 10, 5 must be signed: jailed at the 6th miss),
		// jail period 10 minutes, blocks every 2 minutes; unjail attempts before, just before, exactly at and after the end
		h.script = &Script{miss: map[int64][]int{3: {1}, 4: {1}, 5: {1}, 6: {1}, 7: {1}, 8: {1}},
			actions: map[int64][]string{9: {"unjail:1"}, 11: {"unjail:1"}, 12: {"unjail:1"}, 13: {"unjail:1"}, 14: {"unjail:1"}, 15: {"unjail:1"}}, step: 2 * time.Minute, window: 10}
		nGen = 3
	}
	if (mode == "c25" || mode == "all") && id%10 == 6 {
		// an edit-stake during the downtime jail: node 1 misses blocks 3-8 (jailed in block 8 until t8 + 10 minutes = t13),
		// sends an edit-stake that changes nothing in block 9 and asks to be unjailed in blocks 10 and 11
		h.script = &Script{miss: map[int64][]int{3: {1}, 4: {1}, 5: {1}, 6: {1}, 7: {1}, 8: {1}},
			actions: map[int64][]string{9: {"edit:1"}, 10: {"unjail:1"}, 11: {"unjail:1"}}, step: 2 * time.Minute, window: 10}
		nGen = 3
	}
	if (mode == "c25" || mode == "all") && id%10 == 1 {
		// a downtime jail that spans a signing-window boundary: node 1 misses blocks 4-9 (window 10, 5 must be signed:
		// jailed at the 6th miss, in block 9, until t9 + 10 minutes = t14), is still in the commit of block 10 (the
		// window boundary: per-window reset of its signing info) and tries to unjail in blocks 11, 12, 13 (early),
		// 14 (exactly at the end) and 15
		h.script = &Script{miss: map[int64][]int{4: {1}, 5: {1}, 6: {1}, 7: {1}, 8: {1}, 9: {1}}, linger: map[int64][]int{10: {1}, 11: {1}},
			actions: map[int64][]string{11: {"unjail:1"}, 12: {"unjail:1"}, 13: {"unjail:1"}, 14: {"unjail:1"}, 15: {"unjail:1"}}, step: 2 * time.Minute, window: 10}
		nGen = 3
	}
	if (mode == "c24" || mode == "all") && id%5 == 2 {
		// a waiting-to-unstake entry that outlives its record and hits the next stake of the same key (sessions of 4
		// blocks, blocks every 2 minutes, unstaking time 11 minutes, at most 5 jailed blocks): node 1 asks to unstake in
		// block 5, misses blocks 3-8 (jailed at the 6th miss) and is released into Unstaking at the session end 8; while
		// unstaking it is jailed for too long (forced unstake = waiting entry again, end of block 13), is paid out and
		// deleted at the end of block 14 (not a session end), stakes afresh in block 15, and the session end 16 releases
		// the waiting entry
		h.script = &Script{miss: map[int64][]int{3: {1}, 4: {1}, 5: {1}, 6: {1}, 7: {1}, 8: {1}},
			actions: map[int64][]string{5: {"unstake:1"}, 15: {"stake:1"}}, step: 2 * time.Minute, window: 10,
			bps: 4, unstaking: 11 * time.Minute, maxJailed: 5}
		nGen = 3
	}
	o.Mutate = func(g *chain.Genesis) {
		p := &g.Nodes.Params
		p.MaxValidators = int64(1 + r.Intn(5))
		p.SessionBlockFrequency = int64(2 + r.Intn(4))
		p.UnstakingTime = []time.Duration{0, time.Minute, 5 * time.Minute, time.Hour, 30 * time.Hour}[r.Intn(5)]
		p.SignedBlocksWindow = int64([]int{10, 10, 11, 12}[r.Intn(4)])
		p.MinSignedPerWindow = sdk.NewDecWithPrec(int64([]int{50, 60, 75, 90}[r.Intn(4)]), 2)
		p.DowntimeJailDuration = []time.Duration{time.Minute, 10 * time.Minute, 2 * time.Hour}[r.Intn(3)]
		p.MaxJailedBlocks = int64([]int{2, 5, 9, 1000}[r.Intn(4)])
		p.SlashFractionDowntime = sdk.NewDecWithPrec(int64([]int{1, 100, 100, 3000, 10000}[r.Intn(5)]), 4)
		p.SlashFractionDoubleSign = sdk.NewDecWithPrec(int64([]int{5, 5, 50, 100}[r.Intn(4)]), 2)
		p.MaxEvidenceAge = []time.Duration{2 * time.Minute, 30 * time.Minute, 3 * time.Hour}[r.Intn(3)]
		p.MaximumChains = int64([]int{2, 3, 15}[r.Intn(3)])
		if h.script != nil {
			p.MaxValidators, p.SessionBlockFrequency, p.UnstakingTime, p.SignedBlocksWindow = 5, 2, time.Minute, h.script.window
			p.MinSignedPerWindow = sdk.NewDecWithPrec(50, 2)
			p.DowntimeJailDuration = 10 * time.Minute
			p.SlashFractionDowntime = sdk.NewDecWithPrec(1, 4)
			p.MaxJailedBlocks = 1000
			if h.script.bps != 0 {
				p.SessionBlockFrequency = h.script.bps
			}
			if h.script.unstaking != 0 {
				p.UnstakingTime = h.script.unstaking
			}
			if h.script.maxJailed != 0 {
				p.MaxJailedBlocks = h.script.maxJailed
			}
		}
		// the stake-weight parameters are skipped by InitGenesis (their feature is not active at height 0);
		// the owner sets them through governance in block 3 (see setup)
		// and the genesis ACL must list exactly the parameters that exist at genesis: the owner extends it first
		for i := 0; i < nGen; i++ {
			k := h.nodes[i]
			tok := h.minStake + int64([]int{0, 1, 999999, 1000000, 2500000, 1000000000, 5000000000, 15000000000, 30000000001}[r.Intn(9)])
			if h.script != nil {
				tok = h.minStake + 1000000000
			}
			var outAddr sdk.Address
			switch r.Intn(4) {
			case 0:
				outAddr = nil // custodial record
			case 1:
				outAddr = h.outs[r.Intn(2)].Addr
			default:
				outAddr = k.Addr
			}
			v := nodesTypes.Validator{Address: k.Addr, PublicKey: k.Pub, Status: sdk.Staked, Chains: []string{"0001"}, ServiceURL: "https://n.example:443",
				StakedTokens: sdk.NewInt(tok), OutputAddress: outAddr}
			if (mode == "c23" || mode == "all") && r.Chance(1, 2) {
				// a record that already names reward delegators: delegator edits derived from a stored map are
				// possible from the first modern block on
				v.RewardDelegators = map[string]uint32{strings.ToLower(h.outs[2].Addr.String()): uint32(1 + r.Intn(40))}
				if r.Chance(1, 2) {
					v.RewardDelegators[strings.ToLower(h.outs[3].Addr.String())] = uint32(1 + r.Intn(40))
				}
			}
			if r.Chance(1, 10) && h.script == nil { // (scripted histories start with everybody in service)
				v.Jailed = true
			}
			if mode == "c19" && id%4 == 2 && i == nGen-1 {
				// a genesis file exported while an unstake was pending: InitGenesis leaves these tokens out of the pool
				v.Status, v.Jailed = sdk.Unstaking, false
				v.UnstakingCompletionTime = gt.Add(40 * time.Hour) // (not before the untraced block 1 is over)
			}
			g.Nodes.Validators = append(g.Nodes.Validators, v)
		}
		// one node key with a small balance (stake / edit "not enough coins")
		for _, a := range g.Auth.Accounts {
			if a.GetAddress().Equals(h.nodes[7].Addr) {
				_ = a.SetCoins(sdk.NewCoins(sdk.NewCoin(sdk.DefaultStakeDenom, sdk.NewInt(15000200000))))
			}
		}
	}
	gs := chain.BuildGenesis(o)
	h.n = chain.NewNode(gs, chainID, gt, dbm.NewMemDB(), dbm.NewMemDB(), dbm.NewMemDB(), false)
	res := h.n.InitChain()
	h.t = gt
	h.poolAddr = h.n.App.VerifAccountKeeper().GetModuleAddress(nodesTypes.StakedPoolName)
	for _, k := range h.nodes {
		h.flaky[k.Addr.String()] = []int{0, 0, 1, 3, 6}[r.Intn(5)]
	}
	h.snap = dump(h.n, 0, gt)
	h.applyUpdates(res.Validators)
	h.genUpd = append(h.genUpd, res.Validators...)
	// block 1: empty, everybody signs; its end state is the "genesis" of the modelled (modern) history
	h.silent = true
	h.block(map[string]int{})
	h.silent = false
	h.tr.Line("genesis", true, "genesis %d %s %s => %s %s", id, hx(h.poolAddr), nanos(h.t), updStr(h.genUpd, h), h.snap)
	return h
}

func updStr(us []abci.ValidatorUpdate, h *Hist) string {
	if len(us) == 0 {
		return "upd=-"
	}
	var ps []string
	for _, u := range us {
		ps = append(ps, fmt.Sprintf("%s:%d", hx(u.PubKey.Data), u.Power))
	}
	return "upd=" + strings.Join(ps, ";")
}

func (h *Hist) applyUpdates(us []abci.ValidatorUpdate) {
	for _, u := range us {
		a, ok := h.pkAddr[hx(u.PubKey.Data)]
		if !ok {
			continue
		}
		if u.Power == 0 {
			if _, in := h.tm[a]; in {
				h.recent = append(h.recent, a)
			}
			delete(h.tm, a)
		} else {
			h.tm[a] = u.Power
		}
	}
}

func (h *Hist) tmAddrs() []string {
	var as []string
	for a := range h.tm {
		as = append(as, a)
	}
	sort.Strings(as)
	return as
}

// block runs one block in phases, dumping the state after every phase.
func (h *Hist) block(codes map[string]int) {
	n, r := h.n, h.r
	height := n.Height + 1
	step := []time.Duration{time.Second, 20 * time.Second, time.Minute, 3 * time.Minute, 7 * time.Minute, time.Hour, 31 * time.Hour}[r.Intn(7)]
	if h.script != nil {
		step = h.script.step
	}
	if h.silent {
		step = time.Minute
	}
	h.t = h.t.Add(step)
	bt := h.t.UTC()
	// votes of the consensus set
	var votes []abci.VoteInfo
	var vs []string
	for _, a := range h.tmAddrs() {
		signed := h.silent || !r.Chance(h.flaky[a], 8)
		if h.script != nil {
			signed = true
			for _, i := range h.script.miss[height] {
				if h.nodes[i].Addr.String() == a {
					signed = false
				}
			}
		}
		pw := h.tm[a]
		if r.Chance(1, 40) {
			pw = pw * 3 // a power that is not the node's current one (evidence of an older, larger stake)
		}
		addr, _ := sdk.AddressFromHex(a)
		votes = append(votes, abci.VoteInfo{Validator: abci.Validator{Address: addr, Power: pw}, SignedLastBlock: signed})
		vs = append(vs, fmt.Sprintf("%s:%d:%d", hx(addr), pw, b2i(signed)))
	}
	if h.script != nil && !h.silent {
		for _, i := range h.script.linger[height] {
			k := h.nodes[i]
			if _, member := h.tm[k.Addr.String()]; !member {
				votes = append(votes, abci.VoteInfo{Validator: abci.Validator{Address: k.Addr, Power: 16000}, SignedLastBlock: true})
				vs = append(vs, fmt.Sprintf("%s:%d:%d", hx(k.Addr), 16000, 1))
			}
		}
	}
	if !h.silent && h.script == nil && r.Chance(1, 15) { // a vote of somebody who is not (or no longer) a validator
		k := h.nodes[r.Intn(len(h.nodes))]
		if _, member := h.tm[k.Addr.String()]; !member { // (one vote per validator per block)
			votes = append(votes, abci.VoteInfo{Validator: abci.Validator{Address: k.Addr, Power: 15000}, SignedLastBlock: r.Bool()})
			vs = append(vs, fmt.Sprintf("%s:%d:%d", hx(k.Addr), 15000, b2i(votes[len(votes)-1].SignedLastBlock)))
		}
	}
	var evs []abci.Evidence
	var es []string
	if height > 2 && h.script == nil && r.Chance(h.w(7, "c25", 20), 100) {
		cands := append(h.tmAddrs(), h.recent...)
		if len(cands) > 0 {
			a := cands[r.Intn(len(cands))]
			addr, _ := sdk.AddressFromHex(a)
			pw := int64(15000 + r.Intn(3)*15000)
			if p, ok := h.tm[a]; ok && r.Chance(2, 3) {
				pw = p
			}
			eh := height - int64(r.Intn(4))
			if r.Chance(1, 10) {
				eh = height + 2
			}
			age := []time.Duration{0, time.Minute, h.snap.Params.MaxEvidenceAge - time.Second, h.snap.Params.MaxEvidenceAge, h.snap.Params.MaxEvidenceAge + time.Second}[r.Intn(5)]
			et := bt.Add(-age)
			evs = append(evs, abci.Evidence{Type: tmtypes.ABCIEvidenceTypeDuplicateVote, Validator: abci.Validator{Address: addr, Power: pw}, Height: eh, Time: et, TotalVotingPower: 100000})
			es = append(es, fmt.Sprintf("%s:%d:%d:%s", hx(addr), pw, eh, nanos(et)))
		}
	}
	proposer := h.nodes[0].Addr
	if as := h.tmAddrs(); len(as) > 0 {
		proposer, _ = sdk.AddressFromHex(as[r.Intn(len(as))])
	}
	// the block itself: transactions are generated one by one from the current state, so the block
	// stored in the block store carries no transactions (nothing on the modelled path reads them back)
	lastCommit := tmtypes.NewCommit(n.LastBlockID, nil)
	blk := &tmtypes.Block{
		Header: tmtypes.Header{ChainID: n.ChainID, Height: height, Time: bt, TotalTxs: h.totalTxs, LastBlockID: n.LastBlockID, AppHash: n.AppHash,
			ProposerAddress: []byte(proposer), ValidatorsHash: []byte("verif-validators-hash-0000000000"), NextValidatorsHash: []byte("verif-validators-hash-0000000000"),
			ConsensusHash: []byte("verif-consensus-hash-00000000000")},
		LastCommit: lastCommit,
	}
	blk.Header.DataHash = tmtypes.Txs{}.Hash()
	blk.Header.LastCommitHash = lastCommit.Hash()
	parts := blk.MakePartSet(65536)
	bid := tmtypes.BlockID{Hash: blk.Hash(), PartsHeader: parts.Header()}
	n.BlockStore.SaveBlock(blk, parts, tmtypes.NewCommit(bid, nil))
	hdr := abci.Header{ChainID: n.ChainID, Height: height, Time: bt, TotalTxs: h.totalTxs,
		LastBlockId: abci.BlockID{Hash: n.LastBlockID.Hash, PartsHeader: abci.PartSetHeader{Total: int32(n.LastBlockID.PartsHeader.Total), Hash: n.LastBlockID.PartsHeader.Hash}},
		AppHash:     n.AppHash, ProposerAddress: []byte(proposer), DataHash: blk.Header.DataHash, LastCommitHash: blk.Header.LastCommitHash,
		ValidatorsHash: blk.Header.ValidatorsHash, NextValidatorsHash: blk.Header.NextValidatorsHash, ConsensusHash: blk.Header.ConsensusHash}
	n.App.BeginBlock(abci.RequestBeginBlock{Hash: bid.Hash, Header: hdr, LastCommitInfo: abci.LastCommitInfo{Votes: votes}, ByzantineValidators: evs})
	h.snap = dump(n, height, bt)
	if !h.silent {
		h.tr.Line("begin", len(votes) > 0, "begin %d %s %s %s %s => %s", height, nanos(bt), hx(proposer), joinOr(vs), joinOr(es), h.snap)
	}
	// transactions and keeper calls
	batch := txindex.NewBatch(0)
	var txs [][]byte
	var results []abci.ResponseDeliverTx
	k := r.Intn(4)
	if r.Chance(1, 5) {
		k += 3
	}
	if h.silent || h.script != nil {
		k = 0
	}
	if h.script != nil && !h.silent {
		for _, a := range h.script.actions[height] {
			h.scripted(a, height, bt, codes, &txs, &results)
		}
	}
	if height == 3 {
		h.setup(height, bt, codes, &txs, &results)
	}
	for i := 0; i < k; i++ {
		h.action(height, bt, codes, &txs, &results)
	}
	eb := n.App.EndBlock(abci.RequestEndBlock{Height: height})
	h.snap = dump(n, height, bt)
	h.applyUpdates(eb.ValidatorUpdates)
	if h.silent {
		h.genUpd = append(h.genUpd, eb.ValidatorUpdates...)
	} else {
		h.tr.Line("end", len(eb.ValidatorUpdates) > 0, "end %d %s => %s %s", height, nanos(bt), updStr(eb.ValidatorUpdates, h), h.snap)
	}
	if !h.silent {
		// lookups by chain (GetValidatorsByChain: prefix scan of 0x22) on the end-of-block state
		ctx := ctxAt(n, height, bt)
		for _, ch := range h.lookupChains() {
			as, _ := n.App.VerifNodesKeeper().GetValidatorsByChain(ctx, ch)
			var xs []string
			for _, a := range as {
				xs = append(xs, hx(a))
			}
			h.tr.Line("lookup", len(xs) > 0, "lookup %d %s => %s", height, ch, joinOr(xs))
		}
	}
	c := n.App.Commit()
	batch = txindex.NewBatch(int64(len(txs)))
	for i, t := range txs {
		_ = batch.Add(&tmtypes.TxResult{Height: height, Index: uint32(i), Tx: tmtypes.Tx(t), Result: results[i]})
	}
	if err := n.Indexer.AddBatch(batch); err != nil {
		panic(err)
	}
	h.totalTxs += int64(len(txs))
	n.Height, n.LastBlockID, n.AppHash, n.Time = height, bid, c.Data, bt
	if len(h.recent) > 6 {
		h.recent = h.recent[len(h.recent)-6:]
	}
}

func b2i(b bool) int {
	if b {
		return 1
	}
	return 0
}

func joinOr(xs []string) string {
	if len(xs) == 0 {
		return "-"
	}
	return strings.Join(xs, ";")
}

// w returns the weight `base`, or `alt` when the run is biased towards `mode`.
func (h *Hist) w(base int, mode string, alt int) int {
	if h.mode == mode {
		return alt
	}
	return base
}
