package main

import (
	"encoding/binary"
	"encoding/hex"
	"fmt"
	"sort"
	"strings"
	"time"

	sdk "github.com/pokt-network/pocket-core/types"
	authexp "github.com/pokt-network/pocket-core/x/auth/exported"
	nodesTypes "github.com/pokt-network/pocket-core/x/nodes/types"
	abci "github.com/tendermint/tendermint/abci/types"
	"verifharness/internal/chain"
)

const zeroTimeNanos = "-62135596800000000000"

func nanos(t time.Time) string {
	if t.IsZero() {
		return zeroTimeNanos
	}
	return fmt.Sprint(t.UnixNano())
}

func hx(b []byte) string {
	if len(b) == 0 {
		return "-"
	}
	return hex.EncodeToString(b)
}

// decStr renders a BigDec as the integer it is scaled to (10^18).
func decStr(d sdk.BigDec) string {
	s := d.String() // d.dddddddddddddddddd
	neg := strings.HasPrefix(s, "-")
	s = strings.TrimPrefix(s, "-")
	s = strings.Replace(s, ".", "", 1)
	s = strings.TrimLeft(s, "0")
	if s == "" {
		return "0"
	}
	if neg {
		return "-" + s
	}
	return s
}

// Snap is the harness' own reading of the state (used by the generator and rendered into the trace).
type Snap struct {
	Height  int64
	Time    time.Time
	Vals    map[string]nodesTypes.Validator
	Order   []string
	Waiting map[string]bool
	SignInf map[string]nodesTypes.ValidatorSigningInfo
	Bal     map[string]sdk.BigInt
	Pool    sdk.BigInt
	FeeColl sdk.BigInt
	Params  nodesTypes.Params
	Words   []string
}

func ctxAt(n *chain.Node, h int64, t time.Time) sdk.Context {
	return sdk.NewContext(n.App.Store(), abci.Header{ChainID: n.ChainID, Height: h, Time: t.UTC()}, false, n.App.Logger()).WithBlockStore(n.BlockStore)
}

func rawPrefix(ctx sdk.Ctx, n *chain.Node, prefix byte) []chain.KV {
	st := ctx.KVStore(n.App.Keys["pos"])
	it, _ := sdk.KVStorePrefixIterator(st, []byte{prefix})
	defer it.Close()
	var out []chain.KV
	for ; it.Valid(); it.Next() {
		out = append(out, chain.KV{K: append([]byte(nil), it.Key()...), V: append([]byte(nil), it.Value()...)})
	}
	return out
}

// dump reads the nodes-module state from the working multistore (the deliver context of pocket-core's
// baseapp is the root multistore itself, so this is the state "as of now" also inside a block).
func dump(n *chain.Node, h int64, t time.Time) *Snap {
	ctx := ctxAt(n, h, t)
	nk := n.App.VerifNodesKeeper()
	ak := n.App.VerifAccountKeeper()
	cdc := n.App.VerifCodec()
	s := &Snap{Height: h, Time: t, Vals: map[string]nodesTypes.Validator{}, Waiting: map[string]bool{}, SignInf: map[string]nodesTypes.ValidatorSigningInfo{}, Bal: map[string]sdk.BigInt{}}
	var w []string
	add := func(f string, a ...interface{}) { w = append(w, fmt.Sprintf(f, a...)) }
	p := nk.GetParams(ctx)
	s.Params = p
	add("P=%d,%d,%d,%d,%d,%d,%d,%s,%s,%d,%d,%d,%s,%s", int64(p.UnstakingTime), p.MaxValidators, p.StakeMinimum, p.SessionBlockFrequency,
		p.SignedBlocksWindow, nk.MinBlocksSignedPerWindow(ctx), int64(p.DowntimeJailDuration), decStr(p.SlashFractionDowntime), decStr(p.SlashFractionDoubleSign),
		int64(p.MaxEvidenceAge), p.MaxJailedBlocks, p.MaximumChains, nk.ServicerStakeFloorMultiplier(ctx).String(), nk.ServicerStakeWeightCeiling(ctx).String())
	// accounts
	s.Pool, s.FeeColl = sdk.ZeroInt(), sdk.ZeroInt()
	var bals []string
	for _, a := range ak.GetAllAccounts(ctx) {
		amt := a.GetCoins().AmountOf(sdk.DefaultStakeDenom)
		if m, ok := a.(authexp.ModuleAccountI); ok {
			switch m.GetName() {
			case nodesTypes.StakedPoolName:
				s.Pool = amt
			case "fee_collector":
				s.FeeColl = amt
			}
			continue
		}
		s.Bal[a.GetAddress().String()] = amt
		bals = append(bals, fmt.Sprintf("b=%s,%s", hx(a.GetAddress()), amt.String()))
	}
	sort.Strings(bals)
	add("pool=%s", s.Pool.String())
	add("sup=%s", ak.GetSupply(ctx).GetTotal().AmountOf(sdk.DefaultStakeDenom).String())
	// records (raw prefix 0x21, decoded by the keeper's own unmarshaller)
	for _, kv := range rawPrefix(ctx, n, 0x21) {
		v, err := nk.UnmarshalValidator(ctx, kv.V)
		if err != nil {
			add("v21x=%s", hx(kv.K))
			continue
		}
		if hx(kv.K[1:]) != hx(v.Address) {
			add("v21k=%s,%s", hx(kv.K), hx(v.Address))
		}
		s.Vals[v.Address.String()] = v
		s.Order = append(s.Order, v.Address.String())
		var chs []string
		for _, c := range v.Chains {
			chs = append(chs, strings.ToLower(c))
		}
		ds := "-"
		if len(v.RewardDelegators) > 0 {
			var ps []string
			for _, k := range chain.SortedKeys(v.RewardDelegators) {
				ps = append(ps, fmt.Sprintf("%s:%d", strings.ToLower(k), v.RewardDelegators[k]))
			}
			ds = strings.Join(ps, ";")
		}
		cs := "-"
		if len(chs) > 0 {
			cs = strings.Join(chs, ";")
		}
		jailed := 0
		if v.Jailed {
			jailed = 1
		}
		add("v=%s,%s,%d,%d,%s,%s,%s,%s,%s,%s", hx(v.Address), hx(v.PublicKey.RawBytes()), jailed, int(v.Status), cs, hx([]byte(v.ServiceURL)),
			v.StakedTokens.String(), nanos(v.UnstakingCompletionTime), hx(v.OutputAddress), ds)
	}
	// 0x23 staked by power: key = 0x23 | power(8, big endian) | ^address ; value = address
	for _, kv := range rawPrefix(ctx, n, 0x23) {
		if len(kv.K) != 29 {
			add("i23x=%s,%s", hx(kv.K), hx(kv.V))
			continue
		}
		addr := make([]byte, 20)
		for i := range addr {
			addr[i] = ^kv.K[9+i]
		}
		if hx(addr) != hx(kv.V) {
			add("i23x=%s,%s", hx(kv.K), hx(kv.V))
			continue
		}
		add("i23=%d,%s", binary.BigEndian.Uint64(kv.K[1:9]), hx(addr))
	}
	// 0x22 by chain: key = 0x22 | chain (1 or 2 bytes) | address ; value empty
	for _, kv := range rawPrefix(ctx, n, 0x22) {
		l := len(kv.K) - 21
		if l < 1 || l > 2 || len(kv.V) != 0 {
			add("i22x=%s,%s", hx(kv.K), hx(kv.V))
			continue
		}
		add("i22=%s,%s", hx(kv.K[1:1+l]), hx(kv.K[1+l:]))
	}
	// 0x41 unstaking queue: key = 0x41 | sortable time ; value = length-prefixed address list
	for _, kv := range rawPrefix(ctx, n, 0x41) {
		tm, err := sdk.ParseTimeBytes(kv.K[1:])
		var addrs sdk.Addresses
		err2 := cdc.UnmarshalBinaryLengthPrefixed(kv.V, &addrs, h)
		if err != nil || err2 != nil {
			add("i41x=%s,%s", hx(kv.K), hx(kv.V))
			continue
		}
		var as []string
		for _, a := range addrs {
			as = append(as, hx(a))
		}
		l := "-"
		if len(as) > 0 {
			l = strings.Join(as, ";")
		}
		add("i41=%s,%s", nanos(tm), l)
	}
	// 0x43 waiting: key = 0x43 | address ; value = address
	for _, kv := range rawPrefix(ctx, n, 0x43) {
		if hx(kv.K[1:]) != hx(kv.V) {
			add("i43x=%s,%s", hx(kv.K), hx(kv.V))
			continue
		}
		s.Waiting[sdk.Address(kv.V).String()] = true
		add("i43=%s", hx(kv.V))
	}
	// 0x31 previous-state power: key = 0x31 | address ; value = length-prefixed int64
	for _, kv := range rawPrefix(ctx, n, 0x31) {
		var pw sdk.Int64
		if err := cdc.UnmarshalBinaryLengthPrefixed(kv.V, &pw, h); err != nil {
			add("i31x=%s,%s", hx(kv.K), hx(kv.V))
			continue
		}
		add("i31=%s,%d", hx(kv.K[1:]), int64(pw))
	}
	add("tp=%s", nk.PrevStateValidatorsPower(ctx).String())
	// 0x11 signing infos
	for _, kv := range rawPrefix(ctx, n, 0x11) {
		var si nodesTypes.ValidatorSigningInfo
		if err := cdc.UnmarshalBinaryLengthPrefixed(kv.V, &si, h); err != nil {
			add("six=%s,%s", hx(kv.K), hx(kv.V))
			continue
		}
		s.SignInf[sdk.Address(kv.K[1:]).String()] = si
		add("si=%s,%d,%d,%s,%d,%d", hx(kv.K[1:]), si.StartHeight, si.Index, nanos(si.JailedUntil), si.MissedBlocksCounter, si.JailedBlocksCounter)
	}
	// 0x12 missed-block bit array: key = 0x12 | address | index (8, little endian) ; value = length-prefixed bool
	for _, kv := range rawPrefix(ctx, n, 0x12) {
		if len(kv.K) != 29 {
			add("mbx=%s,%s", hx(kv.K), hx(kv.V))
			continue
		}
		var b sdk.Bool
		if err := cdc.UnmarshalBinaryLengthPrefixed(kv.V, &b, h); err != nil {
			add("mbx=%s,%s", hx(kv.K), hx(kv.V))
			continue
		}
		if bool(b) {
			add("mb=%s,%d", hx(kv.K[1:21]), int64(binary.LittleEndian.Uint64(kv.K[21:])))
		}
	}
	w = append(w, bals...)
	s.Words = w
	return s
}

func (s *Snap) String() string { return strings.Join(s.Words, " ") }
