// c29: drives the real merkle-sum-index code of x/pocketcore/types (GenerateRoot, GenerateProofs,
// MerkleProof.Validate) on generated relay-proof sets and writes the trace consumed by
// lean/Driver/C29.lean and lean/Driver/C30.lean (properties C29 and C30).
//
// Trace lines (the driver is stateful: a hash table and the current tree):
//
//	h <input> => <blake2b-256(input)>           table entry; computed here with x/crypto/blake2b,
//	                                            never by pocket-core code
//	clr => ok                                   empty the table (before the entries of each tree)
//	tree <id> <height> <post> <leaf hashes, input order> => <root> <sorted leaf hashes> | PANIC
//	proof <id> <index> => <idx> <target> <siblings> <leaf hash> | PANIC
//	val <id> <kind> <post> <idx> <target> <siblings> <leaf hash> <root> <levels> => <valid> <replay> | PANIC
//	atree <id> <height> <post> <leaf-level nodes> => <root>   claimant-built tree (adversarial.go)
//	aval <id> <kind> ... (as val)               real Validate on a proof read off a claimant-built tree
//	vbasic <target> <#siblings> => combo | range | pass       real MsgProof.ValidateBasic (merkle part)
//	lv <n> => <int(math.Ceil(math.Log2(float64(n))))>      (lvx: same, for n > 2^48+1)
//	lvrun <from> <to> => <v>                    the Go expression is v for every n in [from,to]
//	kval <id> <postSession> <postBlock> <S> <H> <U> <index> <n> => ok | err:<code> | PANIC
//	                                            real Keeper.ValidateProof (keeper.go)
//
// A hash range is rendered hash:lower:upper.  The Lean driver does not compute blake2b: the model
// takes the hash function as a parameter and the driver instantiates it with the table built from
// the `h` lines.  This command therefore has to emit, before each line, every (input, output) pair
// the *model* will ask for; it does so with its own small re-statement of the documented layouts
// (shadow* functions below).  A missing entry makes the model produce a sentinel and the driver
// reports DIFF hash-table-miss, so a mistake here cannot make a check pass.
package main

import (
	"encoding/binary"
	"encoding/hex"
	"flag"
	"fmt"
	"math"
	"sort"
	"strconv"
	"strings"

	"github.com/pokt-network/pocket-core/codec"
	pc "github.com/pokt-network/pocket-core/x/pocketcore/types"
	"golang.org/x/crypto/blake2b"
	"verifharness/internal/gen"
)

type hr struct {
	hash   []byte
	lo, up uint64
}

var (
	tr     *gen.Trace
	seenH  = map[string]bool{}
	nHash  int
	stats  = map[string]int{}
	hypBad int // generated sets whose sums were not pairwise distinct and positive although built from distinct relays
)

func b2(in []byte) []byte { h := blake2b.Sum256(in); return h[:] }

func hx(b []byte) string {
	if len(b) == 0 {
		return "-"
	}
	return hex.EncodeToString(b)
}

// emitH writes the table entry for `in` once.
func emitH(in []byte) []byte {
	out := b2(in)
	k := string(in)
	if !seenH[k] {
		seenH[k] = true
		nHash++
		tr.Line("h", false, "h %s => %s", hx(in), hx(out))
	}
	return out
}

func le8(x uint64) []byte { b := make([]byte, 8); binary.LittleEndian.PutUint64(b, x); return b }

// pinput: the documented parent-hash input.  post: h1|h2|LE(i1)|LE(i2)|LE(lo)|LE(up) cut/zero-padded
// to 96 bytes; pre: h1|h2|LE(lo)|LE(up) cut/zero-padded to 80 bytes.
func pinput(post bool, h1, h2 []byte, lo, up, i1, i2 uint64) []byte {
	var cat []byte
	size := 80
	cat = append(cat, h1...)
	cat = append(cat, h2...)
	if post {
		size = 96
		cat = append(cat, le8(i1)...)
		cat = append(cat, le8(i2)...)
	}
	cat = append(cat, le8(lo)...)
	cat = append(cat, le8(up)...)
	buf := make([]byte, size)
	copy(buf, cat)
	return buf
}

func sumOf(h []byte) uint64 { return binary.LittleEndian.Uint64(h[:8]) }

func nextPow2(n int) int {
	p := 1
	for p < n {
		p *= 2
	}
	return p
}

// shadowStructure: level 0 of the tree as documented (stable sort by sum, chained lower bounds,
// width-1 padding whose hash is the hash of the decimal position).
func shadowStructure(leafHashes [][]byte) []hr {
	hs := make([][]byte, len(leafHashes))
	copy(hs, leafHashes)
	sort.SliceStable(hs, func(i, j int) bool { return sumOf(hs[i]) < sumOf(hs[j]) })
	var data []hr
	lower := uint64(0)
	for _, h := range hs {
		data = append(data, hr{h, lower, sumOf(h)})
		lower = sumOf(h)
	}
	for i := len(hs); i < nextPow2(len(hs)); i++ {
		data = append(data, hr{emitH([]byte(strconv.Itoa(i))), lower, lower + 1})
		lower++
	}
	return data
}

// shadowLevels emits every parent-hash table entry of the tree over `data` and returns all levels.
func shadowLevels(post bool, data []hr) [][]hr {
	levels := [][]hr{data}
	for len(data) > 1 && len(data)%2 == 0 {
		var next []hr
		for i := 0; i+1 < len(data); i += 2 {
			a, b := data[i], data[i+1]
			next = append(next, hr{emitH(pinput(post, a.hash, b.hash, a.lo, b.up, uint64(i), uint64(i+1))), a.lo, b.up})
		}
		data = next
		levels = append(levels, data)
	}
	return levels
}

// shadowClimb emits the table entries of the verification chain of an arbitrary (possibly mutated)
// proof: one parent input per level, whatever the range checks would say.
func shadowClimb(post bool, idx int64, t hr, sibs []hr, levels int) {
	for i := 0; i < levels && i < len(sibs); i++ {
		s := sibs[i]
		if idx%2 == 1 {
			t = hr{emitH(pinput(post, s.hash, t.hash, s.lo, t.up, uint64(idx-1), uint64(idx))), s.lo, t.up}
		} else {
			t = hr{emitH(pinput(post, t.hash, s.hash, t.lo, s.up, uint64(idx), uint64(idx+1))), t.lo, s.up}
		}
		idx /= 2
	}
}

func rHR(h hr) string { return fmt.Sprintf("%s:%d:%d", hx(h.hash), h.lo, h.up) }
func rHRs(hs []hr) string {
	if len(hs) == 0 {
		return "-"
	}
	p := make([]string, len(hs))
	for i, h := range hs {
		p[i] = rHR(h)
	}
	return strings.Join(p, ",")
}
func rHashes(hs [][]byte) string {
	if len(hs) == 0 {
		return "-"
	}
	p := make([]string, len(hs))
	for i, h := range hs {
		p[i] = hx(h)
	}
	return strings.Join(p, ",")
}

func fromPC(h pc.HashRange) hr { return hr{h.Hash, h.Range.Lower, h.Range.Upper} }
func toPC(h hr) pc.HashRange {
	return pc.HashRange{Hash: append([]byte(nil), h.hash...), Range: pc.Range{Lower: h.lo, Upper: h.up}}
}

type proof struct {
	idx    int64
	target hr
	sibs   []hr
}

func (p proof) clone() proof {
	q := proof{p.idx, hr{append([]byte(nil), p.target.hash...), p.target.lo, p.target.up}, nil}
	for _, s := range p.sibs {
		q.sibs = append(q.sibs, hr{append([]byte(nil), s.hash...), s.lo, s.up})
	}
	return q
}
func (p proof) toPC() pc.MerkleProof {
	m := pc.MerkleProof{TargetIndex: p.idx, Target: toPC(p.target)}
	for _, s := range p.sibs {
		m.HashRanges = append(m.HashRanges, toPC(s))
	}
	return m
}

// ---------------------------------------------------------------- relay proofs

var chains = []string{"0001", "0021", "0040"}

func genRelay(r *gen.R, sessionHeight int64, servicer, app, client string) pc.RelayProof {
	return pc.RelayProof{
		RequestHash:        hex.EncodeToString(r.Bytes(32)),
		Entropy:            int64(r.U64() >> 1),
		SessionBlockHeight: sessionHeight,
		ServicerPubKey:     servicer,
		Blockchain:         chains[0],
		Token: pc.AAT{Version: "0.0.1", ApplicationPublicKey: app, ClientPublicKey: client,
			ApplicationSignature: hex.EncodeToString(r.Bytes(64))[:128]},
		Signature: hex.EncodeToString(r.Bytes(64)),
	}
}

// genSet: n relay proofs of one session (same servicer/app/client, fresh entropy + request hash).
// dups > 0 duplicates that many randomly chosen relays (the replayed-relay case).
func genSet(r *gen.R, n, dups int) []pc.Proof {
	servicer, app, client := hex.EncodeToString(r.Bytes(32)), hex.EncodeToString(r.Bytes(32)), hex.EncodeToString(r.Bytes(32))
	sh := int64(1 + 4*r.Intn(1000))
	tok := genRelay(r, sh, servicer, app, client).Token
	ps := make([]pc.Proof, 0, n)
	for len(ps) < n-dups {
		rp := genRelay(r, sh, servicer, app, client)
		rp.Token = tok
		ps = append(ps, rp)
	}
	for len(ps) < n {
		ps = append(ps, ps[r.Intn(len(ps))])
	}
	// shuffle
	for i := len(ps) - 1; i > 0; i-- {
		j := r.Intn(i + 1)
		ps[i], ps[j] = ps[j], ps[i]
	}
	return ps
}

// upgradeAt is the height at which the parent-hash layout switches (codec.GetCodecUpgradeHeight():
// 30024 with the default globals; the keeper stream places it elsewhere through codec.UpgradeHeight).
var upgradeAt int64 = 30024

func isPost(height int64) bool { return height >= upgradeAt || height == -1 }

var preHeights = []int64{1, 100, 30023}
var postHeights = []int64{30024, 30025, 100000, -1}

type tree struct {
	id         int
	height     int64
	post       bool
	proofs     []pc.Proof // input order
	leafHashes [][]byte   // input order
	levels     [][]hr     // shadow levels (documented construction)
	root       hr         // real root
	rootOK     bool
	n          int
	distinct   bool // sums pairwise distinct and positive
}

var treeID int

func leafHash(p pc.Proof) []byte { return b2(p.Bytes()) }

// mkTree runs the real GenerateRoot and emits the tree line.
func mkTree(ps []pc.Proof, height int64) *tree {
	return mkTreeWith(ps, height, func(cp []pc.Proof) (pc.HashRange, []pc.Proof) { return pc.GenerateRoot(height, cp) })
}

// mkTreeWith: as mkTree, the root coming from rootFn (types.GenerateRoot or Evidence.GenerateMerkleRoot).
func mkTreeWith(ps []pc.Proof, height int64, rootFn func(cp []pc.Proof) (pc.HashRange, []pc.Proof)) *tree {
	treeID++
	t := &tree{id: treeID, height: height, post: isPost(height), proofs: ps, n: len(ps)}
	seen := map[uint64]bool{}
	t.distinct = true
	for _, p := range ps {
		h := leafHash(p)
		t.leafHashes = append(t.leafHashes, h)
		if s := sumOf(h); s == 0 || seen[s] {
			t.distinct = false
		} else {
			seen[s] = true
		}
	}
	// the table is per tree: forget what the previous tree needed (keeps the driver's memory flat)
	seenH = map[string]bool{}
	tr.Line("clr", false, "clr => ok")
	t.levels = shadowLevels(t.post, shadowStructure(t.leafHashes))
	cp := append([]pc.Proof(nil), ps...)
	res := "PANIC"
	func() {
		defer func() { recover() }()
		root, sorted := rootFn(cp)
		var sh [][]byte
		for _, p := range sorted {
			sh = append(sh, leafHash(p))
		}
		t.root, t.rootOK = fromPC(root), true
		res = fmt.Sprintf("%s %s", rHR(t.root), rHashes(sh))
	}()
	tr.Line("tree", t.rootOK && t.distinct, "tree %d %d %v %s => %s", t.id, height, t.post, rHashes(t.leafHashes), res)
	stats[fmt.Sprintf("tree-pad%d", padClass(t.n))]++
	return t
}

// padClass: 0 = power of two, 1 = one above, 2 = one below, 3 = other.
func padClass(n int) int {
	p := nextPow2(n)
	switch {
	case n == p:
		return 0
	case n == p/2+1:
		return 1
	case n == p-1:
		return 2
	}
	return 3
}

// realProof runs the real GenerateProofs and emits the proof line.
func realProof(t *tree, index int) (proof, pc.Proof, bool) {
	return realProofWith(t, index, func(cp []pc.Proof) (pc.MerkleProof, pc.Proof) { return pc.GenerateProofs(t.height, cp, index) })
}

// realProofWith: as realProof, the proof coming from proofFn (types.GenerateProofs or Evidence.GenerateMerkleProof).
func realProofWith(t *tree, index int, proofFn func(cp []pc.Proof) (pc.MerkleProof, pc.Proof)) (proof, pc.Proof, bool) {
	cp := append([]pc.Proof(nil), t.proofs...)
	var p proof
	var leaf pc.Proof
	ok := false
	res := "PANIC"
	func() {
		defer func() { recover() }()
		mp, l := proofFn(cp)
		p.idx, p.target = mp.TargetIndex, fromPC(mp.Target)
		for _, s := range mp.HashRanges {
			p.sibs = append(p.sibs, fromPC(s))
		}
		leaf, ok = l, true
		res = fmt.Sprintf("%d %s %s %s", p.idx, rHR(p.target), rHRs(p.sibs), hx(leafHash(l)))
	}()
	tr.Line("proof", ok, "proof %d %d => %s", t.id, index, res)
	return p, leaf, ok
}

// goLevels: the expression used by keeper.ValidateProof.
func goLevels(n int64) int { return int(math.Ceil(math.Log2(float64(n)))) }

// val runs the real Validate and emits the val line.
func val(t *tree, kind string, p proof, leaf pc.Proof, root hr, levels int) (bool, bool) {
	return valOp("val", t, kind, p, leaf, root, levels)
}

// valOp: op is "val" (tree generated by the real code) or "aval" (claimant-built tree, adversarial.go).
func valOp(op string, t *tree, kind string, p proof, leaf pc.Proof, root hr, levels int) (bool, bool) {
	lh := leafHash(leaf)
	shadowClimb(t.post, p.idx, p.target, p.sibs, levels)
	res := "PANIC"
	var v, rp bool
	func() {
		defer func() { recover() }()
		v, rp = p.toPC().Validate(t.height, toPC(root), leaf, levels)
		res = fmt.Sprintf("%v %v", v, rp)
	}()
	tr.Line(op+"-"+kind, res != "PANIC", "%s %d %s %v %d %s %s %s %s %d => %s", op, t.id, kind, t.post, p.idx, rHR(p.target), rHRs(p.sibs), hx(lh), rHR(root), levels, res)
	stats["verdict-"+strings.ReplaceAll(res, " ", "-")]++
	return v, rp
}

func indices(r *gen.R, n int, all bool, k int) []int {
	if all || n <= k {
		out := make([]int, n)
		for i := range out {
			out[i] = i
		}
		return out
	}
	m := map[int]bool{0: true, 1: true, n - 1: true, n - 2: true, n / 2: true}
	p := nextPow2(n) / 2
	if p-1 < n {
		m[p-1] = true
	}
	if p < n {
		m[p] = true
	}
	for len(m) < k {
		m[r.Intn(n)] = true
	}
	var out []int
	for i := range m {
		out = append(out, i)
	}
	sort.Ints(out)
	return out
}

// ---------------------------------------------------------------- C29: honest proofs verify

func sizeList(r *gen.R, max int, all bool) []int {
	var out []int
	if all {
		for n := 5; n <= max; n++ {
			out = append(out, n)
		}
		return out
	}
	seen := map[int]bool{}
	add := func(n int) {
		if n >= 5 && n <= max && !seen[n] {
			seen[n] = true
			out = append(out, n)
		}
	}
	for n := 5; n <= 20; n++ {
		add(n)
	}
	for p := 32; p <= 2048; p *= 2 {
		add(p - 1)
		add(p)
		add(p + 1)
		add(p/2 + p/4 + r.Intn(p/8))
	}
	add(max)
	return out
}

func runVerify(r *gen.R, budget, max int, allSizes bool) {
	sizes := sizeList(r, max, allSizes)
	lines := 0
	// round 0 always walks the whole size list (all padding classes up to max); later rounds repeat it
	// with fresh sets until the budget of validate lines is used up
	for round := 0; round == 0 || lines < budget; round++ {
		for k, n := range sizes {
			if round > 0 && lines >= budget {
				break
			}
			ps := genSet(r, n, 0)
			pre, post := preHeights[r.Intn(len(preHeights))], postHeights[r.Intn(len(postHeights))]
			heights := []int64{pre, post}
			if n > 70 { // big sets: one era per set, alternating
				heights = heights[(k+round)%2 : (k+round)%2+1]
			}
			for _, h := range heights {
				t := mkTree(ps, h)
				if !t.rootOK {
					continue
				}
				if !t.distinct {
					hypBad++
				}
				for _, i := range indices(r, n, false, 8+32*b2i(n <= 40)) {
					p, leaf, ok := realProof(t, i)
					if !ok {
						continue
					}
					val(t, "honest", p, leaf, t.root, goLevels(int64(n)))
					lines++
				}
			}
		}
		if round > 200 {
			break
		}
	}
}

func b2i(b bool) int {
	if b {
		return 1
	}
	return 0
}

// ---------------------------------------------------------------- C30: forged / replayed proofs

func flip(b []byte, bit int) []byte {
	c := append([]byte(nil), b...)
	if len(c) > 0 {
		c[(bit/8)%len(c)] ^= 1 << uint(bit%8)
	}
	return c
}

// mutations: all single-field mutations of a valid proof (leaf, index, target fields, each
// sibling's hash / lower / upper, root fields, level count) plus the multi-field re-encodings.
func mutations(r *gen.R, t *tree, p proof, leaf pc.Proof, index int) {
	L := len(p.sibs)
	n := t.n
	// leaf
	other := t.proofs[r.Intn(n)]
	if string(leafHash(other)) != string(leafHash(leaf)) {
		val(t, "mut-leaf", p, other, t.root, L)
	}
	val(t, "mut-leaf", p, genSet(r, 1, 0)[0], t.root, L)
	// index
	for _, d := range []int64{1, -1, 2, int64(1) << uint(L-1), -(int64(1) << uint(L-1))} {
		q := p.clone()
		q.idx += d
		val(t, "mut-index", q, leaf, t.root, L)
	}
	for _, x := range []int64{p.idx ^ 1, -p.idx - 1, -p.idx, p.idx + (1 << 32), p.idx - (1 << 62), p.idx | math.MinInt64, int64(r.Intn(1 << uint(L)))} {
		if x != p.idx {
			q := p.clone()
			q.idx = x
			val(t, "mut-index", q, leaf, t.root, L)
		}
	}
	for _, m := range []int64{1, 2, 1 << 20, int64(1+r.Intn(1000)) * 3} {
		q := p.clone()
		q.idx += m << uint(L)
		val(t, "mut-index-alias", q, leaf, t.root, L)
	}
	// target
	for _, d := range []uint64{1, ^uint64(0)} {
		q := p.clone()
		q.target.lo += d
		val(t, "mut-tlower", q, leaf, t.root, L)
		q = p.clone()
		q.target.up += d
		val(t, "mut-tupper", q, leaf, t.root, L)
	}
	q := p.clone()
	q.target.lo = q.target.up
	val(t, "mut-tlower-zero", q, leaf, t.root, L)
	q = p.clone()
	q.target.hash = flip(q.target.hash, r.Intn(256))
	val(t, "mut-thash", q, leaf, t.root, L)
	// siblings
	for l := 0; l < L; l++ {
		q := p.clone()
		q.sibs[l].hash = flip(q.sibs[l].hash, r.Intn(256))
		val(t, "mut-sibhash", q, leaf, t.root, L)
		q = p.clone()
		q.sibs[l].hash = q.sibs[l].hash[:31]
		val(t, "mut-sibhash-short", q, leaf, t.root, L)
		q = p.clone()
		q.sibs[l].hash = append(q.sibs[l].hash, 0)
		val(t, "mut-sibhash-long", q, leaf, t.root, L)
		q = p.clone()
		q.sibs[l].hash = nil
		val(t, "mut-sibhash-short", q, leaf, t.root, L)
		q = p.clone()
		q.sibs[l].hash = t.levels[l][r.Intn(len(t.levels[l]))].hash
		if string(q.sibs[l].hash) != string(p.sibs[l].hash) {
			val(t, "mut-sibhash", q, leaf, t.root, L)
		}
		for _, d := range []uint64{1, ^uint64(0)} {
			q = p.clone()
			q.sibs[l].lo += d
			val(t, "mut-siblower", q, leaf, t.root, L)
			q = p.clone()
			q.sibs[l].up += d
			val(t, "mut-sibupper", q, leaf, t.root, L)
		}
		// zero-width sibling
		q = p.clone()
		q.sibs[l].lo = q.sibs[l].up
		val(t, "mut-sib-zero", q, leaf, t.root, L)
		q = p.clone()
		q.sibs[l].up = q.sibs[l].lo
		val(t, "mut-sib-zero", q, leaf, t.root, L)
		// the parent-hash buffer is cut at a fixed size: a sibling hash extended by exactly the
		// bytes that would follow it hashes to the same parent (only when the sibling is on the right)
		q = p.clone()
		s, tg := p.sibs[l], t.levels[l][index>>uint(l)]
		if (index>>uint(l))%2 == 0 {
			ext := append([]byte(nil), s.hash...)
			if t.post {
				ext = append(ext, le8(uint64(index>>uint(l)))...)
				ext = append(ext, le8(uint64(index>>uint(l))+1)...)
			}
			ext = append(ext, le8(tg.lo)...)
			ext = append(ext, le8(s.up)...)
			ext = append(ext, r.Bytes(r.Intn(5))...)
			q.sibs[l].hash = ext
			val(t, "mut-sibhash-ext", q, leaf, t.root, L)
		}
	}
	if L >= 2 {
		q = p.clone()
		a, b := r.Intn(L), r.Intn(L)
		if a != b {
			q.sibs[a], q.sibs[b] = q.sibs[b], q.sibs[a]
			val(t, "mut-sibswap", q, leaf, t.root, L)
		}
		q = p.clone()
		q.sibs = q.sibs[:L-1]
		val(t, "mut-nsibs", q, leaf, t.root, L-1)
		q = p.clone()
		q.sibs = append(q.sibs, q.sibs[L-1])
		val(t, "mut-nsibs", q, leaf, t.root, L+1)
		val(t, "mut-levels", p, leaf, t.root, L-1)
		val(t, "mut-levels", p, leaf, t.root, L+1) // reads past HashRanges: panics (ValidateProof's level check prevents it)
	}
	// the boundary between an odd leaf and its left sibling is absorbed by no hash
	if index%2 == 1 && p.target.up-p.sibs[0].lo >= 2 {
		q = p.clone()
		m := p.sibs[0].lo + 1 + r.U64()%(p.target.up-p.sibs[0].lo-1)
		if m != p.target.lo {
			q.target.lo, q.sibs[0].up = m, m
			val(t, "pair-midpoint", q, leaf, t.root, L)
		}
	}
	// the mirror image for an even leaf is stopped only by the comparison of the target's upper bound
	// with the sum of its hash
	if index%2 == 0 && p.sibs[0].up-p.target.lo >= 2 {
		q = p.clone()
		m := p.target.lo + 1 + r.U64()%(p.sibs[0].up-p.target.lo-1)
		if m != p.target.up {
			q.target.up, q.sibs[0].lo = m, m
			val(t, "pair-midpoint-even", q, leaf, t.root, L)
		}
	}
	// root
	rt := t.root
	rt.hash = flip(rt.hash, r.Intn(256))
	val(t, "mut-roothash", p, leaf, rt, L)
	for _, d := range []uint64{1, ^uint64(0)} {
		rt = t.root
		rt.up += d
		val(t, "mut-rootupper", p, leaf, rt, L)
	}
	rt = t.root
	rt.lo = 1
	val(t, "mut-rootlower", p, leaf, rt, L)
	// a proof that is valid for another tree / another index
	if index+1 < n {
		if p2, leaf2, ok := realProofQuiet(t, index+1); ok {
			q = p2.clone()
			q.idx = p.idx
			val(t, "mut-otherproof", q, leaf2, t.root, L)
			val(t, "mut-otherleaf", p, leaf2, t.root, L)
		}
	}
}

func realProofQuiet(t *tree, index int) (p proof, leaf pc.Proof, ok bool) {
	defer func() { recover() }()
	cp := append([]pc.Proof(nil), t.proofs...)
	mp, l := pc.GenerateProofs(t.height, cp, index)
	p.idx, p.target = mp.TargetIndex, fromPC(mp.Target)
	for _, s := range mp.HashRanges {
		p.sibs = append(p.sibs, fromPC(s))
	}
	return p, l, true
}

func runForge(r *gen.R, budget, max int) {
	start := tr.Lines
	for round := 0; tr.Lines-start < budget; round++ {
		// claimant-built trees: every strategy once at the start, then one iteration in four
		if round < len(advStrategies) {
			adversarial(r, advStrategies[round])
			continue
		}
		if r.Chance(1, 4) {
			for k := 0; k < 3; k++ {
				adversarial(r, advStrategies[r.Intn(len(advStrategies))])
			}
			continue
		}
		var n int
		switch r.Intn(6) {
		case 0:
			n = 5 + r.Intn(4)
		case 1:
			n = []int{15, 16, 17, 31, 32, 33, 63, 64, 65}[r.Intn(9)]
		case 2:
			n = 5 + r.Intn(60)
		case 3:
			if max > 130 {
				n = 100 + r.Intn(max-100)
			} else {
				n = 5 + r.Intn(max-4)
			}
		default:
			n = 5 + r.Intn(28)
		}
		if n > max {
			n = max
		}
		dup := r.Chance(1, 3)
		dups := 0
		if dup {
			dups = 1 + r.Intn(3)
			if r.Chance(1, 4) {
				dups = n / 2
			}
		}
		ps := genSet(r, n, dups)
		h := preHeights[r.Intn(len(preHeights))]
		if r.Chance(2, 3) {
			h = postHeights[r.Intn(len(postHeights))]
		}
		t := mkTree(ps, h)
		if !t.rootOK {
			continue
		}
		if dups > 0 {
			// every index of a tree with replayed relays: zero-width paths must be flagged
			for _, i := range indices(r, n, false, 40) {
				p, leaf, ok := realProof(t, i)
				if ok {
					val(t, "dup", p, leaf, t.root, goLevels(int64(n)))
				}
			}
			continue
		}
		for _, i := range indices(r, n, false, 3) {
			p, leaf, ok := realProof(t, i)
			if !ok {
				continue
			}
			if v, _ := val(t, "honest", p, leaf, t.root, goLevels(int64(n))); v {
				mutations(r, t, p, leaf, i)
			}
		}
	}
}

// ---------------------------------------------------------------- levels

func runLevels(r *gen.R, upto int64, singles int) {
	from, cur := int64(1), goLevels(1)
	for n := int64(2); n <= upto; n++ {
		if v := goLevels(n); v != cur {
			tr.Line("lvrun", true, "lvrun %d %d => %d", from, n-1, cur)
			from, cur = n, v
		}
	}
	tr.Line("lvrun", true, "lvrun %d %d => %d", from, upto, cur)
	for k := uint(1); k <= 52; k++ {
		for _, d := range []int64{-1, 0, 1} {
			n := int64(1)<<k + d
			if n >= 1 {
				op := "lv"
				if n > 1<<48+1 {
					op = "lvx" // float64 log2 loses the "+1" just above 2^49 and beyond (see design-notes/C29.md)
				}
				tr.Line(op, true, "%s %d => %d", op, n, goLevels(n))
			}
		}
	}
	for i := 0; i < singles; i++ {
		n := int64(r.U64()>>uint(12+r.Intn(50))) + 1
		if n > 1<<48 {
			n = 1 << 48
		}
		tr.Line("lv", true, "lv %d => %d", n, goLevels(n))
	}
}

func main() {
	seed := flag.Uint64("seed", 1, "")
	n := flag.Int("n", 2000, "budget: number of validate lines (verify/forge) or random level samples (levels)")
	out := flag.String("out", "c29.trace", "")
	mode := flag.String("mode", "verify", "verify | forge | levels | keeper")
	max := flag.Int("max", 1100, "largest set size")
	allSizes := flag.Bool("allsizes", false, "verify: every size 5..max instead of the padding classes")
	lvUpto := flag.Int64("lvupto", 1<<20, "levels: exhaustive bound")
	keeperN := flag.Int("keeper", 0, "verify: append this many keeper-level validations (mode keeper) to the stream")
	flag.Parse()

	// the hashing era is selected through package globals of /repo/codec: pin them, restore at exit
	oUH, oOUH, oTM := codec.UpgradeHeight, codec.OldUpgradeHeight, codec.TestMode
	codec.UpgradeHeight, codec.OldUpgradeHeight, codec.TestMode = math.MaxInt64, 0, 0
	defer func() { codec.UpgradeHeight, codec.OldUpgradeHeight, codec.TestMode = oUH, oOUH, oTM }()

	r := gen.New(*seed)
	tr = gen.NewTrace(*out)
	switch *mode {
	case "verify":
		runVerify(r, *n, *max, *allSizes)
		if *keeperN > 0 {
			runKeeper(r, *keeperN)
		}
	case "forge":
		runForge(r, *n, *max)
	case "levels":
		runLevels(r, *lvUpto, *n)
	case "keeper":
		runKeeper(r, *n)
	default:
		panic("mode")
	}
	tr.Close(map[string]interface{}{"hash_entries": nHash, "stats": stats, "sets_violating_sum_hypothesis": hypBad})
}
