// Claimant-built merkle sum trees for C30.  The claimant chooses the root, so nothing forces the
// tree under it to be the one GenerateRoot would build: leaves in any order, a relay counted twice
// with its second copy anywhere, ranges chained from whatever the previous upper bound was
// (inverted where a smaller sum follows a larger one), nodes with Upper = 0, sums at 2^64-1 and
// width-1 padding that wraps.  The tree is built here (same documented construction as the shadow
// functions of main.go), every proof read off it is given to the real MerkleProof.Validate and to
// the real MsgProof.ValidateBasic.
package main

import (
	"fmt"
	"math"
	"sort"
	"strconv"

	pc "github.com/pokt-network/pocket-core/x/pocketcore/types"
	"verifharness/internal/gen"
)

var advStrategies = []string{"invdup", "invdup-odd", "perm", "zerodup", "upper0", "maxsum", "wrap", "permdup"}

type advLeaf struct {
	p  pc.Proof // nil for a synthetic node (cannot be a target)
	h  []byte
	up uint64
}

// adversarial builds one claimant tree with the given strategy and validates every committed position.
func adversarial(r *gen.R, strategy string) {
	m := 5 + r.Intn(12)
	if r.Chance(1, 4) {
		m = []int{5, 6, 7, 8, 15, 16}[r.Intn(6)]
	}
	ps := genSet(r, m, 0)
	var ls []advLeaf
	for _, p := range ps {
		h := leafHash(p)
		ls = append(ls, advLeaf{p, h, sumOf(h)})
	}
	sort.SliceStable(ls, func(i, j int) bool { return ls[i].up < ls[j].up })
	synth := func(up uint64) advLeaf { return advLeaf{nil, r.Bytes(32), up} }
	insert := func(xs []advLeaf, at int, x advLeaf) []advLeaf {
		out := append([]advLeaf(nil), xs[:at]...)
		out = append(out, x)
		return append(out, xs[at:]...)
	}
	order := ls
	switch strategy {
	case "invdup", "invdup-odd":
		// the second copy of relay d right after a leaf b with a larger sum; invdup: as a left child
		d := r.Intn(m - 2)
		b := d + 1 + r.Intn(m-2-d)
		wantEven := strategy == "invdup"
		if ((b+1)%2 == 0) != wantEven {
			if b+1 <= m-2 {
				b++
			} else if b-1 > d {
				b--
			}
		}
		order = insert(ls, b+1, ls[d])
	case "zerodup":
		d := r.Intn(m)
		order = insert(ls, d+1, ls[d])
	case "perm", "permdup":
		order = append([]advLeaf(nil), ls...)
		if strategy == "permdup" {
			order = append(order, ls[r.Intn(m)])
		}
		for i := len(order) - 1; i > 0; i-- {
			j := r.Intn(i + 1)
			order[i], order[j] = order[j], order[i]
		}
	case "upper0":
		order = insert(ls, 1+r.Intn(m-1), synth(0))
	case "maxsum":
		order = insert(ls, 1+r.Intn(m), synth(math.MaxUint64))
	case "wrap":
		// ... [x, 2^64-1] [2^64-1, 0] (a width-1 range that wraps) ...
		at := 1 + r.Intn(m)
		order = insert(ls, at, synth(math.MaxUint64))
		order = insert(order, at+1, synth(0))
	}
	n := len(order)
	height := preHeights[r.Intn(len(preHeights))]
	if r.Chance(2, 3) {
		height = postHeights[r.Intn(len(postHeights))]
	}
	treeID++
	t := &tree{id: treeID, height: height, post: isPost(height), n: n}
	var data []hr
	lower := uint64(0)
	for _, l := range order {
		data = append(data, hr{l.h, lower, l.up})
		lower = l.up
	}
	for i := n; i < nextPow2(n); i++ {
		data = append(data, hr{b2([]byte(strconv.Itoa(i))), lower, lower + 1})
		lower++
	}
	seenH = map[string]bool{}
	tr.Line("clr", false, "clr => ok")
	t.levels = shadowLevels(t.post, data)
	t.root, t.rootOK = t.levels[len(t.levels)-1][0], true
	L := len(t.levels) - 1
	tr.Line("atree-"+strategy, true, "atree %d %d %v %s => %s", t.id, height, t.post, rHRs(data), rHR(t.root))
	for i := 0; i < n; i++ {
		if order[i].p == nil {
			continue
		}
		p := proof{idx: int64(i), target: t.levels[0][i]}
		for l, x := 0, i; l < L; l, x = l+1, x/2 {
			p.sibs = append(p.sibs, t.levels[l][x^1])
		}
		valOp("aval", t, "apath-"+strategy, p, order[i].p, t.root, L)
		vbasic(p, order[i].p)
	}
	// the stateless message check on targets of every shape
	for _, tg := range []hr{{b2([]byte("t")), 7, 7}, {b2([]byte("t")), 9, 7}, {b2([]byte("t")), math.MaxUint64, 1},
		{b2([]byte("t")), 5, 0}, {b2([]byte("t")), 0, 0}, {b2([]byte("t")), 0, math.MaxUint64}, {b2([]byte("t")), 6, 7}} {
		p := proof{idx: 0, target: tg, sibs: []hr{tg, tg, tg}}
		if r.Chance(1, 5) {
			p.sibs = p.sibs[:2]
		}
		vbasic(p, order[0].p)
	}
}

// vbasic: the real MsgProof.ValidateBasic; only its merkle part is classified (the relay fields of the
// generated leaves are not signed, so a later leaf error is expected and reported as "pass").
func vbasic(p proof, leaf pc.Proof) {
	if leaf == nil {
		return
	}
	res := "PANIC"
	func() {
		defer func() { recover() }()
		err := pc.MsgProof{MerkleProof: p.toPC(), Leaf: leaf, EvidenceType: pc.RelayEvidence}.ValidateBasic()
		switch {
		case err != nil && err.Code() == pc.CodeInvalidLeafCousinProofsCombo:
			res = "combo"
		case err != nil && err.Code() == pc.CodeInvalidMerkleRangeError:
			res = "range"
		default:
			res = "pass"
		}
	}()
	tr.Line("vbasic", res == "pass", "vbasic %s %d => %s", rHR(p.target), len(p.sibs), res)
	stats[fmt.Sprintf("vbasic-%s", res)]++
}
