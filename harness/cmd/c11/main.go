// c11: twin nodes per generated history, in separate processes (pocket-core keeps caches and the
// feature map in package globals).  A executes the blocks only.  B executes the same blocks and, at
// points between ABCI calls, additionally serves ONE kind of off-chain activity per history:
//
//	checktx      CheckTx of valid / malformed / unsigned / undecodable / about-to-be-delivered txs
//	query        Query store paths (key, subspace; with/without proof; heights 0, old, latest, future),
//	             app/version, unknown paths
//	customquery  Query custom/<module>/<route> at historical and latest heights
//	simulate     Query app/simulate of valid state-changing transactions
//	simupgrade   Query app/simulate of MsgUpgrade transactions of the gov/upgrade owner (FEATURE upgrades that
//	             re-schedule a named feature, and VERSION upgrades that would move the codec-upgrade heights), correctly signed or carrying the owner's public key with a junk
//	             signature (the ante handler skips signature verification in simulate mode)
//	none         nothing (the twins must agree: sanity of the harness itself)
//
// Per block both print app hash, DeliverTx codes, validator updates, abstract-state digest and raw
// store digest.  B prints for every activity whether the working state (all persistent substores,
// uncommitted writes included) changed, and for sends which marks became visible (fee collector
// balance = ante handler's write, recipient balance = message handler's write).
// Trace consumed by lean/Driver/C11.lean.
package main

import (
	"crypto/sha256"
	"encoding/hex"
	"flag"
	"fmt"
	"os"
	"strconv"
	"strings"
	"sync"
	"time"

	"github.com/pokt-network/pocket-core/app"
	"github.com/pokt-network/pocket-core/codec"
	sdk "github.com/pokt-network/pocket-core/types"
	"github.com/pokt-network/pocket-core/x/auth"
	appsTypes "github.com/pokt-network/pocket-core/x/apps/types"
	authTypes "github.com/pokt-network/pocket-core/x/auth/types"
	govTypes "github.com/pokt-network/pocket-core/x/gov/types"
	nodesTypes "github.com/pokt-network/pocket-core/x/nodes/types"
	abci "github.com/tendermint/tendermint/abci/types"
	dbm "github.com/tendermint/tm-db"

	"verifharness/internal/chain"
	"verifharness/internal/chainx"
	"verifharness/internal/gen"
)

var kinds = []string{"simulate", "checktx", "query", "customquery", "simupgrade", "simulate", "checktx", "customquery", "none"}

const chainID = "verif"

const baseAppStake = int64(10000000000)

var childEnv = []string{"GOMAXPROCS=2"}

// upgradeGlobals renders the process globals that gate consensus rules (codec.UpgradeHeight,
// codec.OldUpgradeHeight, codec.UpgradeFeatureMap) canonically.
func upgradeGlobals() string {
	var fs []string
	for _, k := range chain.SortedKeys(codec.UpgradeFeatureMap) {
		fs = append(fs, fmt.Sprintf("%s:%d", k, codec.UpgradeFeatureMap[k]))
	}
	h := sha256.Sum256([]byte(strings.Join(fs, ",")))
	return fmt.Sprintf("%d/%d/%s", codec.UpgradeHeight, codec.OldUpgradeHeight, hex.EncodeToString(h[:4]))
}

func b01(b bool) int {
	if b {
		return 1
	}
	return 0
}

type env struct {
	w, wAct *chain.World
	o       chain.GenesisOpts
	run     *chainx.Runner
	feeAddr sdk.Address
	ctxmon  *chainx.CtxMonitor
}

func boot() *env {
	chain.ModernGlobals()
	chainx.InitSessionCache(100)
	if c, err := strconv.Atoi(os.Getenv("C11_APPCAP")); err == nil && c > 0 {
		appsTypes.InitConfig(int64(c)) // experiment switch: tiny ApplicationCache (evictions)
	}
	w, o := chain.DefaultWorld(chainID, 3, 2, 2, 4)
	wAct, _ := chain.DefaultWorld(chainID, 3, 2, 2, 4)
	o.Mutate = func(g *chain.Genesis) {
		g.Nodes.Params.SessionBlockFrequency = 4 // sessions of 4 blocks: claims become valid within a history
		for i := range g.Apps.Applications {
			g.Apps.Applications[i].StakedTokens = sdk.NewInt(baseAppStake) // max relays = 10000
		}
	}
	g := chain.BuildGenesis(o)
	n := chain.NewNode(g, chainID, o.GenesisTime, dbm.NewMemDB(), dbm.NewMemDB(), dbm.NewMemDB(), false)
	n.InitChain()
	e := &env{w: w, wAct: wAct, o: o, run: &chainx.Runner{N: n}, ctxmon: chainx.NewCtxMonitor()}
	e.feeAddr = n.App.VerifAccountKeeper().GetModuleAddress(auth.FeeCollectorName)
	return e
}

// freshSend builds a valid MsgSend with a private entropy range (so that it never collides with a
// block transaction).
func freshSend(from chain.Key, to sdk.Address, amt int64, entropy int64) []byte {
	return chain.SignTx(chainID, from, chain.MsgSend(from.Addr, to, amt), chain.DefaultFee, entropy, "")
}

// simulate runs Query("app/simulate") and decodes the embedded result code.
func simulate(n *chain.Node, bz []byte) (uint32, string) {
	res := n.App.Query(abci.RequestQuery{Path: "app/simulate", Data: bz, Height: n.Height}) // the height selects the tx codec
	var r sdk.Result
	if err := app.Codec().UnmarshalBinaryLengthPrefixed(res.Value, &r, n.Height); err != nil {
		return 9999, "undecodable-result"
	}
	cs := string(r.Codespace)
	if cs == "" {
		cs = "ok"
	}
	if os.Getenv("C11_DEBUG") != "" && r.Code != 0 {
		l := r.Log
		if len(l) > 1800 {
			l = l[:1800]
		}
		fmt.Fprintf(os.Stderr, "simulate code=%d/%s log=%s\n", r.Code, cs, l)
	}
	return uint32(r.Code), cs
}

// withPubKey replaces the public key carried by the signature of a transaction (the signature bytes
// stay those of another key: a junk signature for this public key).
func withPubKey(bz []byte, k chain.Key, height int64) []byte {
	cdc := app.Codec()
	tx, err := auth.DefaultTxDecoder(cdc)(bz, height)
	if err != nil {
		return bz
	}
	st, ok := tx.(authTypes.StdTx)
	if !ok {
		return bz
	}
	st.Signature = authTypes.StdSignature{PublicKey: k.Pub, Signature: st.Signature.Signature}
	out, e2 := auth.DefaultTxEncoder(cdc)(st, height)
	if e2 != nil {
		return bz
	}
	return out
}

func unsigned(bz []byte, height int64) []byte {
	cdc := app.Codec()
	tx, err := auth.DefaultTxDecoder(cdc)(bz, height)
	if err != nil {
		return bz
	}
	st, ok := tx.(authTypes.StdTx)
	if !ok {
		return bz
	}
	st.Signature = authTypes.StdSignature{PublicKey: st.Signature.PublicKey, Signature: nil}
	out, e2 := auth.DefaultTxEncoder(cdc)(st, height)
	if e2 != nil {
		return bz
	}
	return out
}

// probe tells which simulate plumbing the code under test has.
func probe() {
	e := boot()
	n := e.run.N
	e.run.RunBlock(chain.Block{Time: e.o.GenesisTime.Add(time.Minute), Proposer: e.w.Vals[0].Addr}, nil)
	from, to := e.w.Accts[0], e.w.Accts[1].Addr
	fee0, to0 := chainx.Balance(n, e.feeAddr), chainx.Balance(n, to)
	code, cs := simulate(n, freshSend(from, to, 777, 900000001))
	ante, msg := chainx.Balance(n, e.feeAddr) != fee0, chainx.Balance(n, to) != to0
	mode := "unknown"
	switch {
	case code != 0:
		mode = "unknown"
	case !ante && msg:
		mode = "asis"
	case !ante && !msg:
		mode = "fixed"
	}
	fmt.Printf("mode %s => code=%d/%s ante=%d msg=%d\n", mode, code, cs, b01(ante), b01(msg))
}

type actor struct {
	e      *env
	kind   string
	r      *gen.R
	ent    int64
	nActs  int
	curTxs [][]byte
	keys   []string // raw keys seen ("store/keyhex")
	gpre   string   // upgrade globals before the current call
	curSenders []sdk.Address
}

func (a *actor) nextEnt() int64 { a.ent++; return 800000000 + a.ent }

func (a *actor) emit(point string, desc string, code string, before map[string]string, marks string) {
	after := chainx.RawSnapshot(a.e.run.N)
	changed := chainx.DigestMap(before) != chainx.DigestMap(after)
	diff := "-"
	if changed {
		diff = strings.Join(chainx.DiffKeys(before, after, 3), ",")
	}
	cc, cf := a.e.ctxmon.Dump(a.e.run.N)
	fmt.Printf("act %s %s %s => code=%s changed=%d %s diff=%s cache=%s store=%s gpre=%s gpost=%s ctxc=%s ctxf=%s\n", a.kind, point, desc, code, b01(changed), marks, diff,
		chainx.AppCacheDump(a.e.run.N), chainx.AppStoreDump(a.e.run.N), a.gpre, upgradeGlobals(), cc, cf)
	a.nActs++
}

func (a *actor) act(point string, i int) {
	r, n := a.r, a.e.run.N
	if a.kind == "none" || n.Height < chain.FirstModernHeight {
		return // off-chain traffic starts once the check state is at a modern height
	}
	if !r.Chance(3, 5) {
		return
	}
	for c := 1 + r.Intn(2); c > 0; c-- {
		before := chainx.RawSnapshot(n)
		a.gpre = upgradeGlobals()
		if len(a.keys) < 200 {
			a.keys = chain.SortedKeys(before) // canonical order: the run must replay exactly
		}
		switch a.kind {
		case "checktx":
			var bz []byte
			desc := ""
			switch r.Intn(8) {
			case 6, 7:
				// transfer-shaped application MsgStake with a valid signature: the ante handler's IsMsgAppTransfer
				// looks the signer up through the ApplicationCache under the CheckTx context
				old := a.e.w.Apps[r.Intn(len(a.e.w.Apps))]
				bz, desc = chain.SignTx(chainID, old, chain.MsgAppStake(chain.KeyN(7000+uint64(a.nextEnt()%50)), 0, nil), chain.DefaultFee, a.nextEnt(), ""), "apptransfer-shaped"
			case 0:
				d := a.e.wAct.GenTx(r)
				bz, desc = unsigned(d.Bytes, n.Height), "unsigned:"+d.Kind
			case 1:
				bz, desc = r.Bytes(1+r.Intn(80)), "garbage"
			case 2:
				if len(a.curTxs) > 0 {
					bz, desc = a.curTxs[r.Intn(len(a.curTxs))], "blocktx"
				} else {
					bz, desc = freshSend(a.e.w.Accts[0], a.e.w.Accts[1].Addr, 5, a.nextEnt()), "send-valid"
				}
			case 3:
				bz, desc = freshSend(a.e.w.Accts[r.Intn(4)], a.e.w.Accts[r.Intn(4)].Addr, int64(1+r.Intn(1000)), a.nextEnt()), "send-valid"
			default:
				d := a.e.wAct.GenTx(r)
				bz, desc = d.Bytes, d.Kind
			}
			res := n.App.CheckTx(abci.RequestCheckTx{Tx: bz})
			a.emit(point, desc, fmt.Sprint(res.Code), before, "ante=- msg=-")
		case "query":
			q := abci.RequestQuery{}
			hs := []int64{0, 1, n.Height, n.Height + 3}
			if n.Height > 2 {
				hs = append(hs, 1+int64(r.Intn(int(n.Height))), 1+int64(r.Intn(int(n.Height))))
			}
			q.Height = hs[r.Intn(len(hs))]
			desc := ""
			switch r.Intn(7) {
			case 0:
				q.Path, desc = "app/version", "app/version"
			case 1:
				q.Path, desc = []string{"bogus", "app/other", "p2p/filter/addr/1.2.3.4:5", "store/nosuch/key", ""}[r.Intn(5)], "odd-path"
			case 2:
				st := chain.SortedKeys(n.App.Keys)[r.Intn(len(n.App.Keys))]
				q.Path, q.Data, desc = "store/"+st+"/subspace", []byte{byte(1 + r.Intn(4))}, "subspace:"+st
			default:
				if len(a.keys) == 0 {
					q.Path, desc = "app/version", "app/version"
					break
				}
				k := a.keys[r.Intn(len(a.keys))]
				parts := strings.SplitN(k, "/", 2)
				kb := make([]byte, len(parts[1])/2)
				fmt.Sscanf(parts[1], "%x", &kb)
				if r.Chance(1, 6) {
					kb = append(kb, 0x7f)
				}
				q.Path, q.Data, q.Prove = "store/"+parts[0]+"/key", kb, r.Bool()
				desc = fmt.Sprintf("key:%s:prove=%v", parts[0], q.Prove)
			}
			code := queryRecover(n, q)
			a.emit(point, fmt.Sprintf("%s@%d", strings.ReplaceAll(desc, " ", "_"), q.Height), code, before, "ante=- msg=-")
		case "customquery":
			if r.Chance(1, 3) {
				// balance probe at the latest height (0 = default, or the explicit last height): the answer must be
				// the balance of the last COMMITTED version, also in the middle of a block — a query context that
				// aliases the working trees answers with (and can write to) the state the block is building
				all := append(append(append([]chain.Key{}, a.e.w.Accts...), a.e.w.Vals...), a.e.w.Apps...)
				ad := all[r.Intn(len(all))].Addr
				if i < len(a.curTxs) && len(a.curSenders) > 0 && r.Bool() {
					ad = a.curSenders[r.Intn(len(a.curSenders))] // an account the current block is likely to touch
				}
				q := abci.RequestQuery{Path: "custom/pos/account_balance", Height: []int64{0, n.App.LastBlockHeight()}[r.Intn(2)]}
				q.Data, _ = nodesTypes.ModuleCdc.MarshalJSON(nodesTypes.QueryAccountBalanceParams{Address: ad})
				com, wrk := chainx.CommittedBalance(n, ad), chainx.Balance(n, ad)
				ans := "?"
				func() {
					defer func() { recover() }()
					res := n.App.Query(q)
					if res.Code == 0 {
						ans = strings.Trim(strings.TrimSpace(string(res.Value)), "\"")
					} else {
						ans = fmt.Sprintf("code%d", res.Code)
					}
				}()
				a.emit(point, fmt.Sprintf("balance:%s@%d", ad.String()[:8], q.Height), "0", before, fmt.Sprintf("ante=- msg=- ans=%s com=%s wrk=%s", ans, com, wrk))
				continue
			}
			q := abci.RequestQuery{}
			hs := []int64{0, 1, n.Height}
			if n.Height > 2 {
				hs = append(hs, 1+int64(r.Intn(int(n.Height))), 1+int64(r.Intn(int(n.Height))), 1+int64(r.Intn(int(n.Height))))
			}
			q.Height = hs[r.Intn(len(hs))]
			all := append(append(append(append([]chain.Key{}, a.e.w.Vals...), a.e.w.Servs...), a.e.w.Apps...), a.e.w.Accts...)
			addr := all[r.Intn(len(all))].Addr
			routes := append(append(chainx.AppRoutes(addr), chainx.NodeRoutes(addr)...), chainx.DispatchRoute(a.e.w.Apps[r.Intn(2)]))
			rt := routes[r.Intn(len(routes))]
			q.Path, q.Data = rt.Path, rt.Data
			code := queryRecover(n, q)
			a.emit(point, fmt.Sprintf("%s@%d", rt.Path, q.Height), code, before, "ante=- msg=-")
		case "simupgrade":
			// a FEATURE upgrade that re-schedules one named feature far into the future (= switches it off on a
			// node that believes it), "from" the gov/upgrade owner
			owner := a.e.w.Owner
			feats := []string{codec.TxCacheEnhancementKey, codec.TxCacheEnhancementKey, codec.TxCacheEnhancementKey, codec.VEDITKey, codec.RSCALKey, codec.ReplayBurnKey, codec.AppTransferKey, codec.RewardDelegatorsKey, codec.MaxRelayProtKey}
			f := feats[r.Intn(len(feats))]
			up := govTypes.Upgrade{Height: n.Height + 1, Version: "FEATURE", Features: []string{fmt.Sprintf("%s:%d", f, 1000000+r.Intn(10))}}
			desc := "feature:" + f
			if r.Chance(1, 3) {
				// a VERSION upgrade: moves codec.UpgradeHeight / OldUpgradeHeight (the codec switch) on a node that believes it
				up = govTypes.Upgrade{Height: n.Height + int64(1+r.Intn(50)), Version: fmt.Sprintf("0.%d.0", 13+r.Intn(5)), Features: []string{fmt.Sprintf("%s:%d", f, n.Height+int64(1+r.Intn(5)))}}
				desc = fmt.Sprintf("version:%s@%d", up.Version, up.Height)
			}
			var bz []byte
			if r.Bool() {
				bz = chain.SignTx(chainID, owner, chain.MsgUpgrade(owner.Addr, up), chain.DefaultFee, a.nextEnt(), "")
				desc += ":signed"
			} else {
				// anybody: signed with a stranger's key, then the owner's PUBLIC key put into the signature
				bz = withPubKey(chain.SignTx(chainID, a.e.w.Accts[0], chain.MsgUpgrade(owner.Addr, up), chain.DefaultFee, a.nextEnt(), ""), owner, n.Height)
				desc += ":junksig"
			}
			code, cs := simulate(n, bz)
			a.emit(point, desc, fmt.Sprintf("%d/%s", code, cs), before, "ante=- msg=-")
		case "simulate":
			var bz []byte
			desc, marks := "", "ante=- msg=-"
			var to sdk.Address
			fee0 := chainx.Balance(n, a.e.feeAddr)
			to0 := ""
			if r.Chance(1, 3) {
				from := a.e.w.Accts[r.Intn(4)]
				to = a.e.w.Accts[r.Intn(4)].Addr
				if to.Equals(from.Addr) {
					to = a.e.w.Apps[0].Addr
				}
				to0 = chainx.Balance(n, to)
				bz, desc = freshSend(from, to, int64(1+r.Intn(100000)), a.nextEnt()), "send-valid"
			} else if r.Chance(1, 2) {
				// transactions that are valid against the current state and write records kept in node-local caches
				ent := a.nextEnt()
				switch r.Intn(4) {
				case 0, 1:
					k := a.e.w.Apps[r.Intn(len(a.e.w.Apps))]
					amt := baseAppStake + int64(6+r.Intn(4))*1000000
					bz, desc = chain.SignTx(chainID, k, chain.MsgAppStake(k, amt, []string{chain.ChainHash}), chain.DefaultFee, ent, ""), fmt.Sprintf("appedit:%d", amt-baseAppStake)
				case 2:
					k := a.e.w.Accts[r.Intn(len(a.e.w.Accts))]
					bz, desc = chain.SignTx(chainID, k, chain.MsgAppStake(k, baseAppStake, []string{chain.ChainHash}), chain.DefaultFee, ent, ""), "appstake-new"
				default:
					ks := append(append([]chain.Key{}, a.e.w.Vals...), a.e.w.Servs...)
					k := ks[r.Intn(len(ks))]
					if r.Bool() {
						bz, desc = chain.SignTx(chainID, k, chain.MsgNodeStake(k, a.e.w.MinStake*5, []string{chain.ChainHash}, "https://n.example:443", k.Addr, nil), chain.DefaultFee, ent, ""), "nodeedit-bin"
					} else {
						bz, desc = chain.SignTx(chainID, k, chain.MsgNodeUnjail(k.Addr, k.Addr), chain.DefaultFee, ent, ""), "unjail"
					}
				}
			} else if r.Chance(1, 2) {
				// a claim: its handler needs ctx.PrevCtx (LoadLazyVersion on the context's multistore)
				nodes := append(append([]chain.Key{}, a.e.w.Vals...), a.e.w.Servs...)
				from := nodes[r.Intn(len(nodes))]
				sh := int64(1)
				if n.Height > 8 && r.Bool() {
					sh = 5
				}
				if n.App.LastBlockHeight()%4 == 1 {
					// the session that starts at the last committed height: the claim is refused ("session not over") but
					// its validation asks ctx.PrevCtx for the context's own height
					sh = n.App.LastBlockHeight()
				}
				bz = chain.SignTx(chainID, from, chainx.MsgClaim(from, a.e.w.Apps[r.Intn(2)], sh, int64(5+r.Intn(20)), byte(a.nextEnt())), chain.DefaultFee, a.nextEnt(), "")
				desc = fmt.Sprintf("claim@%d", sh)
			} else {
				d := a.e.wAct.GenTx(r)
				bz, desc = d.Bytes, d.Kind
			}
			code, cs := simulate(n, bz)
			if to != nil {
				marks = fmt.Sprintf("ante=%d msg=%d", b01(chainx.Balance(n, a.e.feeAddr) != fee0), b01(chainx.Balance(n, to) != to0))
			}
			a.emit(point, desc, fmt.Sprintf("%d/%s", code, cs), before, marks)
		}
	}
}

func queryRecover(n *chain.Node, q abci.RequestQuery) (code string) {
	defer func() {
		if e := recover(); e != nil {
			code = "panic"
		}
	}()
	res := n.App.Query(q)
	return fmt.Sprint(res.Code)
}

// genHistory draws the chain data of one history once (both twins execute the same bytes).
func genHistory(hseed uint64, blocks int) *chainx.History {
	w, o := chain.DefaultWorld(chainID, 3, 2, 2, 4)
	r := gen.New(hseed)
	t := o.GenesisTime
	h := &chainx.History{}
	for bi := 0; bi < blocks; bi++ {
		b, descs := w.GenBlock(r, t, int64(bi+1), 4)
		t = b.Time
		var ks, ds []string
		for _, d := range descs {
			ks = append(ks, d.Kind)
			ds = append(ds, d.Desc)
		}
		if bi+1 >= 3 && r.Chance(1, 3) { // a valid send delivered twice in one block: the second copy is refused (duplicate) while REDUP is active
			from, to := w.Accts[r.Intn(len(w.Accts))], w.Vals[r.Intn(len(w.Vals))]
			tx := chain.SignTx(chainID, from, chain.MsgSend(from.Addr, to.Addr, 1000), chain.DefaultFee, 650000000+int64(bi), "")
			b.Txs = append(b.Txs, tx, tx)
			ks = append(ks, "send-twice", "send-twice+dup")
			ds = append(ds, "send-twice", "send-twice-dup")
		}
		if bi+1 > 4 { // claims of nodes for the last finished session (block execution asks PrevCtx(session start))
			ns := append(append([]chain.Key{}, w.Vals...), w.Servs...)
			start := ((int64(bi+1)-1)/4)*4 + 1 - 4
			for _, nd := range ns {
				if start >= 1 && r.Chance(1, 4) {
					ap := w.Apps[r.Intn(len(w.Apps))]
					b.Txs = append(b.Txs, chain.SignTx(chainID, nd, chainx.MsgClaim(nd, ap, start, 5+int64(r.Intn(10)), byte(r.Intn(3))), chain.DefaultFee, 680000000+int64(bi)*10+int64(len(b.Txs)), ""))
					ks = append(ks, "claim")
					ds = append(ds, fmt.Sprintf("claim@%d", start))
				}
			}
		}
		if bi+1 >= 3 && r.Chance(1, 4) {
			// application transfer (MsgStake with zero value signed by the current owner) followed, in the same block,
			// by a fresh stake for the old key: the second outcome depends on the old record being gone
			old := w.Apps[r.Intn(len(w.Apps))]
			nk := chain.KeyN(6000 + uint64(bi))
			b.Txs = append(b.Txs, chain.SignTx(chainID, old, chain.MsgAppStake(nk, 0, nil), chain.DefaultFee, 660000000+int64(bi), ""),
				chain.SignTx(chainID, old, chain.MsgAppStake(old, baseAppStake, []string{chain.ChainHash}), chain.DefaultFee, 670000000+int64(bi), ""))
			ks = append(ks, "apptransfer", "apprestake")
			ds = append(ds, "apptransfer", "apprestake")
		}
		if bi+1 >= 3 && r.Chance(1, 2) { // application edit-stake around the current stake: its outcome depends on the stored record
			k := w.Apps[r.Intn(len(w.Apps))]
			amt := baseAppStake + int64(r.Intn(6))*1000000
			b.Txs = append(b.Txs, chain.SignTx(chainID, k, chain.MsgAppStake(k, amt, []string{chain.ChainHash}), chain.DefaultFee, 600000000+int64(bi), ""))
			ks = append(ks, "appedit")
			ds = append(ds, fmt.Sprintf("appedit %s %d", k.Addr, amt))
		}
		h.AddBlock(b, ks)
		h.SetDescs(ds)
	}
	return h
}

// twin runs one history as role A or B and prints its lines.
func twin(role, kind string, hseed uint64, histPath string) {
	h, err := chainx.LoadHistory(histPath)
	if err != nil {
		panic(err)
	}
	e := boot()
	n := e.run.N
	a := &actor{e: e, kind: kind, r: gen.New(hseed ^ 0x5bd1e995)}
	var kindsB, descs []string
	var feePre, toPre string
	var toAddr sdk.Address
	e.run.BeforeTx = func(i int) {
		toAddr = nil
		if i < len(descs) && strings.HasPrefix(descs[i], "send ") {
			var f, to string
			var amt int64
			if _, err := fmt.Sscanf(strings.Replace(descs[i], "->", " ", 1), "send %s %s %d", &f, &to, &amt); err == nil && f != to {
				ad, _ := sdk.AddressFromHex(to)
				toAddr = ad
				feePre, toPre = chainx.Balance(n, e.feeAddr), chainx.Balance(n, ad)
			}
		}
	}
	e.run.AfterTx = func(i int, d abci.ResponseDeliverTx) {
		if toAddr == nil || role != "A" {
			return
		}
		cs := d.Codespace
		if cs == "" {
			cs = "ok"
		}
		fmt.Printf("dtx %d %d %s => code=%d/%s ante=%d msg=%d\n", n.Height+1, i, kindsB[i], d.Code, cs,
			b01(chainx.Balance(n, e.feeAddr) != feePre), b01(chainx.Balance(n, toAddr) != toPre))
	}
	for bi := range h.Blocks {
		var b chain.Block
		b, kindsB = h.Block(bi)
		descs = h.Blocks[bi].Descs
		a.curTxs = b.Txs
		a.curSenders = nil
		for _, d := range descs {
			var f, to string
			var amt int64
			if _, err := fmt.Sscanf(strings.Replace(d, "->", " ", 1), "send %s %s %d", &f, &to, &amt); err == nil {
				if ad, e2 := sdk.AddressFromHex(f); e2 == nil {
					a.curSenders = append(a.curSenders, ad)
				}
				if ad, e2 := sdk.AddressFromHex(to); e2 == nil {
					a.curSenders = append(a.curSenders, ad)
				}
			}
		}
		var hook chainx.Hook
		if role == "B" {
			hook = a.act
		}
		res := e.run.RunBlock(b, hook)
		st := n.Dump(nil)
		fmt.Printf("blk %d => %x %s %s %s %s %s\n", res.Height, res.AppHash, chainx.Codes(res), chainx.ValUpdates(res), chainx.StateDigest(st), chainx.RawDigest(n), upgradeGlobals())
	}
	fmt.Printf("done %d\n", a.nActs)
}

func main() {
	seed := flag.Uint64("seed", 1, "")
	nh := flag.Int("n", 12, "number of histories")
	out := flag.String("out", "c11.trace", "")
	role := flag.String("role", "", "internal: probe | A | B")
	kind := flag.String("kind", "none", "internal")
	hseed := flag.Uint64("hseed", 0, "internal")
	blocks := flag.Int("blocks", 0, "internal / blocks per history (0 = 6..14)")
	only := flag.String("only", "", "restrict to one activity kind")
	histPath := flag.String("hist", "", "internal: history file")
	flag.Parse()
	switch *role {
	case "probe":
		probe()
		return
	case "A", "B":
		twin(*role, *kind, *hseed, *histPath)
		return
	}
	t := gen.NewTrace(*out)
	lines, err := chainx.Child(childEnv, "-role", "probe")
	if err != nil || len(lines) == 0 {
		fmt.Fprintln(os.Stderr, "probe failed:", err)
		os.Exit(3)
	}
	t.Line("mode", true, "%s", lines[len(lines)-1])
	type result struct {
		a, b   []string
		ea, eb error
	}
	results := make([]result, *nh)
	sem := make(chan struct{}, 8)
	var wg sync.WaitGroup
	pr := gen.New(*seed)
	type hcfg struct {
		kind   string
		hseed  uint64
		blocks int
	}
	cfgs := make([]hcfg, *nh)
	for i := range cfgs {
		k := kinds[i%len(kinds)]
		if *only != "" {
			k = *only
		}
		nb := *blocks
		if nb == 0 {
			nb = 6 + pr.Intn(9)
		}
		cfgs[i] = hcfg{k, *seed*1000003 + uint64(i)*7919 + 1, nb}
	}
	// chain data is generated once, sequentially (the codec is process-global), before any twin starts
	chain.ModernGlobals()
	for i, c := range cfgs {
		if err := genHistory(c.hseed, c.blocks).Save(fmt.Sprintf("%s.h%d.json", *out, i)); err != nil {
			panic(err)
		}
	}
	for i := range cfgs {
		wg.Add(1)
		go func(i int) {
			defer wg.Done()
			sem <- struct{}{}
			defer func() { <-sem }()
			c := cfgs[i]
			hp := fmt.Sprintf("%s.h%d.json", *out, i)
			defer os.Remove(hp)
			args := []string{"-hist", hp, "-kind", c.kind, "-hseed", fmt.Sprint(c.hseed)}
			a, e1 := chainx.Child(childEnv, append([]string{"-role", "A"}, args...)...)
			b, e2 := chainx.Child(childEnv, append([]string{"-role", "B"}, args...)...)
			results[i] = result{a, b, e1, e2}
		}(i)
	}
	wg.Wait()
	acts := 0
	for i, res := range results {
		c := cfgs[i]
		t.Line("hist", false, "hist %d %s %d %d", i, c.kind, c.hseed, c.blocks)
		if res.ea != nil {
			t.Line("crash", false, "crash %d A => %s", i, strings.ReplaceAll(res.ea.Error(), "\n", " | "))
			continue
		}
		if res.eb != nil {
			t.Line("crash", false, "crash %d B => %s", i, strings.ReplaceAll(res.eb.Error(), "\n", " | "))
			continue
		}
		for _, l := range res.a {
			if strings.HasPrefix(l, "blk ") || strings.HasPrefix(l, "dtx ") {
				t.Line("A/"+strings.Fields(l)[0], true, "A %s", l)
			}
		}
		for _, l := range res.b {
			f := strings.Fields(l)
			switch f[0] {
			case "blk":
				t.Line("B/blk", true, "B %s", l)
			case "act":
				acts++
				t.Line("B/act/"+f[1], true, "B %s", l)
			}
		}
		t.Line("end", false, "end %d", i)
	}
	t.Close(map[string]interface{}{"histories": *nh, "activities": acts})
}
