// c37chain: chain-level half of C37.  Sequences of signed MsgUpgrade transactions (new version,
// feature-only, duplicates, re-scheduling, malformed "k:v") go through the real DeliverTx of the
// real app on GoLevelDB databases in a scratch directory; then the node is restarted IN A FRESH
// PROCESS (this command re-executes itself with -role restart on the same directory, so the codec
// globals have their true process-start values) and the activation schedule the restarted process
// derives from state is compared with the one the running process had.
//
//	init <scenario> <h> => <GLOB> <STORED>
//	upg <scenario> <h> <owner|other> <msgHeight> <msgVersionHex> <msgFeaturesHex,…> => <code> <GLOB> <STORED>
//	blocks <scenario> <h> => <GLOB> <STORED>                        (empty blocks up to height h)
//	restart <scenario> <h> <probes: keyhex@height,…> => LIVE <GLOB> PRED=<bits> REST <GLOB> PRED=<bits> <STORED>
//
//	GLOB   = UH=<codec.UpgradeHeight> OUH=<codec.OldUpgradeHeight> FM=<keyhex:height,…>
//	STORED = SH=<Height> SV=<VersionHex> SO=<OldUpgradeHeight> SF=<featureHex,…>
//
// Scenarios: modern (default chain-lib schedule: stored upgrade height 2), fresh (a chain started the
// way a new network starts: stored upgrade {Height 0}, process-start globals, block heights below the
// built-in codec height 30024), fresh30k (the same chain taken past block 30024 with empty blocks
// before a feature-only upgrade: -deep only).
package main

import (
	"bufio"
	"flag"
	"fmt"
	"math"
	"os"
	"os/exec"
	"path/filepath"
	"sort"
	"strconv"
	"strings"
	"time"

	"github.com/pokt-network/pocket-core/codec"
	sdk "github.com/pokt-network/pocket-core/types"
	govTypes "github.com/pokt-network/pocket-core/x/gov/types"
	dbm "github.com/tendermint/tm-db"
	"verifharness/internal/bankdrv"
	"verifharness/internal/chain"
	"verifharness/internal/gen"
)

func hx(s string) string { return gen.Hex([]byte(s)) }

func hxList(xs []string) string {
	if len(xs) == 0 {
		return "-"
	}
	ps := make([]string, len(xs))
	for i, x := range xs {
		ps[i] = hx(x)
	}
	return strings.Join(ps, ",")
}

func globStr() string {
	ks := make([]string, 0, len(codec.UpgradeFeatureMap))
	for k := range codec.UpgradeFeatureMap {
		ks = append(ks, k)
	}
	sort.Strings(ks)
	ps := make([]string, len(ks))
	for i, k := range ks {
		ps[i] = fmt.Sprintf("%s:%d", hx(k), codec.UpgradeFeatureMap[k])
	}
	fm := strings.Join(ps, ",")
	if fm == "" {
		fm = "-"
	}
	return fmt.Sprintf("UH=%d OUH=%d FM=%s", codec.UpgradeHeight, codec.OldUpgradeHeight, fm)
}

func storedStr(n *chain.Node) string {
	u := n.App.VerifGovKeeper().GetUpgrade(n.Ctx())
	return fmt.Sprintf("SH=%d SV=%s SO=%d SF=%s", u.Height, hx(u.Version), u.OldUpgradeHeight, hxList(u.Features))
}

func world(scenario string) (*chain.World, chain.GenesisOpts) {
	w, o := chain.DefaultWorld("verif", 2, 1, 1, 2)
	if strings.HasPrefix(scenario, "fresh") {
		o.Features = map[string]int64{}
		// mainnet and testnet genesis files carry "upgrade": {"Height": "0", "Version": "0"}
		o.Mutate = func(g *chain.Genesis) { g.Gov.Params.Upgrade = govTypes.Upgrade{Height: 0, Version: "0"} }
	}
	return w, o
}

func openDBs(dir string) (dbm.DB, dbm.DB, dbm.DB) {
	mk := func(name string) dbm.DB {
		d, err := dbm.NewGoLevelDB(name, dir)
		if err != nil {
			panic(err)
		}
		return d
	}
	return mk("application"), mk("blockstore"), mk("txindexer")
}

// preds evaluates the activation predicates of this process on the probe list.
func preds(n *chain.Node, probes []string) string {
	cdc := n.App.VerifCodec()
	var sb strings.Builder
	for _, p := range probes {
		kv := strings.Split(p, "@")
		kb, _ := hexDecode(kv[0])
		h, _ := strconv.ParseInt(kv[1], 10, 64)
		if cdc.IsAfterNamedFeatureActivationHeight(h, string(kb)) {
			sb.WriteByte('1')
		} else {
			sb.WriteByte('0')
		}
	}
	if sb.Len() == 0 {
		return "-"
	}
	return sb.String()
}

func hexDecode(s string) ([]byte, error) {
	if s == "-" {
		return []byte{}, nil
	}
	out := make([]byte, len(s)/2)
	for i := 0; i < len(out); i++ {
		v, err := strconv.ParseUint(s[2*i:2*i+2], 16, 8)
		if err != nil {
			return nil, err
		}
		out[i] = byte(v)
	}
	return out, nil
}

func main() {
	seed := flag.Uint64("seed", 1, "")
	nn := flag.Int("n", 6, "number of scenarios (parent) ")
	out := flag.String("out", "c37chain.trace", "")
	role := flag.String("role", "parent", "parent|run|restart")
	scenario := flag.String("scenario", "modern", "")
	dir := flag.String("dir", "", "")
	deep := flag.Bool("deep", false, "include the 30024-block scenario")
	flag.Parse()
	switch *role {
	case "run":
		runChild(*scenario, *seed, *dir, *out)
	case "restart":
		restartChild(*scenario, *dir, *out)
	default:
		parent(*seed, *nn, *out, *deep)
	}
}

func parent(seed uint64, n int, out string, deep bool) {
	t := gen.NewTrace(out)
	base := filepath.Join(filepath.Dir(out), fmt.Sprintf("c37chain-scratch-%d", os.Getpid()))
	defer os.RemoveAll(base)
	self, _ := os.Executable()
	for i := 0; i < n; i++ {
		sc := "modern"
		if i%3 == 1 {
			sc = "fresh"
		}
		if deep && i == n-1 {
			sc = "fresh30k"
		}
		dir := filepath.Join(base, fmt.Sprintf("s%d", i))
		os.MkdirAll(dir, 0o755)
		fa, fb := filepath.Join(dir, "run.out"), filepath.Join(dir, "restart.out")
		s := strconv.FormatUint(seed*1000+uint64(i), 10)
		for _, args := range [][]string{
			{"-role", "run", "-scenario", sc, "-seed", s, "-dir", dir, "-out", fa},
			{"-role", "restart", "-scenario", sc, "-dir", dir, "-out", fb},
		} {
			c := exec.Command(self, args...)
			if b, err := c.CombinedOutput(); err != nil {
				tail := string(b)
				if len(tail) > 1500 {
					tail = tail[len(tail)-1500:]
				}
				fmt.Fprintf(os.Stderr, "child %v failed: %v\n%s\n", args, err, tail)
				os.Exit(3)
			}
		}
		var live, head string
		fh, _ := os.Open(fa)
		scn := bufio.NewScanner(fh)
		scn.Buffer(make([]byte, 1<<20), 1<<24)
		for scn.Scan() {
			l := scn.Text()
			if strings.HasPrefix(l, "LIVE ") {
				ps := strings.SplitN(l, " || ", 2)
				live, head = ps[0], ps[1]
				continue
			}
			kind := strings.SplitN(l, " ", 2)[0]
			t.Line(sc+"/"+kind, strings.Contains(l, "=> 0 "), "%s", l)
		}
		fh.Close()
		rb, _ := os.ReadFile(fb)
		rest := strings.TrimSpace(string(rb))
		t.Line(sc+"/restart", true, "%s => %s %s", head, live, rest)
		os.RemoveAll(dir)
	}
	t.Close(nil)
}

// runChild builds the chain, delivers the upgrade transactions and leaves the databases on disk.
func runChild(scenario string, seed uint64, dir, out string) {
	f, _ := os.Create(out)
	defer f.Close()
	r := gen.New(seed)
	w, o := world(scenario)
	if strings.HasPrefix(scenario, "fresh") {
		chain.ResetGlobals(map[string]int64{}, math.MaxInt64, 0) // what a process has at start-up
	} else {
		chain.ModernGlobals()
	}
	g := chain.BuildGenesis(o)
	db, bdb, idb := openDBs(dir)
	n := chain.NewNode(g, "verif", o.GenesisTime, db, bdb, idb, false)
	n.InitChain()
	s := bankdrv.NewStepper(n)
	s.TolerateIndexErr = true
	now := o.GenesisTime
	empty := func() {
		now = now.Add(time.Minute)
		s.Begin(chain.Block{Time: now, Proposer: w.Vals[0].Addr})
		s.End()
		s.Commit()
	}
	empty()
	empty()
	fmt.Fprintf(f, "init %s %d => %s %s\n", scenario, n.Height, globStr(), storedStr(n))
	if scenario == "fresh30k" {
		for n.Height < 30030 {
			empty()
		}
		fmt.Fprintf(f, "blocks %s %d => %s %s\n", scenario, n.Height, globStr(), storedStr(n))
	}
	keys := []string{codec.RSCALKey, codec.MaxRelayProtKey, "ZFEAT", "ZFEAT2", "Z", "ZF", codec.BlockSizeModifyKey}
	var scheduled []int64
	entropy := int64(1)
	nops := 3 + r.Intn(5)
	if scenario == "fresh" && r.Bool() {
		nops = 1 // restart right after the first (pre-codec) upgrade
	}
	verN := 0
	fixedCodec := int64(math.MaxInt64) // fresh chain: height from which the post-codec branch of HandleUpgrade applies
	for i := 0; i < nops; i++ {
		h := n.Height + 1
		signer, who := w.Owner, "owner"
		if r.Chance(1, 6) {
			signer, who = w.Accts[0], "other"
		}
		mkFeat := func() string {
			k := keys[r.Intn(len(keys))]
			ah := []int64{h + 1, h + 2, h + 5, h, 3, 1000000, 0}[r.Intn(7)]
			scheduled = append(scheduled, ah)
			switch r.Intn(14) {
			case 0:
				return k // no colon: SliceToMap panics
			case 1:
				return fmt.Sprintf("%s:%d:9", k, ah) // text after a second colon is ignored
			case 2:
				return k + ":" // empty height: 0
			case 3:
				return fmt.Sprintf("%s:+%d", k, ah)
			case 4:
				return k + ":x1"
			}
			return fmt.Sprintf("%s:%d", k, ah)
		}
		var feats []string
		for j := r.Intn(4); j > 0; j-- {
			feats = append(feats, mkFeat())
		}
		first := scenario == "fresh" && i == 0
		if first {
			// before the codec height the message is stored as sent: keep it well-formed (a stored feature
			// without ':' would make every later NewPocketCoreApp panic) and non-empty
			feats = []string{fmt.Sprintf("%s:%d", keys[r.Intn(len(keys))], h+int64(r.Intn(6)))}
			if r.Bool() {
				feats = append(feats, fmt.Sprintf("%s:%d", keys[r.Intn(len(keys))], h+int64(r.Intn(6))))
			}
		}
		if r.Chance(1, 5) && len(feats) > 0 {
			feats = append(feats, feats[0]) // exact duplicate
		}
		var u govTypes.Upgrade
		lateFirst := scenario == "fresh30k" && i == 0 // the situation of the suspected defect, undisturbed
		if lateFirst {
			signer, who = w.Owner, "owner"
			feats = []string{fmt.Sprintf("%s:%d", codec.RSCALKey, h+2), fmt.Sprintf("ZFEAT:%d", h)}
			scheduled = append(scheduled, h+2, h)
		}
		switch k := r.Intn(10); {
		case !lateFirst && (first || k < 2 || (scenario == "fresh" && n.Height < fixedCodec)): // new version (on a fresh chain the first upgrade fixes the codec-upgrade height)
			verN++
			u = govTypes.Upgrade{Height: h + int64(1+r.Intn(2)), Version: []string{"0.12.0", "0.11.3", "0.11.7", "0.12"}[(verN+r.Intn(2))%4], Features: feats} // never above the binary's 0.12.0: nodes would stop
		case k < 7 || lateFirst:
			u = govTypes.Upgrade{Height: 1, Version: "FEATURE", Features: feats}
		case k < 8:
			u = govTypes.Upgrade{Height: h + 3, Version: "FEATURE", Features: feats} // feature-only: height ignored
		case k < 9:
			u = govTypes.Upgrade{Height: 1, Version: "0.1.0", Features: feats} // feature-only by height 1
		default:
			u = govTypes.Upgrade{Height: 0, Version: "FEATURE", Features: feats} // ValidateBasic rejects
		}
		tx := chain.SignTx("verif", signer, chain.MsgUpgrade(signer.Addr, u), chain.DefaultFee, entropy, "")
		entropy++
		now = now.Add(time.Minute)
		s.Begin(chain.Block{Time: now, Proposer: w.Vals[0].Addr, Txs: [][]byte{tx}})
		res := s.Deliver()
		s.End()
		s.Commit()
		fmt.Fprintf(f, "upg %s %d %s %d %s %s => %d %s %s\n", scenario, h, who, u.Height, hx(u.Version), hxList(u.Features), res.Code, globStr(), storedStr(n))
		for j := r.Intn(3); j > 0; j-- {
			empty()
		}
		if first && res.Code == 0 {
			fixedCodec = u.Height
			for n.Height < u.Height+1 {
				empty()
			}
		}
	}
	// probes: every key of the alphabet and every named feature at heights around the scheduled ones
	hs := map[int64]bool{1: true, 2: true, n.Height: true, n.Height + 1: true, 1000000: true}
	for _, a := range scheduled {
		hs[a-1], hs[a], hs[a+1] = true, true, true
	}
	var hl []int64
	for h := range hs {
		if h >= 0 {
			hl = append(hl, h)
		}
	}
	sort.Slice(hl, func(i, j int) bool { return hl[i] < hl[j] })
	var probes []string
	for _, k := range append(append([]string{}, keys...), codec.NonCustodialUpdateKey, codec.RewardDelegatorsKey) {
		for _, h := range hl {
			probes = append(probes, fmt.Sprintf("%s@%d", hx(k), h))
		}
	}
	os.WriteFile(filepath.Join(dir, "probes.txt"), []byte(strings.Join(probes, ",")), 0o644)
	fmt.Fprintf(f, "LIVE %s PRED=%s || restart %s %d %s\n", globStr(), preds(n, probes), scenario, n.Height, strings.Join(probes, ","))
	db.Close()
	bdb.Close()
	idb.Close()
}

// restartChild is a node start on existing databases: nothing touches the codec globals before
// NewPocketCoreApp reads the stored upgrade parameter.
func restartChild(scenario string, dir, out string) {
	_, o := world(scenario)
	g := chain.BuildGenesis(o) // only to hand NewPocketCoreApp the same genesis document; InitChain is not run
	// BuildGenesis does not touch codec globals; make that an explicit check of the harness itself
	if codec.UpgradeHeight != math.MaxInt64 || codec.OldUpgradeHeight != 0 || len(codec.UpgradeFeatureMap) != 0 {
		fmt.Fprintln(os.Stderr, "harness error: codec globals touched before restart")
		os.Exit(4)
	}
	db, bdb, idb := openDBs(dir)
	n := chain.NewNode(g, "verif", o.GenesisTime, db, bdb, idb, false)
	pb, _ := os.ReadFile(filepath.Join(dir, "probes.txt"))
	var probes []string
	if len(pb) > 0 {
		probes = strings.Split(string(pb), ",")
	}
	os.WriteFile(out, []byte(fmt.Sprintf("REST %s PRED=%s %s H=%d\n", globStr(), preds(n, probes), storedStr(n), n.Height)), 0o644)
	db.Close()
	bdb.Close()
	idb.Close()
	_ = sdk.ZeroInt
}
