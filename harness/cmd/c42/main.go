// c42: drives the real types.TransactionIndexer (AddBatch / Index / Get / Search) on tm-db MemDB or
// GoLevelDB with generated block results and queries; the trace is consumed by lean/Driver/C42.lean.
package main

import (
	"context"
	"encoding/hex"
	"flag"
	"fmt"
	"math"
	"os"
	"strings"

	"github.com/jordanorelli/lexnum"
	sdk "github.com/pokt-network/pocket-core/types"
	abci "github.com/tendermint/tendermint/abci/types"
	"github.com/tendermint/tendermint/libs/pubsub/query"
	"github.com/tendermint/tendermint/state/txindex"
	tmtypes "github.com/tendermint/tendermint/types"
	dbm "github.com/tendermint/tm-db"
	"verifharness/internal/gen"
)

type txrec struct {
	h         int64
	i         uint32
	tx        []byte
	signer    []byte // nil = absent
	recipient []byte
	codespace string
	code      uint32
}

func (t txrec) result() *tmtypes.TxResult {
	return &tmtypes.TxResult{Height: t.h, Index: t.i, Tx: tmtypes.Tx(t.tx),
		Result: abci.ResponseDeliverTx{Code: t.code, Codespace: t.codespace, Signer: t.signer, Recipient: t.recipient}}
}

func (t txrec) hash() []byte { return tmtypes.Tx(t.tx).Hash() }

func word(s string) string {
	if s == "" {
		return "-"
	}
	return s
}

func (t txrec) render() string {
	return fmt.Sprintf("%d:%d:%s:%s:%s:%s:%d", t.h, t.i, gen.Hex(t.hash()), gen.Hex(t.signer), gen.Hex(t.recipient), word(t.codespace), t.code)
}

func renderRes(rs []*tmtypes.TxResult) string {
	if len(rs) == 0 {
		return "-"
	}
	parts := make([]string, len(rs))
	for k, r := range rs {
		if r == nil {
			parts[k] = "nil"
		} else {
			parts[k] = fmt.Sprintf("%d:%d:%s", r.Height, r.Index, gen.Hex(r.Tx.Hash()))
		}
	}
	return strings.Join(parts, ",")
}

type env struct {
	db   dbm.DB
	ix   *sdk.TransactionIndexer
	dir  string
	used map[string]bool // (h,i) pairs used
	all  []txrec
}

var levelSeq int

func newEnv(backend string) *env {
	e := &env{used: map[string]bool{}}
	if backend == "level" {
		levelSeq++
		d, err := os.MkdirTemp(".", "c42-leveldb-")
		if err != nil {
			panic(err)
		}
		e.dir = d
		db, err := dbm.NewGoLevelDB(fmt.Sprintf("ix%d", levelSeq), d)
		if err != nil {
			panic(err)
		}
		e.db = db
	} else {
		e.db = dbm.NewMemDB()
	}
	e.ix = sdk.NewTransactionIndexer(e.db)
	return e
}

func (e *env) close() {
	e.db.Close()
	if e.dir != "" {
		os.RemoveAll(e.dir)
	}
}

// search runs the real Search through a parsed tendermint query, as rpc/core.TxSearch does.
func (e *env) search(q string, sort string, skip, size int) string {
	return try(func() string {
		qq, err := query.New(q)
		if err != nil {
			return "badquery"
		}
		qq.AddPage(size, skip, sort)
		rs, total, err := e.ix.Search(context.Background(), qq)
		if err != nil {
			return "err"
		}
		return fmt.Sprintf("ok %d %s", total, renderRes(rs))
	})
}

func try(f func() string) (s string) {
	defer func() {
		if r := recover(); r != nil {
			s = "PANIC"
		}
	}()
	return f()
}

// probeMode finds out which way PrefixIterator maps the sort argument in the tree under test.
func probeMode() string {
	e := newEnv("mem")
	defer e.close()
	addr := []byte{0xaa, 0xbb}
	for h := int64(1); h <= 3; h++ {
		t := txrec{h: h, i: 0, tx: []byte{byte(h), 7}, signer: addr}
		if err := e.ix.Index(t.result()); err != nil {
			return "neither"
		}
	}
	hs := func(sort string) string {
		qq := query.MustParse("tx.signer='aabb'")
		qq.AddPage(10, 0, sort)
		rs, _, err := e.ix.Search(context.Background(), qq)
		if err != nil {
			return "err"
		}
		s := ""
		for _, r := range rs {
			if r == nil {
				s += "n"
			} else {
				s += fmt.Sprint(r.Height)
			}
		}
		return s
	}
	a, d := hs("asc"), hs("desc")
	switch {
	case a == "321" && d == "123":
		return "asis"
	case a == "123" && d == "321":
		return "fixed"
	}
	return "neither"
}

var heightPool = []int64{0, 1, 2, 3, 9, 10, 11, 99, 100, 101, 999, 1000, 54321, 99999, 100000, 1 << 31, 9999999999, 10000000000,
	999999999999999999, 1000000000000000000, math.MaxInt64 - 1}

func main() {
	seed := flag.Uint64("seed", 1, "")
	n := flag.Int("n", 3000, "")
	out := flag.String("out", "c42.trace", "")
	backend := flag.String("db", "mem", "mem|level")
	flag.Parse()
	r := gen.New(*seed)
	t := gen.NewTrace(*out)
	t.Line("mode", false, "mode %s => ok", probeMode())

	// ELEN tie: the encoder the indexer uses, on boundary numbers.
	enc := lexnum.NewEncoder('=', '-')
	for k := 0; k < 60; k++ {
		var v int64
		switch r.Intn(4) {
		case 0:
			v = heightPool[r.Intn(len(heightPool))]
		case 1:
			p := int64(1)
			for j := r.Intn(19); j > 0; j-- {
				p *= 10
			}
			v = p - int64(r.Intn(2))
		case 2:
			v = int64(r.U64() >> uint(1+r.Intn(62)))
		default:
			v = int64(r.Intn(1200))
		}
		t.Line("enc", v > 9, "enc %d => %s", v, gen.Hex([]byte(enc.EncodeInt(int(v)))))
	}
	t.Line("enc", true, "enc %d => %s", int64(math.MaxInt64), gen.Hex([]byte(enc.EncodeInt(math.MaxInt64))))

	for t.Lines < *n {
		session(r, t, *backend, *n)
	}
	t.Close(map[string]interface{}{"backend": *backend})
}

func session(r *gen.R, t *gen.Trace, backend string, n int) {
	e := newEnv(backend)
	defer e.close()
	t.Line("reset", false, "reset => ok")
	// population: addresses that are hex-prefixes of each other, a 20-byte pair differing in the last
	// byte, an empty (non-nil) address
	base := r.Bytes(20)
	base2 := append([]byte(nil), base...)
	base2[19] ^= 1
	addrs := [][]byte{{0xab}, {0xab, 0xcd}, {0xab, 0xcd, 0x01}, {0xab, 0xce}, base, base2, {0x00}, {0xff, 0xff}}
	if r.Chance(1, 4) {
		addrs = append(addrs, []byte{})
	}
	na := 2 + r.Intn(len(addrs)-1)
	addrs = addrs[:na]
	// heights of this session: a few consecutive ones around a boundary plus pool values
	var heights []int64
	start := heightPool[r.Intn(len(heightPool)-1)]
	for k := int64(0); k < int64(2+r.Intn(4)); k++ {
		heights = append(heights, start+k)
	}
	for k := r.Intn(3); k > 0; k-- {
		heights = append(heights, heightPool[r.Intn(len(heightPool))])
	}
	pickAddr := func(allowNil bool) []byte {
		if allowNil && r.Chance(1, 4) {
			return nil
		}
		return addrs[r.Intn(len(addrs))]
	}
	mkTx := func(h int64, i uint32) txrec {
		x := txrec{h: h, i: i, tx: r.Bytes(4 + r.Intn(12)), signer: pickAddr(true), recipient: pickAddr(true)}
		// result codes: ~45% plain success; otherwise any codespace x any code around the ante boundary.
		// Only codespace "auth" with code < AnteHandlerMaxError is an ante-handler rejection (not indexed);
		// the same low codes in the root codespace "sdk" or in a module codespace come from message handlers
		// AFTER the ante handler passed (fee paid) and must be indexed.
		if !r.Chance(9, 20) {
			spaces := []string{"", "auth", "auth", "sdk", "sdk", "pos", "application", "pocketcore", "gov", "AUTH", "authx", "sd"}
			if r.Chance(1, 10) {
				spaces = []string{fmt.Sprintf("m%x", r.Intn(4096))}
			}
			codes := []uint32{0, 1, 2, 3, 4, 5, 6, 7, 8, 9, 10, 11, 12, 13, 100, 105, 4294967295}
			x.codespace, x.code = spaces[r.Intn(len(spaces))], codes[r.Intn(len(codes))]
		}
		// rare: the same tx bytes again (duplicate hash) — compared with the model only
		if len(e.all) > 0 && r.Chance(1, 40) {
			x.tx = e.all[r.Intn(len(e.all))].tx
		}
		return x
	}
	ops := 25 + r.Intn(40)
	for k := 0; k < ops && t.Lines < n+50; k++ {
		switch c := r.Intn(20); {
		case c < 4 || len(e.all) == 0: // a block: AddBatch of 1..14 results at one height
			h := heights[r.Intn(len(heights))]
			cnt := 1 + r.Intn(14)
			if r.Chance(1, 5) {
				cnt = 1 + r.Intn(3)
			}
			var recs []txrec
			b := txindex.NewBatch(int64(cnt))
			for i := 0; i < cnt; i++ {
				x := mkTx(h, uint32(i))
				recs = append(recs, x)
				_ = b.Add(x.result())
			}
			res := try(func() string {
				if err := e.ix.AddBatch(b); err != nil {
					return "err"
				}
				return "ok"
			})
			parts := make([]string, len(recs))
			for i, x := range recs {
				parts[i] = x.render()
			}
			e.all = append(e.all, recs...)
			t.Line("batch", true, "batch %s => %s", strings.Join(parts, ";"), res)
		case c < 5: // single Index, sometimes at a huge position
			h := heights[r.Intn(len(heights))]
			i := uint32(20 + r.Intn(100))
			if r.Chance(1, 4) {
				i = math.MaxUint32 - uint32(r.Intn(2))
			}
			x := mkTx(h, i)
			res := try(func() string {
				if err := e.ix.Index(x.result()); err != nil {
					return "err"
				}
				return "ok"
			})
			e.all = append(e.all, x)
			t.Line("idx", true, "idx %s => %s", x.render(), res)
		case c < 7: // Get by hash (known, unknown, empty)
			var h []byte
			switch r.Intn(6) {
			case 0:
				h = r.Bytes(32)
			case 1:
				h = []byte{}
			default:
				h = e.all[r.Intn(len(e.all))].hash()
			}
			res := try(func() string {
				x, err := e.ix.Get(h)
				if err != nil {
					return "err"
				}
				return "ok " + renderRes([]*tmtypes.TxResult{x})
			})
			t.Line("get", len(h) > 0, "get %s => %s", gen.Hex(h), res)
		case c < 8: // Search tx.hash='…'
			var h []byte
			if r.Chance(1, 5) {
				h = r.Bytes(32)
			} else {
				h = e.all[r.Intn(len(e.all))].hash()
			}
			t.Line("qhash", true, "qhash %s => %s", gen.Hex(h), e.search(fmt.Sprintf("tx.hash='%s'", hex.EncodeToString(h)), "desc", 0, 10))
		case c < 9: // database dump: keys in iteration order with index values
			t.Line("dump", true, "dump => %s", dump(e))
		default:
			e.queries(r, t, addrs, heights)
		}
	}
}

func dump(e *env) string {
	it, err := e.db.Iterator(nil, nil)
	if err != nil {
		return "err"
	}
	defer it.Close()
	var parts []string
	for ; it.Valid(); it.Next() {
		k, v := it.Key(), it.Value()
		if strings.HasPrefix(string(k), "tx.") {
			parts = append(parts, gen.Hex(k)+">"+gen.Hex(v))
		} else {
			parts = append(parts, gen.Hex(k)+">*")
		}
	}
	if len(parts) == 0 {
		return "-"
	}
	return strings.Join(parts, ",")
}

// queries emits one query, or a full page walk (pages of one size covering the whole result).
func (e *env) queries(r *gen.R, t *gen.Trace, addrs [][]byte, heights []int64) {
	sort := "asc"
	if r.Bool() {
		sort = "desc"
	}
	if r.Chance(1, 15) {
		sort = r.Pick([]string{"", "ASC", "x"})
	}
	var kind, q, args string
	h := heights[r.Intn(len(heights))]
	if r.Chance(1, 6) {
		h += int64(r.Intn(3)) - 1
		if h < 0 {
			h = 0
		}
	}
	a := addrs[r.Intn(len(addrs))]
	if r.Chance(1, 10) {
		a = r.Bytes(1 + r.Intn(3))
	}
	if len(a) == 0 {
		a = addrs[0]
	}
	switch c := r.Intn(10); {
	case c < 3:
		kind, q, args = "qh", fmt.Sprintf("tx.height=%d", h), fmt.Sprint(h)
	case c < 6:
		kind, q, args = "qs", fmt.Sprintf("tx.signer='%x'", a), gen.Hex(a)
	case c < 8:
		kind, q, args = "qr", fmt.Sprintf("tx.recipient='%x'", a), gen.Hex(a)
	case c < 9:
		kind, q, args = "qsh", fmt.Sprintf("tx.signer='%x' AND tx.height=%d", a, h), fmt.Sprintf("%s %d", gen.Hex(a), h)
	default:
		kind, q, args = "qrh", fmt.Sprintf("tx.recipient='%x' AND tx.height=%d", a, h), fmt.Sprintf("%s %d", gen.Hex(a), h)
	}
	emit := func(skip, size int) (string, int) {
		res := e.search(q, sort, skip, size)
		total := -1
		fmt.Sscanf(res, "ok %d", &total)
		t.Line(kind, total > 1, "%s %s %s %d %d => %s", kind, args, word(sort), skip, size, res)
		return res, total
	}
	if r.Chance(1, 3) {
		// page walk
		size := 1 + r.Intn(6)
		_, total := emit(0, size)
		for skip := size; skip < total+size && skip < 80; skip += size {
			emit(skip, size)
		}
		return
	}
	skip, size := r.Intn(8), r.Intn(12)
	switch r.Intn(12) {
	case 0:
		skip = -1 - r.Intn(3)
	case 1:
		size = -1 - r.Intn(3)
	case 2:
		size = 10000 + r.Intn(3)
	case 3, 4, 5:
		skip, size = 0, 100
	}
	emit(skip, size)
}
